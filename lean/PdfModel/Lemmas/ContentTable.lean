import PdfModel.Lemmas.ContentKw
import PdfModel.Lemmas.ContentSim
import PdfModel.Spec.OperatorTable

/-! Inversion of the spec-side operand decoding (`ContentSpec.decode`), used by the table clause of C08. -/

namespace ContentSpec
open Content
section
variable {R : Type} (ro : RealOps R)

theorem numOf_eq (p : Prim R) : numOf ro p = asNumber ro p := by cases p <;> rfl

theorem decode_cons_inv {k : Kind} {ks : List Kind} {args : List (Prim R)} {vals : List (Val R)}
    (hk : k ≠ .colour ∧ k ≠ .colourN) (h : decode ro (k :: ks) args = some vals) :
    ∃ p ps v vs, args = p :: ps ∧ decode1 ro k p = some v ∧ decode ro ks ps = some vs ∧ vals = v :: vs := by
  cases args with
  | nil => cases k <;> cases ks <;> simp_all [decode]
  | cons p ps =>
    have : decode ro (k :: ks) (p :: ps) = (match decode1 ro k p, decode ro ks ps with
      | some v, some vs => some (v :: vs)
      | _, _ => none) := by
      cases k <;> first | rfl | (cases ks <;> simp_all [decode])
    rw [this] at h
    cases h1 : decode1 ro k p with
    | none => simp [h1] at h
    | some v =>
      cases h2 : decode ro ks ps with
      | none => simp [h1, h2] at h
      | some vs =>
        simp [h1, h2] at h
        exact ⟨p, ps, v, vs, rfl, h1, h2, h.symm⟩

theorem decode_nil_inv {args : List (Prim R)} {vals : List (Val R)} (h : decode ro [] args = some vals) :
    args = [] ∧ vals = [] := by
  cases args <;> simp_all [decode]

theorem decode1_num_inv {p : Prim R} {v : Val R} (h : decode1 ro .num p = some v) :
    ∃ r, asNumber ro p = some r ∧ v = .num r := by
  simp only [decode1, numOf_eq] at h
  cases hn : asNumber ro p with
  | none => simp [hn] at h
  | some r => simp [hn] at h; exact ⟨r, rfl, h.symm⟩

theorem decode1_int_inv {p : Prim R} {v : Val R} (h : decode1 ro .int p = some v) :
    ∃ i, p = .int i ∧ v = .int i := by
  cases p <;> simp [decode1] at h
  exact ⟨_, rfl, h.symm⟩

theorem decode1_name_inv {p : Prim R} {v : Val R} (h : decode1 ro .name p = some v) :
    ∃ s, p = .name s ∧ v = .name s := by
  cases p <;> simp [decode1] at h
  exact ⟨_, rfl, h.symm⟩

theorem decode1_str_inv {p : Prim R} {v : Val R} (h : decode1 ro .str p = some v) :
    ∃ s, p = .str s ∧ v = .str s := by
  cases p <;> simp [decode1] at h
  exact ⟨_, rfl, h.symm⟩

theorem decode1_any_inv {p : Prim R} {v : Val R} (h : decode1 ro .any p = some v) : v = .any p := by
  simp [decode1] at h; exact h.symm

theorem standardIntent_eq (s : String) : standardIntent s = intentOfName s := by
  unfold standardIntent intentOfName
  by_cases h1 : s = "AbsoluteColorimetric"
  · simp [h1]
  · by_cases h2 : s = "RelativeColorimetric"
    · simp [h2]
    · by_cases h3 : s = "Saturation"
      · simp [h3]
      · by_cases h4 : s = "Perceptual"
        · simp [h4]
        · simp [h1, h2, h3, h4]

theorem decode1_intent_inv {p : Prim R} {v : Val R} (h : decode1 ro .intent p = some v) :
    ∃ s i, p = .name s ∧ intentOfName s = some i ∧ v = .intent i := by
  cases p <;> simp [decode1] at h
  rename_i s
  rw [standardIntent_eq] at h
  cases hi : intentOfName s with
  | none => simp [hi] at h
  | some i => simp [hi] at h; exact ⟨s, i, rfl, hi, h.symm⟩

theorem mapAll_eq_allSome {α β : Type} (f : α → Option β) (xs : List α) : mapAll f xs = allSome (xs.map f) := by
  induction xs with
  | nil => rfl
  | cons x xs ih =>
    simp only [mapAll, List.map_cons, ih]
    cases f x <;> simp [allSome]
    cases allSome (xs.map f) <;> simp

theorem decode1_nums_inv {p : Prim R} {v : Val R} (h : decode1 ro .nums p = some v) :
    ∃ xs rs, p = .arr xs ∧ allSome (xs.map (asNumber ro)) = some rs ∧ v = .nums rs := by
  cases p <;> simp [decode1] at h
  rename_i xs
  have : numOf ro = asNumber ro := funext (numOf_eq ro)
  rw [mapAll_eq_allSome, this] at h
  cases ha : allSome (xs.map (asNumber ro)) with
  | none => simp [ha] at h
  | some rs => simp [ha] at h; exact ⟨xs, rs, rfl, ha, h.symm⟩

theorem textElem_eq (p : Prim R) : textElem ro p = tdaOfPrim ro p := by
  cases p <;> rfl

theorem decode1_text_inv {p : Prim R} {v : Val R} (h : decode1 ro .text p = some v) :
    ∃ xs ts, p = .arr xs ∧ allSome (xs.map (tdaOfPrim ro)) = some ts ∧ v = .text ts := by
  cases p <;> simp [decode1] at h
  rename_i xs
  have : textElem ro = tdaOfPrim ro := funext (textElem_eq ro)
  rw [mapAll_eq_allSome, this] at h
  cases ha : allSome (xs.map (tdaOfPrim ro)) with
  | none => simp [ha] at h
  | some ts => simp [ha] at h; exact ⟨xs, ts, rfl, ha, h.symm⟩

theorem decode_colour_inv {args : List (Prim R)} {vals : List (Val R)} (h : decode ro [.colour] args = some vals) :
    vals = [.colour args] := by
  simp only [decode] at h
  split at h <;> simp at h
  exact h.symm

theorem decode_colourN_inv {args : List (Prim R)} {vals : List (Val R)} (h : decode ro [.colourN] args = some vals) :
    vals = [.colour args] := by
  simp only [decode] at h
  split at h <;> simp at h
  exact h.symm

theorem finOf_eq (k : Nat) (n : Int) : finOf k n = finOfInt k n := rfl


/-- the reader's `last` / `subpath_start` are the current point / start of the subpath of the specification,
    as far as the specification defines them -/
def Tracks (path : Path R) (st : PState R) : Prop :=
  (∀ p, path.cur = some p → st.last = p) ∧ (∀ p, path.start = some p → st.start = p)

/-- `add` succeeds, pushes exactly `ops`, keeps the compatibility flag, and keeps tracking the path -/
def StepOk (path : Path R) (st : PState R) (kw : String) (args : List (Prim R)) (ops : List (Op R)) : Prop :=
  (add ro st kw args).ok = true ∧ (add ro st kw args).st.ops = st.ops ++ ops ∧
    (add ro st kw args).st.compat = st.compat ∧ Tracks (ops.foldl pathAfter path) (add ro st kw args).st

local macro "table_finish" ht:ident : tactic => `(tactic|
  (unfold StepOk
   simp [*, addBDC, addC, addCm, addD, addDP, addJLower, addJUpper, addKUpper, addKLower, addL, addM, addRe, addRGUpper,
     addRgLower, addRi, addTdLower, addTDUpper, addTf, addTjLower, addTJUpper, addTm, addTr, addV, addY, addQuote,
     addDQuote, popNums, popNum, popName, popStr, popInt, one1, name1, okPush, PState.push, Tracks, pathAfter]
   try (first | exact $ht | exact ($ht).2 | exact ⟨fun p hp => ($ht).2 p hp, ($ht).2⟩)))

theorem table_step (e : Entry R) (he : e ∈ table ro) (hs : e.support = .full) (args : List (Prim R))
    (vals : List (Val R)) (ops : List (Op R)) (path : Path R) (st : PState R) (ht : Tracks path st)
    (hd : decode ro e.sig args = some vals) (hden : e.den path.cur vals = some ops) :
    StepOk ro path st e.kw args ops := by
  simp only [table, List.mem_cons, List.mem_nil_iff, or_false] at he
  rcases he with rfl | rfl | rfl | rfl | rfl | rfl | rfl | rfl | rfl | rfl | rfl | rfl | rfl | rfl | rfl | rfl | rfl | rfl | rfl | rfl | rfl | rfl | rfl | rfl | rfl | rfl | rfl | rfl | rfl | rfl | rfl | rfl | rfl | rfl | rfl | rfl | rfl | rfl | rfl | rfl | rfl | rfl | rfl | rfl | rfl | rfl | rfl | rfl | rfl | rfl | rfl | rfl | rfl | rfl | rfl | rfl | rfl | rfl | rfl | rfl | rfl | rfl | rfl | rfl | rfl | rfl | rfl | rfl | rfl | rfl | rfl | rfl | rfl
  · -- b
    obtain ⟨rfl, rfl⟩ := decode_nil_inv ro hd
    simp at hden; subst hden
    table_finish ht
  · -- B
    obtain ⟨rfl, rfl⟩ := decode_nil_inv ro hd
    simp at hden; subst hden
    table_finish ht
  · -- b*
    obtain ⟨rfl, rfl⟩ := decode_nil_inv ro hd
    simp at hden; subst hden
    table_finish ht
  · -- B*
    obtain ⟨rfl, rfl⟩ := decode_nil_inv ro hd
    simp at hden; subst hden
    table_finish ht
  · -- BDC
    obtain ⟨p1, ps1, v1, vs1, rfl, h1, hd1, rfl⟩ := decode_cons_inv ro (by decide) hd
    obtain ⟨s1, rfl, rfl⟩ := decode1_name_inv ro h1
    obtain ⟨p2, ps2, v2, vs2, rfl, h2, hd2, rfl⟩ := decode_cons_inv ro (by decide) hd1
    have hv2 := decode1_any_inv ro h2; subst hv2
    obtain ⟨rfl, rfl⟩ := decode_nil_inv ro hd2
    simp at hden; subst hden
    table_finish ht
  · -- BI
    simp at hs
  · -- BMC
    obtain ⟨p1, ps1, v1, vs1, rfl, h1, hd1, rfl⟩ := decode_cons_inv ro (by decide) hd
    obtain ⟨s1, rfl, rfl⟩ := decode1_name_inv ro h1
    obtain ⟨rfl, rfl⟩ := decode_nil_inv ro hd1
    simp at hden; subst hden
    table_finish ht
  · -- BT
    obtain ⟨rfl, rfl⟩ := decode_nil_inv ro hd
    simp at hden; subst hden
    table_finish ht
  · -- BX
    simp at hs
  · -- c
    obtain ⟨p1, ps1, v1, vs1, rfl, h1, hd1, rfl⟩ := decode_cons_inv ro (by decide) hd
    obtain ⟨r1, hr1, rfl⟩ := decode1_num_inv ro h1
    obtain ⟨p2, ps2, v2, vs2, rfl, h2, hd2, rfl⟩ := decode_cons_inv ro (by decide) hd1
    obtain ⟨r2, hr2, rfl⟩ := decode1_num_inv ro h2
    obtain ⟨p3, ps3, v3, vs3, rfl, h3, hd3, rfl⟩ := decode_cons_inv ro (by decide) hd2
    obtain ⟨r3, hr3, rfl⟩ := decode1_num_inv ro h3
    obtain ⟨p4, ps4, v4, vs4, rfl, h4, hd4, rfl⟩ := decode_cons_inv ro (by decide) hd3
    obtain ⟨r4, hr4, rfl⟩ := decode1_num_inv ro h4
    obtain ⟨p5, ps5, v5, vs5, rfl, h5, hd5, rfl⟩ := decode_cons_inv ro (by decide) hd4
    obtain ⟨r5, hr5, rfl⟩ := decode1_num_inv ro h5
    obtain ⟨p6, ps6, v6, vs6, rfl, h6, hd6, rfl⟩ := decode_cons_inv ro (by decide) hd5
    obtain ⟨r6, hr6, rfl⟩ := decode1_num_inv ro h6
    obtain ⟨rfl, rfl⟩ := decode_nil_inv ro hd6
    simp at hden; subst hden
    table_finish ht
  · -- cm
    obtain ⟨p1, ps1, v1, vs1, rfl, h1, hd1, rfl⟩ := decode_cons_inv ro (by decide) hd
    obtain ⟨r1, hr1, rfl⟩ := decode1_num_inv ro h1
    obtain ⟨p2, ps2, v2, vs2, rfl, h2, hd2, rfl⟩ := decode_cons_inv ro (by decide) hd1
    obtain ⟨r2, hr2, rfl⟩ := decode1_num_inv ro h2
    obtain ⟨p3, ps3, v3, vs3, rfl, h3, hd3, rfl⟩ := decode_cons_inv ro (by decide) hd2
    obtain ⟨r3, hr3, rfl⟩ := decode1_num_inv ro h3
    obtain ⟨p4, ps4, v4, vs4, rfl, h4, hd4, rfl⟩ := decode_cons_inv ro (by decide) hd3
    obtain ⟨r4, hr4, rfl⟩ := decode1_num_inv ro h4
    obtain ⟨p5, ps5, v5, vs5, rfl, h5, hd5, rfl⟩ := decode_cons_inv ro (by decide) hd4
    obtain ⟨r5, hr5, rfl⟩ := decode1_num_inv ro h5
    obtain ⟨p6, ps6, v6, vs6, rfl, h6, hd6, rfl⟩ := decode_cons_inv ro (by decide) hd5
    obtain ⟨r6, hr6, rfl⟩ := decode1_num_inv ro h6
    obtain ⟨rfl, rfl⟩ := decode_nil_inv ro hd6
    simp at hden; subst hden
    table_finish ht
  · -- CS
    obtain ⟨p1, ps1, v1, vs1, rfl, h1, hd1, rfl⟩ := decode_cons_inv ro (by decide) hd
    obtain ⟨s1, rfl, rfl⟩ := decode1_name_inv ro h1
    obtain ⟨rfl, rfl⟩ := decode_nil_inv ro hd1
    simp at hden; subst hden
    table_finish ht
  · -- cs
    obtain ⟨p1, ps1, v1, vs1, rfl, h1, hd1, rfl⟩ := decode_cons_inv ro (by decide) hd
    obtain ⟨s1, rfl, rfl⟩ := decode1_name_inv ro h1
    obtain ⟨rfl, rfl⟩ := decode_nil_inv ro hd1
    simp at hden; subst hden
    table_finish ht
  · -- d
    obtain ⟨p1, ps1, v1, vs1, rfl, h1, hd1, rfl⟩ := decode_cons_inv ro (by decide) hd
    obtain ⟨xs1, rs1, rfl, ha1, rfl⟩ := decode1_nums_inv ro h1
    obtain ⟨p2, ps2, v2, vs2, rfl, h2, hd2, rfl⟩ := decode_cons_inv ro (by decide) hd1
    obtain ⟨r2, hr2, rfl⟩ := decode1_num_inv ro h2
    obtain ⟨rfl, rfl⟩ := decode_nil_inv ro hd2
    simp at hden; subst hden
    table_finish ht
  · -- d0
    simp at hs
  · -- d1
    simp at hs
  · -- Do
    obtain ⟨p1, ps1, v1, vs1, rfl, h1, hd1, rfl⟩ := decode_cons_inv ro (by decide) hd
    obtain ⟨s1, rfl, rfl⟩ := decode1_name_inv ro h1
    obtain ⟨rfl, rfl⟩ := decode_nil_inv ro hd1
    simp at hden; subst hden
    table_finish ht
  · -- DP
    obtain ⟨p1, ps1, v1, vs1, rfl, h1, hd1, rfl⟩ := decode_cons_inv ro (by decide) hd
    obtain ⟨s1, rfl, rfl⟩ := decode1_name_inv ro h1
    obtain ⟨p2, ps2, v2, vs2, rfl, h2, hd2, rfl⟩ := decode_cons_inv ro (by decide) hd1
    have hv2 := decode1_any_inv ro h2; subst hv2
    obtain ⟨rfl, rfl⟩ := decode_nil_inv ro hd2
    simp at hden; subst hden
    table_finish ht
  · -- EI
    simp at hs
  · -- EMC
    obtain ⟨rfl, rfl⟩ := decode_nil_inv ro hd
    simp at hden; subst hden
    table_finish ht
  · -- ET
    obtain ⟨rfl, rfl⟩ := decode_nil_inv ro hd
    simp at hden; subst hden
    table_finish ht
  · -- EX
    simp at hs
  · -- f
    obtain ⟨rfl, rfl⟩ := decode_nil_inv ro hd
    simp at hden; subst hden
    table_finish ht
  · -- F
    obtain ⟨rfl, rfl⟩ := decode_nil_inv ro hd
    simp at hden; subst hden
    table_finish ht
  · -- f*
    obtain ⟨rfl, rfl⟩ := decode_nil_inv ro hd
    simp at hden; subst hden
    table_finish ht
  · -- G
    obtain ⟨p1, ps1, v1, vs1, rfl, h1, hd1, rfl⟩ := decode_cons_inv ro (by decide) hd
    obtain ⟨r1, hr1, rfl⟩ := decode1_num_inv ro h1
    obtain ⟨rfl, rfl⟩ := decode_nil_inv ro hd1
    simp at hden; subst hden
    table_finish ht
  · -- g
    obtain ⟨p1, ps1, v1, vs1, rfl, h1, hd1, rfl⟩ := decode_cons_inv ro (by decide) hd
    obtain ⟨r1, hr1, rfl⟩ := decode1_num_inv ro h1
    obtain ⟨rfl, rfl⟩ := decode_nil_inv ro hd1
    simp at hden; subst hden
    table_finish ht
  · -- gs
    obtain ⟨p1, ps1, v1, vs1, rfl, h1, hd1, rfl⟩ := decode_cons_inv ro (by decide) hd
    obtain ⟨s1, rfl, rfl⟩ := decode1_name_inv ro h1
    obtain ⟨rfl, rfl⟩ := decode_nil_inv ro hd1
    simp at hden; subst hden
    table_finish ht
  · -- h
    obtain ⟨rfl, rfl⟩ := decode_nil_inv ro hd
    simp at hden; subst hden
    table_finish ht
  · -- i
    obtain ⟨p1, ps1, v1, vs1, rfl, h1, hd1, rfl⟩ := decode_cons_inv ro (by decide) hd
    obtain ⟨r1, hr1, rfl⟩ := decode1_num_inv ro h1
    obtain ⟨rfl, rfl⟩ := decode_nil_inv ro hd1
    simp at hden; subst hden
    table_finish ht
  · -- ID
    simp at hs
  · -- j
    obtain ⟨p1, ps1, v1, vs1, rfl, h1, hd1, rfl⟩ := decode_cons_inv ro (by decide) hd
    obtain ⟨n1, rfl, rfl⟩ := decode1_int_inv ro h1
    obtain ⟨rfl, rfl⟩ := decode_nil_inv ro hd1
    simp only [Option.map_eq_some_iff, finOf_eq] at hden
    obtain ⟨j, hj, rfl⟩ := hden
    table_finish ht
  · -- J
    obtain ⟨p1, ps1, v1, vs1, rfl, h1, hd1, rfl⟩ := decode_cons_inv ro (by decide) hd
    obtain ⟨n1, rfl, rfl⟩ := decode1_int_inv ro h1
    obtain ⟨rfl, rfl⟩ := decode_nil_inv ro hd1
    simp only [Option.map_eq_some_iff, finOf_eq] at hden
    obtain ⟨j, hj, rfl⟩ := hden
    table_finish ht
  · -- K
    obtain ⟨p1, ps1, v1, vs1, rfl, h1, hd1, rfl⟩ := decode_cons_inv ro (by decide) hd
    obtain ⟨r1, hr1, rfl⟩ := decode1_num_inv ro h1
    obtain ⟨p2, ps2, v2, vs2, rfl, h2, hd2, rfl⟩ := decode_cons_inv ro (by decide) hd1
    obtain ⟨r2, hr2, rfl⟩ := decode1_num_inv ro h2
    obtain ⟨p3, ps3, v3, vs3, rfl, h3, hd3, rfl⟩ := decode_cons_inv ro (by decide) hd2
    obtain ⟨r3, hr3, rfl⟩ := decode1_num_inv ro h3
    obtain ⟨p4, ps4, v4, vs4, rfl, h4, hd4, rfl⟩ := decode_cons_inv ro (by decide) hd3
    obtain ⟨r4, hr4, rfl⟩ := decode1_num_inv ro h4
    obtain ⟨rfl, rfl⟩ := decode_nil_inv ro hd4
    simp at hden; subst hden
    table_finish ht
  · -- k
    obtain ⟨p1, ps1, v1, vs1, rfl, h1, hd1, rfl⟩ := decode_cons_inv ro (by decide) hd
    obtain ⟨r1, hr1, rfl⟩ := decode1_num_inv ro h1
    obtain ⟨p2, ps2, v2, vs2, rfl, h2, hd2, rfl⟩ := decode_cons_inv ro (by decide) hd1
    obtain ⟨r2, hr2, rfl⟩ := decode1_num_inv ro h2
    obtain ⟨p3, ps3, v3, vs3, rfl, h3, hd3, rfl⟩ := decode_cons_inv ro (by decide) hd2
    obtain ⟨r3, hr3, rfl⟩ := decode1_num_inv ro h3
    obtain ⟨p4, ps4, v4, vs4, rfl, h4, hd4, rfl⟩ := decode_cons_inv ro (by decide) hd3
    obtain ⟨r4, hr4, rfl⟩ := decode1_num_inv ro h4
    obtain ⟨rfl, rfl⟩ := decode_nil_inv ro hd4
    simp at hden; subst hden
    table_finish ht
  · -- l
    obtain ⟨p1, ps1, v1, vs1, rfl, h1, hd1, rfl⟩ := decode_cons_inv ro (by decide) hd
    obtain ⟨r1, hr1, rfl⟩ := decode1_num_inv ro h1
    obtain ⟨p2, ps2, v2, vs2, rfl, h2, hd2, rfl⟩ := decode_cons_inv ro (by decide) hd1
    obtain ⟨r2, hr2, rfl⟩ := decode1_num_inv ro h2
    obtain ⟨rfl, rfl⟩ := decode_nil_inv ro hd2
    simp at hden; subst hden
    table_finish ht
  · -- m
    obtain ⟨p1, ps1, v1, vs1, rfl, h1, hd1, rfl⟩ := decode_cons_inv ro (by decide) hd
    obtain ⟨r1, hr1, rfl⟩ := decode1_num_inv ro h1
    obtain ⟨p2, ps2, v2, vs2, rfl, h2, hd2, rfl⟩ := decode_cons_inv ro (by decide) hd1
    obtain ⟨r2, hr2, rfl⟩ := decode1_num_inv ro h2
    obtain ⟨rfl, rfl⟩ := decode_nil_inv ro hd2
    simp at hden; subst hden
    table_finish ht
  · -- M
    obtain ⟨p1, ps1, v1, vs1, rfl, h1, hd1, rfl⟩ := decode_cons_inv ro (by decide) hd
    obtain ⟨r1, hr1, rfl⟩ := decode1_num_inv ro h1
    obtain ⟨rfl, rfl⟩ := decode_nil_inv ro hd1
    simp at hden; subst hden
    table_finish ht
  · -- MP
    obtain ⟨p1, ps1, v1, vs1, rfl, h1, hd1, rfl⟩ := decode_cons_inv ro (by decide) hd
    obtain ⟨s1, rfl, rfl⟩ := decode1_name_inv ro h1
    obtain ⟨rfl, rfl⟩ := decode_nil_inv ro hd1
    simp at hden; subst hden
    table_finish ht
  · -- n
    obtain ⟨rfl, rfl⟩ := decode_nil_inv ro hd
    simp at hden; subst hden
    table_finish ht
  · -- q
    obtain ⟨rfl, rfl⟩ := decode_nil_inv ro hd
    simp at hden; subst hden
    table_finish ht
  · -- Q
    obtain ⟨rfl, rfl⟩ := decode_nil_inv ro hd
    simp at hden; subst hden
    table_finish ht
  · -- re
    obtain ⟨p1, ps1, v1, vs1, rfl, h1, hd1, rfl⟩ := decode_cons_inv ro (by decide) hd
    obtain ⟨r1, hr1, rfl⟩ := decode1_num_inv ro h1
    obtain ⟨p2, ps2, v2, vs2, rfl, h2, hd2, rfl⟩ := decode_cons_inv ro (by decide) hd1
    obtain ⟨r2, hr2, rfl⟩ := decode1_num_inv ro h2
    obtain ⟨p3, ps3, v3, vs3, rfl, h3, hd3, rfl⟩ := decode_cons_inv ro (by decide) hd2
    obtain ⟨r3, hr3, rfl⟩ := decode1_num_inv ro h3
    obtain ⟨p4, ps4, v4, vs4, rfl, h4, hd4, rfl⟩ := decode_cons_inv ro (by decide) hd3
    obtain ⟨r4, hr4, rfl⟩ := decode1_num_inv ro h4
    obtain ⟨rfl, rfl⟩ := decode_nil_inv ro hd4
    simp at hden; subst hden
    table_finish ht
  · -- RG
    obtain ⟨p1, ps1, v1, vs1, rfl, h1, hd1, rfl⟩ := decode_cons_inv ro (by decide) hd
    obtain ⟨r1, hr1, rfl⟩ := decode1_num_inv ro h1
    obtain ⟨p2, ps2, v2, vs2, rfl, h2, hd2, rfl⟩ := decode_cons_inv ro (by decide) hd1
    obtain ⟨r2, hr2, rfl⟩ := decode1_num_inv ro h2
    obtain ⟨p3, ps3, v3, vs3, rfl, h3, hd3, rfl⟩ := decode_cons_inv ro (by decide) hd2
    obtain ⟨r3, hr3, rfl⟩ := decode1_num_inv ro h3
    obtain ⟨rfl, rfl⟩ := decode_nil_inv ro hd3
    simp at hden; subst hden
    table_finish ht
  · -- rg
    obtain ⟨p1, ps1, v1, vs1, rfl, h1, hd1, rfl⟩ := decode_cons_inv ro (by decide) hd
    obtain ⟨r1, hr1, rfl⟩ := decode1_num_inv ro h1
    obtain ⟨p2, ps2, v2, vs2, rfl, h2, hd2, rfl⟩ := decode_cons_inv ro (by decide) hd1
    obtain ⟨r2, hr2, rfl⟩ := decode1_num_inv ro h2
    obtain ⟨p3, ps3, v3, vs3, rfl, h3, hd3, rfl⟩ := decode_cons_inv ro (by decide) hd2
    obtain ⟨r3, hr3, rfl⟩ := decode1_num_inv ro h3
    obtain ⟨rfl, rfl⟩ := decode_nil_inv ro hd3
    simp at hden; subst hden
    table_finish ht
  · -- ri
    obtain ⟨p1, ps1, v1, vs1, rfl, h1, hd1, rfl⟩ := decode_cons_inv ro (by decide) hd
    obtain ⟨s1, i1, rfl, hi1, rfl⟩ := decode1_intent_inv ro h1
    obtain ⟨rfl, rfl⟩ := decode_nil_inv ro hd1
    simp at hden; subst hden
    table_finish ht
  · -- s
    obtain ⟨rfl, rfl⟩ := decode_nil_inv ro hd
    simp at hden; subst hden
    table_finish ht
  · -- S
    obtain ⟨rfl, rfl⟩ := decode_nil_inv ro hd
    simp at hden; subst hden
    table_finish ht
  · -- SC
    have hv := decode_colour_inv ro hd; subst hv
    simp at hden; subst hden
    table_finish ht
  · -- sc
    have hv := decode_colour_inv ro hd; subst hv
    simp at hden; subst hden
    table_finish ht
  · -- SCN
    have hv := decode_colourN_inv ro hd; subst hv
    simp at hden; subst hden
    table_finish ht
  · -- scn
    have hv := decode_colourN_inv ro hd; subst hv
    simp at hden; subst hden
    table_finish ht
  · -- sh
    obtain ⟨p1, ps1, v1, vs1, rfl, h1, hd1, rfl⟩ := decode_cons_inv ro (by decide) hd
    obtain ⟨s1, rfl, rfl⟩ := decode1_name_inv ro h1
    obtain ⟨rfl, rfl⟩ := decode_nil_inv ro hd1
    simp at hden; subst hden
    table_finish ht
  · -- T*
    obtain ⟨rfl, rfl⟩ := decode_nil_inv ro hd
    simp at hden; subst hden
    table_finish ht
  · -- Tc
    obtain ⟨p1, ps1, v1, vs1, rfl, h1, hd1, rfl⟩ := decode_cons_inv ro (by decide) hd
    obtain ⟨r1, hr1, rfl⟩ := decode1_num_inv ro h1
    obtain ⟨rfl, rfl⟩ := decode_nil_inv ro hd1
    simp at hden; subst hden
    table_finish ht
  · -- Td
    obtain ⟨p1, ps1, v1, vs1, rfl, h1, hd1, rfl⟩ := decode_cons_inv ro (by decide) hd
    obtain ⟨r1, hr1, rfl⟩ := decode1_num_inv ro h1
    obtain ⟨p2, ps2, v2, vs2, rfl, h2, hd2, rfl⟩ := decode_cons_inv ro (by decide) hd1
    obtain ⟨r2, hr2, rfl⟩ := decode1_num_inv ro h2
    obtain ⟨rfl, rfl⟩ := decode_nil_inv ro hd2
    simp at hden; subst hden
    table_finish ht
  · -- TD
    obtain ⟨p1, ps1, v1, vs1, rfl, h1, hd1, rfl⟩ := decode_cons_inv ro (by decide) hd
    obtain ⟨r1, hr1, rfl⟩ := decode1_num_inv ro h1
    obtain ⟨p2, ps2, v2, vs2, rfl, h2, hd2, rfl⟩ := decode_cons_inv ro (by decide) hd1
    obtain ⟨r2, hr2, rfl⟩ := decode1_num_inv ro h2
    obtain ⟨rfl, rfl⟩ := decode_nil_inv ro hd2
    simp at hden; subst hden
    table_finish ht
  · -- Tf
    obtain ⟨p1, ps1, v1, vs1, rfl, h1, hd1, rfl⟩ := decode_cons_inv ro (by decide) hd
    obtain ⟨s1, rfl, rfl⟩ := decode1_name_inv ro h1
    obtain ⟨p2, ps2, v2, vs2, rfl, h2, hd2, rfl⟩ := decode_cons_inv ro (by decide) hd1
    obtain ⟨r2, hr2, rfl⟩ := decode1_num_inv ro h2
    obtain ⟨rfl, rfl⟩ := decode_nil_inv ro hd2
    simp at hden; subst hden
    table_finish ht
  · -- Tj
    obtain ⟨p1, ps1, v1, vs1, rfl, h1, hd1, rfl⟩ := decode_cons_inv ro (by decide) hd
    obtain ⟨b1, rfl, rfl⟩ := decode1_str_inv ro h1
    obtain ⟨rfl, rfl⟩ := decode_nil_inv ro hd1
    simp at hden; subst hden
    table_finish ht
  · -- TJ
    obtain ⟨p1, ps1, v1, vs1, rfl, h1, hd1, rfl⟩ := decode_cons_inv ro (by decide) hd
    obtain ⟨xs1, ts1, rfl, ha1, rfl⟩ := decode1_text_inv ro h1
    obtain ⟨rfl, rfl⟩ := decode_nil_inv ro hd1
    simp at hden; subst hden
    table_finish ht
  · -- TL
    obtain ⟨p1, ps1, v1, vs1, rfl, h1, hd1, rfl⟩ := decode_cons_inv ro (by decide) hd
    obtain ⟨r1, hr1, rfl⟩ := decode1_num_inv ro h1
    obtain ⟨rfl, rfl⟩ := decode_nil_inv ro hd1
    simp at hden; subst hden
    table_finish ht
  · -- Tm
    obtain ⟨p1, ps1, v1, vs1, rfl, h1, hd1, rfl⟩ := decode_cons_inv ro (by decide) hd
    obtain ⟨r1, hr1, rfl⟩ := decode1_num_inv ro h1
    obtain ⟨p2, ps2, v2, vs2, rfl, h2, hd2, rfl⟩ := decode_cons_inv ro (by decide) hd1
    obtain ⟨r2, hr2, rfl⟩ := decode1_num_inv ro h2
    obtain ⟨p3, ps3, v3, vs3, rfl, h3, hd3, rfl⟩ := decode_cons_inv ro (by decide) hd2
    obtain ⟨r3, hr3, rfl⟩ := decode1_num_inv ro h3
    obtain ⟨p4, ps4, v4, vs4, rfl, h4, hd4, rfl⟩ := decode_cons_inv ro (by decide) hd3
    obtain ⟨r4, hr4, rfl⟩ := decode1_num_inv ro h4
    obtain ⟨p5, ps5, v5, vs5, rfl, h5, hd5, rfl⟩ := decode_cons_inv ro (by decide) hd4
    obtain ⟨r5, hr5, rfl⟩ := decode1_num_inv ro h5
    obtain ⟨p6, ps6, v6, vs6, rfl, h6, hd6, rfl⟩ := decode_cons_inv ro (by decide) hd5
    obtain ⟨r6, hr6, rfl⟩ := decode1_num_inv ro h6
    obtain ⟨rfl, rfl⟩ := decode_nil_inv ro hd6
    simp at hden; subst hden
    table_finish ht
  · -- Tr
    obtain ⟨p1, ps1, v1, vs1, rfl, h1, hd1, rfl⟩ := decode_cons_inv ro (by decide) hd
    obtain ⟨n1, rfl, rfl⟩ := decode1_int_inv ro h1
    obtain ⟨rfl, rfl⟩ := decode_nil_inv ro hd1
    simp only [Option.map_eq_some_iff, finOf_eq] at hden
    obtain ⟨j, hj, rfl⟩ := hden
    table_finish ht
  · -- Ts
    obtain ⟨p1, ps1, v1, vs1, rfl, h1, hd1, rfl⟩ := decode_cons_inv ro (by decide) hd
    obtain ⟨r1, hr1, rfl⟩ := decode1_num_inv ro h1
    obtain ⟨rfl, rfl⟩ := decode_nil_inv ro hd1
    simp at hden; subst hden
    table_finish ht
  · -- Tw
    obtain ⟨p1, ps1, v1, vs1, rfl, h1, hd1, rfl⟩ := decode_cons_inv ro (by decide) hd
    obtain ⟨r1, hr1, rfl⟩ := decode1_num_inv ro h1
    obtain ⟨rfl, rfl⟩ := decode_nil_inv ro hd1
    simp at hden; subst hden
    table_finish ht
  · -- Tz
    obtain ⟨p1, ps1, v1, vs1, rfl, h1, hd1, rfl⟩ := decode_cons_inv ro (by decide) hd
    obtain ⟨r1, hr1, rfl⟩ := decode1_num_inv ro h1
    obtain ⟨rfl, rfl⟩ := decode_nil_inv ro hd1
    simp at hden; subst hden
    table_finish ht
  · -- v
    obtain ⟨p1, ps1, v1, vs1, rfl, h1, hd1, rfl⟩ := decode_cons_inv ro (by decide) hd
    obtain ⟨r1, hr1, rfl⟩ := decode1_num_inv ro h1
    obtain ⟨p2, ps2, v2, vs2, rfl, h2, hd2, rfl⟩ := decode_cons_inv ro (by decide) hd1
    obtain ⟨r2, hr2, rfl⟩ := decode1_num_inv ro h2
    obtain ⟨p3, ps3, v3, vs3, rfl, h3, hd3, rfl⟩ := decode_cons_inv ro (by decide) hd2
    obtain ⟨r3, hr3, rfl⟩ := decode1_num_inv ro h3
    obtain ⟨p4, ps4, v4, vs4, rfl, h4, hd4, rfl⟩ := decode_cons_inv ro (by decide) hd3
    obtain ⟨r4, hr4, rfl⟩ := decode1_num_inv ro h4
    obtain ⟨rfl, rfl⟩ := decode_nil_inv ro hd4
    cases hc : path.cur with
    | none => simp [hc] at hden
    | some p0 =>
      simp [hc] at hden; subst hden
      have hl := ht.1 p0 hc
      table_finish ht
  · -- w
    obtain ⟨p1, ps1, v1, vs1, rfl, h1, hd1, rfl⟩ := decode_cons_inv ro (by decide) hd
    obtain ⟨r1, hr1, rfl⟩ := decode1_num_inv ro h1
    obtain ⟨rfl, rfl⟩ := decode_nil_inv ro hd1
    simp at hden; subst hden
    table_finish ht
  · -- W
    obtain ⟨rfl, rfl⟩ := decode_nil_inv ro hd
    simp at hden; subst hden
    table_finish ht
  · -- W*
    obtain ⟨rfl, rfl⟩ := decode_nil_inv ro hd
    simp at hden; subst hden
    table_finish ht
  · -- y
    obtain ⟨p1, ps1, v1, vs1, rfl, h1, hd1, rfl⟩ := decode_cons_inv ro (by decide) hd
    obtain ⟨r1, hr1, rfl⟩ := decode1_num_inv ro h1
    obtain ⟨p2, ps2, v2, vs2, rfl, h2, hd2, rfl⟩ := decode_cons_inv ro (by decide) hd1
    obtain ⟨r2, hr2, rfl⟩ := decode1_num_inv ro h2
    obtain ⟨p3, ps3, v3, vs3, rfl, h3, hd3, rfl⟩ := decode_cons_inv ro (by decide) hd2
    obtain ⟨r3, hr3, rfl⟩ := decode1_num_inv ro h3
    obtain ⟨p4, ps4, v4, vs4, rfl, h4, hd4, rfl⟩ := decode_cons_inv ro (by decide) hd3
    obtain ⟨r4, hr4, rfl⟩ := decode1_num_inv ro h4
    obtain ⟨rfl, rfl⟩ := decode_nil_inv ro hd4
    simp at hden; subst hden
    table_finish ht
  · -- '
    obtain ⟨p1, ps1, v1, vs1, rfl, h1, hd1, rfl⟩ := decode_cons_inv ro (by decide) hd
    obtain ⟨b1, rfl, rfl⟩ := decode1_str_inv ro h1
    obtain ⟨rfl, rfl⟩ := decode_nil_inv ro hd1
    simp at hden; subst hden
    table_finish ht
  · -- \"
    obtain ⟨p1, ps1, v1, vs1, rfl, h1, hd1, rfl⟩ := decode_cons_inv ro (by decide) hd
    obtain ⟨r1, hr1, rfl⟩ := decode1_num_inv ro h1
    obtain ⟨p2, ps2, v2, vs2, rfl, h2, hd2, rfl⟩ := decode_cons_inv ro (by decide) hd1
    obtain ⟨r2, hr2, rfl⟩ := decode1_num_inv ro h2
    obtain ⟨p3, ps3, v3, vs3, rfl, h3, hd3, rfl⟩ := decode_cons_inv ro (by decide) hd2
    obtain ⟨b3, rfl, rfl⟩ := decode1_str_inv ro h3
    obtain ⟨rfl, rfl⟩ := decode_nil_inv ro hd3
    simp at hden; subst hden
    table_finish ht


theorem lookup_some {kw : String} {e : Entry R} (h : lookup ro kw = some e) : e ∈ table ro ∧ e.kw = kw := by
  unfold lookup at h
  exact ⟨List.mem_of_find?_eq_some h, by simpa using List.find?_some h⟩

/-- one statement: the reader does what the table says -/
theorem specStmt_parse (allow : Bool) (s : Stmt R) (path path' : Path R) (st : PState R) (ops : List (Op R))
    (ht : Tracks path st) (h : specStmt ro path s = some (ops, path')) (more : List (Tok R)) :
    ∃ st', parseLoop ro allow ⟨st, []⟩ (s.toks ++ more) = parseLoop ro allow ⟨st', []⟩ more ∧
      st'.ops = st.ops ++ ops ∧ st'.compat = st.compat ∧ Tracks path' st' := by
  unfold specStmt at h
  cases hl : lookup ro s.kw with
  | none => simp [hl] at h
  | some e =>
    simp only [hl] at h
    obtain ⟨hmem, hkw⟩ := lookup_some ro hl
    by_cases hs : e.support = .full
    · simp only [hs, if_true] at h
      cases hd : decode ro e.sig s.args with
      | none => simp [hd] at h
      | some vals =>
        simp only [hd] at h
        cases hden : e.den path.cur vals with
        | none => simp [hden] at h
        | some ops' =>
          simp only [hden, Option.some.injEq, Prod.mk.injEq] at h
          obtain ⟨rfl, rfl⟩ := h
          have hstep := table_step ro e hmem hs s.args vals ops' path st ht hd hden
          rw [hkw] at hstep
          obtain ⟨h1, h2, h3, h4⟩ := hstep
          refine ⟨(add ro st s.kw s.args).st, ?_, h2, h3, h4⟩
          unfold Stmt.toks
          rw [List.append_assoc, parseLoop_prims]
          simp [parseLoop, step, h1]
    · simp [hs] at h

/-- **sequences**: what a sequence of well-formed statements of fully supported operators denotes is what the
    reader produces, in both modes -/
theorem specRun_parse (allow : Bool) : ∀ (ss : List (Stmt R)) (path : Path R) (st : PState R) (ops : List (Op R)),
    Tracks path st → specRun ro path ss = some ops →
    ∃ st', parseLoop ro allow ⟨st, []⟩ (ss.flatMap Stmt.toks) = .ok ⟨st', []⟩ ∧ st'.ops = st.ops ++ ops ∧
      st'.compat = st.compat
  | [], _, st, ops, _, h => by
    simp [specRun] at h; subst h
    exact ⟨st, rfl, by simp, rfl⟩
  | s :: ss, path, st, ops, ht, h => by
    simp only [specRun] at h
    cases h1 : specStmt ro path s with
    | none => simp [h1] at h
    | some r =>
      obtain ⟨ops1, path'⟩ := r
      simp only [h1] at h
      cases h2 : specRun ro path' ss with
      | none => simp [h2] at h
      | some ops2 =>
        simp only [h2, Option.some.injEq] at h
        subst h
        obtain ⟨st1, hp1, ho1, hc1, ht1⟩ := specStmt_parse ro allow s path path' st ops1 ht h1 (ss.flatMap Stmt.toks)
        obtain ⟨st2, hp2, ho2, hc2⟩ := specRun_parse allow ss path' st1 ops2 ht1 h2
        refine ⟨st2, ?_, ?_, ?_⟩
        · simp only [List.flatMap_cons]; rw [hp1, hp2]
        · rw [ho2, ho1, List.append_assoc]
        · rw [hc2, hc1]

end
end ContentSpec
