import PdfModel.Model.Lexer
import PdfModel.Spec.Syntax

/-! Lemmas about `Model/Lexer`: the suffix view (`Suffix buf pos s`: the bytes of `buf` from `pos` on are `s`),
    scans, gap skipping, lexemes. -/

namespace PdfLex

/-- the bytes of `buf` from `pos` on are `s` -/
def Suffix (buf : Buf) (pos : Nat) (s : List UInt8) : Prop :=
  buf.toList.drop pos = s ∧ pos ≤ buf.size

theorem Suffix.size_sub {buf : Buf} {pos : Nat} {s : List UInt8} (h : Suffix buf pos s) :
    buf.size - pos = s.length := by
  obtain ⟨h1, h2⟩ := h
  rw [← h1]; simp

theorem Suffix.le {buf : Buf} {pos : Nat} {s : List UInt8} (h : Suffix buf pos s) : pos ≤ buf.size := h.2

theorem Suffix.size_eq {buf : Buf} {pos : Nat} {s : List UInt8} (h : Suffix buf pos s) :
    buf.size = pos + s.length := by
  have := h.size_sub; have := h.le; omega

theorem Suffix.get {buf : Buf} {pos : Nat} {s : List UInt8} (h : Suffix buf pos s) (i : Nat) :
    buf[pos + i]? = s[i]? := by
  obtain ⟨h1, _⟩ := h
  rw [← h1]; simp

theorem Suffix.get0 {buf : Buf} {pos : Nat} {b : UInt8} {s : List UInt8} (h : Suffix buf pos (b :: s)) :
    buf[pos]? = some b := by
  have := h.get 0; simpa using this

theorem Suffix.get_nil {buf : Buf} {pos : Nat} (h : Suffix buf pos []) : buf[pos]? = none := by
  have := h.size_eq; simp at this
  simp [this]

theorem Suffix.pos_eq_size {buf : Buf} {pos : Nat} (h : Suffix buf pos []) : pos = buf.size := by
  have := h.size_eq; simp at this; omega

theorem Suffix.lt {buf : Buf} {pos : Nat} {b : UInt8} {s : List UInt8} (h : Suffix buf pos (b :: s)) :
    pos < buf.size := by
  have := h.size_eq; simp at this; omega

theorem Suffix.tail {buf : Buf} {pos : Nat} {b : UInt8} {s : List UInt8} (h : Suffix buf pos (b :: s)) :
    Suffix buf (pos + 1) s := by
  refine ⟨?_, h.lt⟩
  have h1 := h.1
  rw [← List.drop_drop, h1]; rfl

theorem Suffix.drop {buf : Buf} {pos : Nat} {a s : List UInt8} (h : Suffix buf pos (a ++ s)) :
    Suffix buf (pos + a.length) s := by
  induction a generalizing pos with
  | nil => simpa using h
  | cons b a ih =>
    have := ih (pos := pos + 1) (by simpa using h.tail)
    simpa [Nat.add_assoc, Nat.add_comm 1] using this

theorem Suffix.slice {buf : Buf} {pos : Nat} {a s : List UInt8} (h : Suffix buf pos (a ++ s)) :
    slice buf pos (pos + a.length) = a := by
  unfold PdfLex.slice
  rw [Array.toList_extract]
  simp [List.extract, h.1]

theorem suffix_zero (l : List UInt8) : Suffix l.toArray 0 l := by
  simp [Suffix]

theorem suffix_append (pre l : List UInt8) : Suffix (pre ++ l).toArray pre.length l := by
  simp [Suffix]


/-! ### byte classes: the model's sets are the specification's -/

theorem UInt8.forall_of_fin {P : UInt8 → Prop} (h : ∀ n : Fin 256, P (UInt8.ofFin n)) : ∀ b : UInt8, P b := by
  intro b
  have := h b.toFin
  simpa using this

instance decForallUInt8 (P : UInt8 → Prop) [DecidablePred P] : Decidable (∀ b : UInt8, P b) :=
  decidable_of_iff (∀ n : Fin 256, P (UInt8.ofFin n)) ⟨UInt8.forall_of_fin, fun h _ => h _⟩

theorem isWhitespace_eq : ∀ b, isWhitespace b = PdfSyntax.isWs b := by decide +kernel
theorem isDelimiter_eq : ∀ b, isDelimiter b = PdfSyntax.isDelim b := by decide +kernel
theorem isRegular_eq : ∀ b, isRegular b = PdfSyntax.isReg b := by decide +kernel
theorem isDigit_eq : ∀ b, isDigit b = PdfSyntax.isDig b := by decide +kernel

/-! ### scans -/

theorem scanWhile_nil {buf : Buf} {pos : Nat} (cond : UInt8 → Bool) (h : Suffix buf pos []) :
    scanWhile buf cond (buf.size - pos) pos = buf.size := by
  have := h.size_sub; simp at this
  rw [this]; rfl

theorem scanWhile_stop {buf : Buf} {pos : Nat} {b : UInt8} {s : List UInt8} (cond : UInt8 → Bool)
    (h : Suffix buf pos (b :: s)) (hb : cond b = false) :
    scanWhile buf cond (buf.size - pos) pos = pos := by
  have h1 := h.size_sub; simp at h1
  rw [h1]; simp [scanWhile, h.get0, hb]

theorem scanWhile_step {buf : Buf} {pos : Nat} {b : UInt8} {s : List UInt8} (cond : UInt8 → Bool)
    (h : Suffix buf pos (b :: s)) (hb : cond b = true) :
    scanWhile buf cond (buf.size - pos) pos = scanWhile buf cond (buf.size - (pos + 1)) (pos + 1) := by
  have h1 := h.size_sub; simp at h1
  have h2 := h.tail.size_sub
  rw [h1, h2]; simp [scanWhile, h.get0, hb]

/-- a run of bytes satisfying `cond`, ended by the end of the buffer or a byte that does not -/
theorem scanWhile_run {buf : Buf} (cond : UInt8 → Bool) (seg rest : List UInt8) (pos : Nat)
    (h : Suffix buf pos (seg ++ rest)) (hseg : ∀ b ∈ seg, cond b = true)
    (hrest : ∀ b r, rest = b :: r → cond b = false) :
    scanWhile buf cond (buf.size - pos) pos = pos + seg.length := by
  induction seg generalizing pos with
  | nil =>
    cases rest with
    | nil =>
      have h' : Suffix buf pos [] := by simpa using h
      rw [scanWhile_nil cond h']; simp [h'.pos_eq_size]
    | cons b r => simpa using scanWhile_stop cond (by simpa using h) (hrest b r rfl)
  | cons b seg ih =>
    have hb := hseg b (by simp)
    rw [scanWhile_step cond (by simpa using h) hb]
    rw [ih (pos + 1) (by simpa using h.tail) (fun x hx => hseg x (by simp [hx]))]
    simp; omega


/-! ### white-space, comments: a gap is skipped -/

open PdfSyntax (Gap Bnd)

/-- `s` starts with a byte that is neither white-space nor `%` (a lexeme starts here) -/
def StartsTok (s : List UInt8) : Prop :=
  ∃ b r, s = b :: r ∧ isWhitespace b = false ∧ b ≠ 37

theorem skipWhitespace_ws {buf : Buf} {pos : Nat} {b : UInt8} {s : List UInt8}
    (h : Suffix buf pos (b :: s)) (hb : isWhitespace b = true) :
    skipWhitespace buf pos = skipWhitespace buf (pos + 1) := by
  have h1 := h.lt
  unfold skipWhitespace boundary
  rw [if_neg (by omega), if_neg (by omega), scanWhile_step _ h hb]

theorem skipWhitespace_stop {buf : Buf} {pos : Nat} {b : UInt8} {s : List UInt8}
    (h : Suffix buf pos (b :: s)) (hb : isWhitespace b = false) :
    skipWhitespace buf pos = .ok pos := by
  have h1 := h.lt
  unfold skipWhitespace boundary
  rw [if_neg (by omega), scanWhile_stop _ h hb]
  simp [Out.bind]; omega

theorem skipWhitespace_nil {buf : Buf} {pos : Nat} (h : Suffix buf pos []) :
    skipWhitespace buf pos = .err := by
  have h1 := h.le
  unfold skipWhitespace boundary
  rw [if_neg (by omega), scanWhile_nil _ h]
  simp [Out.bind]

theorem findEol_stop {buf : Buf} {pos : Nat} {e : UInt8} {s : List UInt8}
    (h : Suffix buf pos (e :: s)) (he : e = 10 ∨ e = 13) :
    findEol buf (buf.size - pos) pos = some pos := by
  have h1 := h.size_sub; simp at h1
  rw [h1]; simp only [findEol, h.get0]
  rcases he with rfl | rfl <;> simp

theorem findEol_step {buf : Buf} {pos : Nat} {b : UInt8} {s : List UInt8}
    (h : Suffix buf pos (b :: s)) (hb : b ≠ 10 ∧ b ≠ 13) :
    findEol buf (buf.size - pos) pos = findEol buf (buf.size - (pos + 1)) (pos + 1) := by
  have h1 := h.size_sub; simp at h1
  have h2 := h.tail.size_sub
  rw [h1, h2]; simp [findEol, h.get0, hb.1, hb.2]

theorem findEol_body {buf : Buf} (body : List UInt8) (e : UInt8) (s : List UInt8) (pos : Nat)
    (h : Suffix buf pos (body ++ e :: s)) (hbody : ∀ b ∈ body, b ≠ 10 ∧ b ≠ 13) (he : e = 10 ∨ e = 13) :
    findEol buf (buf.size - pos) pos = some (pos + body.length) := by
  induction body generalizing pos with
  | nil => simpa using findEol_stop (by simpa using h) he
  | cons b body ih =>
    have h' : Suffix buf pos (b :: (body ++ e :: s)) := by simpa using h
    rw [findEol_step h' (hbody b (by simp))]
    rw [ih (pos + 1) h'.tail (fun x hx => hbody x (by simp [hx]))]
    simp; omega

/-- white-space and comments before a lexeme are skipped (`fuel`: at least the length of the gap) -/
theorem skip_gap {buf : Buf} (g : List UInt8) (hg : Gap g) (s : List UInt8) (hs : StartsTok s) :
    ∀ (pos fuel : Nat), Suffix buf pos (g ++ s) → g.length ≤ fuel →
    (skipWhitespace buf pos).bind (fun p0 => skipComments buf fuel p0) = .ok (pos + g.length) := by
  induction hg with
  | nil =>
    intro pos fuel h _
    obtain ⟨b, r, rfl, hb, hb'⟩ := hs
    have h' : Suffix buf pos (b :: r) := by simpa using h
    rw [skipWhitespace_stop h' hb]
    simp only [Out.bind_ok]
    cases fuel <;> simp [skipComments, h'.get0, hb']
  | ws b g hb hg ih =>
    intro pos fuel h hf
    have h' : Suffix buf pos (b :: (g ++ s)) := by simpa using h
    rw [skipWhitespace_ws h' (by rw [isWhitespace_eq]; exact hb)]
    have := ih (pos + 1) fuel h'.tail (by simp at hf; omega)
    rw [this]; simp; omega
  | comment body e g hbody he hg ih =>
    intro pos fuel h hf
    have h' : Suffix buf pos (37 :: (body ++ e :: (g ++ s))) := by simpa using h
    rw [skipWhitespace_stop h' (by decide)]
    simp only [Out.bind_ok]
    cases fuel with
    | zero => simp at hf
    | succ fuel =>
      have hlt := h'.lt
      simp only [skipComments, h'.get0, beq_self_eq_true, if_true]
      rw [if_neg (by omega)]
      rw [findEol_body body e (g ++ s) (pos + 1) h'.tail hbody he]
      simp only []
      have h2 : Suffix buf (pos + 1 + body.length + 1) (g ++ s) := by
        have := Suffix.drop (buf := buf) (pos := pos + 1) (a := body ++ [e]) (s := g ++ s) (by simpa using h'.tail)
        simpa [Nat.add_assoc] using this
      have := ih (pos + 1 + body.length + 1) fuel h2 (by simp at hf; omega)
      rw [this]; simp; omega

theorem tokenStart_gap {buf : Buf} (g s : List UInt8) (hg : Gap g) (hs : StartsTok s) (pos : Nat)
    (h : Suffix buf pos (g ++ s)) : tokenStart buf pos = .ok (pos + g.length) := by
  unfold tokenStart
  apply skip_gap g hg s hs pos buf.size h
  have := h.size_eq; simp at this; omega

theorem nextWord_gap {buf : Buf} (g s : List UInt8) (hg : Gap g) (hs : StartsTok s) (pos : Nat)
    (h : Suffix buf pos (g ++ s)) : nextWord buf pos = lexemeAt buf (pos + g.length) := by
  unfold nextWord
  have hne : pos ≠ buf.size := by
    obtain ⟨b, r, rfl, _⟩ := hs
    have := h.size_eq; simp at this; omega
  simp [hne, tokenStart_gap g s hg hs pos h]


/-! ### lexemes -/

theorem bnd_iff (rest : List UInt8) : Bnd rest ↔ ∀ b r, rest = b :: r → isRegular b = false := by
  cases rest with
  | nil => simp [Bnd]
  | cons b r => simp [Bnd, isRegular_eq]

theorem newSubstr_ok {buf : Buf} {a b : Nat} (h1 : a ≤ b) (h2 : b ≤ buf.size) : newSubstr buf a b = .ok (a, b) := by
  unfold newSubstr
  have : ¬ a > b := by omega
  simp [this]; omega

theorem isDelimAt_cons {buf : Buf} {pos : Nat} {b : UInt8} {s : List UInt8} (h : Suffix buf pos (b :: s)) :
    isDelimAt buf pos = isDelimiter b := by simp [isDelimAt, h.get0]

theorem scanRegular_run {buf : Buf} (t rest : List UInt8) (pos : Nat) (h : Suffix buf pos (t ++ rest))
    (ht : ∀ b ∈ t, isRegular b = true) (hb : Bnd rest) : scanRegular buf pos = pos + t.length :=
  scanWhile_run isRegular t rest pos h ht ((bnd_iff rest).1 hb)

/-- a token of regular characters (number, keyword) followed by a boundary -/
theorem lexemeAt_regular {buf : Buf} (t rest : List UInt8) (start : Nat) (h : Suffix buf start (t ++ rest))
    (hne : t ≠ []) (ht : ∀ b ∈ t, isRegular b = true) (hb : Bnd rest) :
    lexemeAt buf start = .ok (start, start + t.length) := by
  cases t with
  | nil => exact absurd rfl hne
  | cons b t' =>
    have h' : Suffix buf start (b :: (t' ++ rest)) := by simpa using h
    have hreg := ht b (by simp)
    have hd : isDelimiter b = false := by
      simp [isRegular] at hreg; exact hreg.2
    unfold lexemeAt
    rw [isDelimAt_cons h', hd]
    simp only [Bool.false_eq_true, if_false]
    rw [scanRegular_run (b :: t') rest start h ht hb]
    apply newSubstr_ok (by omega)
    have := h.size_eq; simp at this ⊢; omega

/-- a name token `/…` -/
theorem lexemeAt_name {buf : Buf} (t rest : List UInt8) (start : Nat) (h : Suffix buf start (47 :: t ++ rest))
    (ht : ∀ b ∈ t, isRegular b = true) (hb : Bnd rest) :
    lexemeAt buf start = .ok (start, start + 1 + t.length) := by
  have h' : Suffix buf start (47 :: (t ++ rest)) := by simpa using h
  unfold lexemeAt
  rw [isDelimAt_cons h']
  simp only [h'.get0, show isDelimiter 47 = true by decide, if_true, beq_self_eq_true]
  have hlt := h'.lt
  simp only [advancePos, hlt, if_true, Out.bind_ok]
  rw [scanRegular_run t rest (start + 1) h'.tail ht hb]
  apply newSubstr_ok (by omega)
  have := h'.size_eq; simp at this ⊢; omega

/-- one-character delimiter lexemes: `[ ] ( ) { }` always, `<` / `>` when not doubled -/
theorem lexemeAt_delim {buf : Buf} (d : UInt8) (rest : List UInt8) (start : Nat) (h : Suffix buf start (d :: rest))
    (hd : isDelimiter d = true) (h47 : d ≠ 47)
    (hdbl : ¬ ((d = 60 ∨ d = 62) ∧ rest.head? = some d)) :
    lexemeAt buf start = .ok (start, start + 1) := by
  unfold lexemeAt
  rw [isDelimAt_cons h, hd]
  simp only [h.get0, if_true]
  have h47' : (d == 47) = false := by simp [h47]
  rw [h47']
  simp only [Bool.false_eq_true, if_false]
  have hlt := h.lt
  have hnd : isDouble buf start = false := by
    unfold isDouble
    rw [h.get0]
    cases rest with
    | nil => simp [h.tail.get_nil]
    | cons c r =>
      rw [h.tail.get0]
      simp only []
      simp at hdbl
      by_cases h60 : d = 60
      · subst h60; have := hdbl (Or.inl rfl); simp; intro hc; exact absurd hc (by simpa using this)
      · by_cases h62 : d = 62
        · subst h62; have := hdbl (Or.inr rfl); simp; intro hc; exact absurd hc (by simpa using this)
        · simp [h60, h62]
  rw [hnd]
  simp only [Bool.false_eq_true, if_false, Out.bind_ok, advancePos, hlt, if_true]
  apply newSubstr_ok (by omega) (by omega)

/-- `<<` and `>>` -/
theorem lexemeAt_double {buf : Buf} (d : UInt8) (rest : List UInt8) (start : Nat) (h : Suffix buf start (d :: d :: rest))
    (hd : d = 60 ∨ d = 62) :
    lexemeAt buf start = .ok (start, start + 2) := by
  have hdel : isDelimiter d = true := by rcases hd with rfl | rfl <;> decide
  have h47 : (d == 47) = false := by rcases hd with rfl | rfl <;> decide
  unfold lexemeAt
  rw [isDelimAt_cons h, hdel]
  simp only [h.get0, if_true, h47, Bool.false_eq_true, if_false]
  have hlt := h.lt
  have hlt2 := h.tail.lt
  have hdbl : isDouble buf start = true := by
    unfold isDouble
    rw [h.get0, h.tail.get0]
    rcases hd with rfl | rfl <;> simp
  rw [hdbl]
  simp only [if_true, advancePos, hlt, hlt2, Out.bind_ok]
  apply newSubstr_ok (by omega) (by omega)

end PdfLex
