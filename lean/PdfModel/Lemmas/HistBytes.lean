import PdfModel.Lemmas.RepBytes

/-!
  Histories at byte level (`SaveBytes.runB`): they are histories of the abstract model with every `save` run
  under the layout its values give it (`liftOps`), the bytes change only in a successful save, and the bytes
  keep representing the abstract state (`RepBytes.Rep`) all along.
-/

namespace Storage
open Xref

variable {V : Type}

/-- the backend part of a state -/
def SameBackend (s s' : St V) : Prop :=
  s'.objs = s.objs ∧ s'.secs = s.secs ∧ s'.len = s.len ∧ s'.start = s.start ∧ s'.startxref = s.startxref

theorem SameBackend.rfl' (s : St V) : SameBackend s s := ⟨rfl, rfl, rfl, rfl, rfl⟩

/-- a save that did not get as far as appending its revision has not touched the backend at all -/
theorem save_backend (P : Params V) (L : Layout) (d0 d : Doc V) (chain0) (hb : BaseOK d0 chain0)
    (hi : Inv d0 d) (h : commitInfo P L d = none) : SameBackend d.st (save P L d).1.st := by
  rcases commitInfo_none P L d0 d chain0 hb hi h with ⟨h1, h2, h3, h4, h5, _⟩ | h
  · exact ⟨h1, h2, h3, h4, h5⟩
  · rw [h]; exact SameBackend.rfl' _

theorem update_backend (st : St V) (id : Nat) (v : V) : SameBackend st (update st id v).1 := by
  unfold update
  cases h : st.refs[id]? with
  | none => simp [SameBackend]
  | some e => cases e <;> simp [SameBackend]

/-- an operation other than `save` leaves the backend alone -/
theorem step_backend (P : Params V) (d : Doc V) (op : Op V) (h : ∀ L, op ≠ .save L) :
    SameBackend d.st (step P d op).1.st := by
  cases op with
  | create v => simp [step, create, alloc, SameBackend]
  | promise => simp [step, promise, alloc, SameBackend]
  | update id v =>
    have hb := update_backend d.st id v
    generalize hu : update d.st id v = r at hb
    obtain ⟨s, o⟩ := r
    cases o <;> simpa [step, hu] using hb
  | fulfil id v =>
    have hb := update_backend d.st id v
    generalize hu : update d.st id v = r at hb
    obtain ⟨s, o⟩ := r
    cases o <;> simpa [step, hu] using hb
  | get id =>
    simp only [step, get]
    split <;> (try split) <;> simp [SameBackend]
  | resolve id => simp [step, SameBackend]
  | save L => exact absurd rfl (h L)

end Storage

namespace SaveBytes
open Storage PdfLex Xref

variable {R : Type}

theorem toOp_layout (op : OpB R) (h : ∀ t, op ≠ .save t) (L L' : Layout) : op.toOp L = op.toOp L' := by
  cases op <;> first | rfl | exact absurd rfl (h _)

theorem toOp_not_save (op : OpB R) (h : ∀ t, op ≠ .save t) (L L' : Layout) : op.toOp L ≠ .save L' := by
  cases op <;> first | exact absurd rfl (h _) | (simp [OpB.toOp])

/-- one step at byte level is the step of the abstract model with the layout the values give a `save` -/
theorem stepB_step (fmt : R → List UInt8) (b : BDoc R) (op : OpB R) :
    (stepB fmt b op).1.doc = (step (params fmt b.ids) b.doc (op.toOp (layoutOf fmt op.typed b))).1 ∧
    (stepB fmt b op).2 = (step (params fmt b.ids) b.doc (op.toOp (layoutOf fmt op.typed b))).2 ∧
    (stepB fmt b op).1.ids = b.ids := by
  cases op with
  | save t =>
    simp only [stepB, OpB.toOp, step, OpB.typed]
    generalize hs : saveB fmt t b = res
    obtain ⟨b', o⟩ := res
    obtain ⟨h1, h2, _⟩ := saveB_cases fmt t b b' o hs
    rw [h1]
    cases o <;> exact ⟨rfl, rfl, h2⟩
  | _ => exact ⟨rfl, rfl, rfl⟩

/-- the bytes after one step: unchanged, or grown by the revision of a save that wrote one -/
theorem stepB_bytes (fmt : R → List UInt8) (b : BDoc R) (op : OpB R) :
    (stepB fmt b op).1.bytes = b.bytes ∨
      (∃ t i o, op = .save t ∧ saveB fmt t b = ((stepB fmt b op).1, o) ∧
        commitInfo (params fmt b.ids) (layoutOf fmt t b) b.doc = some i ∧
        (stepB fmt b op).1.bytes = b.bytes ++ revisionBytes fmt b i) := by
  cases op with
  | save t =>
    generalize hs : saveB fmt t b = res
    obtain ⟨b', o⟩ := res
    have hst : (stepB fmt b (.save t)).1 = b' := by simp only [stepB, hs]; cases o <;> rfl
    rw [hst]
    obtain ⟨_, _, h3⟩ := saveB_cases fmt t b b' o hs
    rcases h3 with ⟨i, hi, hb⟩ | ⟨_, hb⟩
    · right; exact ⟨t, i, o, rfl, hs, hi, hb⟩
    · left; exact hb
  | _ => left; rfl

theorem runB_run (fmt : R → List UInt8) : ∀ (ops : List (OpB R)) (b : BDoc R),
    (runB fmt b ops).1.doc = (run (params fmt b.ids) b.doc (liftOps fmt b ops)).1 ∧
    (runB fmt b ops).2 = (run (params fmt b.ids) b.doc (liftOps fmt b ops)).2 ∧
    (runB fmt b ops).1.ids = b.ids := by
  intro ops
  induction ops with
  | nil => intro b; exact ⟨rfl, rfl, rfl⟩
  | cons op ops ih =>
    intro b
    obtain ⟨s1, s2, s3⟩ := stepB_step fmt b op
    obtain ⟨i1, i2, i3⟩ := ih (stepB fmt b op).1
    simp only [runB, liftOps, run]
    rw [s3] at i1 i2 i3
    rw [s1] at i1 i2
    exact ⟨i1, by rw [i2, s2], i3⟩

end SaveBytes

/-! ### the limits of `SaveBytes.Bounds` follow from the base file and the size of the output -/

namespace Storage
open Xref

variable {V : Type}

def U64 : Nat := 18446744073709551616

/-- every field of the entry is below 2⁶⁴ (`Promised` is never written) -/
def FieldsOK (e : XRef) : Prop := ∀ t a b, fieldsOf e = some (t, a, b) → a < U64 ∧ b < U64

theorem byteLen_le_8 (n : Nat) (h : n < U64) : byteLen n ≤ 8 := by
  by_cases h256 : n < 256
  · rw [byteLen]; simp [h256]
  · have h1 := pow_byteLen_le n (by omega)
    apply Decidable.byContradiction
    intro hgt
    have h2 : 256 ^ 8 ≤ 256 ^ (byteLen n - 1) := Nat.pow_le_pow_right (by decide) (by omega)
    have h3 : (256 : Nat) ^ 8 = U64 := by decide
    omega

theorem maxFields_lt : ∀ (t : List XRef), (∀ e ∈ t, e = .promised ∨ FieldsOK e) →
    (maxFields t).1 < U64 ∧ (maxFields t).2 < U64 := by
  intro t
  induction t with
  | nil => intro _; simp [maxFields, U64]
  | cons e es ih =>
    intro h
    have hes := ih (fun x hx => h x (by simp [hx]))
    have he := h e (by simp)
    simp only [maxFields]
    cases e with
    | promised => exact hes
    | free n g =>
      rcases he with he | he
      · cases he
      · have := he 0 n g rfl
        simp only [fieldsOf]; exact ⟨by simp only [Nat.max_def]; split <;> omega, by simp only [Nat.max_def]; split <;> omega⟩
    | raw p g =>
      rcases he with he | he
      · cases he
      · have := he 1 p g rfl
        simp only [fieldsOf]; exact ⟨by simp only [Nat.max_def]; split <;> omega, by simp only [Nat.max_def]; split <;> omega⟩
    | stream a b =>
      rcases he with he | he
      · cases he
      · have := he 2 a b rfl
        simp only [fieldsOf]; exact ⟨by simp only [Nat.max_def]; split <;> omega, by simp only [Nat.max_def]; split <;> omega⟩
    | invalid =>
      simp only [fieldsOf]
      exact ⟨by simp only [Nat.max_def]; split <;> omega, by simp only [Nat.max_def, U64] at *; split <;> omega⟩

theorem rowOf_raw (e : XRef) (p g : Nat) (h : rowOf e = some (.raw p g)) : e = .raw p g := by
  cases e <;> simp [rowOf] at h <;> first | (obtain ⟨rfl, rfl⟩ := h; rfl) | skip

theorem gen_lt_of_fields (e : XRef) (h : FieldsOK e) : gen e < U64 := by
  cases e with
  | free n g => exact (h 0 n g rfl).2
  | raw p g => exact (h 1 p g rfl).2
  | stream a b => simp [gen, U64]
  | promised => simp [gen, U64]
  | invalid => simp [gen, U64]

/-- the cross-reference stream object is the last record of the revision -/
theorem save_objs_le (P : Params V) (L : Layout) (hL : L.Pos) (d0 d d' : Doc V) (chain0) (i : SaveInfo)
    (hb : BaseOK d0 chain0) (hi : Inv d0 d) (h : Committed P L d d'.st i) :
    ∀ o ∈ d'.st.objs, o.off ≤ d.st.start + i.xpos := by
  have pf := prep_facts d0 d chain0 hb hi
  obtain ⟨w, rows, hw, hr, hst, _, _, hxpos, _, _, _⟩ := h.spec'
  obtain ⟨k1, _, k4, _⟩ := writeChanges_ok P L _ hL.1 _ _ _ hw pf.inv.sorted pf.inv.objs_lt
  simp only at k1 k4
  have hstart : (prep d).st2.start ≤ (prep d).st2.len := by
    have := hb.start_le; have := pf.inv.start_eq; have := pf.inv.len_ge
    simp only at *; omega
  have hwl : w.len = d.st.start + i.xpos := by rw [hxpos, ← pf.start_same]; omega
  intro o ho
  rw [hst] at ho
  simp only [commit, List.mem_append, List.mem_singleton] at ho
  rcases ho with ho | rfl
  · have := k4 o ho; omega
  · simp only; omega

/-- the table a successful save leaves behind has fields below 2⁶⁴, provided the base table has and the
    file stays below 2⁶⁴ bytes -/
theorem widths_le_8 (P : Params V) (L : Layout) (hL : L.Pos) (d0 d d' : Doc V) (chain0) (i : SaveInfo)
    (hb : BaseOK d0 chain0) (hi : Inv d0 d) (h : Committed P L d d'.st i) (htr : d'.tr = d.tr)
    (hf0 : ∀ e ∈ d0.st.refs, FieldsOK e) (hlen : d.st.start + i.xpos < U64) : i.aw ≤ 8 ∧ i.bw ≤ 8 := by
  have sh := save_shape_c P L hL d0 d d' chain0 i hb hi h
  have hle := save_objs_le P L hL d0 d d' chain0 i hb hi h
  have hi' := inv_committed P L hL d0 d d' chain0 i hb hi h htr
  have hw := save_ok_widths_c P L d d' i h
  have hall : ∀ e ∈ d'.st.refs, e = .promised ∨ FieldsOK e := by
    intro e he
    obtain ⟨j, hj⟩ := List.getElem?_of_mem he
    have hjl : j < d'.st.refs.length := (List.getElem?_eq_some_iff.mp hj).1
    cases hc : chLookup d'.st.changes j with
    | none =>
      by_cases hj0 : j < d0.st.refs.length
      · have := hi'.refs_old j hj0 hc
        rw [hj] at this
        right; exact hf0 e (List.mem_of_getElem? this.symm)
      · have := hi'.refs_new j (by omega) hjl hc
        rw [hj] at this; simp only [Option.some.injEq] at this
        left; exact this
    | some x =>
      obtain ⟨v, g⟩ := x
      obtain ⟨off, h1, h2, o, ho, ho1, _, _, _⟩ := sh.pending j v g hc
      obtain ⟨r, hr1, hr2⟩ := sh.rows_of_table j e hj
      rw [h2] at hr2; simp only [Option.some.injEq] at hr2; subst hr2
      have he' := rowOf_raw e _ _ hr1
      subst he'
      have hoff : off ≤ d.st.start + i.xpos := by
        have hm : o ∈ d'.st.objs := by unfold objAt at ho; exact List.mem_of_find?_eq_some ho
        have := hle o hm; omega
      have hg : g < U64 := by
        by_cases hj0 : j < d0.st.refs.length
        · obtain ⟨e0, he0, _, hge, _⟩ := hi'.ch_old j v g hc hj0
          rw [hge]; exact gen_lt_of_fields e0 (hf0 e0 (List.mem_of_getElem? he0))
        · have := (hi'.ch_new j v g hc (by omega)).1
          rw [this]; simp [U64]
      right
      intro t a b hfe
      simp only [fieldsOf, Option.some.injEq, Prod.mk.injEq] at hfe
      obtain ⟨_, rfl, rfl⟩ := hfe
      exact ⟨by omega, hg⟩
  obtain ⟨m1, m2⟩ := maxFields_lt d'.st.refs hall
  simp only [widths] at hw
  have haw : i.aw = byteLen (maxFields d'.st.refs).1 := by have := congrArg Prod.fst hw; simpa using this
  have hbw : i.bw = byteLen (maxFields d'.st.refs).2 := by have := congrArg Prod.snd hw; simpa using this
  rw [haw, hbw]
  exact ⟨byteLen_le_8 _ m1, byteLen_le_8 _ m2⟩

end Storage

namespace Storage
open Xref

variable {V : Type}

/-- `v` is the cross-reference stream a save that wrote its revision left pending -/
def XrefLeft (P : Params V) (L : Layout) (d : Doc V) (v : V) : Prop :=
  ∃ i, v = P.xrefVal i ∧ Committed P L d (save P L d).1.st i ∧ (save P L d).1.tr = d.tr

/-- where a pending value of the state after `save` (whatever its outcome) comes from -/
theorem save_changes (P : Params V) (L : Layout) (hL : L.Pos) (d0 d : Doc V) (chain0) (hb : BaseOK d0 chain0) (hi : Inv d0 d)
    (j : Nat) (v : V) (g : Nat) (h : chLookup (save P L d).1.st.changes j = some (v, g)) :
    chLookup d.st.changes j = some (v, g) ∨ d.tr.info = some v ∨ XrefLeft P L d v := by
  have pf := prep_facts d0 d chain0 hb hi
  have hst2 : ∀ j v g, chLookup (prep d).st2.changes j = some (v, g) →
      chLookup d.st.changes j = some (v, g) ∨ d.tr.info = some v := by
    intro j v g hc
    cases hinf : (prep d).infoRef with
    | none => rw [(pf.info_none hinf).2.1] at hc; exact Or.inl hc
    | some i' =>
      obtain ⟨v', hv', _, _, hch, _⟩ := pf.info_some i' hinf
      rw [hch, chLookup_chInsert] at hc
      split at hc
      · simp only [Option.some.injEq, Prod.mk.injEq] at hc
        right; rw [hv', hc.1]
      · exact Or.inl hc
  by_cases hsz : d.st.refs.length + 2 ≤ MAX_ID
  case neg => rw [save_too_big P L d (by omega)] at h; exact Or.inl h
  have hcommit : ∀ (w : Written V) (rows : List XRef) (tr : Trailer V) (o : Out SaveInfo),
      writeChanges P L (prep d).st2.start (prep d).st2.changes ⟨(prep d).st2.refs, (prep d).st2.objs, (prep d).st2.len⟩
        = (w, .ok ()) →
      rowsOf ((w.refs.set (prep d).xid (.raw (w.len - (prep d).st2.start) 0)).take ((prep d).xid + 1)) = some rows →
      save P L d = (⟨commit P L d (prep d) w (w.refs.set (prep d).xid (.raw (w.len - (prep d).st2.start) 0)) rows, tr⟩, o) →
      tr = d.tr →
      chLookup d.st.changes j = some (v, g) ∨ d.tr.info = some v ∨ XrefLeft P L d v := by
    intro w rows tr o hw hr hs htr
    have hs0 := hs
    rw [hs] at h
    simp only [commit, chLookup_chInsert] at h
    split at h
    · simp only [Option.some.injEq, Prod.mk.injEq] at h
      refine Or.inr (Or.inr ⟨_, h.1.symm, ?_, ?_⟩)
      · rw [hs0]; exact ⟨w, rows, hw, hr, rfl, rfl, hsz⟩
      · rw [hs0]; exact htr
    · rcases hst2 j v g h with h' | h'
      · exact Or.inl h'
      · exact Or.inr (Or.inl h')
  rcases save_cases P L d0 d chain0 hb hi hsz with ⟨w, hw, hs⟩ | ⟨w, hw, hr, hs⟩ | ⟨w, rows, hw, hr, hs⟩
  · rw [hs] at h
    rcases hst2 j v g h with h' | h'
    · exact Or.inl h'
    · exact Or.inr (Or.inl h')
  · rw [hs] at h
    rcases hst2 j v g h with h' | h'
    · exact Or.inl h'
    · exact Or.inr (Or.inl h')
  · rcases hs with ⟨i, tr, hs⟩ | ⟨_, hs⟩
    · exact hcommit w rows tr _ hw hr hs (by
        have := save_tr_eq P L d0 d _ chain0 i hb hi hs
        exact this)
    · exact hcommit w rows _ _ hw hr hs rfl

/-- where a pending value of the state after one operation comes from -/
theorem step_changes (P : Params V) (d0 d : Doc V) (chain0) (hb : BaseOK d0 chain0) (hi : Inv d0 d) (op : Op V)
    (hop : OpOK op) (j : Nat) (v : V) (g : Nat) (h : chLookup (step P d op).1.st.changes j = some (v, g)) :
    chLookup d.st.changes j = some (v, g) ∨ op = .create v ∨ (∃ id, op = .update id v) ∨ (∃ id, op = .fulfil id v) ∨
      (∃ L, op = .save L ∧ (d.tr.info = some v ∨ XrefLeft P L d v)) := by
  have hupd : ∀ id w, chLookup (update d.st id w).1.changes j = some (v, g) →
      chLookup d.st.changes j = some (v, g) ∨ w = v := by
    intro id w hu
    unfold update at hu
    cases hr : d.st.refs[id]? with
    | none => simp only [hr] at hu; exact Or.inl hu
    | some e =>
      simp only [hr] at hu
      cases e <;> simp only [chLookup_chInsert] at hu <;>
        first
          | exact Or.inl hu
          | (split at hu
             · simp only [Option.some.injEq, Prod.mk.injEq] at hu; exact Or.inr hu.1
             · exact Or.inl hu)
  cases op with
  | create w =>
    simp only [step, create, alloc, chLookup_chInsert] at h
    split at h
    · simp only [Option.some.injEq, Prod.mk.injEq] at h
      right; left; rw [h.1]
    · exact Or.inl h
  | promise => simp only [step, promise, alloc] at h; exact Or.inl h
  | update id w =>
    have hh : chLookup (update d.st id w).1.changes j = some (v, g) := by
      simp only [step] at h
      generalize hu : update d.st id w = r at h
      obtain ⟨s, o⟩ := r
      cases o <;> exact h
    rcases hupd id w hh with h' | h'
    · exact Or.inl h'
    · right; right; left; exact ⟨id, by rw [h']⟩
  | fulfil id w =>
    have hh : chLookup (update d.st id w).1.changes j = some (v, g) := by
      simp only [step] at h
      generalize hu : update d.st id w = r at h
      obtain ⟨s, o⟩ := r
      cases o <;> exact h
    rcases hupd id w hh with h' | h'
    · exact Or.inl h'
    · right; right; right; left; exact ⟨id, by rw [h']⟩
  | get id =>
    simp only [step, get] at h
    left
    split at h
    · split at h <;> exact h
    · exact h
  | resolve id => exact Or.inl h
  | save L =>
    have hh : chLookup (save P L d).1.st.changes j = some (v, g) := by
      simp only [step] at h
      generalize hu : save P L d = r at h
      obtain ⟨s, o⟩ := r
      cases o <;> exact h
    rcases save_changes P L hop d0 d chain0 hb hi j v g hh with h' | h'
    · exact Or.inl h'
    · exact Or.inr (Or.inr (Or.inr (Or.inr ⟨L, rfl, h'⟩)))

end Storage

namespace RepBytes
open Storage PdfLex Xref OpenBytes SaveBytes
open PdfSyntax (WF WFE keysOf vdepth vdepthE)

variable {R : Type}

/-- what the byte-level theorems ask of the base document beyond `BaseOK` and `Rep` -/
structure BaseVals (fmt : R → List UInt8) (pr : List UInt8 → Option R) (d0 : Doc (Prim R)) : Prop where
  info : ∀ v, d0.tr.info = some v → OKVal fmt pr v
  prev : ∀ p, d0.tr.prev = some p → p ≤ 2147483647
  root : d0.tr.root.1 ≤ 18446744073709551615 ∧ d0.tr.root.2 ≤ 18446744073709551615
  fields : ∀ e ∈ d0.st.refs, FieldsOK e

/-- the limits under which the cross-reference stream object is proved to round-trip hold for every
    revision written to a file that stays below 2³¹ bytes -/
theorem bounds_of_save (fmt : R → List UInt8) (pr : List UInt8 → Option R) (P : Params (Prim R)) (L : Layout) (hL : L.Pos)
    (d0 d d' : Doc (Prim R)) (chain0) (i : SaveInfo) (hb : BaseOK d0 chain0) (hi : Inv d0 d)
    (h : Committed P L d d'.st i) (htr : d'.tr = d.tr) (hv : BaseVals fmt pr d0) (hlen : d.st.start + i.xpos ≤ fileMax) :
    Bounds d.tr (prep d).infoRef i := by
  have pf := prep_facts d0 d chain0 hb hi
  have sh := save_shape_c P L hL d0 d d' chain0 i hb hi h
  obtain ⟨_, _, _, _, _, _, _, _, hsize, _, hmax⟩ := h.spec'
  obtain ⟨ha, hbw⟩ := widths_le_8 P L hL d0 d d' chain0 i hb hi h htr hv.fields (by unfold fileMax at hlen; unfold Storage.U64; omega)
  have hsz : i.size ≤ 1000000 := by rw [hsize, pf.size_eq]; unfold MAX_ID at hmax; exact hmax
  refine ⟨ha, hbw, by have := sh.rows_len; omega, hsz, ?_, ?_, ?_⟩
  · rw [hi.tr_eq]; exact hv.prev
  · rw [hi.tr_eq]; exact hv.root
  · intro j hj
    obtain ⟨_, _, _, hjj, _⟩ := pf.info_some j hj
    unfold MAX_ID at hmax; omega

theorem Rep.of_same {P : Offsets.Parsers (Prim R) (Dict R)} {bytes : List UInt8} {st st' : St (Prim R)}
    (h : Rep P bytes st) (hs : SameBackend st st') : Rep P bytes st' := by
  obtain ⟨h1, h2, h3, h4, h5⟩ := hs
  exact ⟨by rw [h3]; exact h.len, h.small, by rw [h4]; exact h.header, by rw [h5, h2]; exact h.xref,
    by rw [h1]; exact h.objs, by rw [h2]; exact h.secs⟩

/-- the invariant of byte-level histories -/
structure HInv (fmt : R → List UInt8) (env : Env R) (pfuel : Nat) (dec : Dict R → List UInt8 → Out (List UInt8))
    (b0 b : BDoc R) : Prop where
  inv : Inv b0.doc b.doc
  rep : Rep (parsers env pfuel dec) b.bytes b.doc.st
  ch : ∀ j v g, chLookup b.doc.st.changes j = some (v, g) → OKVal fmt env.parseReal v
  ids : b.ids = b0.ids

/-- what is asked of one operation: the values written are within the limits of the round-trip theorems. Nothing is
    asked of a `save`: it may succeed, fail before anything is written, or fail after its revision was appended. -/
def GoodOp (fmt : R → List UInt8) (pr : List UInt8 → Option R) (_b : BDoc R) : OpB R → Prop
  | .create v => OKVal fmt pr v
  | .update _ v => OKVal fmt pr v
  | .fulfil _ v => OKVal fmt pr v
  | _ => True

def GoodHist (fmt : R → List UInt8) (pr : List UInt8 → Option R) : BDoc R → List (OpB R) → Prop
  | _, [] => True
  | b, op :: ops => GoodOp fmt pr b op ∧ GoodHist fmt pr (stepB fmt b op).1 ops

theorem okVal_xrefStream (fmt : R → List UInt8) (pr : List UInt8 → Option R) (tr : Trailer (Prim R)) (infoRef : Option Nat)
    (i : SaveInfo) (hb : Bounds tr infoRef i) : OKVal fmt pr (xrefStreamVal i) := by
  obtain ⟨a1, a2, a3, a4⟩ := xrefInfoDict_props fmt pr tr infoRef i hb
  exact .stream _ _ a1 a2 a3 (by simp [xrefInfoDict, dictGet, SaveBytes.kType, SaveBytes.kSize, SaveBytes.kIndex, SaveBytes.kW, kwLength])
    (by unfold maxDepth; omega)

/-- the pending values at the moment `save` starts writing are the pending values plus the info dictionary,
    under numbers and generations below 2⁶⁴ -/
theorem prep_vals (fmt : R → List UInt8) (env : Env R) (pfuel : Nat) (dec : Dict R → List UInt8 → Out (List UInt8))
    (b0 b : BDoc R) (chain0) (hb : BaseOK b0.doc chain0) (hv : BaseVals fmt env.parseReal b0.doc)
    (h : HInv fmt env pfuel dec b0 b) (hsz : b.doc.st.refs.length + 2 ≤ MAX_ID) :
    ∀ c ∈ (prep b.doc).st2.changes, OKVal fmt env.parseReal c.2.1 ∧ c.1 ≤ 18446744073709551615 ∧
      c.2.2 ≤ 18446744073709551615 := by
  have pf := prep_facts b0.doc b.doc chain0 hb h.inv
  intro c hc
  obtain ⟨j, v, g⟩ := c
  have hl := chLookup_of_mem_sorted _ pf.inv.sorted _ hc
  simp only at hl ⊢
  have hjlt := pf.inv.ch_lt j (v, g) hl
  simp only at hjlt
  refine ⟨?_, by have := pf.len_eq; have := pf.xid_le; unfold MAX_ID at hsz; omega, ?_⟩
  · cases hinf : (prep b.doc).infoRef with
    | none => rw [(pf.info_none hinf).2.1] at hl; exact h.ch j v g hl
    | some i' =>
      obtain ⟨v', hv', _, _, hch, _⟩ := pf.info_some i' hinf
      rw [hch, chLookup_chInsert] at hl
      split at hl
      · simp only [Option.some.injEq, Prod.mk.injEq] at hl
        rw [← hl.1]; exact hv.info v' (by rw [← h.inv.tr_eq]; exact hv')
      · exact h.ch j v g hl
  · by_cases hj0 : j < b0.doc.st.refs.length
    · obtain ⟨e0, he0, _, hge, _⟩ := pf.inv.ch_old j v g hl hj0
      have := gen_lt_of_fields e0 (hv.fields e0 (List.mem_of_getElem? he0))
      unfold Storage.U64 at this; omega
    · have := (pf.inv.ch_new j v g hl (by omega)).1
      omega

/-- **one step keeps the invariant**: the bytes represent the abstract state, the pending values stay within
    the limits -/
theorem hinv_stepB (fmt : R → List UInt8) (env : Env R) (hd : env.decrypt = none) (pfuel : Nat)
    (dec : Dict R → List UInt8 → Out (List UInt8)) (hdec : NoFilter dec) (b0 b : BDoc R) (chain0)
    (hb : BaseOK b0.doc chain0) (hv : BaseVals fmt env.parseReal b0.doc) (h : HInv fmt env pfuel dec b0 b)
    (op : OpB R) (hg : GoodOp fmt env.parseReal b op)
    (hsmall : (stepB fmt b op).1.bytes.length ≤ fileMax) (hpf : 3 * (stepB fmt b op).1.bytes.length ≤ pfuel) :
    HInv fmt env pfuel dec b0 (stepB fmt b op).1 := by
  obtain ⟨s1, s2, s3⟩ := stepB_step fmt b op
  have hLpos := layoutOf_pos fmt op.typed b
  have hopok : OpOK (op.toOp (layoutOf fmt op.typed b)) := by cases op <;> first | trivial | exact hLpos
  have hinv' : Inv b0.doc (stepB fmt b op).1.doc := by
    rw [s1]; exact step_inv _ b0.doc b.doc chain0 hb h.inv _ hopok
  -- a save that wrote its revision: the facts about the bytes
  have hcommitted : ∀ t i, op = .save t →
      Committed (params fmt b.ids) (layoutOf fmt t b) b.doc (save (params fmt b.ids) (layoutOf fmt t b) b.doc).1.st i →
      CommittedB fmt t b (stepB fmt b op).1 i ∧ Bounds b.doc.tr (prep b.doc).infoRef i := by
    intro t i hop hc
    subst hop
    generalize hs : saveB fmt t b = res
    obtain ⟨b', o⟩ := res
    have hst : (stepB fmt b (.save t)).1 = b' := by simp only [stepB, hs]; cases o <;> rfl
    rw [hst] at hinv' ⊢
    obtain ⟨e1, e2, e3⟩ := saveB_cases fmt t b b' o hs
    rw [e1] at hc
    have hci := commitInfo_of_committed _ _ _ _ _ hc
    have hcb : CommittedB fmt t b b' i := by
      refine ⟨hc, e2, ?_⟩
      rcases e3 with ⟨i', hi', hb'⟩ | ⟨hn, _⟩
      · rw [hci] at hi'; cases hi'; exact hb'
      · rw [hci] at hn; cases hn
    have bk := saveB_backend fmt b0.doc chain0 b b' i hb h.inv h.rep.len t hcb
    have htr : b'.doc.tr = b.doc.tr := by rw [hinv'.tr_eq, h.inv.tr_eq]
    refine ⟨hcb, bounds_of_save fmt env.parseReal _ _ (layoutOf_pos fmt t b) b0.doc b.doc b'.doc chain0 i hb h.inv hc htr hv ?_⟩
    have := bk.xpos_le
    rw [hst] at hsmall
    omega
  have hch' : ∀ j v g, chLookup (stepB fmt b op).1.doc.st.changes j = some (v, g) → OKVal fmt env.parseReal v := by
    intro j v g hc
    rw [s1] at hc
    rcases step_changes _ b0.doc b.doc chain0 hb h.inv _ hopok j v g hc with h' | h' | ⟨id, h'⟩ | ⟨id, h'⟩ | ⟨L, h', h''⟩
    · exact h.ch j v g h'
    · cases op <;> simp [OpB.toOp] at h' <;> (subst h'; exact hg)
    · cases op <;> simp [OpB.toOp] at h' <;> (obtain ⟨_, rfl⟩ := h'; exact hg)
    · cases op <;> simp [OpB.toOp] at h' <;> (obtain ⟨_, rfl⟩ := h'; exact hg)
    · rcases h'' with h'' | ⟨i, rfl, h'', _⟩
      · exact hv.info v (by rw [← h.inv.tr_eq]; exact h'')
      · cases op <;> simp [OpB.toOp] at h'
        rename_i t
        subst h'
        simp only [OpB.typed] at h''
        exact okVal_xrefStream fmt env.parseReal _ _ i (hcommitted t i rfl h'').2
  refine ⟨hinv', ?_, hch', by rw [s3]; exact h.ids⟩
  cases op with
  | save t =>
    cases hci : commitInfo (params fmt b.ids) (layoutOf fmt t b) b.doc with
    | some i =>
      obtain ⟨hc, _⟩ := commitInfo_some _ _ b0.doc b.doc chain0 hb h.inv i hci
      obtain ⟨hcb, hbd⟩ := hcommitted t i rfl hc
      obtain ⟨_, _, _, _, _, _, _, _, _, _, hmax⟩ := hc.spec'
      exact rep_saveB fmt env hd pfuel dec hdec b0.doc chain0 b _ i hb h.inv h.rep t hcb hbd
        (prep_vals fmt env pfuel dec b0 b chain0 hb hv h hmax) hsmall hpf
    | none =>
      have hbk := save_backend _ _ b0.doc b.doc chain0 hb h.inv hci
      have hbytes : (stepB fmt b (.save t)).1.bytes = b.bytes := by
        rcases stepB_bytes fmt b (.save t) with hbt | ⟨t', i, o, ht, _, hi, _⟩
        · exact hbt
        · cases ht; rw [hci] at hi; cases hi
      simp only [OpB.toOp, OpB.typed, step] at s1
      have hdoc : (stepB fmt b (.save t)).1.doc.st = (save (params fmt b.ids) (layoutOf fmt t b) b.doc).1.st := by
        rw [s1]
        generalize save (params fmt b.ids) (layoutOf fmt t b) b.doc = r
        obtain ⟨d', o⟩ := r
        cases o <;> rfl
      rw [hbytes, hdoc]; exact h.rep.of_same hbk
  | create v =>
    exact h.rep.of_same (step_backend (params fmt b.ids) b.doc (.create v) (fun L => by simp))
  | update id v =>
    exact h.rep.of_same (step_backend (params fmt b.ids) b.doc (.update id v) (fun L => by simp))
  | promise =>
    exact h.rep.of_same (step_backend (params fmt b.ids) b.doc .promise (fun L => by simp))
  | fulfil id v =>
    exact h.rep.of_same (step_backend (params fmt b.ids) b.doc (.fulfil id v) (fun L => by simp))
  | get id =>
    exact h.rep.of_same (step_backend (params fmt b.ids) b.doc (.get id) (fun L => by simp))
  | resolve id =>
    exact h.rep.of_same (step_backend (params fmt b.ids) b.doc (.resolve id) (fun L => by simp))

theorem stepB_bytes_mono (fmt : R → List UInt8) (b : BDoc R) (op : OpB R) :
    b.bytes.length ≤ (stepB fmt b op).1.bytes.length := by
  rcases stepB_bytes fmt b op with h | ⟨_, _, _, _, _, _, h⟩
  · rw [h]; exact Nat.le_refl _
  · rw [h]; simp

theorem runB_bytes_mono (fmt : R → List UInt8) : ∀ (ops : List (OpB R)) (b : BDoc R),
    b.bytes.length ≤ (runB fmt b ops).1.bytes.length := by
  intro ops
  induction ops with
  | nil => intro b; exact Nat.le_refl _
  | cons op ops ih =>
    intro b
    simp only [runB]
    exact Nat.le_trans (stepB_bytes_mono fmt b op) (ih _)

/-- **a history keeps the invariant** -/
theorem hinv_runB (fmt : R → List UInt8) (env : Env R) (hd : env.decrypt = none) (pfuel : Nat)
    (dec : Dict R → List UInt8 → Out (List UInt8)) (hdec : NoFilter dec) (b0 : BDoc R) (chain0)
    (hb : BaseOK b0.doc chain0) (hv : BaseVals fmt env.parseReal b0.doc) :
    ∀ (ops : List (OpB R)) (b : BDoc R), HInv fmt env pfuel dec b0 b → GoodHist fmt env.parseReal b ops →
      (runB fmt b ops).1.bytes.length ≤ fileMax → 3 * (runB fmt b ops).1.bytes.length ≤ pfuel →
      HInv fmt env pfuel dec b0 (runB fmt b ops).1 := by
  intro ops
  induction ops with
  | nil => intro b h _ _ _; exact h
  | cons op ops ih =>
    intro b h hg hsmall hpf
    simp only [runB] at hsmall hpf ⊢
    have hm := runB_bytes_mono fmt ops (stepB fmt b op).1
    exact ih _ (hinv_stepB fmt env hd pfuel dec hdec b0 b chain0 hb hv h op hg.1 (by omega) (by omega)) hg.2 hsmall hpf

theorem hinv_base (fmt : R → List UInt8) (env : Env R) (pfuel : Nat) (dec : Dict R → List UInt8 → Out (List UInt8))
    (b0 : BDoc R) (chain0) (hb : BaseOK b0.doc chain0) (hrep : Rep (parsers env pfuel dec) b0.bytes b0.doc.st) :
    HInv fmt env pfuel dec b0 b0 :=
  ⟨inv_base b0.doc chain0 hb, hrep, by intro j v g hc; rw [hb.changes_nil] at hc; simp [chLookup] at hc, rfl⟩

/-- every operation of the lifted history is admissible for the abstract theorems -/
theorem liftOps_ok (fmt : R → List UInt8) : ∀ (ops : List (OpB R)) (b : BDoc R), ∀ op ∈ liftOps fmt b ops, OpOK op := by
  intro ops
  induction ops with
  | nil => intro b op h; simp [liftOps] at h
  | cons o ops ih =>
    intro b op h
    simp only [liftOps, List.mem_cons] at h
    rcases h with rfl | h
    · cases o <;> first | trivial | exact layoutOf_pos fmt _ b
    · exact ih _ op h

end RepBytes
