import PdfModel.Model.ParserCursor
import PdfModel.Lemmas.TotalLexer
import PdfModel.Lemmas.TotalParser

/-! `Model/ParserCursor` refines `Model/Parser` (same outcomes), the cursor stays inside the buffer, rests at the
    returned position after `Ok`, and is put back to where the call started after `Err` of `parse_with_lexer_ctx`. -/

namespace PdfLex

variable {R : Type}

/-- `x` (with cursor) tracks `y`: same outcome; after `Err` the cursor is inside the buffer; after `Ok` it is the
    returned position, which is inside the buffer -/
def Tracks {α : Type} (buf : Buf) (x : Cur (α × Nat)) (y : Out (α × Nat)) : Prop :=
  x.1 = y ∧ (y = .err → x.2 ≤ buf.size) ∧ (∀ a, y = .ok a → x.2 = a.2 ∧ a.2 ≤ buf.size)

theorem tracks_err {α : Type} (buf : Buf) (c : Nat) (h : c ≤ buf.size) : Tracks (α := α) buf (.err, c) .err := by
  simp [Tracks, h]

theorem tracks_ok {α : Type} (buf : Buf) (v : α) (p : Nat) (h : p ≤ buf.size) : Tracks buf (.ok (v, p), p) (.ok (v, p)) := by
  refine ⟨rfl, by simp, ?_⟩
  intro a e; cases e; exact ⟨rfl, h⟩

theorem tracks_panic {α : Type} (buf : Buf) (c : Nat) : Tracks (α := α) buf (.panic, c) .panic := by
  simp [Tracks]

theorem tracks_oof {α : Type} (buf : Buf) (c : Nat) : Tracks (α := α) buf (.oof, c) .oof := by
  simp [Tracks]

/-- a lexer-free step (`check`, `decode_name`, `f32::from_str`, …) in front of a tracked computation -/
theorem tracks_pure_bind {α β : Type} (buf : Buf) (o : Out β) (c : Nat) (hc : c ≤ buf.size)
    (f : β → Nat → Cur (α × Nat)) (g : β → Out (α × Nat)) (h : ∀ b, o = .ok b → Tracks buf (f b c) (g b)) :
    Tracks buf ((Cur.pure' o c).bind f) (o.bind g) := by
  cases o with
  | ok b => exact h b rfl
  | err => exact tracks_err buf c hc
  | panic => exact tracks_panic buf c
  | oof => exact tracks_oof buf c

theorem nextC_cases (buf : Buf) (cur : Nat) (h : cur ≤ buf.size) :
    (next buf cur = .err ∧ nextC buf cur = (.err, cur)) ∨
    ∃ w, next buf cur = .ok w ∧ nextC buf cur = (.ok w, w.2) ∧ cur < w.2 ∧ w.2 ≤ buf.size := by
  rcases next_spec buf cur h with he | ⟨w, hw, h1, h2, h3⟩
  · left; exact ⟨he, by simp [nextC, he]⟩
  · right; exact ⟨w, hw, by simp [nextC, hw], by omega, h3⟩

theorem cur_bind_ok {α β : Type} (a : α) (c : Nat) (f : α → Nat → Cur β) : Cur.bind (Out.ok a, c) f = f a c := rfl
theorem cur_bind_err {α β : Type} (c : Nat) (f : α → Nat → Cur β) : Cur.bind ((Out.err : Out α), c) f = (.err, c) := rfl
theorem cur_bind_panic {α β : Type} (c : Nat) (f : α → Nat → Cur β) : Cur.bind ((Out.panic : Out α), c) f = (.panic, c) := rfl
theorem cur_bind_oof {α β : Type} (c : Nat) (f : α → Nat → Cur β) : Cur.bind ((Out.oof : Out α), c) f = (.oof, c) := rfl

theorem streamBodyC_tracks (env : Env R) (buf : Buf) (p : Nat) (hp2 : p ≤ buf.size) (dict : Dict R) (id : Nat × Nat) (n : Nat) :
    Tracks buf (streamBodyC env buf p dict id n)
      ((readN buf p n).bind fun (sub, pos) =>
        if sub.2 - sub.1 != n then .err else
        (nextExpect buf pos kwEndstream).bind fun pos =>
        .ok (.stream dict (.inFile id.1 id.2 (env.fileOffset + sub.1) (env.fileOffset + sub.1 + (sub.2 - sub.1))), pos)) := by
  unfold streamBodyC
  obtain ⟨s, q, hr, hs1, hs2, hq⟩ := readN_total buf p n hp2
  have e : readNC buf p n = (.ok (s, q), q) := by simp [readNC, hr]
  rw [e, hr]
  simp only [cur_bind_ok, Out.bind_ok]
  by_cases hl : (s.2 - s.1 != n) = true
  · simp only [hl, if_true]; exact tracks_err buf q hq
  · simp only [hl, Bool.false_eq_true, if_false]
    rcases nextC_cases buf q hq with ⟨he, hc⟩ | ⟨w, hw, hc, hw1, hw2⟩
    · simp only [nextExpectC, nextExpect, hc, he, cur_bind_err, Out.bind_err]; exact tracks_err buf q hq
    · simp only [nextExpectC, nextExpect, hc, hw, cur_bind_ok, Out.bind_ok]
      by_cases he : (slice buf w.1 w.2 == kwEndstream) = true
      · simp only [he, if_true, cur_bind_ok, Out.bind_ok]; exact tracks_ok buf _ _ hw2
      · simp only [he, Bool.false_eq_true, if_false, cur_bind_err, Out.bind_err]; exact tracks_err buf _ hw2

theorem parseStreamObjectC_tracks (env : Env R) (buf : Buf) (pos : Nat) (h : pos ≤ buf.size) (dict : Dict R)
    (id : Nat × Nat) :
    Tracks buf (parseStreamObjectC env buf pos dict id) (parseStreamObject env buf pos dict id) := by
  unfold parseStreamObjectC parseStreamObject
  rcases nextStream_cases buf pos h with he | ⟨p, hp, hp1, hp2⟩
  · have e : nextStreamC buf pos = (.err, pos) := by simp [nextStreamC, he]
    rw [e, he]; simp only [cur_bind_err, Out.bind_err]; exact tracks_err buf pos h
  · have e : nextStreamC buf pos = (.ok p, p) := by simp [nextStreamC, hp]
    rw [e, hp]; simp only [cur_bind_ok, Out.bind_ok]
    have key : ∀ (o : Out Nat), Tracks buf ((Cur.pure' o p).bind fun length _ => streamBodyC env buf p dict id length)
        (o.bind fun n => (readN buf p n).bind fun (sub, pos) =>
          if sub.2 - sub.1 != n then .err else
          (nextExpect buf pos kwEndstream).bind fun pos =>
          .ok (.stream dict (.inFile id.1 id.2 (env.fileOffset + sub.1) (env.fileOffset + sub.1 + (sub.2 - sub.1))), pos)) := by
      intro o
      exact tracks_pure_bind buf o p hp2 _ _ (fun n _ => streamBodyC_tracks env buf p hp2 dict id n)
    cases hd : dictGet dict kwLength with
    | none => exact key .err
    | some v =>
      cases v with
      | int n => exact key _
      | ref i g => exact key _
      | null => exact key .err
      | real r => exact key .err
      | bool b => exact key .err
      | str s => exact key .err
      | stream a b => exact key .err
      | dict d => exact key .err
      | arr xs => exact key .err
      | name s => exact key .err


theorem parseIntOrRefC_tracks (buf : Buf) (posBk : Nat) (first : List UInt8) (flags : Nat) (h : posBk ≤ buf.size) :
    Tracks buf (parseIntOrRefC (R := R) buf posBk first flags) (parseIntOrRef (R := R) buf posBk first flags) := by
  unfold parseIntOrRefC parseIntOrRef
  apply tracks_pure_bind buf _ posBk h
  intro _ _
  obtain ⟨la, cur, hla, c1, c2, c3⟩ := refLookahead_spec buf posBk h
  rw [hla]; simp only [Out.bind_ok]
  have asInt : Tracks buf
      ((Cur.pure' (check flags Flags.integer) cur).bind fun _ c =>
        (setPosC buf c posBk).bind fun p c =>
        match parseI32 first with
        | some i => (Out.ok ((.int i : Prim R), p), c)
        | none => (.err, c))
      ((check flags Flags.integer).bind fun _ => (setPos buf cur posBk).bind fun p =>
        match parseI32 first with
        | some i => Out.ok ((.int i : Prim R), p)
        | none => .err) := by
    apply tracks_pure_bind buf _ cur c2
    intro _ _
    have hmin : min posBk buf.size = posBk := by omega
    have e1 : setPos buf cur posBk = .ok posBk := by rw [setPos_spec buf cur posBk c2, hmin]
    have e2 : setPosC buf cur posBk = (.ok posBk, posBk) := by simp [setPosC, e1]
    rw [e1, e2]; simp only [cur_bind_ok, Out.bind_ok]
    cases parseI32 first with
    | none => exact tracks_err buf posBk h
    | some i => exact tracks_ok buf _ _ h
  cases la with
  | none => exact asInt
  | some ww =>
    obtain ⟨w2, w3⟩ := ww
    simp only []
    have hc3 := c3 w2 w3 rfl
    by_cases hr : (slice buf w3.1 w3.2 == [82]) = true
    · simp only [hr, if_true]
      apply tracks_pure_bind buf _ cur c2
      intro _ _
      cases parseU64 first with
      | none => exact tracks_err buf cur c2
      | some i =>
        simp only []
        cases parseU64 (slice buf w2.1 w2.2) with
        | none => exact tracks_err buf cur c2
        | some g =>
          simp only []
          rw [hc3.1]
          exact tracks_ok buf _ _ c2
    · simp only [hr, Bool.false_eq_true, if_false]
      exact asInt


theorem tracks_bind {α β : Type} (buf : Buf) {x : Cur (α × Nat)} {y : Out (α × Nat)} (hx : Tracks buf x y)
    (f : α × Nat → Nat → Cur (β × Nat)) (g : α × Nat → Out (β × Nat))
    (hf : ∀ a, y = .ok a → Tracks buf (f a a.2) (g a)) : Tracks buf (x.bind f) (y.bind g) := by
  obtain ⟨x1, x2⟩ := x
  obtain ⟨h1, h2, h3⟩ := hx
  simp only at h1; subst h1
  cases x1 with
  | ok a =>
    obtain ⟨e, _⟩ := h3 a rfl
    simp only at e; subst e
    exact hf a rfl
  | err => exact tracks_err buf x2 (h2 rfl)
  | panic => exact tracks_panic buf x2
  | oof => exact tracks_oof buf x2

/-- the four refinement statements for one amount of fuel -/
def TracksAt (env : Env R) (buf : Buf) (fuel : Nat) : Prop :=
  (∀ pos ctx flags depth, pos ≤ buf.size →
      Tracks buf (parseCtxC env buf fuel pos ctx flags depth) (parseCtx env buf fuel pos ctx flags depth)) ∧
  (∀ pos ctx flags depth, pos ≤ buf.size →
      Tracks buf (parseInnerC env buf fuel pos ctx flags depth) (parseInner env buf fuel pos ctx flags depth)) ∧
  (∀ pos ctx depth acc, pos ≤ buf.size →
      Tracks buf (parseArrayC env buf fuel pos ctx depth acc) (parseArray env buf fuel pos ctx depth acc)) ∧
  (∀ pos ctx depth acc, pos ≤ buf.size →
      Tracks buf (parseDictC env buf fuel pos ctx depth acc) (parseDict env buf fuel pos ctx depth acc))

theorem tracksAt_zero (env : Env R) (buf : Buf) : TracksAt env buf 0 := by
  refine ⟨?_, ?_, ?_, ?_⟩ <;> intros <;> simp only [parseCtxC, parseCtx, parseInnerC, parseInner, parseArrayC, parseArray,
    parseDictC, parseDict] <;> exact tracks_oof buf _

theorem parseCtxC_step (env : Env R) (buf : Buf) (fuel : Nat) (ih : TracksAt env buf fuel) (pos : Nat)
    (ctx : Option (Nat × Nat)) (flags depth : Nat) (h : pos ≤ buf.size) :
    Tracks buf (parseCtxC env buf (fuel + 1) pos ctx flags depth) (parseCtx env buf (fuel + 1) pos ctx flags depth) := by
  have hin := ih.2.1 pos ctx flags depth h
  simp only [parseCtxC, parseCtx]
  rcases hx : parseInnerC env buf fuel pos ctx flags depth with ⟨o, c⟩
  rw [hx] at hin
  obtain ⟨h1, h2, h3⟩ := hin
  simp only at h1
  rw [← h1]
  cases o with
  | ok r => rw [← h1] at h3; exact ⟨rfl, by simp, h3⟩
  | err =>
    have hc : c ≤ buf.size := h2 h1.symm
    have hmin : min pos buf.size = pos := by omega
    have e1 : setPos buf c pos = .ok pos := by rw [setPos_spec buf c pos hc, hmin]
    have e2 : setPos buf pos pos = .ok pos := by rw [setPos_spec buf pos pos h, hmin]
    simp only [setPosC, e1, e2, cur_bind_ok, Out.bind_ok]
    exact tracks_err buf pos h
  | panic => exact tracks_panic buf c
  | oof => exact tracks_oof buf c

theorem parseArrayC_step (env : Env R) (buf : Buf) (fuel : Nat) (ih : TracksAt env buf fuel) (pos : Nat)
    (ctx : Option (Nat × Nat)) (depth : Nat) (acc : List (Prim R)) (h : pos ≤ buf.size) :
    Tracks buf (parseArrayC env buf (fuel + 1) pos ctx depth acc) (parseArray env buf (fuel + 1) pos ctx depth acc) := by
  simp only [parseArrayC, parseArray]
  obtain ⟨pk, hpk, _, _, _⟩ := peek_spec buf pos h
  simp only [peekC, hpk, cur_bind_ok, Out.bind_ok]
  by_cases hc : (slice buf pk.1 pk.2 == [93]) = true
  · simp only [hc, if_true]
    rcases nextC_cases buf pos h with ⟨he, hcn⟩ | ⟨w, hw, hcn, hw1, hw2⟩
    · rw [hcn, he]; simp only [cur_bind_err, Out.bind_err]; exact tracks_err buf pos h
    · rw [hcn, hw]; simp only [cur_bind_ok, Out.bind_ok]; exact tracks_ok buf _ _ hw2
  · simp only [hc, Bool.false_eq_true, if_false]
    apply tracks_bind buf (ih.1 pos ctx Flags.any depth h)
    intro a ha
    have hb := ((ih.1 pos ctx Flags.any depth h).2.2 a ha).2
    exact ih.2.2.1 a.2 ctx depth (a.1 :: acc) hb

theorem parseDictC_step (env : Env R) (buf : Buf) (fuel : Nat) (ih : TracksAt env buf fuel) (pos : Nat)
    (ctx : Option (Nat × Nat)) (depth : Nat) (acc : Dict R) (h : pos ≤ buf.size) :
    Tracks buf (parseDictC env buf (fuel + 1) pos ctx depth acc) (parseDict env buf (fuel + 1) pos ctx depth acc) := by
  simp only [parseDictC, parseDict]
  rcases nextC_cases buf pos h with ⟨he, hcn⟩ | ⟨w, hw, hcn, hw1, hw2⟩
  · rw [hcn, he]; simp only [cur_bind_err, Out.bind_err]; exact tracks_err buf pos h
  · rw [hcn, hw]; simp only [cur_bind_ok, Out.bind_ok]
    by_cases hk : ((slice buf w.1 w.2).head? == some 47) = true
    · simp only [hk, if_true]
      apply tracks_pure_bind buf _ w.2 hw2
      intro key _
      apply tracks_bind buf (ih.1 w.2 ctx Flags.any depth hw2)
      intro a ha
      have hb := ((ih.1 w.2 ctx Flags.any depth hw2).2.2 a ha).2
      exact ih.2.2.2 a.2 ctx depth (dictInsert acc key a.1) hb
    · simp only [hk, Bool.false_eq_true, if_false]
      by_cases he : (slice buf w.1 w.2 == [62, 62]) = true
      · simp only [he, if_true]; exact tracks_ok buf _ _ hw2
      · simp only [he, Bool.false_eq_true, if_false]; exact tracks_err buf _ hw2


theorem parseInnerC_step (env : Env R) (buf : Buf) (fuel : Nat) (ih : TracksAt env buf fuel) (pos : Nat)
    (ctx : Option (Nat × Nat)) (flags depth : Nat) (h : pos ≤ buf.size) :
    Tracks buf (parseInnerC env buf (fuel + 1) pos ctx flags depth) (parseInner env buf (fuel + 1) pos ctx flags depth) := by
  simp only [parseInnerC, parseInner]
  rw [remainingStart_spec buf pos h]
  simp only [Cur.pure', cur_bind_ok, Out.bind_ok]
  rcases nextC_cases buf pos h with ⟨he, hcn⟩ | ⟨w, hw, hcn, hw1, hw2⟩
  · rw [hcn, he]; simp only [cur_bind_err, Out.bind_err]; exact tracks_err buf pos h
  rw [hcn, hw]; simp only [cur_bind_ok, Out.bind_ok]
  by_cases c1 : (slice buf w.1 w.2 == [60, 60]) = true
  · simp only [c1, if_true]
    apply tracks_pure_bind buf _ w.2 hw2
    intro _ _
    by_cases hd : (depth == 0) = true
    · simp only [hd, if_true]; exact tracks_err buf _ hw2
    · simp only [hd, Bool.false_eq_true, if_false]
      apply tracks_bind buf (ih.2.2.2 w.2 ctx (depth - 1) [] hw2)
      intro a ha
      have hb := ((ih.2.2.2 w.2 ctx (depth - 1) [] hw2).2.2 a ha).2
      obtain ⟨pk, hpk, _, _, _⟩ := peek_spec buf a.2 hb
      simp only [peekC, hpk, cur_bind_ok, Out.bind_ok]
      by_cases hs : (slice buf pk.1 pk.2 == kwStream) = true
      · simp only [hs, if_true]
        cases ctx with
        | none => exact tracks_err buf _ hb
        | some id => exact parseStreamObjectC_tracks env buf a.2 hb a.1 id
      · simp only [hs, Bool.false_eq_true, if_false]; exact tracks_ok buf _ _ hb
  simp only [c1, Bool.false_eq_true, if_false]
  by_cases c2 : isInteger (slice buf w.1 w.2) = true
  · simp only [c2, if_true]; exact parseIntOrRefC_tracks buf w.2 _ flags hw2
  simp only [c2, Bool.false_eq_true, if_false]
  cases hreal : realNumber (slice buf w.1 w.2) with
  | some s =>
    simp only []
    apply tracks_pure_bind buf _ w.2 hw2
    intro _ _
    cases env.parseReal s with
    | some r => exact tracks_ok buf _ _ hw2
    | none => exact tracks_err buf _ hw2
  | none =>
    simp only []
    by_cases c3 : ((slice buf w.1 w.2).head? == some 47) = true
    · simp only [c3, if_true]
      apply tracks_pure_bind buf _ w.2 hw2
      intro _ _
      apply tracks_pure_bind buf _ w.2 hw2
      intro s _
      exact tracks_ok buf _ _ hw2
    simp only [c3, Bool.false_eq_true, if_false]
    by_cases c4 : (slice buf w.1 w.2 == [91]) = true
    · simp only [c4, if_true]
      apply tracks_pure_bind buf _ w.2 hw2
      intro _ _
      by_cases hd : (depth == 0) = true
      · simp only [hd, if_true]; exact tracks_err buf _ hw2
      · simp only [hd, Bool.false_eq_true, if_false]; exact ih.2.2.1 w.2 ctx (depth - 1) [] hw2
    simp only [c4, Bool.false_eq_true, if_false]
    by_cases c5 : (slice buf w.1 w.2 == [40]) = true
    · simp only [c5, if_true]
      apply tracks_pure_bind buf _ w.2 hw2
      intro _ _
      rw [remainingStart_spec buf w.2 hw2]
      simp only [Cur.pure', cur_bind_ok, Out.bind_ok]
      apply tracks_pure_bind buf _ w.2 hw2
      intro sp _
      obtain ⟨q, hq, hq2⟩ := offsetPos_spec buf w.2 (sp.2 - w.2) hw2
      simp only [offsetPosC, hq, cur_bind_ok, Out.bind_ok]
      apply tracks_pure_bind buf _ q hq2
      intro s _
      exact tracks_ok buf _ _ hq2
    simp only [c5, Bool.false_eq_true, if_false]
    by_cases c6 : (slice buf w.1 w.2 == [60]) = true
    · simp only [c6, if_true]
      apply tracks_pure_bind buf _ w.2 hw2
      intro _ _
      rw [remainingStart_spec buf w.2 hw2]
      simp only [Cur.pure', cur_bind_ok, Out.bind_ok]
      apply tracks_pure_bind buf _ w.2 hw2
      intro sp _
      obtain ⟨q, hq, hq2⟩ := offsetPos_spec buf w.2 (sp.2 - w.2) hw2
      simp only [offsetPosC, hq, cur_bind_ok, Out.bind_ok]
      apply tracks_pure_bind buf _ q hq2
      intro s _
      exact tracks_ok buf _ _ hq2
    simp only [c6, Bool.false_eq_true, if_false]
    by_cases c7 : (slice buf w.1 w.2 == kwTrue) = true
    · simp only [c7, if_true]
      apply tracks_pure_bind buf _ w.2 hw2
      intro _ _; exact tracks_ok buf _ _ hw2
    simp only [c7, Bool.false_eq_true, if_false]
    by_cases c8 : (slice buf w.1 w.2 == kwFalse) = true
    · simp only [c8, if_true]
      apply tracks_pure_bind buf _ w.2 hw2
      intro _ _; exact tracks_ok buf _ _ hw2
    simp only [c8, Bool.false_eq_true, if_false]
    by_cases c9 : (slice buf w.1 w.2 == kwNull) = true
    · simp only [c9, if_true]
      apply tracks_pure_bind buf _ w.2 hw2
      intro _ _; exact tracks_ok buf _ _ hw2
    simp only [c9, Bool.false_eq_true, if_false]
    obtain ⟨s, q, hr, _, _, hq⟩ := readN_total buf w.2 50 hw2
    simp only [readNC, hr, cur_bind_ok, Out.bind_ok]
    exact tracks_err buf q hq

theorem tracksAt_all (env : Env R) (buf : Buf) : ∀ fuel, TracksAt env buf fuel := by
  intro fuel
  induction fuel with
  | zero => exact tracksAt_zero env buf
  | succ fuel ih =>
    exact ⟨fun pos ctx flags depth h => parseCtxC_step env buf fuel ih pos ctx flags depth h,
      fun pos ctx flags depth h => parseInnerC_step env buf fuel ih pos ctx flags depth h,
      fun pos ctx depth acc h => parseArrayC_step env buf fuel ih pos ctx depth acc h,
      fun pos ctx depth acc h => parseDictC_step env buf fuel ih pos ctx depth acc h⟩

/-- the cursor-tracking model has the outcomes of `Model/Parser` -/
theorem parseCtxC_fst (env : Env R) (buf : Buf) (fuel pos : Nat) (ctx : Option (Nat × Nat)) (flags depth : Nat)
    (h : pos ≤ buf.size) : (parseCtxC env buf fuel pos ctx flags depth).1 = parseCtx env buf fuel pos ctx flags depth :=
  ((tracksAt_all env buf fuel).1 pos ctx flags depth h).1

/-- after `Ok` the cursor rests at the returned position, inside the buffer -/
theorem parseCtxC_ok (env : Env R) (buf : Buf) (fuel pos : Nat) (ctx : Option (Nat × Nat)) (flags depth : Nat)
    (h : pos ≤ buf.size) (v : Prim R) (p : Nat) (hok : parseCtx env buf fuel pos ctx flags depth = .ok (v, p)) :
    (parseCtxC env buf fuel pos ctx flags depth).2 = p ∧ p ≤ buf.size :=
  ((tracksAt_all env buf fuel).1 pos ctx flags depth h).2.2 (v, p) hok

/-- **after `Err` of `parse_with_lexer_ctx` the cursor is back where the call started** -/
theorem parseCtxC_err (env : Env R) (buf : Buf) (fuel pos : Nat) (ctx : Option (Nat × Nat)) (flags depth : Nat)
    (h : pos ≤ buf.size) (herr : (parseCtxC env buf fuel pos ctx flags depth).1 = .err) :
    (parseCtxC env buf fuel pos ctx flags depth).2 = pos := by
  cases fuel with
  | zero => simp [parseCtxC] at herr
  | succ fuel =>
    have hin := (tracksAt_all env buf fuel).2.1 pos ctx flags depth h
    simp only [parseCtxC] at herr ⊢
    rcases hx : parseInnerC env buf fuel pos ctx flags depth with ⟨o, c⟩
    rw [hx] at hin herr
    cases o with
    | ok r => simp at herr
    | panic => simp at herr
    | oof => simp at herr
    | err =>
      have hc : c ≤ buf.size := hin.2.1 hin.1.symm
      have hmin : min pos buf.size = pos := by omega
      have e1 : setPos buf c pos = .ok pos := by rw [setPos_spec buf c pos hc, hmin]
      simp [setPosC, e1, cur_bind_ok]

end PdfLex
