import PdfModel.Model.ObjStm
import PdfModel.Spec.ObjStm
import PdfModel.Lemmas.OffLex

/-! Lemmas for Props/C11: decimal numerals are read back by the lexer fragment and `parseUsize`; the
    header of a packed object stream parses to the recorded offsets; the slice of member `i` is its text
    followed by its separator. -/

namespace ObjStmSpec
open OffLex ObjStm

/-! ## per-byte facts -/

theorem forall_uint8 (P : UInt8 → Prop) (h : ∀ n : Fin 256, P (UInt8.ofFin n)) : ∀ b, P b := by
  intro b
  have := h b.toFin
  simpa using this

instance (P : UInt8 → Prop) [DecidablePred P] : Decidable (∀ b, P b) :=
  decidable_of_iff (∀ n : Fin 256, P (UInt8.ofFin n)) ⟨forall_uint8 P, fun h n => h _⟩

theorem digit_facts : ∀ b : UInt8, isDigit b = true →
    isRegular b = true ∧ isWs b = false ∧ isDelim b = false ∧ b ≠ 37 ∧ b ≠ 43 := by
  decide +kernel

theorem ws_not_regular : ∀ b : UInt8, isWs b = true → isRegular b = false := by
  decide +kernel

theorem digit_lt10 (d : Nat) (h : d < 10) : isDigit (digit d) = true ∧ (digit d).toNat - 48 = d := by
  have : d = 0 ∨ d = 1 ∨ d = 2 ∨ d = 3 ∨ d = 4 ∨ d = 5 ∨ d = 6 ∨ d = 7 ∨ d = 8 ∨ d = 9 := by omega
  rcases this with rfl | rfl | rfl | rfl | rfl | rfl | rfl | rfl | rfl | rfl <;> decide

/-! ## decimal numerals -/

theorem digitsVal_append_digit (xs : Bytes) (d : UInt8) (hd : isDigit d = true) (a : Nat) :
    digitsVal (xs ++ [d]) a = (digitsVal xs a).map (fun v => v * 10 + (d.toNat - 48)) := by
  induction xs generalizing a with
  | nil => simp [digitsVal, hd]
  | cons x xs ih =>
    simp only [List.cons_append, digitsVal]
    split
    · exact ih _
    · rfl

theorem decimalF_val : ∀ (fuel n : Nat), n < fuel → digitsVal (decimalF fuel n) 0 = some n := by
  intro fuel
  induction fuel with
  | zero => intro n h; omega
  | succ fuel ih =>
    intro n h
    simp only [decimalF]
    split
    · rename_i h10
      have := digit_lt10 n h10
      simp [digitsVal, this.1, this.2]
    · rename_i h10
      have hd := digit_lt10 (n % 10) (Nat.mod_lt _ (by omega))
      rw [digitsVal_append_digit _ _ hd.1, ih (n / 10) (by omega), hd.2]
      simp only [Option.map_some]
      congr 1
      omega

theorem decimalF_digits : ∀ (fuel n : Nat), ∀ b ∈ decimalF fuel n, isDigit b = true := by
  intro fuel
  induction fuel with
  | zero => intro n b hb; simp [decimalF] at hb
  | succ fuel ih =>
    intro n b hb
    simp only [decimalF] at hb
    split at hb
    · rename_i h10
      simp at hb; subst hb; exact (digit_lt10 n h10).1
    · simp at hb
      rcases hb with hb | hb
      · exact ih _ _ hb
      · subst hb; exact (digit_lt10 (n % 10) (Nat.mod_lt _ (by omega))).1

theorem decimalF_ne_nil (fuel n : Nat) : decimalF (fuel + 1) n ≠ [] := by
  simp only [decimalF]; split <;> simp

theorem decimal_val (n : Nat) : digitsVal (decimal n) 0 = some n := decimalF_val _ _ (by omega)
theorem decimal_digits (n : Nat) : ∀ b ∈ decimal n, isDigit b = true := decimalF_digits _ _
theorem decimal_ne_nil (n : Nat) : decimal n ≠ [] := decimalF_ne_nil _ _

theorem parseUsize_decimal (n : Nat) (h : n ≤ usizeMax) : parseUsize (decimal n) = .ok n := by
  unfold parseUsize
  cases hd : decimal n with
  | nil => exact absurd hd (decimal_ne_nil n)
  | cons b tl =>
    have hb : isDigit b = true := decimal_digits n b (by simp [hd])
    have h43 : b ≠ 43 := (digit_facts b hb).2.2.2.2
    have : ¬ ((b :: tl).head? = some 43) := by simp; exact h43
    simp only [this, if_false]
    have hv := decimal_val n
    rw [hd] at hv
    simp [hv, h]

/-! ## the lexer on `white-space ++ numeral ++ space ++ …` -/

theorem dropWhile_append_all (p : UInt8 → Bool) (ws rest : Bytes) (h : ∀ b ∈ ws, p b = true) :
    (ws ++ rest).dropWhile p = rest.dropWhile p := by
  induction ws with
  | nil => rfl
  | cons a ws ih =>
    simp only [List.cons_append, List.dropWhile, h a (by simp)]
    exact ih (fun b hb => h b (by simp [hb]))

theorem takeWhile_append_stop (p : UInt8 → Bool) (ds : Bytes) (x : UInt8) (t : Bytes)
    (h : ∀ b ∈ ds, p b = true) (hx : p x = false) :
    (ds ++ x :: t).takeWhile p = ds ∧ (ds ++ x :: t).dropWhile p = x :: t := by
  induction ds with
  | nil => simp [List.takeWhile, List.dropWhile, hx]
  | cons a ds ih =>
    have := ih (fun b hb => h b (by simp [hb]))
    simp [List.takeWhile, List.dropWhile, h a (by simp), this.1, this.2]

/-- `next()` on white-space, a numeral, a space: the numeral; the cursor stays on the space -/
theorem nextWord_numeral (ws : Bytes) (n : Nat) (t : Bytes) (hws : ∀ b ∈ ws, isWs b = true) :
    nextWord (ws ++ decimal n ++ 32 :: t) = .ok (decimal n, 32 :: t) := by
  cases hd : decimal n with
  | nil => exact absurd hd (decimal_ne_nil n)
  | cons d ds =>
    have hdig : ∀ b ∈ d :: ds, isDigit b = true := by rw [← hd]; exact decimal_digits n
    have hd0 := digit_facts d (hdig d (by simp))
    have hne : ws ++ (d :: ds) ++ 32 :: t ≠ [] := by simp
    unfold nextWord
    cases hr : ws ++ (d :: ds) ++ 32 :: t with
    | nil => exact absurd hr hne
    | cons r0 rs =>
      simp only
      rw [← hr]
      have hskip : skipWs (ws ++ (d :: ds) ++ 32 :: t) = .ok (d :: (ds ++ 32 :: t)) := by
        unfold skipWs
        rw [List.append_assoc, dropWhile_append_all isWs ws _ hws]
        simp [List.dropWhile, hd0.2.1]
      rw [hskip]
      simp only
      have hcom : skipComments (d :: (ds ++ 32 :: t)) = .ok (d :: (ds ++ 32 :: t)) := by
        simp [skipComments, skipCommentsF, hd0.2.2.2.1]
      rw [hcom]
      simp only [hd0.2.2.1, Bool.false_eq_true, if_false]
      have hreg : ∀ b ∈ d :: ds, isRegular b = true := fun b hb => (digit_facts b (hdig b hb)).1
      have := takeWhile_append_stop isRegular (d :: ds) 32 t hreg (by decide)
      simp only [List.cons_append] at this
      rw [this.1, this.2]

/-! ## header -/

theorem parseHeader_header : ∀ (prs : List (Nat × Nat)) (ws tail : Bytes),
    (∀ b ∈ ws, isWs b = true) → (∀ pr ∈ prs, pr.1 ≤ usizeMax ∧ pr.2 ≤ usizeMax) →
    parseHeader prs.length (ws ++ header prs ++ tail) = .ok (prs.map (·.2)) := by
  intro prs
  induction prs with
  | nil => intro ws tail _ _; simp [parseHeader]
  | cons pr prs ih =>
    intro ws tail hws hb
    obtain ⟨i, o⟩ := pr
    have hio := hb (i, o) (by simp)
    simp only [List.length_cons, parseHeader, header]
    have e1 : ws ++ (decimal i ++ 32 :: (decimal o ++ 32 :: header prs)) ++ tail
        = ws ++ decimal i ++ 32 :: (decimal o ++ 32 :: (header prs ++ tail)) := by simp [List.append_assoc]
    rw [e1, nextWord_numeral ws i _ hws]
    simp only [parseUsize_decimal i hio.1]
    have e2 : (32 : UInt8) :: (decimal o ++ 32 :: (header prs ++ tail))
        = [32] ++ decimal o ++ 32 :: (header prs ++ tail) := by simp
    rw [e2, nextWord_numeral [32] o _ (by simp; decide)]
    simp only [parseUsize_decimal o hio.2]
    have e3 : (32 : UInt8) :: (header prs ++ tail) = [32] ++ header prs ++ tail := by simp
    rw [e3, ih [32] tail (by simp; decide) (fun pr hpr => hb pr (by simp [hpr]))]
    simp

/-! ## offsets and slices -/

theorem offsetsFrom_length (acc : Nat) (ms : List Member) : (offsetsFrom acc ms).length = ms.length := by
  induction ms generalizing acc with
  | nil => rfl
  | cons m ms ih => simp [offsetsFrom, ih]

theorem offsetsFrom_get : ∀ (ms : List Member) (acc i : Nat), i < ms.length →
    (offsetsFrom acc ms)[i]? = some (acc + (body (ms.take i)).length) := by
  intro ms
  induction ms with
  | nil => intro acc i h; simp at h
  | cons m ms ih =>
    intro acc i h
    cases i with
    | zero => simp [offsetsFrom, body]
    | succ i =>
      simp only [offsetsFrom, List.getElem?_cons_succ, List.take_succ_cons, body]
      rw [ih _ i (by simpa using h)]
      simp [Nat.add_assoc]

theorem body_split : ∀ (ms : List Member) (i : Nat) (h : i < ms.length),
    body ms = body (ms.take i) ++ ((ms[i].text ++ ms[i].sep) ++ body (ms.drop (i + 1))) := by
  intro ms
  induction ms with
  | nil => intro i h; simp at h
  | cons m ms ih =>
    intro i h
    cases i with
    | zero => simp [body]
    | succ i =>
      simp only [List.take_succ_cons, List.drop_succ_cons, body, List.getElem_cons_succ]
      rw [ih i (by simpa using h)]
      simp [List.append_assoc]

theorem offsetsFrom_le (ms : List Member) (acc : Nat) : ∀ o ∈ offsetsFrom acc ms, o ≤ acc + (body ms).length := by
  induction ms generalizing acc with
  | nil => intro o h; simp [offsetsFrom] at h
  | cons m ms ih =>
    intro o h
    simp only [offsetsFrom, List.mem_cons] at h
    rcases h with rfl | h
    · omega
    · have := ih _ o h
      simp [body] at this ⊢
      omega

theorem pairs_length (ms : List Member) : (pairs ms).length = ms.length := by
  simp [pairs, List.length_zip, offsetsFrom_length]

theorem pairs_snd (ms : List Member) : (pairs ms).map (·.2) = offsetsFrom 0 ms := by
  unfold pairs
  exact List.map_snd_zip (by simp [offsetsFrom_length])

theorem slice_mid (A B C : Bytes) : ((A ++ (B ++ C)).drop A.length).take B.length = B := by
  simp



theorem parseHeader_returns : ∀ (n : Nat) (r : Bytes), parseHeader n r ≠ .panic ∧ parseHeader n r ≠ .oof := by
  intro n
  induction n with
  | zero => intro r; simp [parseHeader]
  | succ n ih =>
    intro r
    simp only [parseHeader]
    have h1 := nextWord_returns r
    cases hw : nextWord r with
    | ok w1 =>
      simp only
      have h2 := parseUsize_returns w1.1
      cases hp : parseUsize w1.1 with
      | ok _ =>
        simp only
        have h3 := nextWord_returns w1.2
        cases hw2 : nextWord w1.2 with
        | ok w2 =>
          simp only
          have h4 := parseUsize_returns w2.1
          cases hp2 : parseUsize w2.1 with
          | ok off =>
            simp only
            have h5 := ih w2.2
            cases hh : parseHeader n w2.2 with
            | ok offs => simp
            | err => simp
            | panic => simp [hh] at h5
            | oof => simp [hh] at h5
          | err => simp
          | panic => simp [hp2] at h4
          | oof => simp [hp2] at h4
        | err => simp
        | panic => simp [hw2] at h3
        | oof => simp [hw2] at h3
      | err => simp
      | panic => simp [hp] at h2
      | oof => simp [hp] at h2
    | err => simp
    | panic => simp [hw] at h1
    | oof => simp [hw] at h1

theorem getObjectSlice_returns (offsets : List Nat) (first : Nat) (d : Bytes) (i : Nat) :
    getObjectSlice offsets first (.ok d) i ≠ .panic ∧ getObjectSlice offsets first (.ok d) i ≠ .oof := by
  unfold getObjectSlice
  by_cases hi : i ≥ offsets.length
  · simp [hi]
  · have hlt : i < offsets.length := by omega
    simp only [hi, if_false, List.getElem?_eq_getElem hlt]
    split
    · simp
    · split
      · simp
      · rename_i hne
        have hlt2 : i + 1 < offsets.length := by omega
        simp only [List.getElem?_eq_getElem hlt2]
        split <;> simp

end ObjStmSpec
