import PdfModel.Lemmas.EncBasic
import PdfModel.Spec.CodecsCheck

set_option linter.unusedSimpArgs false

/-! Soundness of the membership tests of `Spec/CodecsCheck.lean`. -/

namespace Codecs

theorem Sprinkled.of_filter : ∀ l : Bytes, Sprinkled (l.filter fun b => !isWs b) l
  | [] => .nil
  | c :: l => by
    by_cases h : isWs c = true
    · simp only [List.filter_cons, h, Bool.not_true]
      exact .ws c h (Sprinkled.of_filter l)
    · have h' : isWs c = false := by simpa using h
      simp only [List.filter_cons, h', Bool.not_false, if_true]
      exact .keep c (Sprinkled.of_filter l)

theorem Sprinkled.append {a x b y : Bytes} (h1 : Sprinkled a x) (h2 : Sprinkled b y) : Sprinkled (a ++ b) (x ++ y) := by
  induction h1 with
  | nil => simpa using h2
  | keep c _ ih => exact .keep c ih
  | ws w hw _ ih => exact .ws w hw ih

theorem dropWhile_head_false {p : UInt8 → Bool} : ∀ {l : Bytes} {x : UInt8} {r : Bytes}, l.dropWhile p = x :: r → p x = false
  | [], _, _, h => by simp at h
  | c :: l, x, r, h => by
    by_cases hc : p c = true
    · simp only [List.dropWhile_cons, hc, if_true] at h
      exact dropWhile_head_false h
    · simp only [List.dropWhile_cons, hc] at h
      simp at h
      obtain ⟨rfl, _⟩ := h
      simpa using hc

theorem isHexDigitB_sound {c n : UInt8} (h : isHexDigitB c n = true) : IsHexDigit c n := by
  unfold isHexDigitB at h
  unfold IsHexDigit
  simp only [Bool.or_eq_true, Bool.and_eq_true, decide_eq_true_eq, beq_iff_eq] at h
  rcases h with ⟨h1, h2⟩ | ⟨⟨h1, h2⟩, h3⟩
  · exact Or.inl ⟨h1, h2⟩
  · exact Or.inr ⟨h1, h2, h3⟩

theorem matchHex_sound : ∀ (bs t : Bytes), matchHex bs t = true → HexBody bs t
  | [], [], _ => .nil
  | [b], [h], hm => by
    simp only [matchHex, Bool.and_eq_true, beq_iff_eq] at hm
    exact .oddLast (isHexDigitB_sound hm.1) hm.2
  | b :: bs, h :: l :: t, hm => by
    simp only [matchHex, Bool.and_eq_true] at hm
    exact .byte (isHexDigitB_sound hm.1.1) (isHexDigitB_sound hm.1.2) (matchHex_sound bs t hm.2)
  | [], _ :: _, hm => by simp [matchHex] at hm
  | [_], [], hm => by simp [matchHex] at hm
  | _ :: _ :: _, [], hm => by simp [matchHex] at hm
  | _ :: _ :: _, [_], hm => by simp [matchHex] at hm

theorem checkHex_sound {bs text : Bytes} (h : checkHex bs text = true) : EncodesToHex bs text := by
  simp only [checkHex, Bool.and_eq_true, decide_eq_true_eq] at h
  obtain ⟨hlen, hm⟩ := h
  have hsplit : text.takeWhile (· != 62) ++ text.dropWhile (· != 62) = text := List.takeWhile_append_dropWhile
  cases hd : text.dropWhile (· != 62) with
  | nil =>
    rw [hd, List.append_nil] at hsplit
    rw [hsplit] at hlen; omega
  | cons x rest =>
    have hx : (x != 62) = false := dropWhile_head_false (p := fun c => c != 62) hd
    have hx62 : x = 62 := by simpa using hx
    subst hx62
    refine ⟨_, text.takeWhile (· != 62) ++ [62], rest, matchHex_sound _ _ hm, ?_, ?_⟩
    · exact (Sprinkled.of_filter _).append (Sprinkled.refl [62])
    · have : text = text.takeWhile (· != 62) ++ 62 :: rest := by rw [← hd]; exact hsplit.symm
      rw [List.append_assoc]; exact this

theorem matchA85_sound : ∀ (bs t : Bytes), matchA85 bs t = true → A85Body bs t
  | [], t, h => by
    simp only [matchA85, beq_iff_eq] at h; subst h; exact .nil
  | [b0], t, h => by
    simp only [matchA85, beq_iff_eq] at h; subst h; exact .tail1
  | [b0, b1], t, h => by
    simp only [matchA85, beq_iff_eq] at h; subst h; exact .tail2
  | [b0, b1, b2], t, h => by
    simp only [matchA85, beq_iff_eq] at h; subst h; exact .tail3
  | b0 :: b1 :: b2 :: b3 :: bs, t, h => by
    simp only [matchA85, Bool.or_eq_true, Bool.and_eq_true, beq_iff_eq] at h
    rcases h with ⟨⟨⟨⟨⟨rfl, rfl⟩, rfl⟩, rfl⟩, hh⟩, hm⟩ | ⟨hg, hm⟩
    · cases t with
      | nil => simp at hh
      | cons c t' =>
        simp at hh; subst hh
        exact .z (matchA85_sound bs t' hm)
    · have : t = group85 (be32 b0 b1 b2 b3) ++ t.drop 5 := by
        rw [← hg]; exact (List.take_append_drop 5 t).symm
      rw [this]
      exact .group (matchA85_sound bs _ hm)

theorem check85_sound {bs text : Bytes} (h : check85 bs text = true) : EncodesTo85 bs text := by
  simp only [check85, Bool.and_eq_true, decide_eq_true_eq, beq_iff_eq] at h
  obtain ⟨⟨_, hend⟩, hm⟩ := h
  refine ⟨_, matchA85_sound _ _ hm, ?_⟩
  rw [← hend, List.take_append_drop]
  exact Sprinkled.of_filter text

theorem matchRL_sound : ∀ (fuel : Nat) (bs text : Bytes), matchRL fuel bs text = true →
    ∃ body rest, RLBody bs body ∧ text = body ++ rest := by
  intro fuel
  induction fuel with
  | zero => intro bs text h; simp [matchRL] at h
  | succ f ih =>
    intro bs text h
    cases text with
    | nil => simp [matchRL] at h
    | cons len rest =>
      simp only [matchRL] at h
      split at h
      · rename_i h128
        simp only [beq_iff_eq] at h
        subst h; subst h128
        exact ⟨[128], rest, .eod, rfl⟩
      · rename_i h128
        split at h
        · rename_i hlt
          simp only [Bool.and_eq_true, decide_eq_true_eq, beq_iff_eq] at h
          obtain ⟨⟨⟨hr, hb⟩, heq⟩, hm⟩ := h
          obtain ⟨body, tail, hbody, htail⟩ := ih _ _ hm
          have hl : len.toNat < 128 := by
            rw [UInt8.lt_iff_toNat_lt] at hlt; simpa using hlt
          have hlen : (bs.take (len.toNat + 1)).length = len.toNat + 1 := by simp; omega
          refine ⟨len :: (bs.take (len.toNat + 1) ++ body), tail, ?_, ?_⟩
          · have := RLBody.literal (lit := bs.take (len.toNat + 1)) (bs := bs.drop (len.toNat + 1)) (t := body)
              (by omega) (by omega) hbody
            rw [List.take_append_drop, hlen] at this
            have e : UInt8.ofNat (len.toNat + 1 - 1) = len := by simp
            rw [e] at this
            exact this
          · rw [heq]
            have : rest = rest.take (len.toNat + 1) ++ rest.drop (len.toNat + 1) := (List.take_append_drop _ _).symm
            rw [htail] at this
            simp only [List.cons_append, List.append_assoc]
            rw [← this]
        · rename_i hlt
          cases rest with
          | nil => simp at h
          | cons b rest' =>
            simp only [Bool.and_eq_true, decide_eq_true_eq, beq_iff_eq] at h
            obtain ⟨⟨hb, heq⟩, hm⟩ := h
            obtain ⟨body, tail, hbody, htail⟩ := ih _ _ hm
            have hl : 129 ≤ len.toNat := by
              have h1 : ¬ len.toNat < 128 := by
                intro hc; apply hlt; rw [UInt8.lt_iff_toNat_lt]; simpa using hc
              have h2 : len.toNat ≠ 128 := by
                intro hc; apply h128; apply UInt8.toNat_inj.mp; simpa using hc
              omega
            have hlt256 : len.toNat < 256 := by
              have := len.toNat_lt_size; simpa [UInt8.size] using this
            refine ⟨len :: b :: body, tail, ?_, ?_⟩
            · have := RLBody.repeat (n := 257 - len.toNat) (b := b) (bs := bs.drop (257 - len.toNat)) (t := body)
                (by omega) (by omega) hbody
              rw [← heq, List.take_append_drop] at this
              have e : UInt8.ofNat (257 - (257 - len.toNat)) = len := by
                have : 257 - (257 - len.toNat) = len.toNat := by omega
                rw [this]; simp
              rw [e] at this
              exact this
            · rw [htail]; simp

theorem checkRL_sound {bs text : Bytes} (h : checkRL bs text = true) : EncodesToRL bs text :=
  matchRL_sound _ bs text h

end Codecs
