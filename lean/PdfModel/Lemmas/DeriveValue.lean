import PdfModel.Lemmas.DeriveRegistry

/-! The first law of C15 from the value side: `read (write x) = x` — for the containers, for the field loops and
    for the derived struct of every well-formed schema, for values that need not have come out of the reader. -/

namespace Derive

/-! ## all-or-nothing maps, exactly -/

theorem mapR_exact {α β : Type} (f : α → R β) (g : β → R α) (P : α → Prop)
    (h : ∀ x, P x → ∀ y, f x = .ok y → g y = .ok x) :
    ∀ xs, (∀ x ∈ xs, P x) → ∀ ys, mapR f xs = .ok ys → mapR g ys = .ok xs := by
  intro xs
  induction xs with
  | nil => intro _ ys hy; simp [mapR] at hy; subst hy; simp [mapR]
  | cons x xs ih =>
    intro hP ys hy
    simp only [mapR] at hy
    cases hfx : f x with
    | error e => simp [hfx] at hy
    | ok y =>
      simp only [hfx] at hy
      cases hrest : mapR f xs with
      | error e => simp [hrest] at hy
      | ok ys' =>
        simp only [hrest] at hy
        cases hy
        have hg := h x (hP x (by simp)) y hfx
        have hgs := ih (fun z hz => hP z (by simp [hz])) ys' hrest
        simp [mapR, hg, hgs]

theorem mapKV_exact {α β : Type} (f : α → R β) (g : β → R α) (P : α → Prop)
    (h : ∀ x, P x → ∀ y, f x = .ok y → g y = .ok x) :
    ∀ xs : List (String × α), (∀ kv ∈ xs, P kv.2) → ∀ ys, mapKV f xs = .ok ys → mapKV g ys = .ok xs := by
  intro xs
  induction xs with
  | nil => intro _ ys hy; simp [mapKV] at hy; subst hy; simp [mapKV]
  | cons x xs ih =>
    obtain ⟨k, x⟩ := x
    intro hP ys hy
    simp only [mapKV] at hy
    cases hfx : f x with
    | error e => simp [hfx] at hy
    | ok y =>
      simp only [hfx] at hy
      cases hrest : mapKV f xs with
      | error e => simp [hrest] at hy
      | ok ys' =>
        simp only [hrest] at hy
        cases hy
        have hg := h x (hP (k, x) (by simp)) y hfx
        have hgs := ih (fun z hz => hP z (by simp [hz])) ys' hrest
        simp [mapKV, hg, hgs]

/-! ## the containers -/

theorem shape_reads_back (cfg : Cfg) (sem : Sem) (env : Env) (lok : Shape → Val → Prop) (law : sem.LawV env lok) :
    ∀ (s : Shape) (v : Val), ValOkV cfg sem env lok s v →
      ReadsBack (readShape cfg sem env s) (writeShape sem s) v := by
  intro s
  induction s with
  | leaf n => intro v hv; exact law (.leaf n) v rfl (by simpa [ValOkV] using hv)
  | leafApp n a _ => intro v hv; exact law (.leafApp n a) v rfl (by simpa [ValOkV] using hv)
  | model n => intro v hv; exact law (.model n) v rfl (by simpa [ValOkV] using hv)
  | modelApp n a _ => intro v hv; exact law (.modelApp n a) v rfl (by simpa [ValOkV] using hv)
  | param n => intro v hv; exact law (.param n) v rfl (by simpa [ValOkV] using hv)
  | option a ih =>
    intro v hv p hw
    cases v with
    | none => simp [writeShape] at hw; subst hw; simp [readShape]
    | some w =>
      simp only [writeShape] at hw
      have hv' : ValOkV cfg sem env lok a w ∧ ∀ p, writeShape sem a w = .ok p → p.isNull = false := by
        simpa [ValOkV] using hv
      have hr := ih w hv'.1 p hw
      have hn := hv'.2 p hw
      rw [readShape_option_ok hr, hn]; rfl
    | _ => simp [ValOkV] at hv
  | vec a ih =>
    intro v hv p hw
    cases v with
    | list vs =>
      simp only [writeShape] at hw
      cases hm : mapR (fun v => writeShape sem a v) vs with
      | error e => simp [hm] at hw
      | ok ps =>
        simp only [hm] at hw; cases hw
        have hall : ∀ v ∈ vs, ValOkV cfg sem env lok a v := by simpa [ValOkV] using hv
        have hr := mapR_exact (fun v => writeShape sem a v) (fun x => readShape cfg sem env a x)
          (fun v => ValOkV cfg sem env lok a v) (fun x hx y hy => ih x hx y hy) vs hall ps hm
        simp [readShape, Prim.isRef, hr]
    | _ => simp [ValOkV] at hv
  | hashMap a ih =>
    intro v hv p hw
    cases v with
    | map kvs =>
      cases kvs with
      | nil => simp [writeShape] at hw; subst hw; simp [readShape, Prim.isRef]
      | cons kv kvs =>
        simp only [writeShape] at hw
        cases hm : mapKV (fun v => writeShape sem a v) (kv :: kvs) with
        | error e => simp [hm] at hw
        | ok d =>
          simp only [hm] at hw; cases hw
          have hall : ∀ x ∈ kv :: kvs, ValOkV cfg sem env lok a x.2 := by simpa [ValOkV] using hv
          have hr := mapKV_exact (fun v => writeShape sem a v) (fun x => readShape cfg sem env a x)
            (fun v => ValOkV cfg sem env lok a v) (fun x hx y hy => ih x hx y hy) (kv :: kvs) hall d hm
          simp [readShape, Prim.isRef, hr]
    | _ => simp [ValOkV] at hv
  | box a ih =>
    intro v hv p hw
    simp only [writeShape] at hw
    have hr := ih v (by simpa [ValOkV] using hv) p hw
    simp [readShape, hr]
  | maybeRef a ih =>
    intro v hv p hw
    cases v with
    | direct w =>
      simp only [writeShape] at hw
      have hv' : ValOkV cfg sem env lok a w ∧ ∀ p, writeShape sem a w = .ok p → p.isRef = false := by
        simpa [ValOkV] using hv
      have hr := ih w hv'.1 p hw
      simp [readShape, hv'.2 p hw, hr]
    | indirect r w =>
      simp [writeShape] at hw; subst hw
      have hv' : r.isRef = true ∧ getTyped env (fun q => readShape cfg sem env a q) r = .ok w := by
        simpa [ValOkV] using hv
      simp [readShape, hv'.1, hv'.2]
    | _ => simp [ValOkV] at hv
  | rcRef a _ =>
    intro v hv p hw
    cases v with
    | indirect r w =>
      simp [writeShape] at hw; subst hw
      have hv' : r.isRef = true ∧ getTyped env (fun q => readShape cfg sem env a q) r = .ok w := by
        simpa [ValOkV] using hv
      simp [readShape, hv'.1, hv'.2]
    | _ => simp [ValOkV] at hv
  | ref a _ =>
    intro v hv p hw
    cases v with
    | leaf r =>
      simp [writeShape] at hw; subst hw
      have hr : r.isRef = true := by simpa [ValOkV] using hv
      simp [readShape, hr]
    | _ => simp [ValOkV] at hv
  | lazy a _ =>
    intro v hv p hw
    cases v with
    | lazy q => simp [writeShape] at hw; subst hw; simp [readShape]
    | _ => simp [ValOkV] at hv
  | pair a b iha ihb =>
    intro v hv p hw
    cases v with
    | pair x y =>
      simp only [writeShape] at hw
      have hv' : ValOkV cfg sem env lok a x ∧ ValOkV cfg sem env lok b y := by simpa [ValOkV] using hv
      cases hx : writeShape sem a x with
      | error e => simp [hx] at hw
      | ok px =>
        simp only [hx] at hw
        cases hy : writeShape sem b y with
        | error e => simp [hy] at hw
        | ok py =>
          simp only [hy] at hw; cases hw
          have hrx := iha x hv'.1 px hx
          have hry := ihb y hv'.2 py hy
          simp [readShape, resolve1, resolveP, hrx, hry]
    | _ => simp [ValOkV] at hv

/-- an `indirect` field gives its value back exactly only if the value is written as a reference already (anything
    else is moved into a new object by the writer and comes back as `Indirect`) -/
def IndirectOkV (sem : Sem) (f : Field) (v : Val) : Prop :=
  f.indirect = false ∨ ∀ p, writeShape sem f.shape v = .ok p → p.isNull = false → p.isRef = true

/-- from the exact shape law to the exact field law -/
theorem fieldLawV_of_readsBack (cfg : Cfg) (sem : Sem) (env : Env) (f : Field) (v : Val)
    (hind : IndirectOkV sem f v)
    (h : ReadsBack (readShape cfg sem env f.shape) (writeShape sem f.shape) v) :
    FieldLawV cfg sem env f v := by
  intro e he
  simp only [emit] at he
  cases hw : writeShape sem f.shape v with
  | error err => simp [hw] at he
  | ok p =>
    simp only [hw] at he
    have hr := h p hw
    cases hp : p.isNull with
    | true =>
      simp [hp] at he; subst he
      have : p = .null := by cases p <;> simp [Prim.isNull] at hp; rfl
      subst this
      simpa using hr
    | false =>
      simp [hp] at he; subst he
      have hio : indirectOf f p = p := by
        rcases hind with hni | href
        · simp [indirectOf, hni]
        · simp [indirectOf, href p hw hp]
      simpa [hio] using hr

theorem fieldLaw_of_fieldLawV {cfg : Cfg} {sem : Sem} {env : Env} {f : Field} {v : Val}
    (h : FieldLawV cfg sem env f v) : FieldLaw cfg sem env f v :=
  fun e he => ⟨v, h e he, he⟩

/-! ## the field loops -/

/-- what the writer loop produced over `d` is read back as exactly the values that were written -/
theorem read_written_exact (cfg : Cfg) (sem : Sem) (env : Env) :
    ∀ (fs : List Field) (d : Dict) (vs : List Val) (D : Dict) (acc : List Val) (oth : Option Dict),
      (∀ f ∈ fs, f.skip = false) → lastIsOther fs = true → distinct (fkeys fs) = true →
      (∀ k ∈ fkeys fs, dget k d = none) →
      writeFields sem fs vs d = .ok D →
      FieldsOk (fun f v => FieldLawV cfg sem env f v ∧ DefaultedNonNull sem f v) fs vs →
      readFields cfg sem env fs D acc oth
        = .ok (acc ++ vs, d, if fs.any (·.other) then some d else oth) := by
  intro fs
  induction fs with
  | nil =>
    intro d vs D acc oth _ _ _ _ hw hok
    simp [writeFields] at hw; subst hw
    simp only [FieldsOk] at hok; subst hok
    simp [readFields]
  | cons f fs ih =>
    intro d vs D acc oth hskip hlast hdist hfresh hw hok
    have hs : f.skip = false := hskip f (by simp)
    cases ho : f.other with
    | true =>
      have hnil := lastIsOther_cons_other hlast ho
      subst hnil
      simp [writeFields, hs, ho] at hw; subst hw
      simp only [FieldsOk, hs, ho, Bool.false_or, if_true] at hok; subst hok
      simp [readFields, hs, ho]
    | false =>
      have hso : (f.skip || f.other) = false := by simp [hs, ho]
      simp only [FieldsOk, hso] at hok
      simp [fkeys, hso] at hdist hfresh
      rw [distinct_cons] at hdist
      cases vs with
      | nil => simp at hok
      | cons v vs₀ =>
        simp only at hok
        obtain ⟨⟨hlaw, hnn⟩, hok'⟩ := hok
        simp only [writeFields, hso] at hw
        simp at hw
        cases hem : emit sem f v with
        | error e => simp [hem] at hw
        | ok e =>
          have hr := hlaw e hem
          have hskip' : ∀ g ∈ fs, g.skip = false := fun g hg => hskip g (by simp [hg])
          have hlast' := lastIsOther_tail hlast
          cases e with
          | none =>
            simp [hem] at hw
            have hent : dget (keyOf f) D = none := by
              rw [writeFields_foreign sem (keyOf f) fs vs₀ d D hw hdist.1]; exact hfresh.1
            have hdef : f.default = none := by
              cases hd : f.default with
              | none => rfl
              | some dx => exact absurd hem (hnn (by simp [hd]))
            have hrd := ih d vs₀ D (acc ++ [v]) oth hskip' hlast' hdist.2 hfresh.2 hw hok'
            simp only [readFields, hs, ho]
            have hk : f.key.getD "" = keyOf f := rfl
            simp only [hk, hent, readField, hdef, readPlain, readAbsent]
            simp at hr
            simp [hr, derase_fresh hent, hrd, ho]
          | some q =>
            simp [hem] at hw
            have hent : dget (keyOf f) D = some q := by
              rw [writeFields_foreign sem (keyOf f) fs vs₀ _ D hw hdist.1]; simp [keyOf]
            have hqn := emit_some_not_null hem
            have hw2 := writeFields_derase sem (keyOf f) fs vs₀ _ D hw hdist.1
            have hke : derase (keyOf f) (dinsert (f.key.getD "") q d) = d := derase_dinsert_fresh q hfresh.1
            rw [hke] at hw2
            have hrd := ih d vs₀ (derase (keyOf f) D) (acc ++ [v]) oth hskip' hlast' hdist.2 hfresh.2 hw2 hok'
            simp only [readFields, hs, ho]
            have hk : f.key.getD "" = keyOf f := rfl
            simp only [hk, hent, readField]
            simp at hr
            cases hd : f.default with
            | none => simp [readPlain, hr, hrd, ho]
            | some dx => simp [readDefaulted, hqn, hr, hrd, ho]

/-! ## the struct -/

/-- what the catch-all is after `read ∘ write`: the catch-all of the value plus the type tag and the checked
    entries (a model without a catch-all field drops everything) -/
def otherAfter (S : Schema) (other : Dict) : Dict := if S.hasOther then writeBase S other else []

/-- **read ∘ write = id** on the keyed fields, for any value of the struct — it need not have come out of the
    reader: its catch-all may be empty, or hold unknown keys only -/
theorem struct_reads_back (cfg : Cfg) (sem : Sem) (env : Env) (S : Schema)
    (hk : S.kind = .struct) (hrd : S.derivesRead = true) (wf : S.WF)
    (vals : List Val) (other : Dict)
    (hoth : S.hasOther = true → otherUnrecognised S other)
    (hok : FieldsOk (fun f v => FieldLawV cfg sem env f v ∧ DefaultedNonNull sem f v) S.fields vals) :
    ∀ p, writeStruct sem S (.struct vals other) = .ok p →
      readStruct cfg sem env S p = .ok (.struct vals (otherAfter S other)) := by
  intro p hw
  have F := structFacts hk hrd wf
  simp only [writeStruct] at hw
  cases hD : writeFields sem S.fields vals (writeBase S other) with
  | error e => simp [hD] at hw
  | ok D =>
    simp only [hD] at hw; cases hw
    have hfresh : ∀ k ∈ fkeys S.fields, dget k (writeBase S other) = none := by
      intro k hkm
      have hnt : k ∉ S.tagKeys := fun h => F.disjoint k h hkm
      rw [dget_writeBase_foreign S other k hnt]
      cases ho : S.hasOther with
      | false => simp [dget]
      | true => simp only [if_true]; exact hoth ho k (by rw [F.keysEq]; exact hkm)
    have hrdF := read_written_exact cfg sem env S.fields (writeBase S other) vals D [] none
      F.noSkip F.last F.distinctKeys hfresh hD hok
    have htag : ∀ k ∈ S.tagKeys, dget k D = dget k (writeBase S other) := fun k hk' =>
      writeFields_foreign sem k S.fields vals _ D hD (F.disjoint k hk')
    have hchecks : ∀ k v, (k, v) ∈ S.checks → dget k D = some (.name v) := by
      intro k v hm
      rw [htag k (by simp [Schema.tagKeys]; exact Or.inr ⟨v, hm⟩)]
      exact writeBase_checks S other F.distinctTags k v hm
    have hany : (S.fields.any fun f => f.other) = S.hasOther := rfl
    simp only [readStruct, readStructD, asDict, chase_nonref env env.depth (p := .dict D) rfl, otherAfter]
    cases ht : S.typeName with
    | none =>
      simp only [expectAll_ok D S.checks hchecks, hrdF, hany]
      cases S.hasOther <;> simp
    | some t =>
      have hexp : expect D "Type" t S.typeRequired = .ok () := by
        simp only [expect]
        rw [htag "Type" (by simp [Schema.tagKeys, ht]), writeBase_type S other F.distinctTags t ht]
        simp
      simp only [hexp, expectAll_ok D S.checks hchecks, hrdF, hany]
      cases S.hasOther <;> simp

/-- the dictionary the derived writer produces carries the type tag and every checked entry, whatever the value
    (also one whose catch-all does not hold them already) -/
theorem written_has_tags (sem : Sem) (S : Schema)
    (hk : S.kind = .struct) (hrd : S.derivesRead = true) (wf : S.WF)
    (vals : List Val) (other : Dict) (D : Dict)
    (hw : writeStruct sem S (.struct vals other) = .ok (.dict D)) :
    (∀ k v, (k, v) ∈ S.checks → dget k D = some (.name v)) ∧
    (∀ t, S.typeName = some t → dget "Type" D = some (.name t)) := by
  have F := structFacts hk hrd wf
  simp only [writeStruct] at hw
  cases hD : writeFields sem S.fields vals (writeBase S other) with
  | error e => simp [hD] at hw
  | ok D' =>
    simp only [hD] at hw
    have hDD : D' = D := by cases hw; rfl
    subst hDD
    have htag : ∀ k ∈ S.tagKeys, dget k D' = dget k (writeBase S other) := fun k hk' =>
      writeFields_foreign sem k S.fields vals _ D' hD (F.disjoint k hk')
    refine ⟨?_, ?_⟩
    · intro k v hm
      rw [htag k (by simp [Schema.tagKeys]; exact Or.inr ⟨v, hm⟩)]
      exact writeBase_checks S other F.distinctTags k v hm
    · intro t ht
      rw [htag "Type" (by simp [Schema.tagKeys, ht]), writeBase_type S other F.distinctTags t ht]

/-! ## every model of a registry, at every nesting depth -/

/-- a value of a derived struct that is given back exactly: every keyed field is, and the catch-all already
    holds the type tag and the checked entries (a nested value; at the top level `struct_reads_back` says what the
    catch-all gains) -/
def structOkV (cfg : Cfg) (inner : Sem) (env : Env) (lok : Shape → Val → Prop) (S : Schema) (v : Val) : Prop :=
  ∃ vals other, v = .struct vals other ∧ (S.hasOther = true → otherUnrecognised S other) ∧
    otherAfter S other = other ∧
    FieldsOk (fun f w => IndirectOkV inner f w ∧ ValOkV cfg inner env lok f.shape w ∧ DefaultedNonNull inner f w)
      S.fields vals

def modelOkV (cfg : Cfg) (schemas : List Schema) (inner : Sem) (env : Env) (lok : Shape → Val → Prop) :
    Shape → Val → Prop
  | .model m, v => ∃ S, findSchema m schemas = some S ∧
      ((S.kind = .struct ∧ S.derivesRead = true ∧ structOkV cfg inner env lok S v) ∨
       ((S.kind = .nameEnum ∨ S.kind = .intEnum) ∧ enumValid S v = true))
  | .modelApp _ _, _ => False
  | .leaf n, v =>
    if n = "PagesRc" then ∃ r w, v = .indirect r w ∧ readPagesRc cfg schemas inner env "Pages" r = .ok v
    else if n = "PageRc" then ∃ r w, v = .indirect r w ∧ readPagesRc cfg schemas inner env "Page" r = .ok v
    else if n = "PagesNode" then False
    else lok (.leaf n) v
  | s, v => lok s v

theorem struct_readsBack (cfg : Cfg) (inner : Sem) (env : Env) (lok : Shape → Val → Prop)
    (law : inner.LawV env lok) (S : Schema) (hk : S.kind = .struct) (hrd : S.derivesRead = true) (wf : S.WF)
    (v : Val) (hv : structOkV cfg inner env lok S v) :
    ReadsBack (readStruct cfg inner env S) (writeStruct inner S) v := by
  obtain ⟨vals, other, rfl, hoth, hafter, hok⟩ := hv
  intro p hw
  have := struct_reads_back cfg inner env S hk hrd wf vals other hoth
    (FieldsOk_mono (fun f w ⟨hio, hval, hnn⟩ =>
      ⟨fieldLawV_of_readsBack cfg inner env f w hio (shape_reads_back cfg inner env lok law f.shape w hval), hnn⟩)
      S.fields vals hok) p hw
  rw [this, hafter]

theorem baseSem_lawV (env : Env) : baseSem.LawV env baseOk := by
  intro s v _ hok p hw
  cases s with
  | leaf n =>
    cases v with
    | leaf q =>
      simp [baseOk] at hok
      simp [baseSem, hok.2] at hw
      subst hw
      simp [baseSem, baseRd_valid env n q hok.1 hok.2]
    | _ => simp [baseOk] at hok
  | _ => simp [baseOk] at hok

theorem structSem_lawV (cfg : Cfg) (schemas : List Schema) (inner : Sem) (env : Env) (lok : Shape → Val → Prop)
    (hwf : ∀ S ∈ schemas, S.WF) (law : inner.LawV env lok) :
    (structSem cfg schemas inner).LawV env (modelOkV cfg schemas inner env lok) := by
  intro s v hnc hok p hw
  cases s with
  | model m =>
    simp only [modelOkV] at hok
    obtain ⟨S, hfind, hcase⟩ := hok
    have hS := hwf S (findSchema_mem hfind).1
    rcases hcase with ⟨hk, hrd, hv⟩ | ⟨hk, hv⟩
    · have hw' : writeStruct inner S v = .ok p := by simpa [structSem, hfind, hk] using hw
      have hr := struct_readsBack cfg inner env lok law S hk hrd hS v hv p hw'
      simp [structSem, hfind, hk, hr]
    · have hw' : writeEnum S v = .ok p := by
        rcases hk with hk | hk <;> simpa [structSem, hfind, hk] using hw
      obtain ⟨hr, _⟩ := enum_write_read env S v p hw'
      rcases hk with hk | hk <;> simp [structSem, hfind, hk, hr]
  | modelApp m a => simp [modelOkV] at hok
  | leaf n =>
    simp only [modelOkV] at hok
    by_cases h1 : n = "PagesRc"
    · subst h1
      rw [if_pos rfl] at hok
      obtain ⟨r, w, hv, hr⟩ := hok
      subst hv
      have : p = r := by simpa [structSem] using hw.symm
      subst this
      simpa [structSem] using hr
    · by_cases h2 : n = "PageRc"
      · subst h2
        rw [if_neg (by decide), if_pos rfl] at hok
        obtain ⟨r, w, hv, hr⟩ := hok
        subst hv
        have : p = r := by simpa [structSem] using hw.symm
        subst this
        simpa [structSem] using hr
      · by_cases h3 : n = "PagesNode"
        · simp [h3] at hok
        · simp only [h1, h2, h3, if_false] at hok
          have hrd : ∀ q, (structSem cfg schemas inner).rd env (.leaf n) q = inner.rd env (.leaf n) q := by
            intro q; simp only [structSem]; split <;> simp_all
          have hwr : ∀ w, (structSem cfg schemas inner).wr (.leaf n) w = inner.wr (.leaf n) w := by
            intro w; simp only [structSem]; split <;> simp_all
          rw [hwr] at hw
          rw [hrd]; exact law (.leaf n) v rfl hok p hw
  | leafApp n a =>
    have hok' : lok (.leafApp n a) v := by simpa [modelOkV] using hok
    simpa [structSem] using law (.leafApp n a) v rfl hok' p (by simpa [structSem] using hw)
  | param n =>
    have hok' : lok (.param n) v := by simpa [modelOkV] using hok
    simpa [structSem] using law (.param n) v rfl hok' p (by simpa [structSem] using hw)
  | _ => simp [Shape.isContainer] at hnc

/-- the values the `n`-level semantics gives back exactly -/
def okNV (cfg : Cfg) (schemas : List Schema) (env : Env) : Nat → Shape → Val → Prop
  | 0 => baseOk
  | n + 1 => modelOkV cfg schemas (semN cfg schemas n) env (okNV cfg schemas env n)

theorem semN_lawV (cfg : Cfg) (schemas : List Schema) (env : Env) (hwf : ∀ S ∈ schemas, S.WF) :
    ∀ n, (semN cfg schemas n).LawV env (okNV cfg schemas env n)
  | 0 => baseSem_lawV env
  | n + 1 => structSem_lawV cfg schemas (semN cfg schemas n) env (okNV cfg schemas env n) hwf (semN_lawV cfg schemas env hwf n)

end Derive
