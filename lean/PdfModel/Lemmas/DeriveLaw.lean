import PdfModel.Lemmas.DeriveStruct

/-! From the decidable well-formedness of a schema to the hypotheses of the field loops; the struct law. -/

namespace Derive

theorem chase_nonref (env : Env) (n : Nat) {p : Prim} (h : p.isRef = false) : chase env n p = .ok p := by
  cases n <;> simp [chase, h]

/-! ## what `Schema.WF` gives -/

theorem fieldKeys_eq_fkeys (ps : List String) :
    ∀ fs : List Field, (∀ f ∈ fs, Field.wf ps f = true) →
      (fs.filter fun f => !f.other && !f.skip).filterMap (·.key) = fkeys fs := by
  intro fs
  induction fs with
  | nil => intro _; rfl
  | cons f fs ih =>
    intro h
    have hf := h f (by simp)
    have ih' := ih (fun g hg => h g (by simp [hg]))
    simp only [Field.wf, Bool.and_eq_true] at hf
    have hkey : f.key.isSome = (!f.other && !f.skip) := by simpa using hf.1.1.1.1.1.1
    cases ho : f.other <;> cases hs : f.skip
    · simp [ho, hs] at hkey
      obtain ⟨k, hk⟩ := Option.isSome_iff_exists.1 hkey
      simp [List.filter, fkeys, ho, hs, hk, keyOf, ih']
    · simp [List.filter, fkeys, ho, hs, ih']
    · simp [List.filter, fkeys, ho, hs, ih']
    · simp [List.filter, fkeys, ho, hs, ih']

structure StructFacts (S : Schema) : Prop where
  noSkip : ∀ f ∈ S.fields, f.skip = false
  last : lastIsOther S.fields = true
  keysEq : S.fieldKeys = fkeys S.fields
  distinctKeys : distinct (fkeys S.fields) = true
  distinctTags : distinct S.tagKeys = true
  disjoint : ∀ k ∈ S.tagKeys, k ∉ fkeys S.fields

theorem structFacts {S : Schema} (hk : S.kind = .struct) (hrd : S.derivesRead = true) (wf : S.WF) :
    StructFacts S := by
  have h : S.structWf = true := by simpa [Schema.WF, Schema.wf, hk] using wf
  simp only [Schema.structWf, Bool.and_eq_true, hrd] at h
  obtain ⟨⟨⟨⟨⟨hall, hdist⟩, _⟩, hlast⟩, hskip⟩, _⟩ := h
  have hall' : ∀ f ∈ S.fields, Field.wf S.params f = true := by simpa using hall
  have hkeys : S.fieldKeys = fkeys S.fields := by
    simp only [Schema.fieldKeys, Schema.keyed]; exact fieldKeys_eq_fkeys S.params S.fields hall'
  obtain ⟨h1, h2, h3⟩ := distinct_append hdist
  refine ⟨?_, by simpa using hlast, hkeys, by rw [← hkeys]; exact h2, h1, ?_⟩
  · intro f hf
    have hs' : ∀ x ∈ S.fields, x.skip = false := by simpa using hskip
    exact hs' f hf
  · intro k hk; rw [← hkeys]; exact h3 k hk

/-! ## the base dictionary -/

theorem dget_writeBase_foreign (S : Schema) (other : Dict) (k : String) (hk : k ∉ S.tagKeys) :
    dget k (writeBase S other) = dget k (if S.hasOther then other else []) := by
  simp only [writeBase]
  have hc : k ∉ S.checks.map (·.1) := fun h => hk (by simp [Schema.tagKeys]; exact Or.inr (by simpa using h))
  rw [dget_insertChecks_foreign k S.checks _ hc]
  cases ht : S.typeName with
  | none => rfl
  | some t =>
    simp only
    exact dget_dinsert_ne (fun h => hk (by simp [Schema.tagKeys, ht, ← h])) _ _

theorem writeBase_type (S : Schema) (other : Dict) (hd : distinct S.tagKeys = true) (t : String)
    (ht : S.typeName = some t) : dget "Type" (writeBase S other) = some (.name t) := by
  simp only [writeBase, ht]
  have : "Type" ∉ S.checks.map (·.1) := by
    simp only [Schema.tagKeys, ht] at hd
    have := (distinct_cons "Type" _).1 (by simpa using hd)
    exact this.1
  rw [dget_insertChecks_foreign "Type" S.checks _ this]; simp

theorem writeBase_checks (S : Schema) (other : Dict) (hd : distinct S.tagKeys = true) :
    ∀ k v, (k, v) ∈ S.checks → dget k (writeBase S other) = some (.name v) := by
  intro k v hm
  simp only [writeBase]
  have hdc : distinct (S.checks.map (·.1)) = true := by
    cases ht : S.typeName with
    | none => simpa [Schema.tagKeys, ht] using hd
    | some t =>
      simp only [Schema.tagKeys, ht] at hd
      exact ((distinct_cons "Type" _).1 (by simpa using hd)).2
  exact dget_insertChecks_mem S.checks _ hdc k v hm

theorem writeBase_idem (S : Schema) (other : Dict) (hd : distinct S.tagKeys = true) (ho : S.hasOther = true) :
    writeBase S (writeBase S other) = writeBase S other := by
  have hc := writeBase_checks S other hd
  have e : ∀ o, writeBase S o = insertChecks S.checks
      (match S.typeName with | some t => dinsert "Type" (.name t) o | none => o) := by
    intro o; simp only [writeBase, ho, if_true]; cases S.typeName <;> rfl
  rw [e (writeBase S other)]
  cases ht : S.typeName with
  | none => simp only; exact insertChecks_idem S.checks _ hc
  | some t =>
    simp only
    rw [dinsert_idem (writeBase_type S other hd t ht)]
    exact insertChecks_idem S.checks _ hc

theorem writeBase_noOther (S : Schema) (o1 o2 : Dict) (ho : S.hasOther = false) :
    writeBase S o1 = writeBase S o2 := by
  simp [writeBase, ho]

/-! ## the struct law -/

theorem struct_law (cfg : Cfg) (sem : Sem) (env : Env) (S : Schema)
    (hk : S.kind = .struct) (hrd : S.derivesRead = true) (wf : S.WF)
    (vals : List Val) (other : Dict)
    (hoth : S.hasOther = true → otherUnrecognised S other)
    (hok : FieldsOk (fun f v => FieldLaw cfg sem env f v ∧ DefaultedNonNull sem f v) S.fields vals) :
    RoundTrips (readStruct cfg sem env S) (writeStruct sem S) (.struct vals other) := by
  intro p hw
  have F := structFacts hk hrd wf
  simp only [writeStruct] at hw
  cases hD : writeFields sem S.fields vals (writeBase S other) with
  | error e => simp [hD] at hw
  | ok D =>
    simp only [hD] at hw; cases hw
    -- the keys of the fields are fresh in the base dictionary
    have hfresh : ∀ k ∈ fkeys S.fields, dget k (writeBase S other) = none := by
      intro k hkm
      have hnt : k ∉ S.tagKeys := fun h => F.disjoint k h hkm
      rw [dget_writeBase_foreign S other k hnt]
      cases ho : S.hasOther with
      | false => simp [dget]
      | true => simp only [if_true]; exact hoth ho k (by rw [F.keysEq]; exact hkm)
    obtain ⟨vs', hrdF, heq⟩ := read_written cfg sem env S.fields (writeBase S other) vals D [] none
      F.noSkip F.last F.distinctKeys hfresh hD hok
    -- tags survive the field loop
    have htag : ∀ k ∈ S.tagKeys, dget k D = dget k (writeBase S other) := fun k hk' =>
      writeFields_foreign sem k S.fields vals _ D hD (F.disjoint k hk')
    have hchecks : ∀ k v, (k, v) ∈ S.checks → dget k D = some (.name v) := by
      intro k v hm
      rw [htag k (by simp [Schema.tagKeys]; exact Or.inr ⟨v, hm⟩)]
      exact writeBase_checks S other F.distinctTags k v hm
    have hany : (S.fields.any fun f => f.other) = S.hasOther := rfl
    let oth' : Dict := if S.hasOther then writeBase S other else []
    refine ⟨.struct vs' oth', ?_, ?_⟩
    · simp only [readStruct, readStructD, asDict, chase_nonref env env.depth (p := .dict D) rfl]
      cases ht : S.typeName with
      | none =>
        simp only [expectAll_ok D S.checks hchecks, hrdF, hany]
        cases ho : S.hasOther <;> simp [oth', ho]
      | some t =>
        have hexp : expect D "Type" t S.typeRequired = .ok () := by
          simp only [expect]
          rw [htag "Type" (by simp [Schema.tagKeys, ht]), writeBase_type S other F.distinctTags t ht]
          simp
        simp only [hexp, expectAll_ok D S.checks hchecks, hrdF, hany]
        cases ho : S.hasOther <;> simp [oth', ho]
    · simp only [writeStruct]
      have hbase : writeBase S oth' = writeBase S other := by
        cases ho : S.hasOther with
        | true => simp only [oth', ho, if_true]; exact writeBase_idem S other F.distinctTags ho
        | false => exact writeBase_noOther S _ _ ho
      rw [hbase, writeFields_emitsEq sem S.fields vals vs' _ heq ⟨D, hD⟩, hD]

/-! ## from the shape law to the field law -/

theorem fieldLaw_of_roundTrips (cfg : Cfg) (sem : Sem) (env : Env) (f : Field) (v : Val)
    (hind : f.indirect = false)
    (h : RoundTrips (readShape cfg sem env f.shape) (writeShape sem f.shape) v) :
    FieldLaw cfg sem env f v := by
  intro e he
  simp only [emit] at he
  cases hw : writeShape sem f.shape v with
  | error err => simp [hw] at he
  | ok p =>
    simp only [hw] at he
    obtain ⟨v', hr, hw'⟩ := h p hw
    cases hp : p.isNull with
    | true =>
      simp [hp] at he; subst he
      have : p = .null := by cases p <;> simp [Prim.isNull] at hp; rfl
      subst this
      exact ⟨v', by simpa using hr, by simp [emit, hw', Prim.isNull]⟩
    | false =>
      simp [hp] at he; subst he
      simp only [indirectOf, hind]
      exact ⟨v', by simpa using hr, by simp [emit, hw', hp, indirectOf, hind]⟩

end Derive
