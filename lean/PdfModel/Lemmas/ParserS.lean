import PdfModel.Spec.SyntaxS
import PdfModel.Lemmas.Indirect

/-! The reader theorems of C03 for values that contain stream objects anywhere (`Spec/SyntaxS`), read in the context
    of an indirect object: the result `Reads` as the value. -/

namespace PdfLex
open PdfSyntax (Gap Bnd NatTok NameBody Spells SpellsS SpellsElemsS SpellsEntriesS needsBnd Reads ReadsL ReadsE LengthOK
  WF WFL WFE vdepth vdepthL vdepthE need needL needE keysOf)

variable {R : Type}

theorem spellsS_ne_nil (env : Env R) (v : Prim R) (t : List UInt8) (h : SpellsS env v t) : t ≠ [] := by
  cases v with
  | arr xs => simp only [SpellsS] at h; obtain ⟨g, r, rfl, _⟩ := h; simp
  | dict kvs => simp only [SpellsS] at h; obtain ⟨g, r, rfl, _⟩ := h; simp
  | stream info inner => simp only [SpellsS] at h; obtain ⟨d, _, g1, e, g2, eol, g3, rfl, _⟩ := h; simp
  | null => exact spells_ne_nil _ _ t (by simpa [SpellsS] using h)
  | int i => exact spells_ne_nil _ _ t (by simpa [SpellsS] using h)
  | real r => exact spells_ne_nil _ _ t (by simpa [SpellsS] using h)
  | bool b => exact spells_ne_nil _ _ t (by simpa [SpellsS] using h)
  | str s => exact spells_ne_nil _ _ t (by simpa [SpellsS] using h)
  | ref a b => exact spells_ne_nil _ _ t (by simpa [SpellsS] using h)
  | name s => exact spells_ne_nil _ _ t (by simpa [SpellsS] using h)

theorem spellsElemsS_ne_nil (env : Env R) (xs : List (Prim R)) : ∀ r, SpellsElemsS env xs r → r ≠ [] := by
  induction xs with
  | nil => intro r h; simp only [SpellsElemsS] at h; subst h; simp
  | cons x xs ih =>
    intro r h
    simp only [SpellsElemsS] at h
    obtain ⟨tx, g, r', rfl, _, _, hr, _⟩ := h
    have := ih r' hr
    simp [this]

theorem spellsEntriesS_ne_nil (env : Env R) (kvs : List (List UInt8 × Prim R)) :
    ∀ r, SpellsEntriesS env kvs r → r ≠ [] := by
  cases kvs with
  | nil => intro r h; simp only [SpellsEntriesS] at h; subst h; simp
  | cons kv kvs =>
    obtain ⟨k, v⟩ := kv
    intro r h
    simp only [SpellsEntriesS] at h
    obtain ⟨kb, g1, tv, g2, r', rfl, _⟩ := h
    simp

/-- the first lexeme of a spelling (with streams) -/
theorem spellsS_first (env : Env R) (x : Prim R) (tx : List UInt8) (hx : SpellsS env x tx) {buf : Buf}
    (g more : List UInt8) (q : Nat) (hg : Gap g) (h : Suffix buf q (g ++ tx ++ more))
    (hb : needsBnd x = true → Bnd more) :
    ∃ k t, 0 < k ∧ next buf q = .ok (q + g.length, q + g.length + k) ∧
      slice buf (q + g.length) (q + g.length + k) = t ∧ LexFacts t ∧
      (isInteger t = true → (k = tx.length ∧ ∃ i, x = .int i) ∨ NotR buf (q + g.length + k)) := by
  cases x with
  | arr xs =>
    simp only [SpellsS] at hx
    obtain ⟨g0, r, rfl, _, _⟩ := hx
    obtain ⟨hn, hsl⟩ := next_delim g 91 (g0 ++ r ++ more) q hg (by simpa using h) (by decide) (by decide) (by decide) (by simp)
    exact ⟨1, [91], by decide, hn, hsl, ⟨by decide, by decide, by decide⟩, fun hi => absurd hi (by decide)⟩
  | dict kvs =>
    simp only [SpellsS] at hx
    obtain ⟨g0, r, rfl, _, _⟩ := hx
    obtain ⟨hn, hsl⟩ := next_double g 60 (g0 ++ r ++ more) q hg (by simpa using h) (Or.inl rfl)
    exact ⟨2, [60, 60], by decide, hn, hsl, ⟨by decide, by decide, by decide⟩, fun hi => absurd hi (by decide)⟩
  | stream info inner =>
    simp only [SpellsS] at hx
    obtain ⟨d, _, g1, e, g2, eol, g3, rfl, _⟩ := hx
    obtain ⟨hn, hsl⟩ := next_double g 60 (g1 ++ e ++ g2 ++ PdfSyntax.kwStream ++ eol ++ d ++ g3 ++ PdfSyntax.kwEndstream ++ more) q hg
      (by simpa using h) (Or.inl rfl)
    exact ⟨2, [60, 60], by decide, hn, hsl, ⟨by decide, by decide, by decide⟩, fun hi => absurd hi (by decide)⟩
  | null => exact spells_first env.parseReal _ tx (by simpa [SpellsS] using hx) g more q hg h hb
  | int i => exact spells_first env.parseReal _ tx (by simpa [SpellsS] using hx) g more q hg h hb
  | real r => exact spells_first env.parseReal _ tx (by simpa [SpellsS] using hx) g more q hg h hb
  | bool b => exact spells_first env.parseReal _ tx (by simpa [SpellsS] using hx) g more q hg h hb
  | str s => exact spells_first env.parseReal _ tx (by simpa [SpellsS] using hx) g more q hg h hb
  | ref a b => exact spells_first env.parseReal _ tx (by simpa [SpellsS] using hx) g more q hg h hb
  | name s => exact spells_first env.parseReal _ tx (by simpa [SpellsS] using hx) g more q hg h hb

theorem ahead_elemsS (env : Env R) (xs : List (Prim R)) :
    ∀ (r : List UInt8), SpellsElemsS env xs r → ∀ {buf : Buf} (g rest : List UInt8) (q : Nat), Gap g →
      Suffix buf q (g ++ r ++ rest) → Ahead buf q := by
  induction xs with
  | nil =>
    intro r h buf g rest q hg hs
    simp only [SpellsElemsS] at h; subst h
    obtain ⟨hn, hsl⟩ := next_delim g 93 rest q hg (by simpa using hs) (by decide) (by decide) (by decide) (by simp)
    exact ahead_of_lexeme _ [93] hn hsl (by decide) (by decide) (fun hi => absurd hi (by decide))
  | cons x xs ih =>
    intro r h buf g rest q hg hs
    simp only [SpellsElemsS] at h
    obtain ⟨tx, g', r', rfl, hx, hg', hr, hbnd⟩ := h
    have hne : g' ++ r' ≠ [] := by simp [spellsElemsS_ne_nil env xs r' hr]
    have hs1 : Suffix buf q (g ++ tx ++ (g' ++ r' ++ rest)) := by simpa using hs
    obtain ⟨k, t, hk, hn, hsl, hf, hint⟩ := spellsS_first env x tx hx g (g' ++ r' ++ rest) q hg hs1
      (fun hb => by simpa using bnd_append (t := rest) (hbnd hb) hne)
    refine ahead_of_lexeme _ t hn hsl hf.neR hf.neStream ?_
    intro hi
    rcases hint hi with ⟨hk', _⟩ | hnr
    · subst hk'
      have hs2 : Suffix buf (q + g.length + tx.length) (g' ++ r' ++ rest) := by
        have := Suffix.drop (a := g ++ tx) (by simpa using hs1)
        simpa [Nat.add_assoc] using this
      exact (ih r' hr g' rest _ hg' hs2).notR
    · exact hnr

theorem ahead_entriesS (env : Env R) (kvs : List (List UInt8 × Prim R)) (r : List UInt8)
    (h : SpellsEntriesS env kvs r) {buf : Buf} (g rest : List UInt8) (q : Nat) (hg : Gap g)
    (hs : Suffix buf q (g ++ r ++ rest)) : Ahead buf q := by
  cases kvs with
  | nil =>
    simp only [SpellsEntriesS] at h; subst h
    obtain ⟨hn, hsl⟩ := next_double g 62 rest q hg (by simpa using hs) (Or.inr rfl)
    exact ahead_of_lexeme _ [62, 62] hn hsl (by decide) (by decide) (fun hi => absurd hi (by decide))
  | cons kv kvs =>
    obtain ⟨k, v⟩ := kv
    simp only [SpellsEntriesS] at h
    obtain ⟨kb, g1, tv, g2, r', rfl, hnb, hg1, hb1, hv, hg2, hr, _⟩ := h
    obtain ⟨_, hreg⟩ := nameBody_spec kb k hnb
    have hne : g1 ++ tv ≠ [] := by simp [spellsS_ne_nil env v tv hv]
    have hs1 : Suffix buf q (g ++ (47 :: kb) ++ (g1 ++ tv ++ g2 ++ r' ++ rest)) := by simpa using hs
    obtain ⟨hn, hsl⟩ := next_name g kb _ q hg hs1 hreg (by simpa using bnd_append (t := g2 ++ r' ++ rest) hb1 hne)
    refine ahead_of_lexeme _ (47 :: kb) hn hsl (by simp) (by simp [kwStream]) ?_
    intro hi; simp [isInteger, allDigits, isDigit] at hi

theorem readsE_keys (env : Env R) (buf : Buf) (id : Nat × Nat) (kvs : List (List UInt8 × Prim R)) :
    ∀ ps, ReadsE env buf id ps kvs → keysOf ps = keysOf kvs := by
  induction kvs with
  | nil => intro ps h; simp only [ReadsE] at h; subst h; rfl
  | cons kv kvs ih =>
    obtain ⟨k, v⟩ := kv
    intro ps h
    simp only [ReadsE] at h
    obtain ⟨p, ps', rfl, _, hr⟩ := h
    simp [keysOf] at ih ⊢
    exact ih ps' hr

/-- `/Length` survives the reading: it is an integer or a reference, which read as themselves -/
theorem lengthIs_of_reads (env : Env R) (buf : Buf) (id : Nat × Nat) (kvs : List (List UInt8 × Prim R)) (n : Nat) :
    ∀ ps, ReadsE env buf id ps kvs → LengthOK env kvs n → LengthIs env ps n := by
  have key : ∀ (kvs : List (List UInt8 × Prim R)) (ps : Dict R), ReadsE env buf id ps kvs → ∀ v, dictGet kvs kwLength = some v →
      ∃ p, dictGet ps kwLength = some p ∧ Reads env buf id p v := by
    intro kvs
    induction kvs with
    | nil => intro ps _ v hv; simp [dictGet] at hv
    | cons kv kvs ih =>
      obtain ⟨k, w⟩ := kv
      intro ps h v hv
      simp only [ReadsE] at h
      obtain ⟨p, ps', rfl, hp, hr⟩ := h
      simp only [dictGet] at hv ⊢
      by_cases hk : k = kwLength
      · simp only [hk, if_true] at hv ⊢
        cases hv
        exact ⟨p, rfl, hp⟩
      · simp only [hk, if_false] at hv ⊢
        exact ih ps' hr v hv
  intro ps hr hl
  rcases hl with hl | ⟨i, g, hl, hres⟩
  · obtain ⟨p, hp, hrd⟩ := key kvs ps hr _ hl
    simp only [Reads] at hrd; subst hrd
    exact Or.inl hp
  · obtain ⟨p, hp, hrd⟩ := key kvs ps hr _ hl
    simp only [Reads] at hrd; subst hrd
    exact Or.inr ⟨i, g, hp, hres⟩


/-! ### the main induction, with streams -/

def isAtomP : Prim R → Bool
  | .arr _ => false
  | .dict _ => false
  | .stream _ _ => false
  | _ => true

theorem reads_of_eq (env : Env R) (buf : Buf) (id : Nat × Nat) (v : Prim R) (hv : isAtomP v = true) :
    Reads env buf id v v := by
  cases v <;> simp [Reads, isAtomP] at hv ⊢

mutual

theorem parseCtx_spellsS (env : Env R) (hd : env.decrypt = none) (v : Prim R) :
    ∀ (txt : List UInt8), SpellsS env v txt → WF v → ∀ {buf : Buf}, buf.size ≤ 2147483647 →
      ∀ (g rest : List UInt8) (pos fuel : Nat) (id : Nat × Nat) (depth flags : Nat), Gap g →
      flags &&& flagOf v ≠ 0 →
      Suffix buf pos (g ++ txt ++ rest) → (needsBnd v = true → Bnd rest) → Ahead buf (pos + g.length + txt.length) →
      need v ≤ fuel → vdepth v ≤ depth →
      ∃ p, parseCtx env buf fuel pos (some id) flags depth = .ok (p, pos + g.length + txt.length) ∧ Reads env buf id p v := by
  intro txt hsp hwf buf hsz g rest pos fuel id depth flags hg hfl hs hb hah hfuel hdepth
  have hend : pos + g.length + txt.length ≤ buf.size := by
    have := hs.size_eq; simp at this; omega
  have atom : ∀ (hsp' : Spells env.parseReal v txt) (hv : isAtomP v = true),
      ∃ p, parseCtx env buf fuel pos (some id) flags depth = .ok (p, pos + g.length + txt.length) ∧ Reads env buf id p v :=
    fun hsp' hv => ⟨v, parseCtx_spells env hd v txt hsp' hwf hsz g rest pos fuel (some id) depth flags hg hfl hs hb hah hfuel hdepth,
      reads_of_eq env buf id v hv⟩
  cases v with
  | null => exact atom (by simpa [SpellsS] using hsp) rfl
  | int i => exact atom (by simpa [SpellsS] using hsp) rfl
  | real r => exact atom (by simpa [SpellsS] using hsp) rfl
  | bool b => exact atom (by simpa [SpellsS] using hsp) rfl
  | str s => exact atom (by simpa [SpellsS] using hsp) rfl
  | ref a b => exact atom (by simpa [SpellsS] using hsp) rfl
  | name s => exact atom (by simpa [SpellsS] using hsp) rfl
  | arr xs =>
    obtain ⟨f, rfl⟩ : ∃ f, fuel = f + 2 := ⟨fuel - 2, by simp [need] at hfuel; omega⟩
    simp only [SpellsS] at hsp
    obtain ⟨g0, r, rfl, hg0, hr⟩ := hsp
    simp only [WF] at hwf
    simp only [need] at hfuel
    simp only [vdepth] at hdepth
    simp only [flagOf] at hfl
    obtain ⟨hn, hsl⟩ := next_delim g 91 (g0 ++ r ++ rest) pos hg (by simpa using hs) (by decide) (by decide) (by decide) (by simp)
    have hs2 : Suffix buf (pos + g.length + 1) (g0 ++ r ++ rest) := by
      have := Suffix.drop (a := g ++ [91]) (s := g0 ++ r ++ rest) (by simpa using hs)
      simpa [Nat.add_assoc] using this
    obtain ⟨ps, harr, hrd⟩ := parseArray_spellsS env hd xs r hr hwf hsz g0 rest (pos + g.length + 1) f id (depth - 1) [] hg0 hs2
      (by
        have : pos + g.length + (91 :: g0 ++ r).length = pos + g.length + 1 + g0.length + r.length := by simp; omega
        rw [this] at hah; exact hah)
      (by omega) (by omega)
    have hint : isInteger [91] = false := by decide
    have hreal : realNumber [91] = none := by decide
    have e1 : (([91] : List UInt8) == [60, 60]) = false := by decide
    have e2 : ((([91] : List UInt8).head?) == some 47) = false := by decide
    have e3 : (([91] : List UInt8) == [91]) = true := by decide
    have c1 : check flags Flags.array = .ok () := check_ok hfl
    have hd0 : (depth == 0) = false := by simp; omega
    refine ⟨.arr ps, ?_, by simp only [Reads]; exact ⟨ps, rfl, hrd⟩⟩
    simp only [parseCtx, parseInner, remainingStart_ok hs.le, hn, Out.bind_ok, hsl, e1, e2, e3, hint, hreal,
      Bool.false_eq_true, if_false, if_true, c1, hd0, harr]
    simp; omega
  | dict kvs =>
    obtain ⟨f, rfl⟩ : ∃ f, fuel = f + 2 := ⟨fuel - 2, by simp [need] at hfuel; omega⟩
    simp only [SpellsS] at hsp
    obtain ⟨g0, r, rfl, hg0, hr⟩ := hsp
    simp only [WF] at hwf
    simp only [need] at hfuel
    simp only [vdepth] at hdepth
    simp only [flagOf] at hfl
    obtain ⟨hn, hsl⟩ := next_double g 60 (g0 ++ r ++ rest) pos hg (by simpa using hs) (Or.inl rfl)
    have hs2 : Suffix buf (pos + g.length + 2) (g0 ++ r ++ rest) := by
      have := Suffix.drop (a := g ++ [60, 60]) (s := g0 ++ r ++ rest) (by simpa using hs)
      simpa [Nat.add_assoc] using this
    have hpos : pos + g.length + (60 :: 60 :: g0 ++ r).length = pos + g.length + 2 + g0.length + r.length := by simp; omega
    rw [hpos] at hah hend
    obtain ⟨ps, hdict, hrd⟩ := parseDict_spellsS env hd kvs r hr hwf.1 hsz g0 rest (pos + g.length + 2) f id (depth - 1) [] hg0 hs2
      (by simpa [keysOf] using hwf.2) (by simp [keysOf]) (by omega) (by omega)
    obtain ⟨pk, hpk, hpks⟩ := dictFollowOK_of_ahead hend hah
    have hpks' : (slice buf pk.1 pk.2 == kwStream) = false := by simpa using hpks
    have e1 : (([60, 60] : List UInt8) == [60, 60]) = true := by decide
    have c1 : check flags Flags.dict = .ok () := check_ok hfl
    have hd0 : (depth == 0) = false := by simp; omega
    refine ⟨.dict ps, ?_, by simp only [Reads]; exact ⟨ps, rfl, hrd⟩⟩
    simp only [parseCtx, parseInner, remainingStart_ok hs.le, hn, Out.bind_ok, hsl, e1, if_true, c1, hd0,
      Bool.false_eq_true, if_false, hdict, hpk, hpks', List.nil_append, hpos]
  | stream info inner =>
    obtain ⟨f, rfl⟩ : ∃ f, fuel = f + 2 := ⟨fuel - 2, by simp [need] at hfuel; omega⟩
    simp only [SpellsS] at hsp
    obtain ⟨data, rfl, g1, ents, g2, eol, g3, rfl, hg1, hents, hg2, heol, hg3, hlen⟩ := hsp
    simp only [WF] at hwf
    simp only [need] at hfuel
    simp only [vdepth] at hdepth
    simp only [flagOf] at hfl
    have hbr : Bnd rest := hb rfl
    obtain ⟨hn, hsl⟩ := next_double g 60 (g1 ++ ents ++ g2 ++ kwStream ++ eol ++ data ++ g3 ++ kwEndstream ++ rest) pos hg
      (by simpa [PdfSyntax.kwStream, PdfSyntax.kwEndstream, kwStream, kwEndstream] using hs) (Or.inl rfl)
    have hs2 : Suffix buf (pos + g.length + 2) (g1 ++ ents ++ (g2 ++ kwStream ++ eol ++ data ++ g3 ++ kwEndstream ++ rest)) := by
      have := Suffix.drop (a := g ++ [60, 60]) (s := g1 ++ ents ++ (g2 ++ kwStream ++ eol ++ data ++ g3 ++ kwEndstream ++ rest))
        (by simpa [PdfSyntax.kwStream, PdfSyntax.kwEndstream, kwStream, kwEndstream] using hs)
      simpa [Nat.add_assoc] using this
    obtain ⟨info', hdict, hrd⟩ := parseDict_spellsS env hd info ents hents hwf.1 hsz g1 _ (pos + g.length + 2) f id (depth - 1) [] hg1
      hs2 (by simpa [keysOf] using hwf.2) (by simp [keysOf]) (by omega) (by omega)
    have hs3 : Suffix buf (pos + g.length + 2 + g1.length + ents.length)
        (g2 ++ kwStream ++ eol ++ data ++ g3 ++ kwEndstream ++ rest) := by
      have := Suffix.drop (a := g1 ++ ents) (by simpa using hs2)
      simpa [Nat.add_assoc] using this
    have hbe : Bnd (eol ++ data ++ g3 ++ kwEndstream ++ rest) := by rcases heol with rfl | rfl <;> (simp [Bnd]; decide)
    obtain ⟨hn2, hsl2⟩ := next_regular g2 kwStream (eol ++ data ++ g3 ++ kwEndstream ++ rest) _ hg2 (by simpa using hs3)
      (by decide) kw_stream_regular hbe
    have hlen' : LengthIs env info' data.length := lengthIs_of_reads env buf id info data.length info' hrd hlen
    have hso := parseStreamObject_spec env hsz info' g2 eol data g3 rest _ id hg2 heol hg3 hlen' hs3 hbr
    have hs4 : Suffix buf (pos + g.length + 2 + g1.length + ents.length + g2.length + kwStream.length + eol.length)
        (data ++ (g3 ++ kwEndstream ++ rest)) := by
      have := Suffix.drop (a := g2 ++ kwStream ++ eol) (s := data ++ (g3 ++ kwEndstream ++ rest)) (by simpa using hs3)
      simpa [Nat.add_assoc] using this
    have e1 : (([60, 60] : List UInt8) == [60, 60]) = true := by decide
    have c1 : check flags Flags.dict = .ok () := check_ok hfl
    have hd0 : (depth == 0) = false := by simp; omega
    refine ⟨.stream info' (.inFile id.1 id.2
      (env.fileOffset + (pos + g.length + 2 + g1.length + ents.length + g2.length + kwStream.length + eol.length))
      (env.fileOffset + (pos + g.length + 2 + g1.length + ents.length + g2.length + kwStream.length + eol.length) + data.length)),
      ?_, ?_⟩
    rotate_left
    · simp only [Reads]
      exact ⟨data, rfl, info', pos + g.length + 2 + g1.length + ents.length + g2.length + kwStream.length + eol.length, rfl, hrd,
        hs4.slice⟩
    · simp only [parseCtx, parseInner, remainingStart_ok hs.le, hn, Out.bind_ok, hsl, e1, if_true, c1, hd0,
        Bool.false_eq_true, if_false, hdict, List.nil_append, peek_ok hn2, hsl2, beq_self_eq_true, hso]
      simp [PdfSyntax.kwStream, PdfSyntax.kwEndstream, kwStream, kwEndstream]; omega

theorem parseArray_spellsS (env : Env R) (hd : env.decrypt = none) (xs : List (Prim R)) :
    ∀ (r : List UInt8), SpellsElemsS env xs r → WFL xs → ∀ {buf : Buf}, buf.size ≤ 2147483647 →
      ∀ (g rest : List UInt8) (pos fuel : Nat) (id : Nat × Nat) (depth : Nat) (acc : List (Prim R)), Gap g →
      Suffix buf pos (g ++ r ++ rest) → Ahead buf (pos + g.length + r.length) →
      needL xs ≤ fuel → vdepthL xs ≤ depth →
      ∃ ps, parseArray env buf fuel pos (some id) depth acc = .ok (.arr (acc.reverse ++ ps), pos + g.length + r.length) ∧
        ReadsL env buf id ps xs := by
  intro r hr hwf buf hsz g rest pos fuel id depth acc hg hs hah hfuel hdepth
  cases xs with
  | nil =>
    obtain ⟨f, rfl⟩ : ∃ f, fuel = f + 1 := ⟨fuel - 1, by simp [needL] at hfuel; omega⟩
    simp only [SpellsElemsS] at hr; subst hr
    obtain ⟨hn, hsl⟩ := next_delim g 93 rest pos hg (by simpa using hs) (by decide) (by decide) (by decide) (by simp)
    refine ⟨[], ?_, by simp [ReadsL]⟩
    simp only [parseArray, peek_ok hn, Out.bind_ok, hsl, beq_self_eq_true, if_true, hn]
    simp
  | cons x xs =>
    obtain ⟨f, rfl⟩ : ∃ f, fuel = f + 1 := ⟨fuel - 1, by simp [needL] at hfuel; omega⟩
    simp only [SpellsElemsS] at hr
    obtain ⟨tx, g', r', rfl, hx, hg', hr', hbnd⟩ := hr
    simp only [WFL] at hwf
    simp only [needL] at hfuel
    simp only [vdepthL] at hdepth
    have hne : g' ++ r' ≠ [] := by simp [spellsElemsS_ne_nil env xs r' hr']
    have hs1 : Suffix buf pos (g ++ tx ++ (g' ++ r' ++ rest)) := by simpa using hs
    obtain ⟨k, t, hk, hn, hsl, hf, _⟩ := spellsS_first env x tx hx g (g' ++ r' ++ rest) pos hg hs1
      (fun hb => by simpa using bnd_append (t := rest) (hbnd hb) hne)
    have hs2 : Suffix buf (pos + g.length + tx.length) (g' ++ r' ++ rest) := by
      have := Suffix.drop (a := g ++ tx) (by simpa using hs1)
      simpa [Nat.add_assoc] using this
    obtain ⟨p, hx', hpx⟩ := parseCtx_spellsS env hd x tx hx hwf.1 hsz g (g' ++ r' ++ rest) pos f id depth Flags.any hg (any_allows x) hs1
      (fun hb => by simpa using bnd_append (t := rest) (hbnd hb) hne)
      (ahead_elemsS env xs r' hr' g' rest _ hg' hs2) (by omega) (by omega)
    have hpos : pos + g.length + (tx ++ g' ++ r').length = pos + g.length + tx.length + g'.length + r'.length := by
      simp; omega
    rw [hpos] at hah
    obtain ⟨ps, hxs, hps⟩ := parseArray_spellsS env hd xs r' hr' hwf.2 hsz g' rest (pos + g.length + tx.length) f id depth (p :: acc)
      hg' hs2 hah (by omega) (by omega)
    have hne93 : (t == [93]) = false := by simpa using hf.neClose
    refine ⟨p :: ps, ?_, by simp only [ReadsL]; exact ⟨p, ps, rfl, hpx, hps⟩⟩
    simp only [parseArray, peek_ok hn, Out.bind_ok, hsl, hne93, Bool.false_eq_true, if_false, hx', hxs, hpos]
    simp

theorem parseDict_spellsS (env : Env R) (hd : env.decrypt = none) (kvs : List (List UInt8 × Prim R)) :
    ∀ (r : List UInt8), SpellsEntriesS env kvs r → WFE kvs → ∀ {buf : Buf}, buf.size ≤ 2147483647 →
      ∀ (g rest : List UInt8) (pos fuel : Nat) (id : Nat × Nat) (depth : Nat) (acc : Dict R), Gap g →
      Suffix buf pos (g ++ r ++ rest) →
      (keysOf kvs).Nodup → (∀ k ∈ keysOf kvs, k ∉ keysOf acc) →
      needE kvs ≤ fuel → vdepthE kvs ≤ depth →
      ∃ ps, parseDict env buf fuel pos (some id) depth acc = .ok (acc ++ ps, pos + g.length + r.length) ∧
        ReadsE env buf id ps kvs := by
  intro r hr hwf buf hsz g rest pos fuel id depth acc hg hs hnd hdisj hfuel hdepth
  cases kvs with
  | nil =>
    obtain ⟨f, rfl⟩ : ∃ f, fuel = f + 1 := ⟨fuel - 1, by simp [needE] at hfuel; omega⟩
    simp only [SpellsEntriesS] at hr; subst hr
    obtain ⟨hn, hsl⟩ := next_double g 62 rest pos hg (by simpa using hs) (Or.inr rfl)
    have e1 : ((([62, 62] : List UInt8).head?) == some 47) = false := by decide
    refine ⟨[], ?_, by simp [ReadsE]⟩
    simp only [parseDict, hn, Out.bind_ok, hsl, e1, Bool.false_eq_true, if_false, beq_self_eq_true, if_true]
    simp
  | cons kv kvs =>
    obtain ⟨k, v⟩ := kv
    obtain ⟨f, rfl⟩ : ∃ f, fuel = f + 1 := ⟨fuel - 1, by simp [needE] at hfuel; omega⟩
    simp only [SpellsEntriesS] at hr
    obtain ⟨kb, g1, tv, g2, r', rfl, hnb, hg1, hb1, hv, hg2, hr', hbnd⟩ := hr
    simp only [WFE] at hwf
    simp only [needE] at hfuel
    simp only [vdepthE] at hdepth
    obtain ⟨hun, hreg⟩ := nameBody_spec kb k hnb
    have hne1 : g1 ++ tv ≠ [] := by simp [spellsS_ne_nil env v tv hv]
    have hne2 : g2 ++ r' ≠ [] := by simp [spellsEntriesS_ne_nil env kvs r' hr']
    have hs1 : Suffix buf pos (g ++ (47 :: kb) ++ (g1 ++ tv ++ g2 ++ r' ++ rest)) := by simpa using hs
    obtain ⟨hn, hsl⟩ := next_name g kb _ pos hg hs1 hreg (by simpa using bnd_append (t := g2 ++ r' ++ rest) hb1 hne1)
    have hs2 : Suffix buf (pos + g.length + (47 :: kb).length) (g1 ++ tv ++ (g2 ++ r' ++ rest)) := by
      have := Suffix.drop (a := g ++ (47 :: kb)) (by simpa using hs1)
      simpa [Nat.add_assoc] using this
    have hs3 : Suffix buf (pos + g.length + (47 :: kb).length + g1.length + tv.length) (g2 ++ r' ++ rest) := by
      have := Suffix.drop (a := g1 ++ tv) (by simpa using hs2)
      simpa [Nat.add_assoc] using this
    obtain ⟨p, hv', hpv⟩ := parseCtx_spellsS env hd v tv hv hwf.2.1 hsz g1 (g2 ++ r' ++ rest) (pos + g.length + (47 :: kb).length) f id
      depth Flags.any hg1 (any_allows v) hs2 (fun hb => by simpa using bnd_append (t := rest) (hbnd hb) hne2)
      (ahead_entriesS env kvs r' hr' g2 rest _ hg2 hs3) (by omega) (by omega)
    have hpos : pos + g.length + (47 :: kb ++ g1 ++ tv ++ g2 ++ r').length =
        pos + g.length + (47 :: kb).length + g1.length + tv.length + g2.length + r'.length := by
      simp; omega
    simp only [keysOf, List.map_cons, List.nodup_cons] at hnd
    have hk : k ∉ keysOf acc := hdisj k (by simp [keysOf])
    obtain ⟨ps, hkvs, hps⟩ := parseDict_spellsS env hd kvs r' hr' hwf.2.2 hsz g2 rest
      (pos + g.length + (47 :: kb).length + g1.length + tv.length) f id depth (acc ++ [(k, p)]) hg2 hs3 hnd.2
      (by
        intro k' hk' hc
        simp [keysOf] at hc
        rcases hc with hc | hc
        · exact hdisj k' (by simp [keysOf] at hk' ⊢; exact Or.inr hk') (by simpa [keysOf] using hc)
        · subst hc; exact hnd.1 (by simpa [keysOf] using hk'))
      (by omega) (by omega)
    have e1 : (((47 :: kb : List UInt8).head?) == some 47) = true := by simp
    have hdn : decodeName ((47 :: kb).drop 1) = .ok k := by simp [decodeName, hun, hwf.1]
    refine ⟨(k, p) :: ps, ?_, by simp only [ReadsE]; exact ⟨p, ps, rfl, hpv, hps⟩⟩
    simp only [parseDict, hn, Out.bind_ok, hsl, e1, if_true, hdn, hv', dictInsert_append acc k p hk, hkvs, hpos]
    simp

end

end PdfLex
