import PdfModel.Model.FontLoad
import PdfModel.Lemmas.TotalTyped

/-!
  `Font::from_primitive` is total (C01): the plan — dispatch on `/Subtype`, the `/BaseFont` rule, `/Encoding`, the cut of
  `/DescendantFonts` — answers on every plain primitive; run through the derived readers (`readFont`) it answers
  whenever the leaf readers below do.
-/

namespace FontLoad
open Derive

theorem dinsert_plain {d : Dict} (h : plainKV d = true) (k : String) (v : Prim) (hv : v.plain = true) :
    plainKV (dinsert k v d) = true := by
  induction d with
  | nil => simp [dinsert, plainKV, hv]
  | cons kv t ih =>
    obtain ⟨k', v'⟩ := kv
    simp only [plainKV, Bool.and_eq_true] at h
    simp only [dinsert]
    split
    · simp [plainKV, hv, h.2]
    · simp [plainKV, h.1, ih h.2]

theorem plainList_take {xs : List Prim} (h : plainList xs = true) (n : Nat) : plainList (xs.take n) = true := by
  induction xs generalizing n with
  | nil => simp [plainList]
  | cons x t ih =>
    simp only [plainList, Bool.and_eq_true] at h
    cases n with
    | zero => simp [plainList]
    | succ n => simp [List.take, plainList, h.1, ih h.2 n]

theorem resolve1_spec {env : Env} (he : EnvOk env) (p : Prim) (hp : p.plain = true) :
    Clean (resolve1 env p) ∧ ∀ q, resolve1 env p = .ok q → q.plain = true :=
  ⟨(resolveP_spec he p hp).1, fun q hq => ((resolveP_spec he p hp).2 q hq).1⟩

theorem readSubtype_clean {env : Env} (he : EnvOk env) (S : Schema) (p : Prim) (hp : p.plain = true) :
    Clean (readSubtype env S p) := by
  have := readEnum_clean he S p hp
  unfold readSubtype
  simp only [Clean] at *
  intro e
  repeat' split
  all_goals
    intro hh; cases hh <;> first | rfl | (simp only [hasOof_tryE]; apply this; assumption)

theorem baseFont_clean {env : Env} (he : EnvOk env) (d : Dict) (hd : plainKV d = true) (st : String) :
    Clean (baseFont env d st) := by
  unfold baseFont
  cases hg : dget "BaseFont" d with
  | none => simp only []; split <;> first | exact clean_ok _ | exact clean_err _ rfl
  | some q =>
    have := (resolve1_spec he q (dget_plain hd _ _ hg)).1
    simp only [Clean] at *
    intro e
    repeat' split
    all_goals
      intro hh; cases hh <;> first | rfl | (simp only [hasOof_tryE]; apply this; assumption)

theorem truncDescendants_spec {env : Env} (he : EnvOk env) (d : Dict) (hd : plainKV d = true) :
    Clean (truncDescendants env d) ∧ ∀ d', truncDescendants env d = .ok d' → plainKV d' = true := by
  unfold truncDescendants
  cases hg : dget "DescendantFonts" d with
  | none => exact ⟨clean_ok _, fun d' h => by cases h; exact hd⟩
  | some q =>
    obtain ⟨h1, h2⟩ := resolve1_spec he q (dget_plain hd _ _ hg)
    simp only []
    cases hr : resolve1 env q with
    | error e => exact ⟨clean_err _ (by simpa using h1 e hr), fun d' h => by cases h⟩
    | ok r =>
      have hrp := h2 r hr
      have he' := derase_plain hd "DescendantFonts"
      cases r with
      | arr xs =>
        refine ⟨clean_ok _, fun d' h => ?_⟩
        cases h
        exact dinsert_plain he' _ _ (by simpa [Prim.plain] using plainList_take (by simpa [Prim.plain] using hrp) 1)
      | _ => exact ⟨clean_ok _, fun d' h => by cases h; exact dinsert_plain he' _ _ hrp⟩

theorem readEncodingOpt_clean {env : Env} (he : EnvOk env) (d : Dict) : Clean (readEncodingOpt env d) := by
  unfold readEncodingOpt
  cases hg : dget "Encoding" d with
  | none => exact clean_ok _
  | some q =>
    simp only []
    obtain ⟨n, hn⟩ : ∃ n, env.depth = n + 1 := ⟨env.depth - 1, by have := he.depth; omega⟩
    have := readEncoding_clean he n q
    rw [hn]
    cases hr : readEncoding env (n + 1) q with
    | ok v => exact clean_ok _
    | error e => exact clean_err e (this e hr)

/-- the plan answers on every plain primitive, and what it hands on is plain -/
theorem fontPlan_spec {env : Env} (he : EnvOk env) (S : Schema) (p : Prim) (hp : p.plain = true) :
    Clean (fontPlan env S p) ∧
    ∀ pl, fontPlan env S p = .ok pl → plainKV pl.dict = true ∧ ∀ q, pl.toUnicode = some q → q.plain = true := by
  obtain ⟨h1, h2⟩ := resolve1_spec he p hp
  unfold fontPlan
  cases hr : resolve1 env p with
  | error e => exact ⟨clean_err e (h1 e hr), fun _ h => by cases h⟩
  | ok q =>
    have hq := h2 q hr
    cases q with
    | dict d0 =>
      have hd0 : plainKV d0 = true := by simpa [Prim.plain] using hq
      simp only []
      cases hs : dget "Subtype" d0 with
      | none => exact ⟨clean_err _ rfl, fun _ h => by cases h⟩
      | some st =>
        simp only []
        have hd1 := derase_plain hd0 "Subtype"
        have c1 := readSubtype_clean he S st (dget_plain hd0 _ _ hs)
        cases h3 : readSubtype env S st with
        | error e => exact ⟨clean_err e (c1 e h3), fun _ h => by cases h⟩
        | ok subtype =>
          simp only []
          have c2 := expect_clean (derase "Subtype" d0) "Type" "Font" true
          cases h4 : expect (derase "Subtype" d0) "Type" "Font" true with
          | error e => exact ⟨clean_err e (c2 e h4), fun _ h => by cases h⟩
          | ok u =>
            simp only []
            have c3 := baseFont_clean he _ hd1 subtype
            cases h5 : baseFont env (derase "Subtype" d0) subtype with
            | error e => exact ⟨clean_err e (c3 e h5), fun _ h => by cases h⟩
            | ok name =>
              simp only []
              have c4 := readEncodingOpt_clean he (derase "Subtype" d0)
              cases h6 : readEncodingOpt env (derase "Subtype" d0) with
              | error e => exact ⟨clean_err e (c4 e h6), fun _ h => by cases h⟩
              | ok enc =>
                simp only []
                have hd2 := derase_plain hd1 "Encoding"
                have hd3 := derase_plain hd2 "ToUnicode"
                have htu : ∀ q, dget "ToUnicode" (derase "Encoding" (derase "Subtype" d0)) = some q → q.plain = true :=
                  fun q h => dget_plain hd2 _ _ h
                obtain ⟨c5, c6⟩ := truncDescendants_spec he _ hd3
                split
                · rename_i e h7
                  refine ⟨clean_err e ?_, fun _ h => by cases h⟩
                  split at h7
                  · exact c5 e h7
                  · cases h7
                · rename_i d4 h7
                  refine ⟨clean_ok _, fun pl h => ?_⟩
                  cases h
                  refine ⟨?_, htu⟩
                  split at h7
                  · exact c6 _ h7
                  · cases h7; exact hd3
    | _ => exact ⟨clean_err _ rfl, fun _ h => by cases h⟩

/-- what running the recorded calls needs from the readers below: the three derived models are covered, and so is
    the reader of `Stream<()>` -/
structure SemOk (sem : Sem) (S : Schemas) (env : Env) : Prop where
  type0 : SchemaOk sem env S.type0
  tfont : SchemaOk sem env S.tfont
  cid : SchemaOk sem env S.cid
  stream : RdClean sem env (.leafApp "Stream" (.leaf "()"))

theorem runPlan_clean (cfg : Cfg) (sem : Sem) (S : Schemas) {env : Env} (he : EnvOk env) (hs : SemOk sem S env)
    (pl : Plan) (hd : plainKV pl.dict = true) (htu : ∀ q, pl.toUnicode = some q → q.plain = true) :
    Clean (runPlan cfg sem S env pl) := by
  unfold runPlan
  have c1 : Clean (readToUnicode cfg sem env pl.toUnicode) := by
    unfold readToUnicode
    cases h : pl.toUnicode with
    | none => exact clean_ok _
    | some q =>
      simp only []
      have := readShape_clean cfg sem he toUnicodeShape hs.stream q (htu q h)
      cases hr : readShape cfg sem env toUnicodeShape q with
      | ok v => exact clean_ok _
      | error e => exact clean_err e (this e hr)
  cases h1 : readToUnicode cfg sem env pl.toUnicode with
  | error e => exact clean_err e (c1 e h1)
  | ok tu =>
    simp only []
    cases pl.loader with
    | type0 =>
      simp only []
      have := readStructD_clean cfg sem he S.type0 hs.type0 pl.dict hd
      cases hr : readStructD cfg sem env S.type0 pl.dict with
      | ok v => exact clean_ok _
      | error e => exact clean_err e (this e hr)
    | tfont =>
      simp only []
      have := readStructD_clean cfg sem he S.tfont hs.tfont pl.dict hd
      cases hr : readStructD cfg sem env S.tfont pl.dict with
      | ok v => exact clean_ok _
      | error e => exact clean_err e (this e hr)
    | cid =>
      simp only []
      have := readStructD_clean cfg sem he S.cid hs.cid pl.dict hd
      cases hr : readStructD cfg sem env S.cid pl.dict with
      | ok v => exact clean_ok _
      | error e => exact clean_err e (this e hr)
    | other => exact clean_ok _

/-- **`Font::from_primitive` answers on every plain primitive**, given leaf readers that do -/
theorem readFont_clean (cfg : Cfg) (sem : Sem) (S : Schemas) {env : Env} (he : EnvOk env) (hs : SemOk sem S env)
    (p : Prim) (hp : p.plain = true) : Clean (readFont cfg sem S env p) := by
  obtain ⟨h1, h2⟩ := fontPlan_spec he S.fontType p hp
  unfold readFont
  cases hpl : fontPlan env S.fontType p with
  | error e => exact clean_err e (h1 e hpl)
  | ok pl => exact runPlan_clean cfg sem S he hs pl (h2 pl hpl).1 (h2 pl hpl).2

end FontLoad
