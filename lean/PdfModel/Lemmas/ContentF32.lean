import PdfModel.Model.ContentF32
import PdfModel.Lemmas.Content

/-! `RealLaws` for the bit-level `f32` instance of the driver (`Content.F32.ops`), proved:
    `==` is reflexive on finite values, symmetric, transitive; unary minus respects it; an integral value whose
    printed digits fit an `i32` / whose magnitude is below 2^31 converts back (`i32 as f32`) to an `==` value.
    The last two rest on: decoding an integral `f32` and re-encoding the integer gives the bits back
    (`enc_dec`, one lemma per binary exponent 127 … 158, each closed by `omega`), and the digits printed are
    either the value itself or a shorter decimal that was *checked* to encode to the same bits
    (`shortestLoop_spec`).  What remains trusted for `f32` is that this instance agrees with Rust's `f32`
    (`==`, `-`, `as f32`, `{}`), which the streams `c08.real` and `c08.laws` sample. -/

namespace Content.F32
open Content

theorem expo_neg (a : Nat) : expo (negBits a) = expo a := by
  unfold negBits expo
  split <;> omega

theorem mant_neg (a : Nat) : mant (negBits a) = mant a := by
  unfold negBits mant
  split <;> omega

theorem isNaN_neg (a : Nat) : isNaN (negBits a) = isNaN a := by
  unfold isNaN
  rw [expo_neg, mant_neg]

theorem isNaN_of_special {a : Nat} (h : specialBits a = none) : isNaN a = false := by
  unfold specialBits at h
  unfold isNaN
  by_cases he : (expo a == 255) = true
  · rw [if_pos he] at h
    split at h
    · cases h
    · split at h <;> cases h
  · simp [he]

theorem beqBits_refl (a : Nat) (h : specialBits a = none) : beqBits a a = true := by
  simp [beqBits, isNaN_of_special h]

theorem beqBits_symm (a b : Nat) (h : beqBits a b = true) : beqBits b a = true := by
  unfold beqBits at *
  simp only [Bool.and_eq_true, Bool.or_eq_true, Bool.not_eq_true', beq_iff_eq] at *
  obtain ⟨⟨h1, h2⟩, h3⟩ := h
  refine ⟨⟨h2, h1⟩, ?_⟩
  rcases h3 with h3 | h3
  · left; exact h3.symm
  · right; exact ⟨h3.2, h3.1⟩

theorem beqBits_trans (a b c : Nat) (h : beqBits a b = true) (h' : beqBits b c = true) : beqBits a c = true := by
  unfold beqBits at *
  simp only [Bool.and_eq_true, Bool.or_eq_true, Bool.not_eq_true', beq_iff_eq] at *
  obtain ⟨⟨h1, h2⟩, h3⟩ := h
  obtain ⟨⟨h4, h5⟩, h6⟩ := h'
  refine ⟨⟨h1, h5⟩, ?_⟩
  rcases h3 with h3 | h3 <;> rcases h6 with h6 | h6
  · left; exact h3.trans h6
  · right; subst h3; exact h6
  · right; subst h6; exact h3
  · right; exact ⟨h3.1, h6.2⟩

theorem beqBits_neg (a b : Nat) (h : beqBits a b = true) : beqBits (negBits a) (negBits b) = true := by
  unfold beqBits at *
  rw [isNaN_neg a, isNaN_neg b]
  simp only [Bool.and_eq_true, Bool.or_eq_true, Bool.not_eq_true', beq_iff_eq] at *
  obtain ⟨⟨h1, h2⟩, h3⟩ := h
  refine ⟨⟨h1, h2⟩, ?_⟩
  rcases h3 with h3 | h3
  · left; rw [h3]
  · right; unfold negBits; constructor <;> split <;> omega

theorem negBits_lt (a : Nat) (h : a < 4294967296) : negBits a < 4294967296 := by
  unfold negBits; split <;> omega

theorem toNat_neg (a : UInt32) : (ops.neg a).toNat = negBits a.toNat := by
  show (UInt32.ofNat (negBits a.toNat)).toNat = negBits a.toNat
  have := negBits_lt a.toNat a.toNat_lt
  simp [UInt32.toNat_ofNat']
  omega

-- encoding an integral value and decoding it again: one lemma per binary exponent (127 … 158), each by `omega`

theorem log2_eq {n L : Nat} (h1 : 2 ^ L ≤ n) (h2 : n < 2 ^ (L + 1)) : Nat.log2 n = L := by
  have hn : n ≠ 0 := by
    intro h; subst h
    have : 0 < 2 ^ L := Nat.two_pow_pos L
    omega
  have a : L ≤ n.log2 := (Nat.le_log2 hn).2 h1
  have b : n.log2 < L + 1 := (Nat.log2_lt hn).2 h2
  omega

theorem enc_dec_127 (b : Nat) (hb : b < 2147483648) (he : expo b = 127) (v : Nat)
    (h : magToNat b = some v) : magOfNat v = b := by
  have hm : mant b < 8388608 := by unfold mant; omega
  have hb' : b = 127 * 8388608 + mant b := by unfold expo at he; unfold mant; omega
  unfold magToNat at h
  simp [he] at h
  have hv : v = (mant b + 8388608) / 8388608 := by omega
  have hl : Nat.log2 v = 0 := log2_eq (by omega) (by omega)
  unfold magOfNat
  simp [hl]
  omega

theorem enc_dec_128 (b : Nat) (hb : b < 2147483648) (he : expo b = 128) (v : Nat)
    (h : magToNat b = some v) : magOfNat v = b := by
  have hm : mant b < 8388608 := by unfold mant; omega
  have hb' : b = 128 * 8388608 + mant b := by unfold expo at he; unfold mant; omega
  unfold magToNat at h
  simp [he] at h
  have hv : v = (mant b + 8388608) / 4194304 := by omega
  have hl : Nat.log2 v = 1 := log2_eq (by omega) (by omega)
  unfold magOfNat
  simp [hl]
  omega

theorem enc_dec_129 (b : Nat) (hb : b < 2147483648) (he : expo b = 129) (v : Nat)
    (h : magToNat b = some v) : magOfNat v = b := by
  have hm : mant b < 8388608 := by unfold mant; omega
  have hb' : b = 129 * 8388608 + mant b := by unfold expo at he; unfold mant; omega
  unfold magToNat at h
  simp [he] at h
  have hv : v = (mant b + 8388608) / 2097152 := by omega
  have hl : Nat.log2 v = 2 := log2_eq (by omega) (by omega)
  unfold magOfNat
  simp [hl]
  omega

theorem enc_dec_130 (b : Nat) (hb : b < 2147483648) (he : expo b = 130) (v : Nat)
    (h : magToNat b = some v) : magOfNat v = b := by
  have hm : mant b < 8388608 := by unfold mant; omega
  have hb' : b = 130 * 8388608 + mant b := by unfold expo at he; unfold mant; omega
  unfold magToNat at h
  simp [he] at h
  have hv : v = (mant b + 8388608) / 1048576 := by omega
  have hl : Nat.log2 v = 3 := log2_eq (by omega) (by omega)
  unfold magOfNat
  simp [hl]
  omega

theorem enc_dec_131 (b : Nat) (hb : b < 2147483648) (he : expo b = 131) (v : Nat)
    (h : magToNat b = some v) : magOfNat v = b := by
  have hm : mant b < 8388608 := by unfold mant; omega
  have hb' : b = 131 * 8388608 + mant b := by unfold expo at he; unfold mant; omega
  unfold magToNat at h
  simp [he] at h
  have hv : v = (mant b + 8388608) / 524288 := by omega
  have hl : Nat.log2 v = 4 := log2_eq (by omega) (by omega)
  unfold magOfNat
  simp [hl]
  omega

theorem enc_dec_132 (b : Nat) (hb : b < 2147483648) (he : expo b = 132) (v : Nat)
    (h : magToNat b = some v) : magOfNat v = b := by
  have hm : mant b < 8388608 := by unfold mant; omega
  have hb' : b = 132 * 8388608 + mant b := by unfold expo at he; unfold mant; omega
  unfold magToNat at h
  simp [he] at h
  have hv : v = (mant b + 8388608) / 262144 := by omega
  have hl : Nat.log2 v = 5 := log2_eq (by omega) (by omega)
  unfold magOfNat
  simp [hl]
  omega

theorem enc_dec_133 (b : Nat) (hb : b < 2147483648) (he : expo b = 133) (v : Nat)
    (h : magToNat b = some v) : magOfNat v = b := by
  have hm : mant b < 8388608 := by unfold mant; omega
  have hb' : b = 133 * 8388608 + mant b := by unfold expo at he; unfold mant; omega
  unfold magToNat at h
  simp [he] at h
  have hv : v = (mant b + 8388608) / 131072 := by omega
  have hl : Nat.log2 v = 6 := log2_eq (by omega) (by omega)
  unfold magOfNat
  simp [hl]
  omega

theorem enc_dec_134 (b : Nat) (hb : b < 2147483648) (he : expo b = 134) (v : Nat)
    (h : magToNat b = some v) : magOfNat v = b := by
  have hm : mant b < 8388608 := by unfold mant; omega
  have hb' : b = 134 * 8388608 + mant b := by unfold expo at he; unfold mant; omega
  unfold magToNat at h
  simp [he] at h
  have hv : v = (mant b + 8388608) / 65536 := by omega
  have hl : Nat.log2 v = 7 := log2_eq (by omega) (by omega)
  unfold magOfNat
  simp [hl]
  omega

theorem enc_dec_135 (b : Nat) (hb : b < 2147483648) (he : expo b = 135) (v : Nat)
    (h : magToNat b = some v) : magOfNat v = b := by
  have hm : mant b < 8388608 := by unfold mant; omega
  have hb' : b = 135 * 8388608 + mant b := by unfold expo at he; unfold mant; omega
  unfold magToNat at h
  simp [he] at h
  have hv : v = (mant b + 8388608) / 32768 := by omega
  have hl : Nat.log2 v = 8 := log2_eq (by omega) (by omega)
  unfold magOfNat
  simp [hl]
  omega

theorem enc_dec_136 (b : Nat) (hb : b < 2147483648) (he : expo b = 136) (v : Nat)
    (h : magToNat b = some v) : magOfNat v = b := by
  have hm : mant b < 8388608 := by unfold mant; omega
  have hb' : b = 136 * 8388608 + mant b := by unfold expo at he; unfold mant; omega
  unfold magToNat at h
  simp [he] at h
  have hv : v = (mant b + 8388608) / 16384 := by omega
  have hl : Nat.log2 v = 9 := log2_eq (by omega) (by omega)
  unfold magOfNat
  simp [hl]
  omega

theorem enc_dec_137 (b : Nat) (hb : b < 2147483648) (he : expo b = 137) (v : Nat)
    (h : magToNat b = some v) : magOfNat v = b := by
  have hm : mant b < 8388608 := by unfold mant; omega
  have hb' : b = 137 * 8388608 + mant b := by unfold expo at he; unfold mant; omega
  unfold magToNat at h
  simp [he] at h
  have hv : v = (mant b + 8388608) / 8192 := by omega
  have hl : Nat.log2 v = 10 := log2_eq (by omega) (by omega)
  unfold magOfNat
  simp [hl]
  omega

theorem enc_dec_138 (b : Nat) (hb : b < 2147483648) (he : expo b = 138) (v : Nat)
    (h : magToNat b = some v) : magOfNat v = b := by
  have hm : mant b < 8388608 := by unfold mant; omega
  have hb' : b = 138 * 8388608 + mant b := by unfold expo at he; unfold mant; omega
  unfold magToNat at h
  simp [he] at h
  have hv : v = (mant b + 8388608) / 4096 := by omega
  have hl : Nat.log2 v = 11 := log2_eq (by omega) (by omega)
  unfold magOfNat
  simp [hl]
  omega

theorem enc_dec_139 (b : Nat) (hb : b < 2147483648) (he : expo b = 139) (v : Nat)
    (h : magToNat b = some v) : magOfNat v = b := by
  have hm : mant b < 8388608 := by unfold mant; omega
  have hb' : b = 139 * 8388608 + mant b := by unfold expo at he; unfold mant; omega
  unfold magToNat at h
  simp [he] at h
  have hv : v = (mant b + 8388608) / 2048 := by omega
  have hl : Nat.log2 v = 12 := log2_eq (by omega) (by omega)
  unfold magOfNat
  simp [hl]
  omega

theorem enc_dec_140 (b : Nat) (hb : b < 2147483648) (he : expo b = 140) (v : Nat)
    (h : magToNat b = some v) : magOfNat v = b := by
  have hm : mant b < 8388608 := by unfold mant; omega
  have hb' : b = 140 * 8388608 + mant b := by unfold expo at he; unfold mant; omega
  unfold magToNat at h
  simp [he] at h
  have hv : v = (mant b + 8388608) / 1024 := by omega
  have hl : Nat.log2 v = 13 := log2_eq (by omega) (by omega)
  unfold magOfNat
  simp [hl]
  omega

theorem enc_dec_141 (b : Nat) (hb : b < 2147483648) (he : expo b = 141) (v : Nat)
    (h : magToNat b = some v) : magOfNat v = b := by
  have hm : mant b < 8388608 := by unfold mant; omega
  have hb' : b = 141 * 8388608 + mant b := by unfold expo at he; unfold mant; omega
  unfold magToNat at h
  simp [he] at h
  have hv : v = (mant b + 8388608) / 512 := by omega
  have hl : Nat.log2 v = 14 := log2_eq (by omega) (by omega)
  unfold magOfNat
  simp [hl]
  omega

theorem enc_dec_142 (b : Nat) (hb : b < 2147483648) (he : expo b = 142) (v : Nat)
    (h : magToNat b = some v) : magOfNat v = b := by
  have hm : mant b < 8388608 := by unfold mant; omega
  have hb' : b = 142 * 8388608 + mant b := by unfold expo at he; unfold mant; omega
  unfold magToNat at h
  simp [he] at h
  have hv : v = (mant b + 8388608) / 256 := by omega
  have hl : Nat.log2 v = 15 := log2_eq (by omega) (by omega)
  unfold magOfNat
  simp [hl]
  omega

theorem enc_dec_143 (b : Nat) (hb : b < 2147483648) (he : expo b = 143) (v : Nat)
    (h : magToNat b = some v) : magOfNat v = b := by
  have hm : mant b < 8388608 := by unfold mant; omega
  have hb' : b = 143 * 8388608 + mant b := by unfold expo at he; unfold mant; omega
  unfold magToNat at h
  simp [he] at h
  have hv : v = (mant b + 8388608) / 128 := by omega
  have hl : Nat.log2 v = 16 := log2_eq (by omega) (by omega)
  unfold magOfNat
  simp [hl]
  omega

theorem enc_dec_144 (b : Nat) (hb : b < 2147483648) (he : expo b = 144) (v : Nat)
    (h : magToNat b = some v) : magOfNat v = b := by
  have hm : mant b < 8388608 := by unfold mant; omega
  have hb' : b = 144 * 8388608 + mant b := by unfold expo at he; unfold mant; omega
  unfold magToNat at h
  simp [he] at h
  have hv : v = (mant b + 8388608) / 64 := by omega
  have hl : Nat.log2 v = 17 := log2_eq (by omega) (by omega)
  unfold magOfNat
  simp [hl]
  omega

theorem enc_dec_145 (b : Nat) (hb : b < 2147483648) (he : expo b = 145) (v : Nat)
    (h : magToNat b = some v) : magOfNat v = b := by
  have hm : mant b < 8388608 := by unfold mant; omega
  have hb' : b = 145 * 8388608 + mant b := by unfold expo at he; unfold mant; omega
  unfold magToNat at h
  simp [he] at h
  have hv : v = (mant b + 8388608) / 32 := by omega
  have hl : Nat.log2 v = 18 := log2_eq (by omega) (by omega)
  unfold magOfNat
  simp [hl]
  omega

theorem enc_dec_146 (b : Nat) (hb : b < 2147483648) (he : expo b = 146) (v : Nat)
    (h : magToNat b = some v) : magOfNat v = b := by
  have hm : mant b < 8388608 := by unfold mant; omega
  have hb' : b = 146 * 8388608 + mant b := by unfold expo at he; unfold mant; omega
  unfold magToNat at h
  simp [he] at h
  have hv : v = (mant b + 8388608) / 16 := by omega
  have hl : Nat.log2 v = 19 := log2_eq (by omega) (by omega)
  unfold magOfNat
  simp [hl]
  omega

theorem enc_dec_147 (b : Nat) (hb : b < 2147483648) (he : expo b = 147) (v : Nat)
    (h : magToNat b = some v) : magOfNat v = b := by
  have hm : mant b < 8388608 := by unfold mant; omega
  have hb' : b = 147 * 8388608 + mant b := by unfold expo at he; unfold mant; omega
  unfold magToNat at h
  simp [he] at h
  have hv : v = (mant b + 8388608) / 8 := by omega
  have hl : Nat.log2 v = 20 := log2_eq (by omega) (by omega)
  unfold magOfNat
  simp [hl]
  omega

theorem enc_dec_148 (b : Nat) (hb : b < 2147483648) (he : expo b = 148) (v : Nat)
    (h : magToNat b = some v) : magOfNat v = b := by
  have hm : mant b < 8388608 := by unfold mant; omega
  have hb' : b = 148 * 8388608 + mant b := by unfold expo at he; unfold mant; omega
  unfold magToNat at h
  simp [he] at h
  have hv : v = (mant b + 8388608) / 4 := by omega
  have hl : Nat.log2 v = 21 := log2_eq (by omega) (by omega)
  unfold magOfNat
  simp [hl]
  omega

theorem enc_dec_149 (b : Nat) (hb : b < 2147483648) (he : expo b = 149) (v : Nat)
    (h : magToNat b = some v) : magOfNat v = b := by
  have hm : mant b < 8388608 := by unfold mant; omega
  have hb' : b = 149 * 8388608 + mant b := by unfold expo at he; unfold mant; omega
  unfold magToNat at h
  simp [he] at h
  have hv : v = (mant b + 8388608) / 2 := by omega
  have hl : Nat.log2 v = 22 := log2_eq (by omega) (by omega)
  unfold magOfNat
  simp [hl]
  omega

theorem enc_dec_150 (b : Nat) (hb : b < 2147483648) (he : expo b = 150) (v : Nat)
    (h : magToNat b = some v) : magOfNat v = b := by
  have hm : mant b < 8388608 := by unfold mant; omega
  have hb' : b = 150 * 8388608 + mant b := by unfold expo at he; unfold mant; omega
  unfold magToNat at h
  simp [he] at h
  have hv : v = (mant b + 8388608) / 1 := by omega
  have hl : Nat.log2 v = 23 := log2_eq (by omega) (by omega)
  unfold magOfNat
  simp [hl]
  omega

theorem enc_dec_151 (b : Nat) (hb : b < 2147483648) (he : expo b = 151) (v : Nat)
    (h : magToNat b = some v) : magOfNat v = b := by
  have hm : mant b < 8388608 := by unfold mant; omega
  have hb' : b = 151 * 8388608 + mant b := by unfold expo at he; unfold mant; omega
  unfold magToNat at h
  simp [he] at h
  have hv : v = (mant b + 8388608) * 2 := by omega
  have hl : Nat.log2 v = 24 := log2_eq (by omega) (by omega)
  have hq : v / 2 = mant b + 8388608 := by omega
  have hr : v % 2 = 0 := by omega
  clear h
  unfold magOfNat
  simp only [hl, Nat.reduceSub, Nat.reducePow, Nat.reduceAdd, Nat.reduceMul, Nat.reduceLeDiff, Nat.mul_one, hq, hr]
  split
  · contradiction
  · split <;> split <;> omega

theorem enc_dec_152 (b : Nat) (hb : b < 2147483648) (he : expo b = 152) (v : Nat)
    (h : magToNat b = some v) : magOfNat v = b := by
  have hm : mant b < 8388608 := by unfold mant; omega
  have hb' : b = 152 * 8388608 + mant b := by unfold expo at he; unfold mant; omega
  unfold magToNat at h
  simp [he] at h
  have hv : v = (mant b + 8388608) * 4 := by omega
  have hl : Nat.log2 v = 25 := log2_eq (by omega) (by omega)
  have hq : v / 4 = mant b + 8388608 := by omega
  have hr : v % 4 = 0 := by omega
  clear h
  unfold magOfNat
  simp only [hl, Nat.reduceSub, Nat.reducePow, Nat.reduceAdd, Nat.reduceMul, Nat.reduceLeDiff, Nat.mul_one, hq, hr]
  split
  · contradiction
  · split <;> split <;> omega

theorem enc_dec_153 (b : Nat) (hb : b < 2147483648) (he : expo b = 153) (v : Nat)
    (h : magToNat b = some v) : magOfNat v = b := by
  have hm : mant b < 8388608 := by unfold mant; omega
  have hb' : b = 153 * 8388608 + mant b := by unfold expo at he; unfold mant; omega
  unfold magToNat at h
  simp [he] at h
  have hv : v = (mant b + 8388608) * 8 := by omega
  have hl : Nat.log2 v = 26 := log2_eq (by omega) (by omega)
  have hq : v / 8 = mant b + 8388608 := by omega
  have hr : v % 8 = 0 := by omega
  clear h
  unfold magOfNat
  simp only [hl, Nat.reduceSub, Nat.reducePow, Nat.reduceAdd, Nat.reduceMul, Nat.reduceLeDiff, Nat.mul_one, hq, hr]
  split
  · contradiction
  · split <;> split <;> omega

theorem enc_dec_154 (b : Nat) (hb : b < 2147483648) (he : expo b = 154) (v : Nat)
    (h : magToNat b = some v) : magOfNat v = b := by
  have hm : mant b < 8388608 := by unfold mant; omega
  have hb' : b = 154 * 8388608 + mant b := by unfold expo at he; unfold mant; omega
  unfold magToNat at h
  simp [he] at h
  have hv : v = (mant b + 8388608) * 16 := by omega
  have hl : Nat.log2 v = 27 := log2_eq (by omega) (by omega)
  have hq : v / 16 = mant b + 8388608 := by omega
  have hr : v % 16 = 0 := by omega
  clear h
  unfold magOfNat
  simp only [hl, Nat.reduceSub, Nat.reducePow, Nat.reduceAdd, Nat.reduceMul, Nat.reduceLeDiff, Nat.mul_one, hq, hr]
  split
  · contradiction
  · split <;> split <;> omega

theorem enc_dec_155 (b : Nat) (hb : b < 2147483648) (he : expo b = 155) (v : Nat)
    (h : magToNat b = some v) : magOfNat v = b := by
  have hm : mant b < 8388608 := by unfold mant; omega
  have hb' : b = 155 * 8388608 + mant b := by unfold expo at he; unfold mant; omega
  unfold magToNat at h
  simp [he] at h
  have hv : v = (mant b + 8388608) * 32 := by omega
  have hl : Nat.log2 v = 28 := log2_eq (by omega) (by omega)
  have hq : v / 32 = mant b + 8388608 := by omega
  have hr : v % 32 = 0 := by omega
  clear h
  unfold magOfNat
  simp only [hl, Nat.reduceSub, Nat.reducePow, Nat.reduceAdd, Nat.reduceMul, Nat.reduceLeDiff, Nat.mul_one, hq, hr]
  split
  · contradiction
  · split <;> split <;> omega

theorem enc_dec_156 (b : Nat) (hb : b < 2147483648) (he : expo b = 156) (v : Nat)
    (h : magToNat b = some v) : magOfNat v = b := by
  have hm : mant b < 8388608 := by unfold mant; omega
  have hb' : b = 156 * 8388608 + mant b := by unfold expo at he; unfold mant; omega
  unfold magToNat at h
  simp [he] at h
  have hv : v = (mant b + 8388608) * 64 := by omega
  have hl : Nat.log2 v = 29 := log2_eq (by omega) (by omega)
  have hq : v / 64 = mant b + 8388608 := by omega
  have hr : v % 64 = 0 := by omega
  clear h
  unfold magOfNat
  simp only [hl, Nat.reduceSub, Nat.reducePow, Nat.reduceAdd, Nat.reduceMul, Nat.reduceLeDiff, Nat.mul_one, hq, hr]
  split
  · contradiction
  · split <;> split <;> omega

theorem enc_dec_157 (b : Nat) (hb : b < 2147483648) (he : expo b = 157) (v : Nat)
    (h : magToNat b = some v) : magOfNat v = b := by
  have hm : mant b < 8388608 := by unfold mant; omega
  have hb' : b = 157 * 8388608 + mant b := by unfold expo at he; unfold mant; omega
  unfold magToNat at h
  simp [he] at h
  have hv : v = (mant b + 8388608) * 128 := by omega
  have hl : Nat.log2 v = 30 := log2_eq (by omega) (by omega)
  have hq : v / 128 = mant b + 8388608 := by omega
  have hr : v % 128 = 0 := by omega
  clear h
  unfold magOfNat
  simp only [hl, Nat.reduceSub, Nat.reducePow, Nat.reduceAdd, Nat.reduceMul, Nat.reduceLeDiff, Nat.mul_one, hq, hr]
  split
  · contradiction
  · split <;> split <;> omega

theorem enc_dec_158 (b : Nat) (hb : b < 2147483648) (he : expo b = 158) (v : Nat)
    (h : magToNat b = some v) : magOfNat v = b := by
  have hm : mant b < 8388608 := by unfold mant; omega
  have hb' : b = 158 * 8388608 + mant b := by unfold expo at he; unfold mant; omega
  unfold magToNat at h
  simp [he] at h
  have hv : v = (mant b + 8388608) * 256 := by omega
  have hl : Nat.log2 v = 31 := log2_eq (by omega) (by omega)
  have hq : v / 256 = mant b + 8388608 := by omega
  have hr : v % 256 = 0 := by omega
  clear h
  unfold magOfNat
  simp only [hl, Nat.reduceSub, Nat.reducePow, Nat.reduceAdd, Nat.reduceMul, Nat.reduceLeDiff, Nat.mul_one, hq, hr]
  split
  · contradiction
  · split <;> split <;> omega

/-- decoding an integral `f32` (sign bit clear, 0 < magnitude ≤ 2^31) and encoding the integer gives the bits back -/
theorem enc_dec (b v : Nat) (hb : b < 2147483648) (hv : v ≤ 2147483648) (hv0 : v ≠ 0)
    (h : magToNat b = some v) : magOfNat v = b := by
  have he256 : expo b < 256 := by unfold expo; omega
  by_cases h0 : expo b = 0
  · unfold magToNat at h
    simp [h0] at h
    omega
  · by_cases hlow : expo b < 127
    · unfold magToNat at h
      have h24 : 150 - expo b ≥ 24 := by omega
      have h255 : ¬ (expo b = 255) := by omega
      have h150 : ¬ (expo b ≥ 150) := by omega
      simp [h0, h255, h150, h24] at h
    · by_cases hhigh : expo b ≥ 159
      · exfalso
        by_cases h255 : expo b = 255
        · unfold magToNat at h; simp [h255] at h
        · unfold magToNat at h
          have h150 : expo b ≥ 150 := by omega
          simp [h0, h255, h150] at h
          have hp : 2 ^ 9 ≤ 2 ^ (expo b - 150) := Nat.pow_le_pow_right (by decide) (by omega)
          have hmul : 8388608 * 2 ^ 9 ≤ (mant b + 8388608) * 2 ^ (expo b - 150) := Nat.mul_le_mul (by omega) hp
          have h9 : (2 : Nat) ^ 9 = 512 := by decide
          rw [h9] at hmul
          omega
      · have hcases : expo b = 127 ∨ expo b = 128 ∨ expo b = 129 ∨ expo b = 130 ∨ expo b = 131 ∨ expo b = 132 ∨ expo b = 133 ∨ expo b = 134 ∨ expo b = 135 ∨ expo b = 136 ∨ expo b = 137 ∨ expo b = 138 ∨ expo b = 139 ∨ expo b = 140 ∨ expo b = 141 ∨ expo b = 142 ∨ expo b = 143 ∨ expo b = 144 ∨ expo b = 145 ∨ expo b = 146 ∨ expo b = 147 ∨ expo b = 148 ∨ expo b = 149 ∨ expo b = 150 ∨ expo b = 151 ∨ expo b = 152 ∨ expo b = 153 ∨ expo b = 154 ∨ expo b = 155 ∨ expo b = 156 ∨ expo b = 157 ∨ expo b = 158 := by omega
        rcases hcases with he | he | he | he | he | he | he | he | he | he | he | he | he | he | he | he | he | he | he | he | he | he | he | he | he | he | he | he | he | he | he | he
        · exact enc_dec_127 b hb he v h
        · exact enc_dec_128 b hb he v h
        · exact enc_dec_129 b hb he v h
        · exact enc_dec_130 b hb he v h
        · exact enc_dec_131 b hb he v h
        · exact enc_dec_132 b hb he v h
        · exact enc_dec_133 b hb he v h
        · exact enc_dec_134 b hb he v h
        · exact enc_dec_135 b hb he v h
        · exact enc_dec_136 b hb he v h
        · exact enc_dec_137 b hb he v h
        · exact enc_dec_138 b hb he v h
        · exact enc_dec_139 b hb he v h
        · exact enc_dec_140 b hb he v h
        · exact enc_dec_141 b hb he v h
        · exact enc_dec_142 b hb he v h
        · exact enc_dec_143 b hb he v h
        · exact enc_dec_144 b hb he v h
        · exact enc_dec_145 b hb he v h
        · exact enc_dec_146 b hb he v h
        · exact enc_dec_147 b hb he v h
        · exact enc_dec_148 b hb he v h
        · exact enc_dec_149 b hb he v h
        · exact enc_dec_150 b hb he v h
        · exact enc_dec_151 b hb he v h
        · exact enc_dec_152 b hb he v h
        · exact enc_dec_153 b hb he v h
        · exact enc_dec_154 b hb he v h
        · exact enc_dec_155 b hb he v h
        · exact enc_dec_156 b hb he v h
        · exact enc_dec_157 b hb he v h
        · exact enc_dec_158 b hb he v h

theorem magToNat_mod (b : Nat) : magToNat (b % 2147483648) = magToNat b := by
  have he : expo (b % 2147483648) = expo b := by unfold expo; omega
  have hm : mant (b % 2147483648) = mant b := by unfold mant; omega
  unfold magToNat
  rw [he, hm]

theorem magToNat_zero {b : Nat} (hb : b < 2147483648) (h : magToNat b = some 0) : b = 0 := by
  have he256 : expo b < 256 := by unfold expo; omega
  unfold magToNat at h
  by_cases h255 : expo b = 255
  · simp [h255] at h
  · by_cases h0 : expo b = 0
    · simp [h0] at h
      unfold expo at h0; unfold mant at h; omega
    · by_cases h150 : expo b ≥ 150
      · simp [h255, h0, h150] at h
        exfalso
        rcases Nat.mul_eq_zero.mp h with h1 | h1
        · omega
        · have := Nat.two_pow_pos (expo b - 150); omega
      · simp [h255, h0, h150] at h
        exfalso
        obtain ⟨_, _, h3⟩ := h
        have hm : mant b < 8388608 := by unfold mant; omega
        have hsh : 150 - expo b < 24 := by omega
        have hpow : 2 ^ (150 - expo b) ≤ 2 ^ 23 := Nat.pow_le_pow_right (by decide) (by omega)
        have h23 : (2 : Nat) ^ 23 = 8388608 := by decide
        rw [h23] at hpow
        have hpos : 0 < 2 ^ (150 - expo b) := Nat.two_pow_pos _
        omega

theorem shortestLoop_spec (v b : Nat) : ∀ k, shortestLoop v b k = v ∨ ofNatBits (shortestLoop v b k) = b
  | 0 => Or.inl rfl
  | k + 1 => by
    unfold shortestLoop
    simp only
    split
    · rename_i h
      simp only [Bool.and_eq_true, bne_iff_ne, beq_iff_eq] at h
      split
      · right; exact h.1.2
      · right; exact h.2
    · split
      · rename_i h
        simp only [Bool.and_eq_true, bne_iff_ne, beq_iff_eq] at h
        right; exact h.2
      · split
        · rename_i h
          simp only [beq_iff_eq] at h
          right; exact h
        · exact shortestLoop_spec v b k


theorem ofNatBits_pos {d : Nat} (hd : d ≠ 0) : ofNatBits d = magOfNat d := by
  unfold ofNatBits ofIntBits
  have h2 : ¬ ((d : Int) < 0) := by omega
  simp [hd, h2]

theorem ofIntBits_signed (d : Nat) (hd : d ≠ 0) (neg : Bool) :
    ofIntBits (if neg then -(Int.ofNat d) else Int.ofNat d) = (if neg then 2147483648 else 0) + magOfNat d := by
  unfold ofIntBits
  cases neg
  · have h2 : ¬ ((d : Int) < 0) := by omega
    simp [hd, h2]
  · have h2 : 0 < d := by omega
    simp [hd, h2]

theorem inI32_abs {n : Int} (h : inI32 n = true) : n.natAbs ≤ 2147483648 := by
  unfold inI32 at h
  simp only [Bool.and_eq_true, decide_eq_true_eq] at h
  omega

theorem natAbs_signed (v : Nat) (neg : Bool) : (if neg then -(Int.ofNat v) else Int.ofNat v).natAbs = v := by
  cases neg <;> simp

/-- the printed digits convert back to the same bits (or to a zero of the other sign) -/
theorem digits_bits (b : Nat) (hb : b < 4294967296) (n : Int) (hs : specialBits b = none)
    (hd : intDigitsBits b = some n)
    (hsm : bigBits b = false ∨ inI32 n = true) :
    beqBits (ofIntBits n) b = true ∧ ofIntBits n < 4294967296 := by
  unfold intDigitsBits at hd
  cases hm : magToNat b with
  | none => simp [hm] at hd
  | some v =>
    simp only [hm, Option.some.injEq] at hd
    have hmag : magToNat (b % 2147483648) = some v := by rw [magToNat_mod]; exact hm
    have hlt : b % 2147483648 < 2147483648 := Nat.mod_lt _ (by decide)
    have hnan : isNaN b = false := isNaN_of_special hs
    have hsplit : b = (if signBit b then 2147483648 else 0) + b % 2147483648 := by
      unfold signBit
      by_cases h : b ≥ 2147483648 <;> simp [h] <;> omega
    -- the digits
    rcases shortestLoop_spec v (b % 2147483648) 39 with hdv | hdb
    · -- the digits are the value itself
      rw [hdv] at hd
      have hvle : v ≤ 2147483648 := by
        rcases hsm with h | h
        · unfold bigBits at h; simp [hm] at h; omega
        · subst hd
          have := inI32_abs h
          rw [natAbs_signed] at this
          exact this
      by_cases hv0 : v = 0
      · subst hv0
        have hz : b % 2147483648 = 0 := magToNat_zero hlt hmag
        have hn0 : n = 0 := by subst hd; split <;> simp
        subst hn0
        have h0 : ofIntBits 0 = 0 := rfl
        have hn0' : isNaN 0 = false := by decide
        refine ⟨?_, by decide⟩
        simp [beqBits, hnan, hn0', hz, h0]
      · have henc : magOfNat v = b % 2147483648 := enc_dec (b % 2147483648) v hlt hvle hv0 hmag
        subst hd
        rw [ofIntBits_signed v hv0, henc, ← hsplit]
        exact ⟨by unfold beqBits; simp [hnan], hb⟩
    · -- shorter digits, checked to encode to the same bits
      by_cases hd0 : shortestLoop v (b % 2147483648) 39 = 0
      · rw [hd0] at hdb hd
        have hz : b % 2147483648 = 0 := by
          rw [← hdb]; rfl
        have hn0 : n = 0 := by subst hd; split <;> simp
        subst hn0
        have h0 : ofIntBits 0 = 0 := rfl
        have hn0' : isNaN 0 = false := by decide
        refine ⟨?_, by decide⟩
        simp [beqBits, hnan, hn0', hz, h0]
      · rw [ofNatBits_pos hd0] at hdb
        subst hd
        rw [ofIntBits_signed _ hd0, hdb, ← hsplit]
        exact ⟨by unfold beqBits; simp [hnan], hb⟩

theorem digits_law (r : UInt32) (n : Int) (hs : ops.special r = none) (hd : ops.intDigits? r = some n)
    (hsm : ops.big r = false ∨ inI32 n = true) : ops.beq (ops.ofInt n) r = true := by
  obtain ⟨h1, h2⟩ := digits_bits r.toNat r.toNat_lt n hs hd hsm
  show beqBits (UInt32.ofNat (ofIntBits n)).toNat r.toNat = true
  have : (UInt32.ofNat (ofIntBits n)).toNat = ofIntBits n := by
    simp [UInt32.toNat_ofNat']
    omega
  rw [this]
  exact h1

/-- **`RealLaws` holds for the bit-level `f32` instance of the driver** -/
theorem f32Laws : RealLaws ops where
  beq_refl := fun r h => beqBits_refl r.toNat h
  beq_symm := fun a b h => beqBits_symm a.toNat b.toNat h
  beq_trans := fun a b c h h' => beqBits_trans a.toNat b.toNat c.toNat h h'
  neg_congr := fun a b h => by
    show beqBits (ops.neg a).toNat (ops.neg b).toNat = true
    rw [toNat_neg, toNat_neg]
    exact beqBits_neg a.toNat b.toNat h
  digits_small := fun r n hs hd hb => digits_law r n hs hd (Or.inl hb)
  digits_i32 := fun r n hs hd hi => digits_law r n hs hd (Or.inr hi)

end Content.F32
