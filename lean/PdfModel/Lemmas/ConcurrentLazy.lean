import PdfModel.Model.ConcurrentLazy
import PdfModel.Lemmas.ConcurrentSeq

/-! Invariants of the once-cell layer `Model/ConcurrentLazy.lean` (the implementation under test:
`racy = false`, own guard stacks):

* a cell that is `loading i` is claimed by thread `i` and by nobody else (`LInv.own`), hence the store
  step of `get_or_try_init` always finds its own claim: no panic;
* whatever a cell holds, whatever a `load` hands out, is the value the initialiser produces for a lone
  caller on an uncached document (`LInv.cells`, `ThrOK.ans`);
* the nested `get`s of the initialisers keep the invariants of `Model/Concurrent.lean` (`LInv.inner`),
  although the programs are handed to the inner threads one at a time (`launch`).
-/

namespace Conc
open Cache
variable {V E : Type}

/-! ## small facts -/

theorem cellOf_cons (cells : List (Nat × Cell V)) (c c' : Nat) (x : Cell V) :
    cellOf ((c, x) :: cells) c' = if c' = c then x else cellOf cells c' := by
  unfold cellOf
  by_cases h : c' = c
  · subst h; simp
  · have : (c' == c) = false := by simpa using h
    simp [List.lookup_cons, this, h]

theorem step_other {d : Doc V E} {cfg : Cfg} {s s' : State V E} {i : Nat} (h : step d cfg s i = some s')
    (j : Nat) (hj : j ≠ i) : s'.threads[j]? = s.threads[j]? := by
  unfold step at h
  cases hti : s.threads[i]? with
  | none => simp [hti] at h
  | some t =>
    simp only [hti] at h
    cases hst : stepT d cfg i s.sh t with
    | none => simp [hst] at h
    | some p =>
      simp only [hst, Option.some.injEq] at h
      subst h
      simp [Ne.symm hj]

theorem launch_other {d : Doc V E} {cfg : Cfg} {s s' : State V E} {i : Nat} {p : Prog V E}
    (h : launch d cfg s i p = some s') (j : Nat) (hj : j ≠ i) : s'.threads[j]? = s.threads[j]? := by
  unfold launch at h
  cases hti : s.threads[i]? with
  | none => simp [hti] at h
  | some t =>
    simp only [hti] at h
    rw [step_other h j hj]
    simp [Ne.symm hj]

theorem innerIdle_congr {s s' : State V E} {j : Nat} (h : s'.threads[j]? = s.threads[j]?) :
    innerIdle s' j = innerIdle s j := by
  simp [innerIdle, h]

theorem innerIdle_iff {s : State V E} {i : Nat} :
    innerIdle s i = true ↔ ∃ t, s.threads[i]? = some t ∧ t.ctl = .start ∧ t.todo = [] := by
  unfold innerIdle
  cases h : s.threads[i]? with
  | none => simp
  | some t =>
    cases hc : t.ctl <;> simp [hc, List.isEmpty_iff]

/-! ## the invariant -/

/-- the cell a thread is initialising -/
def Claims : LCtl V E → Nat → Prop
  | .running (some c) _, c' => c' = c
  | .storing c _, c' => c' = c
  | _, _ => False

/-- the item a thread is in the middle of -/
def curItems : LCtl V E → List (Item V E)
  | .entering c => [.lazy c]
  | .running (some c) _ => [.lazy c]
  | .running none p => [.call p]
  | .storing c _ => [.lazy c]
  | _ => []

/-- what an item may answer: the value a lone caller gets on an uncached document; a read of a cell
    sees nothing or that value -/
def Expected (a : Nat → Nat → Res V E) (d : Doc V E) (init : Nat → Prog V E) : Item V E → LOut V E → Prop
  | .call p, o => o = .res (canon a d p)
  | .lazy c, o => o = .res (canon a d (init c))
  | .peek c, o => o = .unset ∨ o = .res (canon a d (init c))

def Answers (exp : Item V E → LOut V E → Prop) : List (Item V E) → List (LOut V E) → Prop
  | [], [] => True
  | i :: is, o :: os => exp i o ∧ Answers exp is os
  | _, _ => False

theorem Answers.snoc {exp : Item V E → LOut V E → Prop} : ∀ {its : List (Item V E)} {os : List (LOut V E)} {i : Item V E} {o : LOut V E},
    Answers exp its os → exp i o → Answers exp (its ++ [i]) (os ++ [o])
  | [], [], _, _, _, h => by simp [Answers, h]
  | [], _ :: _, _, _, h, _ => by simp [Answers] at h
  | _ :: _, [], _, _, h, _ => by simp [Answers] at h
  | _ :: its, _ :: os, _, _, h, h' => by
    simp only [Answers, List.cons_append] at h ⊢
    exact ⟨h.1, Answers.snoc h.2 h'⟩

theorem Answers.length {exp : Item V E → LOut V E → Prop} : ∀ {its : List (Item V E)} {os : List (LOut V E)},
    Answers exp its os → its.length = os.length
  | [], [], _ => rfl
  | [], _ :: _, h => by simp [Answers] at h
  | _ :: _, [], h => by simp [Answers] at h
  | _ :: its, _ :: os, h => by
    simp only [Answers] at h
    simp [Answers.length h.2]

theorem Answers.get {exp : Item V E → LOut V E → Prop} : ∀ {its : List (Item V E)} {os : List (LOut V E)} (_ : Answers exp its os)
    (k : Nat) (i : Item V E) (o : LOut V E), its[k]? = some i → os[k]? = some o → exp i o
  | [], [], _, k, _, _, h, _ => by simp at h
  | [], _ :: _, h, _, _, _, _, _ => by simp [Answers] at h
  | _ :: _, [], h, _, _, _, _, _ => by simp [Answers] at h
  | _ :: its, _ :: os, h, 0, i, o, hi, ho => by
    simp only [Answers] at h
    simp at hi ho
    subst hi; subst ho
    exact h.1
  | _ :: its, _ :: os, h, k+1, i, o, hi, ho => by
    simp only [Answers] at h
    simp at hi ho
    exact Answers.get h.2 k i o hi ho

section Inv
variable (d : Doc V E) (filt : Nat → List Nat) (rank : Nat → Nat) (N : Nat) (init : Nat → Prog V E)

/-- per-thread part -/
structure ThrOK (its0 : List (Item V E)) (lt : LThread V E) : Prop where
  answers : Answers (Expected (Cache.ans d rank) d init) lt.past lt.out
  orig : lt.past ++ curItems lt.lctl ++ lt.items = its0
  fine : ∀ p, Item.call p ∈ lt.items → Fine filt (fun r' => rank r' < N) p
  sto : ∀ c res, lt.lctl = .storing c res → res = canon (Cache.ans d rank) d (init c)
  run : ∀ c p, lt.lctl = .running (some c) p → p = init c
  fin : lt.lctl = .finished → lt.items = []
  nopanic : lt.lctl ≠ .panicked

/-- inner thread `i` against the layer above: between two programs, or running the last program of the
    list of programs it has been handed so far -/
def Link (css : List (List (Prog V E))) (inner : State V E) (i : Nat) : LCtl V E → Prop
  | .running _ p => ∃ pre, css[i]? = some (pre ++ [p])
  | _ => innerIdle inner i = true

structure LInv (items0 : List (List (Item V E))) (s : LState V E) : Prop where
  inner : ∃ css, GInv d filt rank N css s.inner ∧ (∀ cs ∈ css, ∀ p ∈ cs, Fine filt (fun r' => rank r' < N) p) ∧
    ∀ (i : Nat) lt, s.lthreads[i]? = some lt → Link css s.inner i lt.lctl
  cells : ∀ c v, cellOf s.cells c = .full v → Res.ok v = canon (Cache.ans d rank) d (init c)
  own : ∀ (i : Nat) lt, s.lthreads[i]? = some lt → ∀ c, Claims lt.lctl c → cellOf s.cells c = .loading i
  thr : ∀ (i : Nat) lt, s.lthreads[i]? = some lt → ∃ its0, items0[i]? = some its0 ∧ ThrOK d filt rank N init its0 lt

end Inv

end Conc

namespace Conc
open Cache
variable {V E : Type}

theorem settle_idle (s : LState V E) (i : Nat) (lt : LThread V E) (c : Option Nat) (p : Prog V E) (inner' : State V E)
    (h : innerIdle inner' i = true) :
    settle s i lt c p inner' =
      match c with
      | some c => ⟨inner', s.cells, s.lthreads.set i { lt with lctl := .storing c (lastOut inner' i) }⟩
      | none => ⟨inner', s.cells, s.lthreads.set i { lt with lctl := .idle, past := lt.past ++ [.call p], out := lt.out ++ [.res (lastOut inner' i)] }⟩ := by
  unfold settle
  simp only [h, if_true]
  cases c <;> rfl

theorem settle_busy (s : LState V E) (i : Nat) (lt : LThread V E) (c : Option Nat) (p : Prog V E) (inner' : State V E)
    (h : innerIdle inner' i = false) :
    settle s i lt c p inner' = ⟨inner', s.cells, s.lthreads.set i { lt with lctl := .running c p }⟩ := by
  unfold settle
  simp [h]

section Inner
variable {d : Doc V E} {filt : Nat → List Nat} {rank : Nat → Nat} {N : Nat}

/-- handing a new program to an inner thread that is between two programs keeps the invariant of the inner
    system, for the list of programs extended by the new one -/
theorem launch_GInv (wf : WF d filt rank) (hN : ∀ r, rank r < N) (hD : N ≤ maxNestedGets) {cfg : Cfg} (hg : cfg.sharedGuard = false)
    {css : List (List (Prog V E))} (hF : ∀ cs ∈ css, ∀ p ∈ cs, Fine filt (fun r' => rank r' < N) p)
    {s s' : State V E} {i : Nat} {p : Prog V E} (h : GInv d filt rank N css s) (hidle : innerIdle s i = true)
    (hp : Fine filt (fun r' => rank r' < N) p) (hl : launch d cfg s i p = some s') :
    ∃ cs, css[i]? = some cs ∧ GInv d filt rank N (css.set i (cs ++ [p])) s' ∧
      (∀ cs' ∈ css.set i (cs ++ [p]), ∀ q ∈ cs', Fine filt (fun r' => rank r' < N) q) := by
  obtain ⟨t, ht, hctl, htodo⟩ := innerIdle_iff.mp hidle
  obtain ⟨hsh, hlen, hth⟩ := h
  have hi : i < css.length := by
    rw [← hlen]; exact (List.getElem?_eq_some_iff.mp ht).1
  have hcsi : css[i]? = some css[i] := List.getElem?_eq_getElem hi
  refine ⟨css[i], hcsi, ?_⟩
  have hF' : ∀ cs' ∈ css.set i (css[i] ++ [p]), ∀ q ∈ cs', Fine filt (fun r' => rank r' < N) q := by
    intro cs' hcs' q hq
    rcases List.mem_or_eq_of_mem_set hcs' with hm | rfl
    · exact hF cs' hm q hq
    · rcases List.mem_append.mp hq with hq | hq
      · exact hF _ (List.getElem_mem hi) q hq
      · simp only [List.mem_singleton] at hq; subst hq; exact hp
  refine ⟨?_, hF'⟩
  unfold launch at hl
  simp only [ht] at hl
  refine step_GInv wf hN hD hg hF' ?_ hl
  refine ⟨hsh, by simp [hlen], ?_⟩
  intro j u cs' hu hcs'
  simp only [List.getElem?_set] at hu hcs'
  split at hu
  · rename_i e
    subst e
    simp only [(List.getElem?_eq_some_iff.mp ht).1, if_true, Option.some.injEq] at hu
    simp only [hi, if_true, Option.some.injEq] at hcs'
    subst hu; subst hcs'
    obtain ⟨hch, done, hout, hm⟩ := hth i t css[i] ht hcsi
    obtain ⟨ctl, stack, chain, todo, out⟩ := t
    simp only at hctl htodo
    subst hctl; subst htodo
    refine ⟨hch, done, hout, ?_⟩
    simp only [resid] at hm ⊢
    refine ⟨hm.1, ?_, by simp [Ctl.isFinal]⟩
    rw [hm.2.1]; simp
  · rename_i e
    simp only [e, if_false] at hcs'
    exact hth j u cs' hu hcs'

/-- an inner thread that is between two programs has just answered the last program it was handed: with the
    sequential answer -/
theorem idle_result {css : List (List (Prog V E))} {s : State V E} {i : Nat} {pre : List (Prog V E)} {p : Prog V E}
    (h : GInv d filt rank N css s) (hc : css[i]? = some (pre ++ [p])) (hidle : innerIdle s i = true) :
    lastOut s i = canon (ans d rank) d p := by
  obtain ⟨t, ht, hctl, htodo⟩ := innerIdle_iff.mp hidle
  obtain ⟨_, done, hout, hm⟩ := h.2.2 i t _ ht hc
  rw [hctl] at hm
  simp only [resid] at hm
  have : done = pre ++ [p] := by rw [hm.2.1, htodo]; simp
  subst this
  simp [lastOut, ht, hout]

end Inner
end Conc

namespace Conc
open Cache
variable {V E : Type}

theorem Link.other {css css' : List (List (Prog V E))} {inner inner' : State V E} {j : Nat} {c : LCtl V E}
    (hcss : css'[j]? = css[j]?) (hth : inner'.threads[j]? = inner.threads[j]?) (h : Link css inner j c) :
    Link css' inner' j c := by
  cases c <;> simp only [Link, innerIdle_congr hth, hcss] at h ⊢ <;> exact h

section Step
variable {d : Doc V E} {filt : Nat → List Nat} {rank : Nat → Nat} {N : Nat} {init : Nat → Prog V E}

/-- thread `i` changed its own record, possibly the inner system and the cells -/
theorem LInv.update {items0 : List (List (Item V E))} {s : LState V E} (h : LInv d filt rank N init items0 s)
    {i : Nat} {lt lt' : LThread V E} (hlt : s.lthreads[i]? = some lt) {inner' : State V E} {cells' : List (Nat × Cell V)}
    (css' : List (List (Prog V E))) (hG : GInv d filt rank N css' inner')
    (hF : ∀ cs ∈ css', ∀ p ∈ cs, Fine filt (fun r' => rank r' < N) p)
    (hlo : ∀ (j : Nat) ltj, j ≠ i → s.lthreads[j]? = some ltj → Link css' inner' j ltj.lctl)
    (hlm : Link css' inner' i lt'.lctl)
    (hcells : ∀ c v, cellOf cells' c = .full v → Res.ok v = canon (Cache.ans d rank) d (init c))
    (hoo : ∀ (j : Nat) ltj, j ≠ i → s.lthreads[j]? = some ltj → ∀ c, Claims ltj.lctl c → cellOf cells' c = .loading j)
    (hom : ∀ c, Claims lt'.lctl c → cellOf cells' c = .loading i)
    (hthr : ∀ its0, items0[i]? = some its0 → ThrOK d filt rank N init its0 lt → ThrOK d filt rank N init its0 lt') :
    LInv d filt rank N init items0 ⟨inner', cells', s.lthreads.set i lt'⟩ := by
  have key : ∀ (j : Nat) u, (s.lthreads.set i lt')[j]? = some u → (j = i ∧ u = lt') ∨ (j ≠ i ∧ s.lthreads[j]? = some u) := by
    intro j u hu
    simp only [List.getElem?_set] at hu
    split at hu
    · rename_i e
      subst e
      split at hu
      · simp only [Option.some.injEq] at hu
        exact .inl ⟨rfl, hu.symm⟩
      · simp at hu
    · rename_i e
      exact .inr ⟨fun e' => e e'.symm, hu⟩
  refine ⟨⟨css', hG, hF, ?_⟩, hcells, ?_, ?_⟩
  · intro j u hu
    rcases key j u hu with ⟨rfl, rfl⟩ | ⟨hj, hu'⟩
    · exact hlm
    · exact hlo j u hj hu'
  · intro j u hu
    rcases key j u hu with ⟨rfl, rfl⟩ | ⟨hj, hu'⟩
    · exact hom
    · exact hoo j u hj hu'
  · intro j u hu
    rcases key j u hu with ⟨rfl, rfl⟩ | ⟨hj, hu'⟩
    · obtain ⟨its0, h0, ht⟩ := h.thr j lt hlt
      exact ⟨its0, h0, hthr its0 h0 ht⟩
    · exact h.thr j u hu'

end Step
end Conc

namespace Conc
open Cache
variable {V E : Type}

section Main
variable {d : Doc V E} {filt : Nat → List Nat} {rank : Nat → Nat} {N : Nat} {init : Nat → Prog V E}

theorem set_self_append {css : List (List (Prog V E))} {i : Nat} {cs : List (Prog V E)} (p : Prog V E) (h : css[i]? = some cs) :
    (css.set i (cs ++ [p]))[i]? = some (cs ++ [p]) := by
  simp [List.getElem?_set, (List.getElem?_eq_some_iff.mp h).1]

theorem set_other {css : List (List (Prog V E))} {i j : Nat} (x : List (Prog V E)) (h : j ≠ i) :
    (css.set i x)[j]? = css[j]? := by
  simp [List.getElem?_set, Ne.symm h]

/-- **Step lemma of the once-cell layer** (`get_or_try_init`, own guard stacks). -/
theorem lstep_LInv (wf : WF d filt rank) (hN : ∀ r, rank r < N) (hD : N ≤ maxNestedGets) {lc : LCfg}
    (hg : lc.cfg.sharedGuard = false) (hr : lc.racy = false)
    (hinit : ∀ c, Fine filt (fun r' => rank r' < N) (init c))
    {items0 : List (List (Item V E))} {s s' : LState V E} {i : Nat}
    (h : LInv d filt rank N init items0 s) (hs : lstep d init lc s i = some s') :
    LInv d filt rank N init items0 s' := by
  unfold lstep at hs
  cases hlt : s.lthreads[i]? with
  | none => simp [hlt] at hs
  | some lt =>
  simp only [hlt] at hs
  obtain ⟨css, hG, hF, hL⟩ := h.inner
  have hlink := hL i lt hlt
  have hown := h.own i lt hlt
  have hcells := h.cells
  have hoo : ∀ (j : Nat) ltj, j ≠ i → s.lthreads[j]? = some ltj → ∀ c, Claims ltj.lctl c → cellOf s.cells c = .loading j :=
    fun j ltj _ hj => h.own j ltj hj
  have hlo : ∀ (j : Nat) ltj, j ≠ i → s.lthreads[j]? = some ltj → Link css s.inner j ltj.lctl :=
    fun j ltj _ hj => hL j ltj hj
  obtain ⟨ctl, items, past, out⟩ := lt
  simp only at hs hlink hown
  cases ctl with
  | finished => simp at hs
  | panicked => simp at hs
  | idle =>
    simp only at hs
    cases items with
    | nil =>
      simp only [Option.some.injEq] at hs
      subst hs
      refine h.update hlt css hG hF hlo hlink hcells hoo (fun c hc => False.elim hc) ?_
      intro its0 _ ht
      exact ⟨ht.answers, ht.orig, ht.fine, (by intro c res e; cases e), (by intro c p e; cases e), fun _ => rfl, (by intro e; cases e)⟩
    | cons it rest =>
      cases it with
      | call p =>
        simp only [Option.map_eq_some_iff] at hs
        obtain ⟨inner', hl, rfl⟩ := hs
        have hp : Fine filt (fun r' => rank r' < N) p := by
          obtain ⟨_, _, ht⟩ := h.thr i _ hlt
          exact ht.fine p (by simp)
        obtain ⟨cs, hcs, hG', hF'⟩ := launch_GInv wf hN hD hg hF hG hlink hp hl
        have hlo' : ∀ (j : Nat) ltj, j ≠ i → s.lthreads[j]? = some ltj → Link (css.set i (cs ++ [p])) inner' j ltj.lctl :=
          fun j ltj hj hltj => (hlo j ltj hj hltj).other (set_other _ hj) (launch_other hl j hj)
        cases hid : innerIdle inner' i with
        | true =>
          rw [settle_idle _ _ _ _ _ _ hid]
          have hres := idle_result hG' (set_self_append p hcs) hid
          refine h.update hlt _ hG' hF' hlo' hid hcells hoo (fun c hc => False.elim hc) ?_
          intro its0 _ ht
          refine ⟨ht.answers.snoc (by simp [Expected, hres]), ?_, fun q hq => ht.fine q (List.mem_cons_of_mem _ hq),
            (by intro c res e; cases e), (by intro c p e; cases e), (by intro e; cases e), (by intro e; cases e)⟩
          have := ht.orig
          simp only [curItems, List.append_nil] at this ⊢
          subst this; simp
        | false =>
          rw [settle_busy _ _ _ _ _ _ hid]
          refine h.update hlt _ hG' hF' hlo' ⟨cs, set_self_append p hcs⟩ hcells hoo (fun c hc => False.elim hc) ?_
          intro its0 _ ht
          refine ⟨ht.answers, ?_, fun q hq => ht.fine q (List.mem_cons_of_mem _ hq),
            (by intro c res e; cases e), (by intro c p e; cases e), (by intro e; cases e), (by intro e; cases e)⟩
          have := ht.orig
          simp only [curItems, List.append_nil] at this ⊢
          subst this; simp
      | lazy c =>
        simp only [Option.some.injEq] at hs
        subst hs
        refine h.update hlt css hG hF hlo hlink hcells hoo (fun c hc => False.elim hc) ?_
        intro its0 _ ht
        refine ⟨ht.answers, ?_, fun q hq => ht.fine q (List.mem_cons_of_mem _ hq),
          (by intro c res e; cases e), (by intro c p e; cases e), (by intro e; cases e), (by intro e; cases e)⟩
        have := ht.orig
        simp only [curItems, List.append_nil] at this ⊢
        subst this; simp
      | peek c =>
        simp only [Option.some.injEq] at hs
        subst hs
        refine h.update hlt css hG hF hlo hlink hcells hoo (fun c hc => False.elim hc) ?_
        intro its0 _ ht
        refine ⟨ht.answers.snoc ?_, ?_, fun q hq => ht.fine q (List.mem_cons_of_mem _ hq),
          (by intro c res e; cases e), (by intro c p e; cases e), (by intro e; cases e), (by intro e; cases e)⟩
        · cases hcell : cellOf s.cells c with
          | full v => exact .inr (by simp [hcells c v hcell])
          | empty => exact .inl rfl
          | loading j => exact .inl rfl
        · have := ht.orig
          simp only [curItems, List.append_nil] at this ⊢
          subst this; simp
  | entering c =>
    simp only at hs
    cases hcell : cellOf s.cells c with
    | full v =>
      simp only [hcell, Option.some.injEq] at hs
      subst hs
      refine h.update hlt css hG hF hlo hlink hcells hoo (fun c hc => False.elim hc) ?_
      intro its0 _ ht
      refine ⟨ht.answers.snoc (by simp [Expected, hcells c v hcell]), ?_, ht.fine,
        (by intro c res e; cases e), (by intro c p e; cases e), (by intro e; cases e), (by intro e; cases e)⟩
      have := ht.orig
      simp only [curItems, List.append_nil] at this ⊢
      subst this; simp
    | loading j => simp [hcell, hr] at hs
    | empty =>
      simp only [hcell, hr, Option.map_eq_some_iff] at hs
      obtain ⟨inner', hl, rfl⟩ := hs
      obtain ⟨cs, hcs, hG', hF'⟩ := launch_GInv wf hN hD hg hF hG hlink (hinit c) hl
      have hlo' : ∀ (j : Nat) ltj, j ≠ i → s.lthreads[j]? = some ltj → Link (css.set i (cs ++ [init c])) inner' j ltj.lctl :=
        fun j ltj hj hltj => (hlo j ltj hj hltj).other (set_other _ hj) (launch_other hl j hj)
      have hcells' : ∀ c' v, cellOf ((c, Cell.loading i) :: s.cells) c' = .full v → Res.ok v = canon (Cache.ans d rank) d (init c') := by
        intro c' v hv
        rw [cellOf_cons] at hv
        split at hv
        · cases hv
        · exact hcells c' v hv
      have hoo' : ∀ (j : Nat) ltj, j ≠ i → s.lthreads[j]? = some ltj → ∀ c', Claims ltj.lctl c' → cellOf ((c, Cell.loading i) :: s.cells) c' = .loading j := by
        intro j ltj hj hltj c' hcl
        have := hoo j ltj hj hltj c' hcl
        rw [cellOf_cons]
        split
        · rename_i e; subst e; rw [hcell] at this; cases this
        · exact this
      have hom' : ∀ c', c' = c → cellOf ((c, Cell.loading i) :: s.cells) c' = .loading i := by
        intro c' e; subst e; simp [cellOf_cons]
      cases hid : innerIdle inner' i with
      | true =>
        rw [settle_idle _ _ _ _ _ _ hid]
        have hres := idle_result hG' (set_self_append (init c) hcs) hid
        refine h.update hlt _ hG' hF' hlo' hid hcells' hoo' hom' ?_
        intro its0 _ ht
        exact ⟨ht.answers, ht.orig, ht.fine, (by intro c' res e; cases e; exact hres), (by intro c p e; cases e), (by intro e; cases e), (by intro e; cases e)⟩
      | false =>
        rw [settle_busy _ _ _ _ _ _ hid]
        refine h.update hlt _ hG' hF' hlo' ⟨cs, set_self_append (init c) hcs⟩ hcells' hoo' hom' ?_
        intro its0 _ ht
        exact ⟨ht.answers, ht.orig, ht.fine, (by intro c' res e; cases e), (by intro c' p e; cases e; rfl), (by intro e; cases e), (by intro e; cases e)⟩
  | running c p =>
    simp only [Option.map_eq_some_iff] at hs
    obtain ⟨inner', hst, rfl⟩ := hs
    have hG' := step_GInv wf hN hD hg hF hG hst
    obtain ⟨pre, hpre⟩ := hlink
    have hlo' : ∀ (j : Nat) ltj, j ≠ i → s.lthreads[j]? = some ltj → Link css inner' j ltj.lctl :=
      fun j ltj hj hltj => (hlo j ltj hj hltj).other rfl (step_other hst j hj)
    cases hid : innerIdle inner' i with
    | true =>
      rw [settle_idle _ _ _ _ _ _ hid]
      have hres := idle_result hG' hpre hid
      cases c with
      | some c =>
        refine h.update hlt css hG' hF hlo' hid hcells hoo (fun c' hc' => hown c' hc') ?_
        intro its0 _ ht
        have hp : p = init c := ht.run c p rfl
        exact ⟨ht.answers, ht.orig, ht.fine, (by intro c' res e; cases e; rw [hres, hp]), (by intro c p e; cases e), (by intro e; cases e), (by intro e; cases e)⟩
      | none =>
        refine h.update hlt css hG' hF hlo' hid hcells hoo (fun c hc => False.elim hc) ?_
        intro its0 _ ht
        refine ⟨ht.answers.snoc (by simp [Expected, hres]), ?_, ht.fine,
          (by intro c res e; cases e), (by intro c p e; cases e), (by intro e; cases e), (by intro e; cases e)⟩
        have := ht.orig
        simp only [curItems, List.append_nil] at this ⊢
        subst this; simp
    | false =>
      rw [settle_busy _ _ _ _ _ _ hid]
      refine h.update hlt css hG' hF hlo' ⟨pre, hpre⟩ hcells hoo hown ?_
      intro its0 _ ht
      exact ht
  | storing c res =>
    have hmine : cellOf s.cells c = .loading i := hown c rfl
    simp only [hr, hmine, Bool.false_eq_true, reduceIte] at hs
    have hres : res = canon (Cache.ans d rank) d (init c) := by
      obtain ⟨_, _, ht⟩ := h.thr i _ hlt
      exact ht.sto c res rfl
    have hoo' : ∀ (x : Cell V) (j : Nat) ltj, j ≠ i → s.lthreads[j]? = some ltj → ∀ c', Claims ltj.lctl c' → cellOf ((c, x) :: s.cells) c' = .loading j := by
      intro x j ltj hj hltj c' hcl
      have := hoo j ltj hj hltj c' hcl
      rw [cellOf_cons]
      split
      · rename_i e; subst e; rw [hmine] at this; cases this; exact absurd rfl hj
      · exact this
    have hthr : ∀ its0, items0[i]? = some its0 → ThrOK d filt rank N init its0 ⟨.storing c res, items, past, out⟩ →
        ThrOK d filt rank N init its0 ⟨.idle, items, past ++ [.lazy c], out ++ [.res res]⟩ := by
      intro its0 _ ht
      refine ⟨ht.answers.snoc (by simp [Expected, hres]), ?_, ht.fine,
        (by intro c res e; cases e), (by intro c p e; cases e), (by intro e; cases e), (by intro e; cases e)⟩
      have := ht.orig
      simp only [curItems, List.append_nil] at this ⊢
      subst this; simp
    cases res with
    | ok v =>
      simp only [Option.some.injEq] at hs
      subst hs
      refine h.update hlt css hG hF hlo hlink ?_ (hoo' _) (fun c hc => False.elim hc) hthr
      intro c' v' hv
      rw [cellOf_cons] at hv
      split at hv
      · rename_i e; subst e; cases hv; exact hres
      · exact hcells c' v' hv
    | err e =>
      simp only [Option.some.injEq] at hs
      subst hs
      refine h.update hlt css hG hF hlo hlink ?_ (hoo' _) (fun c hc => False.elim hc) hthr
      intro c' v' hv
      rw [cellOf_cons] at hv
      split at hv
      · cases hv
      · exact hcells c' v' hv
    | oof =>
      simp only [Option.some.injEq] at hs
      subst hs
      refine h.update hlt css hG hF hlo hlink ?_ (hoo' _) (fun c hc => False.elim hc) hthr
      intro c' v' hv
      rw [cellOf_cons] at hv
      split at hv
      · cases hv
      · exact hcells c' v' hv

end Main
end Conc

namespace Conc
open Cache
variable {V E : Type}

section Reach
variable {d : Doc V E} {filt : Nat → List Nat} {rank : Nat → Nat} {N : Nat} {init : Nat → Prog V E}

theorem init_LInv (slots : List (Nat × Slot V E)) (stm : List (Nat × Res V E)) (items : List (List (Item V E)))
    (hsh : SInv d filt (ans d rank) ⟨slots, stm, [], false⟩)
    (hfine : ∀ its ∈ items, ∀ p, Item.call p ∈ its → Fine filt (fun r' => rank r' < N) p) :
    LInv d filt rank N init items (LState.init slots stm items) := by
  have hth : ∀ (i : Nat) (lt : LThread V E), (LState.init slots stm items).lthreads[i]? = some lt →
      ∃ its, items[i]? = some its ∧ lt = ⟨.idle, its, [], []⟩ := by
    intro i lt hlt
    simp only [LState.init, List.getElem?_map, Option.map_eq_some_iff] at hlt
    obtain ⟨its, hits, rfl⟩ := hlt
    exact ⟨its, hits, rfl⟩
  refine ⟨⟨items.map fun _ => [], init_GInv slots stm _ hsh, ?_, ?_⟩, ?_, ?_, ?_⟩
  · intro cs hcs p hp
    simp only [List.mem_map] at hcs
    obtain ⟨_, _, rfl⟩ := hcs
    simp at hp
  · intro i lt hlt
    obtain ⟨its, hits, rfl⟩ := hth i lt hlt
    simp only [Link]
    rw [innerIdle_iff]
    refine ⟨Thread.init [], ?_, rfl, rfl⟩
    simp [LState.init, State.init, hits]
  · intro c v hv
    simp [LState.init, cellOf] at hv
  · intro i lt hlt c hc
    obtain ⟨its, hits, rfl⟩ := hth i lt hlt
    exact False.elim hc
  · intro i lt hlt
    obtain ⟨its, hits, rfl⟩ := hth i lt hlt
    refine ⟨its, hits, trivial, by simp [curItems], hfine its (List.mem_of_getElem? hits),
      (by intro c res e; cases e), (by intro c p e; cases e), (by intro e; cases e), (by intro e; cases e)⟩

theorem reachable_LInv (wf : WF d filt rank) (hN : ∀ r, rank r < N) (hD : N ≤ maxNestedGets) {lc : LCfg}
    (hg : lc.cfg.sharedGuard = false) (hr : lc.racy = false)
    (hinit : ∀ c, Fine filt (fun r' => rank r' < N) (init c))
    {items0 : List (List (Item V E))} {s0 s : LState V E}
    (h0 : LInv d filt rank N init items0 s0) (hreach : LReachable d init lc s0 s) :
    LInv d filt rank N init items0 s := by
  induction hreach with
  | init => exact h0
  | step i _ hs ih => exact lstep_LInv wf hN hD hg hr hinit ih hs

/-- a cell that holds a value keeps it (`get_or_try_init`; no invariant needed) -/
theorem lstep_full_stable {lc : LCfg} (hr : lc.racy = false) {s s' : LState V E} {i : Nat}
    (hs : lstep d init lc s i = some s') (c : Nat) (v : V) (hc : cellOf s.cells c = .full v) :
    cellOf s'.cells c = .full v := by
  unfold lstep at hs
  cases hlt : s.lthreads[i]? with
  | none => simp [hlt] at hs
  | some lt =>
  simp only [hlt] at hs
  obtain ⟨ctl, items, past, out⟩ := lt
  cases ctl with
  | finished => simp at hs
  | panicked => simp at hs
  | idle =>
    simp only at hs
    cases items with
    | nil => simp only [Option.some.injEq] at hs; subst hs; exact hc
    | cons it rest =>
      cases it with
      | call p =>
        simp only [Option.map_eq_some_iff] at hs
        obtain ⟨inner', _, rfl⟩ := hs
        unfold settle; split <;> (try split) <;> exact hc
      | lazy c' => simp only [Option.some.injEq] at hs; subst hs; exact hc
      | peek c' => simp only [Option.some.injEq] at hs; subst hs; exact hc
  | entering c' =>
    simp only at hs
    cases hcell : cellOf s.cells c' with
    | full v' => simp only [hcell, Option.some.injEq] at hs; subst hs; exact hc
    | loading j => simp [hcell, hr] at hs
    | empty =>
      simp only [hcell, hr, Option.map_eq_some_iff] at hs
      obtain ⟨inner', _, rfl⟩ := hs
      have hne : c ≠ c' := by intro e; subst e; rw [hc] at hcell; cases hcell
      have : cellOf ((c', Cell.loading i) :: s.cells) c = .full v := by rw [cellOf_cons]; simp [hne, hc]
      unfold settle; split <;> exact this
  | running c' p =>
    simp only [Option.map_eq_some_iff] at hs
    obtain ⟨inner', _, rfl⟩ := hs
    unfold settle; split <;> (try split) <;> exact hc
  | storing c' res =>
    simp only [hr, Bool.false_eq_true, reduceIte] at hs
    cases hcell : cellOf s.cells c' with
    | full v' => simp only [hcell, Option.some.injEq] at hs; subst hs; exact hc
    | empty => simp only [hcell, Option.some.injEq] at hs; subst hs; exact hc
    | loading j =>
      have hne : c ≠ c' := by intro e; subst e; rw [hc] at hcell; cases hcell
      simp only [hcell] at hs
      split at hs
      · cases res <;> (simp only [Option.some.injEq] at hs; subst hs; show cellOf (_ :: s.cells) c = _; rw [cellOf_cons]; simp [hne, hc])
      · simp only [Option.some.injEq] at hs; subst hs; exact hc

end Reach
end Conc
