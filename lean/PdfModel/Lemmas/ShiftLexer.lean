import PdfModel.Model.Lexer
import PdfModel.Model.StrLexer
import PdfModel.Model.OffsetsConcrete

/-!
  Shift lemmas for the lexer models (`Model/Lexer.lean`, `Model/StrLexer.lean`): running a lexer function
  on `p ++ b` from position `p.size + k` is running it on `b` from `k`, with every position that comes
  back `p.size` further on. Nothing in the forward lexer ever looks at a byte before its cursor.

  (`back` / `boundaryRev` look backwards and are not shift-invariant; the parser does not use them.)
-/

namespace PdfShift
open PdfLex

@[simp] theorem omap_ok {α β : Type} (f : α → β) (a : α) : omap f (.ok a) = .ok (f a) := rfl
@[simp] theorem omap_err {α β : Type} (f : α → β) : omap f (.err : Out α) = .err := rfl
@[simp] theorem omap_panic {α β : Type} (f : α → β) : omap f (.panic : Out α) = .panic := rfl
@[simp] theorem omap_oof {α β : Type} (f : α → β) : omap f (.oof : Out α) = .oof := rfl

theorem omap_id {α : Type} (x : Out α) : omap (fun a => a) x = x := by cases x <;> rfl

/-- the workhorse: a shifted first step followed by a continuation that commutes with the shift -/
theorem bind_shift {α β α' β' : Type} (x : Out α) (x' : Out α') (g : α → α') (h : β → β')
    (f : α → Out β) (f' : α' → Out β') (hx : x' = omap g x) (hf : ∀ a, f' (g a) = omap h (f a)) :
    x'.bind f' = omap h (x.bind f) := by
  subst hx
  cases x <;> simp [Out.bind, hf]

def sh2 (k : Nat) (w : Nat × Nat) : Nat × Nat := (k + w.1, k + w.2)

theorem size_shift (p b : Buf) : (p ++ b).size = p.size + b.size := Array.size_append

theorem get_shift (p b : Buf) (i : Nat) : (p ++ b)[p.size + i]? = b[i]? := by
  rw [Array.getElem?_append_right (by omega)]; simp

theorem slice_shift (p b : Buf) (a c : Nat) : slice (p ++ b) (p.size + a) (p.size + c) = slice b a c := by
  unfold slice
  simp [Array.toList_extract]

theorem scanWhile_shift (p b : Buf) (cond : UInt8 → Bool) :
    ∀ (fuel pos : Nat), scanWhile (p ++ b) cond fuel (p.size + pos) = p.size + scanWhile b cond fuel pos := by
  intro fuel
  induction fuel with
  | zero => intro pos; simp [scanWhile, size_shift]
  | succ fuel ih =>
    intro pos
    simp only [scanWhile, get_shift]
    cases b[pos]? with
    | none => simp [size_shift]
    | some c =>
      simp only
      split
      · rw [Nat.add_assoc, ih]
      · rfl

theorem boundary_shift (p b : Buf) (pos : Nat) (cond : UInt8 → Bool) :
    boundary (p ++ b) (p.size + pos) cond = omap (p.size + ·) (boundary b pos cond) := by
  unfold boundary
  simp only [size_shift]
  by_cases h : pos > b.size
  · have : p.size + pos > p.size + b.size := by omega
    simp [h, this]
  · have : ¬ p.size + pos > p.size + b.size := by omega
    have e : p.size + b.size - (p.size + pos) = b.size - pos := by omega
    simp [h, this, e, scanWhile_shift]

theorem skipWhitespace_shift (p b : Buf) (pos : Nat) :
    skipWhitespace (p ++ b) (p.size + pos) = omap (p.size + ·) (skipWhitespace b pos) := by
  unfold skipWhitespace
  apply bind_shift _ _ (p.size + ·) (p.size + ·) _ _ (boundary_shift p b pos isWhitespace)
  intro a
  simp only [size_shift]
  by_cases h : a ≥ b.size
  · have : p.size + a ≥ p.size + b.size := by omega
    simp [h, this]
  · have : ¬ p.size + a ≥ p.size + b.size := by omega
    simp [h, this]

theorem isWsAt_shift (p b : Buf) (pos : Nat) : isWsAt (p ++ b) (p.size + pos) = isWsAt b pos := by
  simp [isWsAt, get_shift]

theorem isDelimAt_shift (p b : Buf) (pos : Nat) : isDelimAt (p ++ b) (p.size + pos) = isDelimAt b pos := by
  simp [isDelimAt, get_shift]

theorem advancePos_shift (p b : Buf) (pos : Nat) :
    advancePos (p ++ b) (p.size + pos) = omap (p.size + ·) (advancePos b pos) := by
  unfold advancePos
  simp only [size_shift]
  by_cases h : pos < b.size
  · have : p.size + pos < p.size + b.size := by omega
    simp [h, this, Nat.add_assoc]
  · have : ¬ p.size + pos < p.size + b.size := by omega
    simp [h, this]

theorem newSubstr_shift (p b : Buf) (a c : Nat) :
    newSubstr (p ++ b) (p.size + a) (p.size + c) = omap (sh2 p.size) (newSubstr b a c) := by
  unfold newSubstr
  simp only [size_shift]
  by_cases h : a > c
  · have h' : p.size + a > p.size + c := by omega
    simp only [h, h', if_true, Bool.or_eq_true, decide_eq_true_eq]
    by_cases h2 : c + 1 > a + 1 ∨ a + 1 > b.size
    · have h2' : p.size + c + 1 > p.size + a + 1 ∨ p.size + a + 1 > p.size + b.size := by omega
      rw [if_pos h2, if_pos h2']; rfl
    · have h2' : ¬ (p.size + c + 1 > p.size + a + 1 ∨ p.size + a + 1 > p.size + b.size) := by omega
      rw [if_neg h2, if_neg h2']; simp [sh2, Nat.add_assoc]
  · have h' : ¬ p.size + a > p.size + c := by omega
    simp only [h, h', if_false, Bool.or_eq_true, decide_eq_true_eq, false_or]
    by_cases h2 : c > b.size
    · have h2' : p.size + c > p.size + b.size := by omega
      rw [if_pos h2, if_pos h2']; rfl
    · have h2' : ¬ (p.size + c > p.size + b.size) := by omega
      rw [if_neg h2, if_neg h2']; simp [sh2]

theorem scanRegular_shift (p b : Buf) (pos : Nat) :
    scanRegular (p ++ b) (p.size + pos) = p.size + scanRegular b pos := by
  unfold scanRegular
  have e : (p ++ b).size - (p.size + pos) = b.size - pos := by rw [size_shift]; omega
  rw [e, scanWhile_shift]

theorem findEol_shift (p b : Buf) :
    ∀ (fuel pos : Nat), findEol (p ++ b) fuel (p.size + pos) = (findEol b fuel pos).map (p.size + ·) := by
  intro fuel
  induction fuel with
  | zero => intro pos; rfl
  | succ fuel ih =>
    intro pos
    simp only [findEol, get_shift]
    cases b[pos]? with
    | none => rfl
    | some c =>
      simp only
      split
      · rfl
      · rw [Nat.add_assoc, ih]

/-- where the comment loop continues after the `%` at `pos` -/
def afterComment (b : Buf) (pos : Nat) : Nat :=
  match findEol b (b.size - (pos + 1)) (pos + 1) with
  | some p => p + 1
  | none => pos + 1

theorem skipComments_succ (b : Buf) (fuel pos : Nat) :
    skipComments b (fuel + 1) pos =
      if b[pos]? == some 37 then
        if pos + 1 > b.size then .panic
        else (skipWhitespace b (afterComment b pos)).bind fun q => skipComments b fuel q
      else .ok pos := by
  rw [skipComments]; rfl

theorem skipComments_zero (b : Buf) (pos : Nat) :
    skipComments b 0 pos = if b[pos]? == some 37 then .oof else .ok pos := by
  rw [skipComments]

theorem afterComment_shift (p b : Buf) (pos : Nat) :
    afterComment (p ++ b) (p.size + pos) = p.size + afterComment b pos := by
  unfold afterComment
  have e : (p ++ b).size - (p.size + pos + 1) = b.size - (pos + 1) := by rw [size_shift]; omega
  rw [e, Nat.add_assoc, findEol_shift]
  cases findEol b (b.size - (pos + 1)) (pos + 1) <;> simp [Nat.add_assoc]

theorem skipComments_shift (p b : Buf) :
    ∀ (fuel pos : Nat), skipComments (p ++ b) fuel (p.size + pos) = omap (p.size + ·) (skipComments b fuel pos) := by
  intro fuel
  induction fuel with
  | zero =>
    intro pos
    rw [skipComments_zero, skipComments_zero, get_shift]
    split <;> rfl
  | succ fuel ih =>
    intro pos
    rw [skipComments_succ, skipComments_succ, get_shift]
    split
    · simp only [size_shift]
      by_cases h : pos + 1 > b.size
      · have : p.size + pos + 1 > p.size + b.size := by omega
        simp [h, this]
      · have h' : ¬ p.size + pos + 1 > p.size + b.size := by omega
        simp only [h, h', if_false]
        rw [afterComment_shift]
        apply bind_shift _ _ (p.size + ·) (p.size + ·) _ _ (skipWhitespace_shift p b _)
        intro a; exact ih a
    · rfl

/-- more fuel never changes an answer of the comment loop other than `oof` -/
theorem skipComments_fuel (b : Buf) : ∀ (fuel fuel' pos : Nat), fuel ≤ fuel' →
    skipComments b fuel pos ≠ .oof → skipComments b fuel' pos = skipComments b fuel pos := by
  intro fuel
  induction fuel with
  | zero =>
    intro fuel' pos _ h
    rw [skipComments_zero] at h ⊢
    by_cases hc : (b[pos]? == some 37) = true
    · simp [hc] at h
    · cases fuel' with
      | zero => rw [skipComments_zero]
      | succ f => rw [skipComments_succ]; simp [hc]
  | succ fuel ih =>
    intro fuel' pos hle h
    cases fuel' with
    | zero => omega
    | succ fuel' =>
      rw [skipComments_succ] at h ⊢
      rw [skipComments_succ]
      by_cases hc : (b[pos]? == some 37) = true
      · simp only [hc, if_true] at h ⊢
        by_cases h1 : pos + 1 > b.size
        · simp [h1]
        · simp only [h1, if_false] at h ⊢
          cases hs : skipWhitespace b (afterComment b pos) with
          | ok a =>
            simp only [hs, Out.bind] at h ⊢
            exact ih fuel' a (by omega) h
          | err => rfl
          | panic => rfl
          | oof => rfl
      · simp [hc]

theorem scanWhile_ge (b : Buf) (cond : UInt8 → Bool) : ∀ (fuel pos : Nat), pos ≤ b.size →
    pos ≤ scanWhile b cond fuel pos := by
  intro fuel
  induction fuel with
  | zero => intro pos h; simpa [scanWhile] using h
  | succ fuel ih =>
    intro pos h
    simp only [scanWhile]
    cases hb : b[pos]? with
    | none => simpa using h
    | some c =>
      simp only
      split
      · have hlt : pos < b.size := by
          rcases Nat.lt_or_ge pos b.size with hlt | hge
          · exact hlt
          · have : b[pos]? = none := by simp; omega
            rw [this] at hb; cases hb
        have := ih (pos + 1) (by omega)
        omega
      · omega

theorem skipWhitespace_ge (b : Buf) (pos a : Nat) (h : skipWhitespace b pos = .ok a) : pos ≤ a := by
  unfold skipWhitespace boundary at h
  by_cases hp : pos > b.size
  · simp [hp, Out.bind] at h
  · simp only [hp, if_false, Out.bind] at h
    split at h
    · cases h
    · cases h
      exact scanWhile_ge b isWhitespace _ pos (by omega)

theorem findEol_ge (b : Buf) : ∀ (fuel s r : Nat), findEol b fuel s = some r → s ≤ r := by
  intro fuel
  induction fuel with
  | zero => intro s r h; simp [findEol] at h
  | succ fuel ih2 =>
    intro s r h
    simp only [findEol] at h
    cases hb : b[s]? with
    | none => simp [hb] at h
    | some c =>
      simp only [hb] at h
      split at h
      · cases h; omega
      · have := ih2 (s + 1) r h; omega

theorem afterComment_gt (b : Buf) (pos : Nat) : pos + 1 ≤ afterComment b pos := by
  unfold afterComment
  cases hf : findEol b (b.size - (pos + 1)) (pos + 1) with
  | none => simp
  | some q => have := findEol_ge b _ _ _ hf; simp only; omega

theorem skipWhitespace_ne_oof (b : Buf) (q : Nat) : skipWhitespace b q ≠ .oof := by
  unfold skipWhitespace boundary
  by_cases hp : q > b.size
  · simp [hp, Out.bind]
  · simp only [hp, if_false, Out.bind]
    split <;> simp

/-- the comment loop never runs out of fuel when it is given at least `size - pos` rounds -/
theorem skipComments_ne_oof (b : Buf) : ∀ (fuel pos : Nat), b.size ≤ fuel + pos →
    skipComments b fuel pos ≠ .oof := by
  intro fuel
  induction fuel with
  | zero =>
    intro pos h
    rw [skipComments_zero]
    have : b[pos]? = none := by simp; omega
    simp [this]
  | succ fuel ih =>
    intro pos h
    rw [skipComments_succ]
    by_cases hc : (b[pos]? == some 37) = true
    · simp only [hc, if_true]
      by_cases h1 : pos + 1 > b.size
      · simp [h1]
      · simp only [h1, if_false]
        have hq := afterComment_gt b pos
        cases hs : skipWhitespace b (afterComment b pos) with
        | ok a =>
          simp only [Out.bind]
          have := skipWhitespace_ge b _ a hs
          exact ih a (by omega)
        | err => simp [Out.bind]
        | panic => simp [Out.bind]
        | oof => exact absurd hs (skipWhitespace_ne_oof b _)
    · simp [hc]

theorem isDouble_shift (p b : Buf) (pos : Nat) : isDouble (p ++ b) (p.size + pos) = isDouble b pos := by
  unfold isDouble
  rw [get_shift, Nat.add_assoc, get_shift]

theorem tokenStart_shift (p b : Buf) (pos : Nat) :
    tokenStart (p ++ b) (p.size + pos) = omap (p.size + ·) (tokenStart b pos) := by
  unfold tokenStart
  apply bind_shift _ _ (p.size + ·) (p.size + ·) _ _ (skipWhitespace_shift p b pos)
  intro a
  rw [skipComments_shift, size_shift]
  congr 1
  exact skipComments_fuel b b.size (p.size + b.size) a (by omega) (skipComments_ne_oof b b.size a (by omega))

theorem lexemeAt_shift (p b : Buf) (start : Nat) :
    lexemeAt (p ++ b) (p.size + start) = omap (sh2 p.size) (lexemeAt b start) := by
  unfold lexemeAt
  simp only [isDelimAt_shift, get_shift, isDouble_shift]
  split
  · cases b[start]? with
    | none => rfl
    | some c =>
      simp only
      split
      · apply bind_shift _ _ (p.size + ·) (sh2 p.size) _ _ (advancePos_shift p b start)
        intro a
        rw [scanRegular_shift, newSubstr_shift]
      · split
        · apply bind_shift _ _ (p.size + ·) (sh2 p.size) _ _ (advancePos_shift p b start)
          intro a
          apply bind_shift _ _ (p.size + ·) (sh2 p.size) _ _ (advancePos_shift p b a)
          intro a2
          exact newSubstr_shift p b start a2
        · have : (Out.ok (p.size + start) : Out Nat) = omap (p.size + ·) (Out.ok start) := rfl
          apply bind_shift _ _ (p.size + ·) (sh2 p.size) _ _ this
          intro a
          apply bind_shift _ _ (p.size + ·) (sh2 p.size) _ _ (advancePos_shift p b a)
          intro a2
          exact newSubstr_shift p b start a2
  · rw [scanRegular_shift, newSubstr_shift]

/-- **`next_word` under a prefix.** -/
theorem nextWord_shift (p b : Buf) (pos : Nat) :
    nextWord (p ++ b) (p.size + pos) = omap (sh2 p.size) (nextWord b pos) := by
  unfold nextWord
  simp only [size_shift]
  by_cases h : pos = b.size
  · simp [h]
  · have : ¬ p.size + pos = p.size + b.size := by omega
    simp only [beq_iff_eq, h, this, if_false]
    apply bind_shift _ _ (p.size + ·) (sh2 p.size) _ _ (tokenStart_shift p b pos)
    intro a
    exact lexemeAt_shift p b a

theorem next_shift (p b : Buf) (pos : Nat) :
    next (p ++ b) (p.size + pos) = omap (sh2 p.size) (next b pos) := nextWord_shift p b pos

theorem peek_shift (p b : Buf) (pos : Nat) :
    peek (p ++ b) (p.size + pos) = omap (sh2 p.size) (peek b pos) := by
  unfold peek
  rw [nextWord_shift]
  cases nextWord b pos with
  | ok w => rfl
  | err => simp only [omap_err]; exact newSubstr_shift p b pos pos
  | panic => rfl
  | oof => rfl

theorem nextExpect_shift (p b : Buf) (pos : Nat) (expected : List UInt8) :
    nextExpect (p ++ b) (p.size + pos) expected = omap (p.size + ·) (nextExpect b pos expected) := by
  unfold nextExpect
  apply bind_shift _ _ (sh2 p.size) (p.size + ·) _ _ (next_shift p b pos)
  intro w
  simp only [sh2, slice_shift]
  split <;> rfl

theorem nextStream_shift (p b : Buf) (pos : Nat) :
    nextStream (p ++ b) (p.size + pos) = omap (p.size + ·) (nextStream b pos) := by
  unfold nextStream
  apply bind_shift _ _ (sh2 p.size) (p.size + ·) _ _ (nextWord_shift p b pos)
  intro w
  simp only [sh2, size_shift]
  have e1 : p.size + w.2 - (p.size + w.1) = w.2 - w.1 := by omega
  rw [e1]
  by_cases h1 : w.2 - w.1 > w.2
  · omega
  · have h1' : ¬ w.2 - w.1 > p.size + w.2 := by omega
    simp only [h1, h1', if_false]
    have e2 : p.size + w.2 - (w.2 - w.1) = p.size + (w.2 - (w.2 - w.1)) := by omega
    rw [e2]
    by_cases h2 : w.2 - (w.2 - w.1) > b.size
    · have : p.size + (w.2 - (w.2 - w.1)) > p.size + b.size := by omega
      simp [h2, this]
    · have h2' : ¬ p.size + (w.2 - (w.2 - w.1)) > p.size + b.size := by omega
      simp only [h2, h2', if_false]
      rw [Nat.add_assoc, get_shift]
      cases b[w.2 - (w.2 - w.1) + 6]? with
      | none => rfl
      | some b0 =>
        simp only
        split
        · simp [Nat.add_assoc]
        · split
          · rw [Nat.add_assoc, get_shift]
            cases b[w.2 - (w.2 - w.1) + 7]? with
            | none => rfl
            | some b1 => simp only; split <;> simp [Nat.add_assoc]
          · rfl

theorem setPos_shift (p b : Buf) (pos wanted : Nat) :
    setPos (p ++ b) (p.size + pos) (p.size + wanted) = omap (p.size + ·) (setPos b pos wanted) := by
  unfold setPos
  simp only [size_shift]
  have e : min (p.size + wanted) (p.size + b.size) = p.size + min wanted b.size := by omega
  rw [e]
  by_cases h : pos < min wanted b.size
  · have h' : p.size + pos < p.size + min wanted b.size := by omega
    simp only [h, h', if_true]
    apply bind_shift _ _ (sh2 p.size) (p.size + ·) _ _ (newSubstr_shift p b pos (min wanted b.size))
    intro a; rfl
  · have h' : ¬ p.size + pos < p.size + min wanted b.size := by omega
    simp only [h, h', if_false]
    apply bind_shift _ _ (sh2 p.size) (p.size + ·) _ _ (newSubstr_shift p b (min wanted b.size) pos)
    intro a; rfl

/-- `offset_pos` wraps at 2^64: the shift needs the sum to stay below that -/
theorem offsetPos_shift (p b : Buf) (pos offset : Nat) (h : p.size + pos + offset ≤ usizeMax) :
    offsetPos (p ++ b) (p.size + pos) offset = omap (p.size + ·) (offsetPos b pos offset) := by
  unfold offsetPos
  have e1 : (p.size + pos + offset) % (usizeMax + 1) = p.size + (pos + offset) := by
    rw [Nat.mod_eq_of_lt (by omega)]; omega
  have e2 : (pos + offset) % (usizeMax + 1) = pos + offset := Nat.mod_eq_of_lt (by omega)
  rw [e1, e2, setPos_shift]

/-- `read_n` adds with overflow checks: the shift needs the sum to stay below 2^64; and the cursor must be
    inside `b` (at the very end `read_n` returns `new_substr(0..0)`, which is not relative to the cursor) -/
theorem readN_shift (p b : Buf) (pos n : Nat) (h : p.size + pos + n ≤ usizeMax) (hpos : pos < b.size) :
    readN (p ++ b) (p.size + pos) n = omap (fun r => (sh2 p.size r.1, p.size + r.2)) (readN b pos n) := by
  unfold readN
  simp only [size_shift]
  have m1 : min (p.size + pos + n) usizeMax = p.size + pos + n := Nat.min_eq_left h
  have m2 : min (pos + n) usizeMax = pos + n := Nat.min_eq_left (by omega)
  have h3 : p.size + pos < p.size + b.size := by omega
  rw [m1, m2]
  simp only [hpos, h3, if_true]
  by_cases hge : pos + n ≥ b.size
  · have hge' : p.size + pos + n ≥ p.size + b.size := by omega
    simp only [hge, hge', if_true]
    have e : p.size + b.size - 1 = p.size + (b.size - 1) := by omega
    rw [e, newSubstr_shift]
    cases newSubstr b pos (b.size - 1) <;> simp [omap, Out.bind]
  · have hge' : ¬ p.size + pos + n ≥ p.size + b.size := by omega
    simp only [hge, hge', if_false]
    rw [Nat.add_assoc, newSubstr_shift]
    cases newSubstr b pos (pos + n) <;> simp [omap, Out.bind]

theorem remainingStart_shift (p b : Buf) (pos : Nat) :
    remainingStart (p ++ b) (p.size + pos) = omap (p.size + ·) (remainingStart b pos) := by
  unfold remainingStart
  simp only [size_shift]
  by_cases h : pos > b.size
  · have : p.size + pos > p.size + b.size := by omega
    simp [h, this]
  · have : ¬ p.size + pos > p.size + b.size := by omega
    simp [h, this]

end PdfShift
