import PdfModel.Model.XrefStream

/-! Spec-side encoder of cross-reference stream rows (ISO 32000 7.5.8.2/7.5.8.3: fields are written
    big-endian, high-order byte first, in `/W` widths) and the round-trip lemmas for the reader model. -/

namespace Xref

/-- `w` bytes of `n`, high-order byte first -/
def toBE : Nat → Nat → List UInt8
  | 0, _ => []
  | w + 1, n => UInt8.ofNat (n / 256 ^ w % 256) :: toBE w n

theorem toBE_length (w n : Nat) : (toBE w n).length = w := by
  induction w with
  | zero => rfl
  | succ w ih => simp [toBE, ih]

theorem pow8 (i : Nat) : 2 ^ (8 * i) = 256 ^ i := by
  rw [Nat.pow_mul]

theorem readLoop_toBE (w n acc : Nat) (rest : List UInt8) (h : acc + n % 256 ^ w < U64) :
    readLoop w (toBE w n ++ rest) acc = .ok (acc + n % 256 ^ w, rest) := by
  induction w generalizing acc with
  | zero => simp [readLoop, toBE, Nat.mod_one]
  | succ w ih =>
    have hd : n / 256 ^ w % 256 < 256 := Nat.mod_lt _ (by decide)
    have hsplit : n % 256 ^ (w + 1) = n % 256 ^ w + 256 ^ w * (n / 256 ^ w % 256) := Nat.mod_pow_succ
    have hb : (UInt8.ofNat (n / 256 ^ w % 256)).toNat = n / 256 ^ w % 256 := by
      simp [Nat.mod_eq_of_lt hd]
    simp only [toBE, List.cons_append, readLoop, hb, pow8]
    have hv : ¬ (acc + n / 256 ^ w % 256 * 256 ^ w ≥ U64) := by
      rw [hsplit] at h
      have : n / 256 ^ w % 256 * 256 ^ w = 256 ^ w * (n / 256 ^ w % 256) := Nat.mul_comm _ _
      omega
    simp only [hv, if_false]
    rw [ih]
    · congr 2
      rw [hsplit, Nat.mul_comm (256 ^ w)]
      omega
    · rw [hsplit] at h
      have : n / 256 ^ w % 256 * 256 ^ w = 256 ^ w * (n / 256 ^ w % 256) := Nat.mul_comm _ _
      omega

theorem pow_le_U64 (w : Nat) (hw : w ≤ 8) : 256 ^ w ≤ U64 := by
  have : 256 ^ w ≤ 256 ^ 8 := Nat.pow_le_pow_right (by decide) hw
  have e : (256 : Nat) ^ 8 = U64 := by decide
  omega

/-- a field that fits its width is read back exactly, the cursor moves past it -/
theorem readU64_toBE (w n : Nat) (rest : List UInt8) (hw : w ≤ 8) (hn : n < 256 ^ w) :
    readU64 w (toBE w n ++ rest) = .ok (n, rest) := by
  unfold readU64
  have h1 : ¬ w > 8 := by omega
  have h2 : ¬ w > (toBE w n ++ rest).length := by simp [toBE_length]
  simp only [h1, h2, if_false]
  have := readLoop_toBE w n 0 rest (by
    have := pow_le_U64 w hw
    have := Nat.mod_lt n (Nat.pos_of_ne_zero (by intro h; simp [h] at hn) : 0 < 256 ^ w)
    omega)
  rw [this, Nat.mod_eq_of_lt hn]; simp

/-- type / field 1 / field 2 of an entry as written in a stream row -/
def fieldsOf : XRef → Option (Nat × Nat × Nat)
  | .free n g => some (0, n, g)
  | .raw p g => some (1, p, g)
  | .stream s i => some (2, s, i)
  | _ => none

/-- the entry can be written with widths `w0 w1 w2`: fields fit, and an omitted type field (`w0 = 0`)
    means type 1 -/
def Fits (w0 w1 w2 : Nat) (e : XRef) : Prop :=
  match fieldsOf e with
  | some (ty, f1, f2) => f1 < 256 ^ w1 ∧ f2 < 256 ^ w2 ∧ (w0 = 0 → ty = 1)
  | none => False

def encodeEntry (w0 w1 w2 : Nat) (e : XRef) : List UInt8 :=
  match fieldsOf e with
  | some (ty, f1, f2) => toBE w0 ty ++ toBE w1 f1 ++ toBE w2 f2
  | none => []

def encodeRows (w0 w1 w2 : Nat) (es : List XRef) : List UInt8 := es.flatMap (encodeEntry w0 w1 w2)

theorem encodeEntry_length (w0 w1 w2 : Nat) (e : XRef) (h : Fits w0 w1 w2 e) :
    (encodeEntry w0 w1 w2 e).length = w0 + w1 + w2 := by
  unfold Fits at h; unfold encodeEntry
  cases hf : fieldsOf e with
  | none => simp [hf] at h
  | some t => obtain ⟨ty, f1, f2⟩ := t; simp [toBE_length]; omega

theorem encodeRows_length (w0 w1 w2 : Nat) (es : List XRef) (h : ∀ e ∈ es, Fits w0 w1 w2 e) :
    (encodeRows w0 w1 w2 es).length = es.length * (w0 + w1 + w2) := by
  induction es with
  | nil => simp [encodeRows]
  | cons e es ih =>
    simp only [encodeRows, List.flatMap_cons, List.length_append, List.length_cons] at *
    rw [encodeEntry_length _ _ _ _ (h e (by simp)), ih (fun x hx => h x (by simp [hx]))]
    rw [Nat.add_mul]; omega

theorem readEntry_encode (w0 w1 w2 : Nat) (e : XRef) (rest : List UInt8)
    (h0 : w0 ≤ 8) (h1 : w1 ≤ 8) (h2 : w2 ≤ 8) (hf : Fits w0 w1 w2 e) :
    readEntry w0 w1 w2 (encodeEntry w0 w1 w2 e ++ rest) = .ok (e, rest) := by
  unfold Fits at hf; unfold encodeEntry readEntry
  cases hfe : fieldsOf e with
  | none => simp [hfe] at hf
  | some t =>
    obtain ⟨ty, f1, f2⟩ := t
    simp only [hfe] at hf ⊢
    obtain ⟨hf1, hf2, hty⟩ := hf
    have hty2 : ty ≤ 2 := by cases e <;> simp [fieldsOf] at hfe <;> omega
    by_cases hw0 : w0 = 0
    · subst hw0
      have : ty = 1 := hty rfl
      subst this
      simp only [toBE, List.nil_append, if_true, List.append_assoc]
      rw [readU64_toBE w1 f1 _ h1 hf1]; simp only
      rw [readU64_toBE w2 f2 _ h2 hf2]; simp only
      cases e <;> simp [fieldsOf] at hfe <;> simp [entryOfFields, hfe]
    · have hlt : ty < 256 ^ w0 := by
        have : 256 ^ 1 ≤ 256 ^ w0 := Nat.pow_le_pow_right (by decide) (by omega)
        omega
      simp only [hw0, if_false, List.append_assoc]
      rw [readU64_toBE w0 ty _ h0 hlt]; simp only
      rw [readU64_toBE w1 f1 _ h1 hf1]; simp only
      rw [readU64_toBE w2 f2 _ h2 hf2]; simp only
      cases e <;> simp [fieldsOf] at hfe <;> obtain ⟨rfl, rfl, rfl⟩ := hfe <;> simp [entryOfFields]

theorem readEntries_encode (w0 w1 w2 : Nat) (es : List XRef) (rest : List UInt8) (acc : List XRef)
    (h0 : w0 ≤ 8) (h1 : w1 ≤ 8) (h2 : w2 ≤ 8) (hf : ∀ e ∈ es, Fits w0 w1 w2 e) :
    readEntries w0 w1 w2 es.length (encodeRows w0 w1 w2 es ++ rest) acc = .ok (acc.reverse ++ es, rest) := by
  induction es generalizing acc with
  | nil => simp [readEntries, encodeRows]
  | cons e es ih =>
    simp only [List.length_cons, readEntries, encodeRows, List.flatMap_cons, List.append_assoc]
    rw [readEntry_encode w0 w1 w2 e _ h0 h1 h2 (hf e (by simp))]
    simp only
    have := ih (e :: acc) (fun x hx => hf x (by simp [hx]))
    simp only [encodeRows] at this
    rw [this]; simp

end Xref
