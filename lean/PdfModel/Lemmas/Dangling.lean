import PdfModel.Lemmas.DeriveRegistry
import PdfModel.Model.Dangling

/-! Lemmas for Props/C18: a dictionary entry that refers to a missing object is read like no entry. -/

namespace Derive

/-! ## dictionaries -/

theorem derase_comm (k k' : String) (d : Dict) : derase k (derase k' d) = derase k' (derase k d) := by
  induction d with
  | nil => rfl
  | cons hd t ih =>
    obtain ⟨k2, v2⟩ := hd
    by_cases h1 : k2 = k'
    · subst h1
      by_cases h2 : k2 = k
      · subst h2; simp [derase]
      · simp [derase, h2, ih]
    · by_cases h2 : k2 = k
      · subst h2; simp [derase, h1, ih]
      · simp [derase, h1, h2, ih]

theorem derase_idem (k : String) (d : Dict) : derase k (derase k d) = derase k d :=
  derase_fresh (dget_derase_self k d)

theorem expect_derase {d : Dict} {key value : String} {req : Bool} {k : String} (h : key ≠ k) :
    expect (derase k d) key value req = expect d key value req := by
  simp only [expect, dget_derase_ne (k := key) (k' := k) (fun e => h e.symm) d]

theorem expectAll_derase {d : Dict} {k : String} :
    ∀ cs : List (String × String), k ∉ cs.map (·.1) → expectAll (derase k d) cs = expectAll d cs := by
  intro cs
  induction cs with
  | nil => intro _; rfl
  | cons c cs ih =>
    obtain ⟨k0, v0⟩ := c
    intro h
    simp at h
    simp only [expectAll, expect_derase (d := d) (key := k0) (value := v0) (req := true) (k := k) (fun e => h.1 e.symm)]
    cases expect d k0 v0 true with
    | error e => rfl
    | ok u => cases u; exact ih (by simpa using h.2)

/-! ## errors -/

theorem isMissing_shared {e : Err} (h : e.isMissing true = true) : (Err.shared e).isMissing true = true := by
  simp [Err.isMissing, h]

theorem isMissing_tryE {e : Err} (h : e.isMissing true = true) : (Err.tryE e).isMissing true = true := by
  simp [Err.isMissing, h]

theorem rootErr_isMissing (k : DKind) : (rootErr k).isMissing true = true := by
  cases k <;> simp [rootErr, Err.isMissing]

/-! ## one field -/

theorem field_absent_like (cfg : Cfg) (hp : cfg.peel = true) (sem : Sem) (env : Env) (f : Field) (acc : List Val)
    (p : Prim) (h : AbsentLike cfg sem env f p) :
    readField cfg sem env f acc (some p) = readField cfg sem env f acc none := by
  rcases h with ⟨e, he, hm⟩ | ⟨hd, v, hv, hn⟩
  · cases hd : f.default with
    | none => simp [readField, hd, readPlain, he, hp, hm]
    | some dx =>
      simp only [readField, hd, readDefaulted, hp, Bool.true_and]
      cases p.isNull <;> simp [he, hm]
  · simp [readField, hd, readPlain, readAbsent, hv, hn]

/-! ## the field loop -/

theorem readFields_without (cfg : Cfg) (sem : Sem) (env : Env) (k : String) (p : Prim) :
    ∀ (fs : List Field) (d : Dict) (acc : List Val) (oth : Option Dict),
      (∀ f ∈ fs, f.skip = false) → lastIsOther fs = true → distinct (fkeys fs) = true → k ∈ fkeys fs →
      dget k d = some p →
      (∀ f ∈ fs, f.other = false → keyOf f = k → ∀ acc,
        readField cfg sem env f acc (some p) = readField cfg sem env f acc none) →
      readFields cfg sem env fs d acc oth = readFields cfg sem env fs (derase k d) acc oth := by
  intro fs
  induction fs with
  | nil => intro d acc oth _ _ _ hk; simp [fkeys] at hk
  | cons f fs ih =>
    intro d acc oth hskip hlast hdist hk hget hf
    have hs : f.skip = false := hskip f (by simp)
    have hskip' : ∀ g ∈ fs, g.skip = false := fun g hg => hskip g (by simp [hg])
    cases ho : f.other with
    | true =>
      have hnil := lastIsOther_cons_other hlast ho
      subst hnil
      simp [fkeys, ho] at hk
    | false =>
      have hso : (f.skip || f.other) = false := by simp [hs, ho]
      have hfk : fkeys (f :: fs) = keyOf f :: fkeys fs := by simp [fkeys, hso]
      rw [hfk] at hdist hk
      rw [distinct_cons] at hdist
      have hkf : f.key.getD "" = keyOf f := rfl
      simp only [readFields, hs, ho, hkf]
      by_cases hkk : keyOf f = k
      · -- the field of the entry itself
        rw [hkk, hget, dget_derase_self, hf f (by simp) ho hkk acc, derase_idem]
        simp
      · have hk' : k ∈ fkeys fs := by
          cases List.mem_cons.1 hk with
          | inl e => exact absurd e.symm hkk
          | inr h => exact h
        rw [dget_derase_ne (k := keyOf f) (k' := k) (fun e => hkk e.symm) d]
        cases hr : readField cfg sem env f acc (dget (keyOf f) d) with
        | error e => rfl
        | ok v =>
          simp only
          rw [derase_comm (keyOf f) k d]
          exact ih (derase (keyOf f) d) (acc ++ [v]) oth hskip' (lastIsOther_tail hlast) hdist.2 hk'
            (by rw [dget_derase_ne (k := k) (k' := keyOf f) hkk d]; exact hget)
            (fun g hg hgo hgk acc' => hf g (by simp [hg]) hgo hgk acc')

/-- one field per key -/
theorem keyed_unique : ∀ (fs : List Field), (∀ f ∈ fs, f.skip = false) → distinct (fkeys fs) = true →
    ∀ g f, g ∈ fs → f ∈ fs → g.other = false → f.other = false → keyOf g = keyOf f → g = f := by
  intro fs
  induction fs with
  | nil => intro _ _ g f hg; simp at hg
  | cons x xs ih =>
    intro hskip hd g f hg hf hgo hfo hk
    have hskip' : ∀ z ∈ xs, z.skip = false := fun z hz => hskip z (by simp [hz])
    have hdx : distinct (fkeys xs) = true ∧ (x.other = false → keyOf x ∉ fkeys xs) := by
      simp only [fkeys] at hd
      cases hxs : (x.skip || x.other) with
      | true =>
        simp [hxs] at hd
        refine ⟨hd, fun hxo => ?_⟩
        have := hskip x (by simp)
        simp [this, hxo] at hxs
      | false =>
        simp [hxs] at hd
        exact ⟨((distinct_cons _ _).1 hd).2, fun _ => ((distinct_cons _ _).1 hd).1⟩
    cases List.mem_cons.1 hg with
    | inl eg =>
      cases List.mem_cons.1 hf with
      | inl ef => rw [eg, ef]
      | inr hfm =>
        subst eg
        exact absurd (hk ▸ mem_fkeys xs f hfm (hskip' f hfm) hfo) (hdx.2 hgo)
    | inr hgm =>
      cases List.mem_cons.1 hf with
      | inl ef =>
        subst ef
        exact absurd (hk ▸ mem_fkeys xs g hgm (hskip' g hgm) hgo) (hdx.2 hfo)
      | inr hfm => exact ih hskip' hdx.1 g f hgm hfm hgo hfo hk

/-- **an entry that is read like no entry can be removed from the dictionary**: the derived reader of a
    well-formed schema gives the same result (value or error) -/
theorem struct_without_entry (cfg : Cfg) (sem : Sem) (env : Env) (S : Schema)
    (hk : S.kind = .struct) (hrd : S.derivesRead = true) (wf : S.WF)
    (f : Field) (hf : f ∈ S.fields) (hfo : f.other = false) (d : Dict) (p : Prim)
    (hget : dget (keyOf f) d = some p)
    (habs : ∀ acc, readField cfg sem env f acc (some p) = readField cfg sem env f acc none) :
    readStructD cfg sem env S d = readStructD cfg sem env S (derase (keyOf f) d) := by
  have F := structFacts hk hrd wf
  have hkm : keyOf f ∈ fkeys S.fields := mem_fkeys S.fields f hf (F.noSkip f hf) hfo
  have hnt : keyOf f ∉ S.tagKeys := fun h => F.disjoint _ h hkm
  have hfields := readFields_without cfg sem env (keyOf f) p S.fields d [] none F.noSkip F.last F.distinctKeys hkm hget
    (by
      intro g hg hgo hgk acc
      have : g = f := keyed_unique S.fields F.noSkip F.distinctKeys g f hg hf hgo hfo hgk
      subst this; exact habs acc)
  simp only [readStructD]
  have hchecks : expectAll (derase (keyOf f) d) S.checks = expectAll d S.checks :=
    expectAll_derase S.checks (fun h => hnt (by simp [Schema.tagKeys]; exact Or.inr (by simpa using h)))
  rw [hchecks, ← hfields]
  cases ht : S.typeName with
  | none => rfl
  | some t =>
    simp only
    rw [expect_derase (d := d) (key := "Type") (value := t) (req := S.typeRequired) (k := keyOf f)
      (fun e => hnt (by simp [Schema.tagKeys, ht, e]))]

/-! ## which readers resolve the reference they are given -/

theorem chase_missing {env : Env} {p : Prim} {e : Err} (hr : p.isRef = true) (he : resolveP env p = .error e)
    (hd : 1 ≤ env.depth) : chase env env.depth p = .error e := by
  obtain ⟨d, hd'⟩ : ∃ d, env.depth = d + 1 := ⟨env.depth - 1, by omega⟩
  simp [hd', chase, hr, he]

/-- the container impls hand a reference they are given to `resolve` / `get`, or pass it on to a reader that does -/
theorem resolves_reads_missing (cfg : Cfg) (sem : Sem) (env : Env) (schemas : List Schema) (p : Prim)
    (hm : MissingAt env p) (hd : 1 ≤ env.depth) (hsem : sem.ResolvesMissing env schemas p) :
    ∀ s, (∀ a, s ≠ .option a) → s.dclass schemas = .resolves → ReadsMissing cfg sem env s p := by
  obtain ⟨hr, e, he, hmiss⟩ := hm
  intro s
  induction s with
  | leaf n => intro _ hc; exact hsem (.leaf n) rfl hc
  | leafApp n a _ => intro _ hc; exact hsem (.leafApp n a) rfl hc
  | model n => intro _ hc; exact hsem (.model n) rfl hc
  | modelApp n a _ => intro _ hc; exact hsem (.modelApp n a) rfl hc
  | param n => intro _ hc; exact hsem (.param n) rfl hc
  | option a _ => intro h; exact absurd rfl (h a)
  | vec a _ =>
    intro _ _
    exact ⟨e, by simp [readShape, hr, chase_missing hr he hd], hmiss⟩
  | hashMap a _ =>
    intro _ _
    exact ⟨e, by simp [readShape, hr, chase_missing hr he hd], hmiss⟩
  | box a ih =>
    intro _ hc
    have hno : ∀ b, a ≠ .option b := by
      intro b hb; subst hb; simp [Shape.dclass] at hc
    have hc' : a.dclass schemas = .resolves := by
      cases a <;> simp_all [Shape.dclass]
    obtain ⟨e', he', hm'⟩ := ih hno hc'
    exact ⟨e', by simpa [readShape] using he', hm'⟩
  | maybeRef a _ =>
    intro _ _
    exact ⟨.shared e, by simp [readShape, hr, getTyped, he], isMissing_shared hmiss⟩
  | rcRef a _ =>
    intro _ _
    exact ⟨.shared e, by simp [readShape, hr, getTyped, he], isMissing_shared hmiss⟩
  | ref a _ => intro _ hc; simp [Shape.dclass] at hc
  | lazy a _ => intro _ hc; simp [Shape.dclass] at hc
  | pair a b _ _ =>
    intro _ _
    exact ⟨e, by simp [readShape, resolve1, he], hmiss⟩

theorem isRef_isNull {p : Prim} (h : p.isRef = true) : p.isNull = false := by
  cases p <;> simp [Prim.isRef] at h <;> rfl

/-- a field whose type resolves references reads an entry that refers to a missing object like no entry -/
theorem field_dangling_absent (cfg : Cfg) (hp : cfg.peel = true) (sem : Sem) (env : Env) (schemas : List Schema)
    (p : Prim) (hm : MissingAt env p) (hd : 1 ≤ env.depth) (hsem : sem.ResolvesMissing env schemas p)
    (f : Field) (hdef : f.default.isNone = true ∨ f.shape.isOption = false)
    (hc : f.shape.dclass schemas = .resolves) : AbsentLike cfg sem env f p := by
  by_cases hopt : ∃ a, f.shape = .option a
  · obtain ⟨a, hs⟩ := hopt
    rw [hs] at hc
    have hno : ∀ b, a ≠ .option b := by intro b hb; subst hb; simp [Shape.dclass] at hc
    have hc' : a.dclass schemas = .resolves := by
      cases a <;> simp_all [Shape.dclass]
    obtain ⟨e, he, hmiss⟩ := resolves_reads_missing cfg sem env schemas p hm hd hsem a hno hc'
    have hdn : f.default = none := by
      rcases hdef with h | h
      · simpa using h
      · simp [hs, Shape.isOption] at h
    refine Or.inr ⟨hdn, .none, ?_, ?_⟩
    · rw [hs]
      have hpn := isRef_isNull hm.1
      cases p <;> simp [Prim.isNull] at hpn <;> simp [readShape, he, hp, hmiss]
    · rw [hs]; simp [readShape]
  · exact Or.inl (resolves_reads_missing cfg sem env schemas p hm hd hsem f.shape (fun a h => hopt ⟨a, h⟩) hc)

/-! ## the registry semantics resolves -/

theorem semN_rd_leaf (cfg : Cfg) (schemas : List Schema) (env : Env) (x : String) (p : Prim)
    (h1 : x ≠ "PagesRc") (h2 : x ≠ "PageRc") (h3 : x ≠ "PagesNode") :
    ∀ n, (semN cfg schemas n).rd env (.leaf x) p = baseSem.rd env (.leaf x) p
  | 0 => rfl
  | n + 1 => by
    have : (semN cfg schemas (n + 1)).rd env (.leaf x) p = (semN cfg schemas n).rd env (.leaf x) p := by
      simp only [semN, structSem]; split <;> simp_all
    rw [this, semN_rd_leaf cfg schemas env x p h1 h2 h3 n]

theorem base_leaf_missing (env : Env) (p : Prim) (hm : MissingAt env p) (hd : 1 ≤ env.depth) (x : String)
    (hx : x ∈ ["i32", "u32", "usize", "f32", "bool", "Name", "PdfString", "Dictionary", "Rectangle", "Matrix"]) :
    ∃ e, baseSem.rd env (.leaf x) p = .error e ∧ e.isMissing true = true := by
  obtain ⟨hr, e, he, hmiss⟩ := hm
  refine ⟨e, ?_, hmiss⟩
  simp at hx
  rcases hx with rfl | rfl | rfl | rfl | rfl | rfl | rfl | rfl | rfl | rfl <;>
    simp [baseSem, baseRdPrim, viaResolve, hr, he, asDict, chase_missing hr he hd, resolve1]

theorem semN_resolves_missing (cfg : Cfg) (schemas : List Schema) (env : Env) (p : Prim)
    (hm : MissingAt env p) (hd : 1 ≤ env.depth) (n : Nat) :
    (semN cfg schemas (n + 1)).ResolvesMissing env schemas p := by
  obtain ⟨hr, e, he, hmiss⟩ := hm
  intro s hnc hc
  cases s with
  | leaf x =>
    simp only [Shape.dclass] at hc
    by_cases h1 : x = "PagesRc"
    · subst h1
      exact ⟨.tryE (.shared e), by simp [semN, structSem, readPagesRc, hr, getTyped, he],
        isMissing_tryE (isMissing_shared hmiss)⟩
    by_cases h2 : x = "PageRc"
    · subst h2
      exact ⟨.tryE (.shared e), by simp [semN, structSem, readPagesRc, hr, getTyped, he],
        isMissing_tryE (isMissing_shared hmiss)⟩
    by_cases h3 : x = "PagesNode"
    · subst h3
      exact ⟨e, by simp [semN, structSem, readPagesNode, resolve1, he], hmiss⟩
    rw [semN_rd_leaf cfg schemas env x p h1 h2 h3]
    refine base_leaf_missing env p ⟨hr, e, he, hmiss⟩ hd x ?_
    simp only [leafClass] at hc
    split at hc <;> simp_all
  | model m =>
    simp only [Shape.dclass] at hc
    cases hf : findSchema m schemas with
    | none => simp [hf] at hc
    | some S =>
      simp only [hf] at hc
      cases hk : S.kind <;> simp [hk] at hc
      · exact ⟨e, by simp [semN, structSem, hf, hk, readStruct, asDict, chase_missing hr he hd], hmiss⟩
      · exact ⟨e, by simp [semN, structSem, hf, hk, readEnum, resolve1, he], hmiss⟩
      · exact ⟨e, by simp [semN, structSem, hf, hk, readEnum, resolve1, he], hmiss⟩
  | modelApp m a =>
    simp only [Shape.dclass] at hc
    cases hf : findSchema m schemas with
    | none => simp [hf] at hc
    | some S => exact ⟨e, by simp [semN, structSem, hf, readStruct, asDict, chase_missing hr he hd], hmiss⟩
  | leafApp x a => simp [Shape.dclass] at hc
  | param x => simp [Shape.dclass] at hc
  | _ => simp [Shape.isContainer] at hnc

/-! ## array elements and dictionary values -/

theorem mapR_fails {α β : Type} (f : α → R β) (pre post : List α) (x : α) (e : Err)
    (hpre : ∀ y ∈ pre, ∃ v, f y = .ok v) (hx : f x = .error e) : mapR f (pre ++ x :: post) = .error e := by
  induction pre with
  | nil => simp [mapR, hx]
  | cons y ys ih =>
    obtain ⟨v, hv⟩ := hpre y (by simp)
    simp [mapR, hv, ih (fun z hz => hpre z (by simp [hz]))]

/-- `Vec<T>`: an element that refers to a missing object (the elements before it being readable) makes the whole
    array fail with that missing-object error -/
theorem vec_element_reads_missing (cfg : Cfg) (sem : Sem) (env : Env) (a : Shape) (pre post : List Prim) (p : Prim)
    (hpre : ∀ y ∈ pre, ∃ v, readShape cfg sem env a y = .ok v) (hm : ReadsMissing cfg sem env a p) :
    ReadsMissing cfg sem env (.vec a) (.arr (pre ++ p :: post)) := by
  obtain ⟨e, he, hmiss⟩ := hm
  refine ⟨e, ?_, hmiss⟩
  have := mapR_fails (fun x => readShape cfg sem env a x) pre post p e hpre he
  simp [readShape, Prim.isRef, this]

theorem mapKV_fails {α β : Type} (f : α → R β) (pre post : List (String × α)) (k : String) (x : α) (e : Err)
    (hpre : ∀ y ∈ pre, ∃ v, f y.2 = .ok v) (hx : f x = .error e) : mapKV f (pre ++ (k, x) :: post) = .error e := by
  induction pre with
  | nil => simp [mapKV, hx]
  | cons y ys ih =>
    obtain ⟨k', y'⟩ := y
    obtain ⟨v, hv⟩ := hpre (k', y') (by simp)
    simp [mapKV, hv, ih (fun z hz => hpre z (by simp [hz]))]

/-- `HashMap<Name, T>`: likewise for a dictionary value -/
theorem map_value_reads_missing (cfg : Cfg) (sem : Sem) (env : Env) (a : Shape) (pre post : List (String × Prim))
    (k : String) (p : Prim) (hpre : ∀ y ∈ pre, ∃ v, readShape cfg sem env a y.2 = .ok v)
    (hm : ReadsMissing cfg sem env a p) :
    ReadsMissing cfg sem env (.hashMap a) (.dict (pre ++ (k, p) :: post)) := by
  obtain ⟨e, he, hmiss⟩ := hm
  refine ⟨e, ?_, hmiss⟩
  have := mapKV_fails (fun x => readShape cfg sem env a x) pre post k p e hpre he
  simp [readShape, Prim.isRef, this]

/-- an `Option` around a reader that fails with a missing-object error is `None`, in either mode (repaired reader) -/
theorem option_of_reads_missing (cfg : Cfg) (hp : cfg.peel = true) (sem : Sem) (env : Env) (a : Shape) (p : Prim)
    (hm : ReadsMissing cfg sem env a p) (hnn : p.isNull = false) :
    readShape cfg sem env (.option a) p = .ok .none := by
  obtain ⟨e, he, hmiss⟩ := hm
  cases p <;> simp [Prim.isNull] at hnn <;> simp [readShape, he, hp, hmiss]

end Derive
