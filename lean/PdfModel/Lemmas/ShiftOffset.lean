import PdfModel.Lemmas.ShiftParser

/-!
  The lexer's `file_offset` only moves the `file_range`s that the parser reports: parsing the same buffer
  with offset `o + k` gives the value parsed with offset `o`, every stream range `k` further on, the same
  cursor, the same errors. (This is the assumption under which `Model/Offsets.lean` treats the token-level
  parsers as functions of the suffix they are handed.)
-/

namespace PdfShift
open PdfLex

variable {R : Type}

mutual
/-- move every `file_range` inside a value by `k` -/
def shiftR (k : Nat) : Prim R → Prim R
  | .stream info (.inFile id gen lo hi) => .stream (shiftRE k info) (.inFile id gen (k + lo) (k + hi))
  | .stream info (.pending d) => .stream (shiftRE k info) (.pending d)
  | .dict kvs => .dict (shiftRE k kvs)
  | .arr xs => .arr (shiftRL k xs)
  | .null => .null
  | .int i => .int i
  | .real r => .real r
  | .bool b => .bool b
  | .str s => .str s
  | .ref i g => .ref i g
  | .name n => .name n
def shiftRL (k : Nat) : List (Prim R) → List (Prim R)
  | [] => []
  | x :: xs => shiftR k x :: shiftRL k xs
def shiftRE (k : Nat) : List (List UInt8 × Prim R) → List (List UInt8 × Prim R)
  | [] => []
  | (key, v) :: rest => (key, shiftR k v) :: shiftRE k rest
end

def mapV (k : Nat) (r : Prim R × Nat) : Prim R × Nat := (shiftR k r.1, r.2)
def mapD (k : Nat) (r : Dict R × Nat) : Dict R × Nat := (shiftRE k r.1, r.2)

theorem shiftRL_eq_map (k : Nat) (xs : List (Prim R)) : shiftRL k xs = xs.map (shiftR k) := by
  induction xs with
  | nil => rfl
  | cons x xs ih => simp [shiftRL, ih]

theorem shiftRL_reverse (k : Nat) (xs : List (Prim R)) : shiftRL k xs.reverse = (shiftRL k xs).reverse := by
  simp [shiftRL_eq_map]

theorem dictInsert_shift (k : Nat) (d : Dict R) (key : List UInt8) (v : Prim R) :
    dictInsert (shiftRE k d) key (shiftR k v) = shiftRE k (dictInsert d key v) := by
  induction d with
  | nil => rfl
  | cons kv d ih =>
    obtain ⟨a, w⟩ := kv
    simp only [shiftRE, dictInsert]
    split
    · rfl
    · simp only [shiftRE, ih]

theorem dictGet_shift (k : Nat) (d : Dict R) (key : List UInt8) :
    dictGet (shiftRE k d) key = (dictGet d key).map (shiftR k) := by
  induction d with
  | nil => rfl
  | cons kv d ih =>
    obtain ⟨a, w⟩ := kv
    simp only [shiftRE, dictGet]
    split
    · rfl
    · exact ih

theorem streamTail_offset (env : Env R) (k : Nat) (buf : Buf) (q n : Nat) (dict : Dict R) (id : Nat × Nat) :
    streamTail (env.shiftOffset k) buf q n (shiftRE k dict) id = omap (mapV k) (streamTail env buf q n dict id) := by
  unfold streamTail
  apply bind_same; intro x
  split
  · rfl
  · apply bind_same; intro q2
    simp only [omap_ok, mapV, shiftR, Env.shiftOffset]
    have e1 : env.fileOffset + k + x.1.1 = k + (env.fileOffset + x.1.1) := by omega
    have e2 : env.fileOffset + k + x.1.1 + (x.1.2 - x.1.1) = k + (env.fileOffset + x.1.1 + (x.1.2 - x.1.1)) := by omega
    rw [e1, Nat.add_assoc k]

theorem parseStreamObject_offset (env : Env R) (k : Nat) (buf : Buf) (pos : Nat) (dict : Dict R) (id : Nat × Nat) :
    parseStreamObject (env.shiftOffset k) buf pos (shiftRE k dict) id
      = omap (mapV k) (parseStreamObject env buf pos dict id) := by
  unfold parseStreamObject
  apply bind_same; intro q
  rw [dictGet_shift]
  cases hg : dictGet dict kwLength with
  | none => rfl
  | some v =>
    cases v with
    | int i =>
      simp only [Option.map_some, shiftR]
      by_cases hi : i ≥ 0
      · simp only [hi, if_true, Out.bind_ok]
        exact streamTail_offset env k buf q i.toNat dict id
      · simp only [hi, if_false]; rfl
    | ref i g =>
      simp only [Option.map_some, shiftR]
      have hro : (env.shiftOffset k).resolveLen i g = env.resolveLen i g := rfl
      rw [hro]
      cases env.resolveLen i g with
      | ok n => simp only [Out.bind_ok]; exact streamTail_offset env k buf q n dict id
      | err => rfl
      | panic => rfl
      | oof => rfl
    | stream info inner => cases inner <;> rfl
    | null => rfl
    | real _ => rfl
    | bool _ => rfl
    | str _ => rfl
    | dict _ => rfl
    | arr _ => rfl
    | name _ => rfl

structure Offsets (env : Env R) (k : Nat) (buf : Buf) (fuel : Nat) : Prop where
  ctx : ∀ pos ctx flags depth, parseCtx (env.shiftOffset k) buf fuel pos ctx flags depth
      = omap (mapV k) (parseCtx env buf fuel pos ctx flags depth)
  inner : ∀ pos ctx flags depth, parseInner (env.shiftOffset k) buf fuel pos ctx flags depth
      = omap (mapV k) (parseInner env buf fuel pos ctx flags depth)
  arr : ∀ pos ctx depth acc, parseArray (env.shiftOffset k) buf fuel pos ctx depth (shiftRL k acc)
      = omap (mapV k) (parseArray env buf fuel pos ctx depth acc)
  dict : ∀ pos ctx depth acc, parseDict (env.shiftOffset k) buf fuel pos ctx depth (shiftRE k acc)
      = omap (mapD k) (parseDict env buf fuel pos ctx depth acc)

theorem parseIntOrRef_mapV (k : Nat) (buf : Buf) (posBk : Nat) (first : List UInt8) (flags : Nat) :
    parseIntOrRef (R := R) buf posBk first flags = omap (mapV k) (parseIntOrRef buf posBk first flags) := by
  have : ∀ (x : Out (Prim R × Nat)), (∀ v q, x = .ok (v, q) → shiftR k v = v) → x = omap (mapV k) x := by
    intro x hx
    cases x with
    | ok r => obtain ⟨v, q⟩ := r; simp [mapV, hx v q rfl]
    | err => rfl
    | panic => rfl
    | oof => rfl
  apply this
  intro v q h
  unfold parseIntOrRef at h
  obtain ⟨_, _, h⟩ := bind_eq_ok h
  obtain ⟨lc, _, h⟩ := bind_eq_ok h
  obtain ⟨la, cur⟩ := lc
  have key : ∀ (x : Out (Prim R × Nat)), x = ((check flags Flags.integer).bind fun _ =>
        (setPos buf cur posBk).bind fun q =>
          match parseI32 first with
          | some i => (Out.ok (Prim.int i, q) : Out (Prim R × Nat))
          | none => .err) → x = .ok (v, q) → shiftR k v = v := by
    intro x hx hxe
    subst hx
    obtain ⟨_, _, hxe⟩ := bind_eq_ok hxe
    obtain ⟨q', _, hxe⟩ := bind_eq_ok hxe
    cases hp : parseI32 first with
    | none => simp [hp] at hxe
    | some i => simp only [hp] at hxe; cases hxe; rfl
  cases la with
  | none => exact key _ rfl h
  | some ww =>
    simp only at h
    split at h
    · obtain ⟨_, _, h⟩ := bind_eq_ok h
      cases hp1 : parseU64 first with
      | none => simp [hp1] at h
      | some i =>
        simp only [hp1] at h
        cases hp2 : parseU64 (slice buf ww.1.1 ww.1.2) with
        | none => simp [hp2] at h
        | some g => simp only [hp2] at h; cases h; rfl
    · exact key _ rfl h

theorem offsets (env : Env R) (k : Nat) (buf : Buf) : ∀ fuel, Offsets env k buf fuel := by
  intro fuel
  induction fuel with
  | zero =>
    refine ⟨?_, ?_, ?_, ?_⟩
    · intro pos ctx flags depth; simp only [parseCtx]; rfl
    · intro pos ctx flags depth; simp only [parseInner]; rfl
    · intro pos ctx depth acc; simp only [parseArray]; rfl
    · intro pos ctx depth acc; simp only [parseDict]; rfl
  | succ fuel ih =>
    refine ⟨?_, ?_, ?_, ?_⟩
    · intro pos ctx flags depth
      simp only [parseCtx]
      rw [ih.inner]
      cases parseInner env buf fuel pos ctx flags depth with
      | ok r => rfl
      | err => simp only [omap_err]; apply bind_same; intro _; rfl
      | panic => rfl
      | oof => rfl
    · intro pos ctx flags depth
      simp only [parseInner]
      apply bind_same; intro _
      apply bind_same; intro w
      split
      · apply bind_same; intro _
        split
        · rfl
        · have hD := ih.dict w.2 ctx (depth - 1) []
          simp only [shiftRE] at hD
          apply bind_shift _ _ (mapD k) (mapV k) _ _ hD
          rintro ⟨dict, q⟩
          simp only [mapD]
          apply bind_same; intro pk
          split
          · cases ctx with
            | none => rfl
            | some id => exact parseStreamObject_offset env k buf q dict id
          · rfl
      · split
        · exact parseIntOrRef_mapV k buf w.2 _ flags
        · split
          · apply bind_same; intro _
            have : (env.shiftOffset k).parseReal = env.parseReal := rfl
            rw [this]
            split <;> rfl
          · split
            · apply bind_same; intro _
              apply bind_same; intro s
              rfl
            · split
              · apply bind_same; intro _
                split
                · rfl
                · have := ih.arr w.2 ctx (depth - 1) []
                  simpa [shiftRL] using this
              · split
                · apply bind_same; intro _
                  apply bind_same; intro _
                  apply bind_same; intro sq
                  apply bind_same; intro q2
                  rw [decryptStr_shiftOffset]
                  apply bind_same; intro s2
                  rfl
                · split
                  · apply bind_same; intro _
                    apply bind_same; intro _
                    apply bind_same; intro sq
                    apply bind_same; intro q2
                    rw [decryptStr_shiftOffset]
                    apply bind_same; intro s2
                    rfl
                  · split
                    · apply bind_same; intro _; rfl
                    · split
                      · apply bind_same; intro _; rfl
                      · split
                        · apply bind_same; intro _; rfl
                        · apply bind_same; intro _; rfl
    · intro pos ctx depth acc
      simp only [parseArray]
      apply bind_same; intro pk
      split
      · apply bind_same; intro w
        simp only [omap_ok, mapV, shiftR, shiftRL_reverse]
      · apply bind_shift _ _ (mapV k) (mapV k) _ _ (ih.ctx pos ctx Flags.any depth)
        rintro ⟨e, q⟩
        simp only [mapV]
        have := ih.arr q ctx depth (e :: acc)
        simpa [shiftRL] using this
    · intro pos ctx depth acc
      simp only [parseDict]
      apply bind_same; intro w
      split
      · apply bind_same; intro key
        apply bind_shift _ _ (mapV k) (mapD k) _ _ (ih.ctx w.2 ctx Flags.any depth)
        rintro ⟨obj, q⟩
        simp only [mapV]
        rw [dictInsert_shift]
        exact ih.dict _ _ _ _
      · split <;> rfl

/-- **`file_offset` only moves the reported ranges.** -/
theorem parseCtx_offset (env : Env R) (k : Nat) (buf : Buf) (fuel pos : Nat) (ctx : Option (Nat × Nat))
    (flags depth : Nat) :
    parseCtx (env.shiftOffset k) buf fuel pos ctx flags depth = omap (mapV k) (parseCtx env buf fuel pos ctx flags depth) :=
  (offsets env k buf fuel).ctx pos ctx flags depth

end PdfShift
