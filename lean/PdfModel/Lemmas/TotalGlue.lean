import PdfModel.Model.OpenConcrete
import PdfModel.Lemmas.TotalXrefTable
import PdfModel.Lemmas.TotalOpen

/-! The concrete parser instance `Offsets.coreParsers` (both section formats, objects, object-stream members) meets
    `Offsets.TotalOn`: the hypotheses of the open-path theorems are discharged by the totality theorems of the
    byte-level models, for every file of a size a slice can have. -/

namespace Offsets
open PdfLex

variable {R : Type}

def isizeMax : Nat := 9223372036854775807

theorem realSize_of_len {s : List UInt8} (h : s.length ≤ isizeMax) : RealSize s.toArray := by
  unfold RealSize; unfold isizeMax at h; simpa using h

theorem asUnsigned_returns (v : Prim R) : (XrefTable.asUnsigned v).Returns := by
  unfold XrefTable.asUnsigned
  split
  · split
    · exact returns_ok _
    · exact returns_err
  · exact returns_err

theorem asNat_returns (v : Prim R) : (asNat v).Returns := by
  unfold asNat
  split
  · split
    · exact returns_ok _
    · exact returns_err
  · exact returns_err

theorem toObjParse_returns (r : Out (((Nat × Nat) × Prim R) × Nat)) (h : Ret r) : (toObjParse r).Returns := by
  rcases h with he | ⟨a, ha⟩
  · rw [he]; exact returns_err
  · rw [ha]; unfold toObjParse
    split <;> first | exact returns_ok _ | exact returns_err | (rename_i hh; cases hh)

theorem omap_returns {α β : Type} (f : α → β) (r : Out α) (h : Ret r) : (PdfShift.omap f r).Returns := by
  rcases h with he | ⟨a, ha⟩
  · rw [he]; exact returns_err
  · rw [ha]; exact returns_ok _

/-- what the parameters have to do: return `Ok` or `Err`; what a filter chain delivers is a `Vec` -/
structure ParamsOk (env : Env R) (typed : Dict R → Out XrefTable.XInfo) (sdata : Dict R → StreamInner → Out (List UInt8))
    (dec : Dict R → OffLex.Bytes → Out OffLex.Bytes) (S : OffLex.Bytes → List (Out (Obj (Prim R)))) : Prop where
  env : EnvOk env
  typed : ∀ d, Ret (typed d)
  sdata : ∀ d i, Ret (sdata d i)
  dec : ∀ d raw, Ret (dec d raw) ∧ ∀ out, dec d raw = .ok out → out.length ≤ isizeMax
  scan : ∀ s, ∀ it ∈ S s, it.Returns

/-- the stream-format reader `coreParsers` hands to the dispatcher -/
def stmOf (env : Env R) (typed : Dict R → Out XrefTable.XInfo) (sdata : Dict R → StreamInner → Out (List UInt8))
    (allowErr : Bool) : Buf → Nat → Out (List Xref.Sub × Dict R) :=
  fun b p => XrefTable.parseXrefStreamAndTrailer env typed sdata allowErr b (PdfLex.defaultFuel b) p

theorem coreParsers_xrefAt (env : Env R) (typed) (sdata) (allowErr : Bool) (dec) (S) (n : Nat) (sfx : OffLex.Bytes) :
    (coreParsers env typed sdata allowErr dec S n).xrefAt sfx = XrefTable.xrefAt env (stmOf env typed sdata allowErr) sfx := rfl

theorem coreParsers_decode (env : Env R) (typed) (sdata) (allowErr : Bool) (dec) (S) (n : Nat) (v : Prim R) (raw : OffLex.Bytes) :
    (coreParsers env typed sdata allowErr dec S n).decode v raw = (match v with | .dict d => dec d raw | _ => .err) := rfl

theorem coreParsers_objAt (env : Env R) (typed) (sdata) (allowErr : Bool) (dec) (S) (n : Nat) (fl : Flags) (sfx : OffLex.Bytes) :
    (coreParsers env typed sdata allowErr dec S n).objAt fl sfx =
      toObjParse (parseIndirectObject { env with fileOffset := 0 } sfx.toArray (3 * n + 64) 0 (flagsNat fl)) := rfl

/-- **the concrete parsers of the open path are total** on every file of at most `isize::MAX` bytes, strict and
    tolerant -/
theorem coreParsers_total (env : Env R) (typed : Dict R → Out XrefTable.XInfo)
    (sdata : Dict R → StreamInner → Out (List UInt8)) (allowErr : Bool)
    (dec : Dict R → OffLex.Bytes → Out OffLex.Bytes) (S : OffLex.Bytes → List (Out (Obj (Prim R)))) (n : Nat)
    (hn : n ≤ isizeMax) (hp : ParamsOk env typed sdata dec S) :
    TotalOn (coreParsers env typed sdata allowErr dec S n) n where
  xrefAt := by
    intro sfx hl
    rw [coreParsers_xrefAt]
    unfold XrefTable.xrefAt
    rcases XrefTable.readXrefAndTrailerAt_total env hp.env (stmOf env typed sdata allowErr)
        (XrefTable.parseXrefStreamAndTrailer_total env hp.env typed hp.typed sdata hp.sdata allowErr)
        sfx.toArray (realSize_of_len (by omega)) 0 (Nat.zero_le _) with he | ⟨subs, d, hr, _⟩
    · rw [he]; exact returns_err
    · rw [hr]; exact returns_ok _
  xrefSubs := by
    intro sfx subs tr hl hx
    rw [coreParsers_xrefAt] at hx
    unfold XrefTable.xrefAt at hx
    rcases XrefTable.readXrefAndTrailerAt_total env hp.env (stmOf env typed sdata allowErr)
        (XrefTable.parseXrefStreamAndTrailer_total env hp.env typed hp.typed sdata hp.sdata allowErr)
        sfx.toArray (realSize_of_len (by omega)) 0 (Nat.zero_le _) with he | ⟨subs', d, hr, hok⟩
    · rw [he] at hx; cases hx
    · rw [hr] at hx; cases hx; exact subsOk_pairsOK _ hok
  sizeOf := by
    intro d
    show (XrefTable.trailerSize d).Returns
    unfold XrefTable.trailerSize; split
    · exact asUnsigned_returns _
    · exact returns_err
  prevOf := by
    intro d r hr
    change XrefTable.trailerPrev d = some r at hr
    unfold XrefTable.trailerPrev at hr
    split at hr
    · cases hr; exact asUnsigned_returns _
    · cases hr
  objAt := by
    intro fl sfx hl
    rw [coreParsers_objAt]
    apply toObjParse_returns
    have henv' : EnvOk { env with fileOffset := 0 } := ⟨hp.env.1, hp.env.2⟩
    exact (parseIndirectObject_good _ henv' sfx.toArray (realSize_of_len (by omega)) (3 * n + 64) 0 (flagsNat fl)
      (Nat.zero_le _) (by simp; omega)).ret
  objAtInt := by
    intro sfx info rel len h
    rw [coreParsers_objAt] at h
    unfold toObjParse at h
    split at h
    · rename_i id info' a b lo hi q hr
      exact parseIndirectObject_integer_notStream _ sfx.toArray _ 0 (Nat.zero_le _) _ _ _ hr
    · cases h
    · cases h
    · cases h
    · cases h
  streamEnd := fun _ _ => returns_ok _
  asLen := asNat_returns
  stmHead := by
    intro v
    show (match v with
      | .dict d =>
        match dictGet d kwN, dictGet d kwFirst with
        | some n, some f => (asNat n).bind fun n => (asNat f).bind fun f => Out.ok (n, f)
        | _, _ => .err
      | _ => .err : Out (Nat × Nat)).Returns
    split
    · split
      · rename_i nn ff _ _
        have h1 := asNat_returns nn
        have h2 := asNat_returns ff
        cases hn1 : asNat nn with
        | ok a =>
          simp only [Out.bind_ok]
          cases hn2 : asNat ff with
          | ok b => exact returns_ok _
          | err => exact returns_err
          | panic => exact absurd hn2 h2.1
          | oof => exact absurd hn2 h2.2
        | err => exact returns_err
        | panic => exact absurd hn1 h1.1
        | oof => exact absurd hn1 h1.2
      · exact returns_err
    · exact returns_err
  decode := by
    intro v raw
    rw [coreParsers_decode]
    split
    · exact (hp.dec _ raw).1.returns
    · exact returns_err
  parseMember := by
    intro fl s v raw data hd hl
    show (PdfShift.omap Prod.fst (parse { env with fileOffset := 0 } s.toArray (flagsNat fl))).Returns
    apply omap_returns
    have hdata : data.length ≤ isizeMax := by
      rw [coreParsers_decode] at hd
      split at hd
      · exact (hp.dec _ raw).2 data hd
      · cases hd
    have henv' : EnvOk { env with fileOffset := 0 } := ⟨hp.env.1, hp.env.2⟩
    exact (parseWithLexer_good _ henv' s.toArray (realSize_of_len (by omega)) (PdfLex.defaultFuel s.toArray) 0
      (flagsNat fl) (Nat.zero_le _) (by have := defaultFuel_enough s.toArray 0; omega)).ret
  scanItems := hp.scan

end Offsets
