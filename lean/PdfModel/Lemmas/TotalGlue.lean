import PdfModel.Model.OpenGlue
import PdfModel.Lemmas.TotalXrefTable
import PdfModel.Lemmas.TotalOpen

/-! The concrete parser instance `tableOnlyParsers` meets `Offsets.Total`: the hypotheses of the open-path
    theorems are discharged by the totality theorems of the byte-level parser models. -/

namespace PdfLex

variable {R : Type}

theorem mem_pairsFrom (i : Nat) (es : List Xref.XRef) : ∀ p ∈ Xref.pairsFrom i es, p.2 ∈ es := by
  induction es generalizing i with
  | nil => intro p hp; simp [Xref.pairsFrom] at hp
  | cons e es ih =>
    intro p hp
    simp only [Xref.pairsFrom, List.mem_cons] at hp
    rcases hp with rfl | hp
    · simp
    · exact List.mem_cons_of_mem _ (ih (i + 1) p hp)

theorem subsOk_pairsOK (secs : List Xref.Sub) (h : SubsOk secs) : Xref.pairsOK (Xref.secPairs secs) := by
  intro p hp
  simp only [Xref.secPairs, List.mem_flatMap] at hp
  obtain ⟨s, hs, hps⟩ := hp
  exact h s hs p.2 (mem_pairsFrom s.first s.entries p hps)

theorem asNat_returns (v : Prim R) : (asNat v).Returns := by
  unfold asNat
  split
  · split
    · exact Offsets.returns_ok _
    · exact Offsets.returns_err
  · exact Offsets.returns_err

theorem realSize_of_list {s : List UInt8} (h : ¬ s.length > isizeMax) : RealSize s.toArray := by
  unfold RealSize; unfold isizeMax at h; simp; omega

/-- the parser parameters of the open path, instantiated with the byte-level models, are total -/
theorem tableOnlyParsers_total (env : Env R) (henv : EnvOk env) : Offsets.Total (tableOnlyParsers env) where
  xrefAt := by
    intro sfx
    show (if sfx.length > isizeMax then Out.err else _ : Out _).Returns
    split
    · exact Offsets.returns_err
    · rename_i hsz
      rcases readXrefAt_spec env henv sfx.toArray (realSize_of_list hsz) 0 (Nat.zero_le _) with he | ⟨r, p, hp, _, _⟩
      · rw [he]; exact Offsets.returns_err
      · rw [hp]; cases r <;> first | exact Offsets.returns_ok _ | exact Offsets.returns_err
  xrefSubs := by
    intro sfx subs tr hx
    change (if sfx.length > isizeMax then Out.err else _ : Out _) = _ at hx
    split at hx
    · cases hx
    · rename_i hsz
      rcases readXrefAt_spec env henv sfx.toArray (realSize_of_list hsz) 0 (Nat.zero_le _) with he | ⟨r, p, hp, _, hsub⟩
      · rw [he] at hx; cases hx
      · rw [hp] at hx
        cases r with
        | table secs d =>
          simp only at hx
          cases hx
          exact subsOk_pairsOK _ (hsub _ _ rfl)
        | stream _ _ => cases hx
  sizeOf := by
    intro d
    show (trailerSize d).Returns
    unfold trailerSize; split
    · exact asNat_returns _
    · exact Offsets.returns_err
  prevOf := by
    intro d r hr
    change trailerPrev d = some r at hr
    unfold trailerPrev at hr
    cases hd : dictGet d kwPrev with
    | none => rw [hd] at hr; cases hr
    | some v => rw [hd] at hr; simp at hr; rw [← hr]; exact asNat_returns v
  objAt := by
    intro fl sfx
    show (if sfx.length > isizeMax then Out.err else _ : Out _).Returns
    split
    · exact Offsets.returns_err
    · rename_i hsz
      have henv' : EnvOk { env with resolveLen := fun _ _ => Out.err } := ⟨fun _ _ => Or.inl rfl, henv.2⟩
      rcases parseIndirectObject_good _ henv' sfx.toArray (realSize_of_list hsz) (defaultFuel sfx.toArray) 0 (flagsOf fl)
        (Nat.zero_le _) (by unfold defaultFuel; omega) with he | ⟨v, p, hp, _, _⟩
      · rw [he]; exact Offsets.returns_err
      · rw [hp]; obtain ⟨id, v⟩ := v
        cases v <;> first | exact Offsets.returns_ok _ | exact Offsets.returns_err
  objAtInt := by
    intro sfx info rel len h
    change (if sfx.length > isizeMax then Out.err else _ : Out _) = _ at h
    split at h
    · cases h
    · split at h <;> cases h
  streamEnd := fun _ => Offsets.returns_err
  asLen := asNat_returns
  stmHead := fun _ => Offsets.returns_err
  decode := fun _ _ => Offsets.returns_err
  parseMember := by
    intro fl s
    show (if s.length > isizeMax then Out.err else _ : Out _).Returns
    split
    · exact Offsets.returns_err
    · rename_i hsz
      rcases parseWithLexer_good env henv s.toArray (realSize_of_list hsz) (defaultFuel s.toArray) 0 (flagsOf fl)
        (Nat.zero_le _) (by unfold defaultFuel; omega) with he | ⟨v, p, hp, _, _⟩
      · have : parse env s.toArray (flagsOf fl) = .err := he
        rw [this]; exact Offsets.returns_err
      · have : parse env s.toArray (flagsOf fl) = .ok (v, p) := hp
        rw [this]; exact Offsets.returns_ok _
  scanItems := by intro s it hit; cases hit

end PdfLex
