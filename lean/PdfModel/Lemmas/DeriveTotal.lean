import PdfModel.Model.DeriveTower

/-!
  Totality of the derived reader (`Model/Derive`: the interpreter of `#[derive(Object)]` over a `Schema`) — C01.

  The model has no panic outcome at all (none of the modelled Rust functions indexes, unwraps, asserts or
  computes); what it has is `Err.oof`, the answer "outside the model / out of budget". `Clean r` says that an
  outcome is a value or an error that does not contain `oof` (errors are wrapped on the way up: `Try`, `Shared`,
  `FromPrimitive`). This file proves that the container impls (`Option`, `Vec`, `HashMap`, pairs, `Box`, `MaybeRef`,
  `RcRef`, `Ref`, `Lazy`) and the derived struct / enum readers are `Clean` whenever the readers of the shapes they
  are built over are — "given leaf readers that do" — for EVERY schema, every input primitive and both option sets.

  About the environment (`EnvOk`): `Resolve::resolve` returns a value or a clean error and never hands back a
  reference (`C14.resolve_total`, `C14.fromPrim_total`: the repaired `resolve_flags` follows a stored reference itself),
  so the self-recursive readers (`Dictionary`, `Vec`, `HashMap`) recurse at most once. Input primitives come from the
  parser: they contain no `created` marker (that is the writer's notation for a fresh object).
-/

namespace Derive

/-- a value, or an error that is an answer of the implementation -/
def Clean {α : Type} (r : R α) : Prop := ∀ e, r = .error e → e.hasOof = false

theorem clean_ok {α : Type} (a : α) : Clean (Except.ok a : R α) := by
  intro e h; cases h

theorem clean_err {α : Type} (e : Err) (h : e.hasOof = false) : Clean (Except.error e : R α) := by
  intro e' h'; cases h'; exact h

mutual
/-- no `created` marker anywhere: a primitive as the parser / resolver delivers it -/
def Prim.plain : Prim → Bool
  | .arr xs => plainList xs
  | .dict kvs => plainKV kvs
  | .created _ => false
  | .null => true
  | .int _ => true
  | .real _ => true
  | .bool _ => true
  | .str _ => true
  | .name _ => true
  | .ref _ _ => true
def plainList : List Prim → Bool
  | [] => true
  | x :: xs => x.plain && plainList xs
def plainKV : List (String × Prim) → Bool
  | [] => true
  | kv :: r => kv.2.plain && plainKV r
end

theorem plainList_mem {xs : List Prim} (h : plainList xs = true) : ∀ x ∈ xs, x.plain = true := by
  induction xs with
  | nil => intro x hx; cases hx
  | cons y ys ih =>
    simp only [plainList, Bool.and_eq_true] at h
    intro x hx
    rcases List.mem_cons.1 hx with rfl | hx
    · exact h.1
    · exact ih h.2 x hx

theorem plainKV_mem {kvs : List (String × Prim)} (h : plainKV kvs = true) : ∀ kv ∈ kvs, kv.2.plain = true := by
  induction kvs with
  | nil => intro x hx; cases hx
  | cons y ys ih =>
    simp only [plainKV, Bool.and_eq_true] at h
    intro x hx
    rcases List.mem_cons.1 hx with rfl | hx
    · exact h.1
    · exact ih h.2 x hx

theorem dget_plain {d : Dict} (h : plainKV d = true) (k : String) (v : Prim) (hv : dget k d = some v) : v.plain = true := by
  induction d with
  | nil => simp [dget] at hv
  | cons kv t ih =>
    obtain ⟨k', v'⟩ := kv
    simp only [plainKV, Bool.and_eq_true] at h
    simp only [dget] at hv
    split at hv
    · cases hv; exact h.1
    · exact ih h.2 hv

theorem derase_plain {d : Dict} (h : plainKV d = true) (k : String) : plainKV (derase k d) = true := by
  induction d with
  | nil => rfl
  | cons kv t ih =>
    obtain ⟨k', v'⟩ := kv
    simp only [plainKV, Bool.and_eq_true] at h
    simp only [derase]
    split
    · exact ih h.2
    · simp only [plainKV, Bool.and_eq_true]; exact ⟨h.1, ih h.2⟩

/-- the resolver: values or clean errors, never a reference, never a `created` marker; the bound on reference
    chains is at least one -/
structure EnvOk (env : Env) : Prop where
  clean : ∀ id, Clean (env.resolve id)
  value : ∀ id q, env.resolve id = .ok q → q.isRef = false ∧ q.plain = true
  depth : 1 ≤ env.depth

theorem resolveP_spec {env : Env} (he : EnvOk env) (p : Prim) (hp : p.plain = true) :
    Clean (resolveP env p) ∧ ∀ q, resolveP env p = .ok q → q.plain = true ∧ (p.isRef = true → q.isRef = false) := by
  cases p with
  | ref id gen =>
    refine ⟨he.clean id, fun q hq => ?_⟩
    have := he.value id q hq
    exact ⟨this.2, fun _ => this.1⟩
  | created q => simp [Prim.plain] at hp
  | _ => exact ⟨clean_ok _, fun q hq => by cases hq; exact ⟨hp, fun h => by simp [Prim.isRef] at h⟩⟩

theorem chase_nonref_c01 (env : Env) (n : Nat) (q : Prim) (h : q.isRef = false) : chase env n q = .ok q := by
  cases n <;> simp [chase, h]

/-- following references ends after one step -/
theorem chase_spec {env : Env} (he : EnvOk env) (p : Prim) (hp : p.plain = true) :
    Clean (chase env env.depth p) ∧ ∀ q, chase env env.depth p = .ok q → q.plain = true ∧ q.isRef = false := by
  obtain ⟨n, hn⟩ : ∃ n, env.depth = n + 1 := ⟨env.depth - 1, by have := he.depth; omega⟩
  rw [hn]
  by_cases hr : p.isRef = true
  · simp only [chase, hr, if_true]
    obtain ⟨hc, hv⟩ := resolveP_spec he p hp
    cases hres : resolveP env p with
    | error e => exact ⟨clean_err e (hc e hres), fun q hq => by cases hq⟩
    | ok q =>
      obtain ⟨h1, h2⟩ := hv q hres
      simp only []
      rw [chase_nonref_c01 env n q (h2 hr)]
      exact ⟨clean_ok _, fun q' hq' => by cases hq'; exact ⟨h1, h2 hr⟩⟩
  · have hr' : p.isRef = false := by simpa using hr
    rw [chase_nonref_c01 env (n + 1) p hr']
    exact ⟨clean_ok _, fun q hq => by cases hq; exact ⟨hp, hr'⟩⟩

theorem mapR_clean {α β : Type} (f : α → R β) (xs : List α) (h : ∀ x ∈ xs, Clean (f x)) : Clean (mapR f xs) := by
  induction xs with
  | nil => exact clean_ok _
  | cons x xs ih =>
    simp only [mapR]
    cases hx : f x with
    | error e => exact clean_err e (h x (by simp) e hx)
    | ok y =>
      simp only []
      have := ih (fun z hz => h z (by simp [hz]))
      cases hm : mapR f xs with
      | error e => exact clean_err e (this e hm)
      | ok ys => exact clean_ok _

theorem mapKV_clean {α β : Type} (f : α → R β) (xs : List (String × α)) (h : ∀ x ∈ xs, Clean (f x.2)) :
    Clean (mapKV f xs) := by
  induction xs with
  | nil => exact clean_ok _
  | cons x xs ih =>
    obtain ⟨k, a⟩ := x
    simp only [mapKV]
    cases hx : f a with
    | error e => exact clean_err e (h (k, a) (by simp) e hx)
    | ok y =>
      simp only []
      have := ih (fun z hz => h z (by simp [hz]))
      cases hm : mapKV f xs with
      | error e => exact clean_err e (this e hm)
      | ok ys => exact clean_ok _

/-- the non-container shapes below the container impls all satisfy `P` -/
def ShapeAll (P : Shape → Prop) : Shape → Prop
  | .option a => ShapeAll P a
  | .vec a => ShapeAll P a
  | .hashMap a => ShapeAll P a
  | .box a => ShapeAll P a
  | .maybeRef a => ShapeAll P a
  | .rcRef a => ShapeAll P a
  | .ref _ => True
  | .lazy _ => True
  | .pair a b => ShapeAll P a ∧ ShapeAll P b
  | s => P s

/-- the reader `sem` gives to a non-container shape is clean on plain input -/
def RdClean (sem : Sem) (env : Env) (s : Shape) : Prop := ∀ p, p.plain = true → Clean (sem.rd env s p)

theorem getTyped_clean {env : Env} (he : EnvOk env) (rdT : Prim → R Val) (hrd : ∀ q, q.plain = true → Clean (rdT q))
    (r : Prim) (hr : r.plain = true) : Clean (getTyped env rdT r) := by
  unfold getTyped
  obtain ⟨hc, hv⟩ := resolveP_spec he r hr
  cases hres : resolveP env r with
  | error e => exact clean_err _ (by simpa [Err.hasOof] using hc e hres)
  | ok q =>
    simp only []
    have := hrd q (hv q hres).1
    cases hq : rdT q with
    | ok v => exact clean_ok _
    | error e => exact clean_err _ (by simpa [Err.hasOof] using this e hq)

/-- **the container impls of `object/mod.rs` add no partiality**: clean readers below, clean reader above —
    strict and tolerant, repaired and pinned `Option` reader alike -/
theorem readShape_clean (cfg : Cfg) (sem : Sem) {env : Env} (he : EnvOk env) :
    ∀ (s : Shape), ShapeAll (RdClean sem env) s → ∀ p, p.plain = true → Clean (readShape cfg sem env s p) := by
  intro s
  induction s with
  | option a ih =>
    intro hs p hp
    have := ih hs p hp
    cases p <;> simp only [readShape] <;> first
      | exact clean_ok _
      | (split
         · exact clean_ok _
         · rename_i e he'
           split
           · exact clean_ok _
           · split
             · exact clean_ok _
             · exact clean_err e (this e he'))
  | vec a ih =>
    intro hs p hp
    simp only [readShape]
    have hch : Clean (if p.isRef then chase env env.depth p else .ok p) ∧
        ∀ q, (if p.isRef then chase env env.depth p else .ok p) = .ok q → q.plain = true := by
      split
      · obtain ⟨h1, h2⟩ := chase_spec he p hp; exact ⟨h1, fun q hq => (h2 q hq).1⟩
      · exact ⟨clean_ok _, fun q hq => by cases hq; exact hp⟩
    cases hc : (if p.isRef then chase env env.depth p else .ok p) with
    | error e => exact clean_err e (hch.1 e hc)
    | ok q =>
      have hq := hch.2 q hc
      cases q with
      | arr xs =>
        simp only []
        have := mapR_clean (fun x => readShape cfg sem env a x) xs
          (fun x hx => ih hs x (plainList_mem (by simpa [Prim.plain] using hq) x hx))
        cases hm : mapR (fun x => readShape cfg sem env a x) xs with
        | ok vs => exact clean_ok _
        | error e => exact clean_err e (this e hm)
      | null => exact clean_ok _
      | _ =>
        simp only []
        have := ih hs _ hq
        split
        · exact clean_ok _
        · rename_i e he'; exact clean_err e (this e he')
  | hashMap a ih =>
    intro hs p hp
    simp only [readShape]
    have hch : Clean (if p.isRef then chase env env.depth p else .ok p) ∧
        ∀ q, (if p.isRef then chase env env.depth p else .ok p) = .ok q → q.plain = true := by
      split
      · obtain ⟨h1, h2⟩ := chase_spec he p hp; exact ⟨h1, fun q hq => (h2 q hq).1⟩
      · exact ⟨clean_ok _, fun q hq => by cases hq; exact hp⟩
    cases hc : (if p.isRef then chase env env.depth p else .ok p) with
    | error e => exact clean_err e (hch.1 e hc)
    | ok q =>
      have hq := hch.2 q hc
      cases q with
      | dict kvs =>
        simp only []
        have := mapKV_clean (fun x => readShape cfg sem env a x) kvs
          (fun x hx => ih hs x.2 (plainKV_mem (by simpa [Prim.plain] using hq) x hx))
        cases hm : mapKV (fun x => readShape cfg sem env a x) kvs with
        | ok vs => exact clean_ok _
        | error e => exact clean_err e (this e hm)
      | null => exact clean_ok _
      | _ => exact clean_err _ rfl
  | pair a b iha ihb =>
    intro hs p hp
    simp only [readShape, resolve1]
    obtain ⟨hc, hv⟩ := resolveP_spec he p hp
    cases hres : resolveP env p with
    | error e => exact clean_err e (hc e hres)
    | ok q =>
      have hq := (hv q hres).1
      split
      · rename_i e' heq; cases heq
      · rename_i x y heq
        cases heq
        have hxy : x.plain = true ∧ y.plain = true := by
          simp only [Prim.plain, plainList, Bool.and_eq_true, Bool.and_true] at hq; exact hq
        have h1 := iha hs.1 x hxy.1
        have h2 := ihb hs.2 y hxy.2
        cases hx : readShape cfg sem env a x with
        | error e => exact clean_err e (h1 e hx)
        | ok va =>
          cases hy : readShape cfg sem env b y with
          | error e => exact clean_err e (h2 e hy)
          | ok vb => exact clean_ok _
      · exact clean_err _ rfl
  | box a ih => intro hs p hp; simp only [readShape]; exact ih hs p hp
  | maybeRef a ih =>
    intro hs p hp
    simp only [readShape]
    split
    · have := getTyped_clean he (fun q => readShape cfg sem env a q) (fun q hq => ih hs q hq) p hp
      cases hg : getTyped env (fun q => readShape cfg sem env a q) p with
      | ok v => exact clean_ok _
      | error e => exact clean_err e (this e hg)
    · have := ih hs p hp
      cases hg : readShape cfg sem env a p with
      | ok v => exact clean_ok _
      | error e => exact clean_err e (this e hg)
  | rcRef a ih =>
    intro hs p hp
    simp only [readShape]
    split
    · have := getTyped_clean he (fun q => readShape cfg sem env a q) (fun q hq => ih hs q hq) p hp
      cases hg : getTyped env (fun q => readShape cfg sem env a q) p with
      | ok v => exact clean_ok _
      | error e => exact clean_err e (this e hg)
    · exact clean_err _ rfl
  | ref a _ =>
    intro _ p _
    simp only [readShape]
    split
    · exact clean_ok _
    · exact clean_err _ rfl
  | lazy a _ => intro _ p _; simp only [readShape]; exact clean_ok _
  | leaf n => intro hs p hp; simp only [readShape]; exact hs p hp
  | leafApp n a _ => intro hs p hp; simp only [readShape]; exact hs p hp
  | model n => intro hs p hp; simp only [readShape]; exact hs p hp
  | modelApp n a _ => intro hs p hp; simp only [readShape]; exact hs p hp
  | param n => intro hs p hp; simp only [readShape]; exact hs p hp

/-! ### the derived struct reader -/

theorem expect_clean (d : Dict) (k v : String) (req : Bool) : Clean (expect d k v req) := by
  unfold expect
  split
  · split
    · exact clean_ok _
    · exact clean_err _ rfl
  · exact clean_err _ rfl
  · split
    · exact clean_err _ rfl
    · exact clean_ok _

theorem expectAll_clean (d : Dict) (cs : List (String × String)) : Clean (expectAll d cs) := by
  induction cs with
  | nil => exact clean_ok _
  | cons c cs ih =>
    obtain ⟨k, v⟩ := c
    simp only [expectAll]
    have := expect_clean d k v true
    cases he : expect d k v true with
    | error e => exact clean_err e (this e he)
    | ok u => exact ih

theorem asDict_spec {env : Env} (he : EnvOk env) (p : Prim) (hp : p.plain = true) :
    Clean (asDict env p) ∧ ∀ d, asDict env p = .ok d → plainKV d = true := by
  unfold asDict
  obtain ⟨hc, hv⟩ := chase_spec he p hp
  cases hch : chase env env.depth p with
  | error e => exact ⟨clean_err e (hc e hch), fun d hd => by cases hd⟩
  | ok q =>
    have hq := (hv q hch).1
    cases q with
    | dict kvs => exact ⟨clean_ok _, fun d hd => by cases hd; simpa [Prim.plain] using hq⟩
    | _ => exact ⟨clean_err _ rfl, fun d hd => by cases hd⟩

/-- what reading one field needs: its shape is covered and its default (if any) evaluates, on the values read so far -/
structure FieldOk (sem : Sem) (env : Env) (f : Field) (acc : List Val) : Prop where
  shape : ShapeAll (RdClean sem env) f.shape
  dflt : ∀ dx, f.default = some dx → Clean (sem.dflt dx acc)

theorem readField_clean (cfg : Cfg) (sem : Sem) {env : Env} (he : EnvOk env) (f : Field) (acc : List Val)
    (hf : FieldOk sem env f acc) (entry : Option Prim) (hent : ∀ p, entry = some p → p.plain = true) :
    Clean (readField cfg sem env f acc entry) := by
  have hnull : Clean (readShape cfg sem env f.shape .null) := readShape_clean cfg sem he f.shape hf.shape .null rfl
  have habs : Clean (readAbsent cfg sem env f) := by
    unfold readAbsent
    split
    · exact clean_ok _
    · exact clean_err _ rfl
  unfold readField
  cases hd : f.default with
  | some dx =>
    simp only []
    have hdx := hf.dflt dx hd
    unfold readDefaulted
    cases entry with
    | none => exact hdx
    | some p =>
      simp only []
      split
      · exact hdx
      · have := readShape_clean cfg sem he f.shape hf.shape p (hent p rfl)
        cases hr : readShape cfg sem env f.shape p with
        | ok v => exact clean_ok _
        | error e =>
          simp only []
          split
          · exact hdx
          · exact clean_err _ (by simpa [Err.hasOof] using this e hr)
  | none =>
    simp only []
    unfold readPlain
    cases entry with
    | none => exact habs
    | some p =>
      simp only []
      have := readShape_clean cfg sem he f.shape hf.shape p (hent p rfl)
      cases hr : readShape cfg sem env f.shape p with
      | ok v => exact clean_ok _
      | error e =>
        simp only []
        split
        · exact habs
        · exact clean_err _ (by simpa [Err.hasOof] using this e hr)

/-- the fields in declaration order; `acc` grows by one value per keyed field -/
theorem readFields_clean (cfg : Cfg) (sem : Sem) {env : Env} (he : EnvOk env) :
    ∀ (fs : List Field) (d : Dict) (acc : List Val) (oth : Option Dict), plainKV d = true →
      (∀ (pre post : List Field) (f : Field), fs = pre ++ f :: post → f.skip = false → f.other = false →
          ∀ acc', acc'.length = acc.length + (pre.filter fun g => !g.skip && !g.other).length → FieldOk sem env f acc') →
      Clean (readFields cfg sem env fs d acc oth) := by
  intro fs
  induction fs with
  | nil => intro d acc oth _ _; exact clean_ok _
  | cons f fs ih =>
    intro d acc oth hd hok
    simp only [readFields]
    have shift : ∀ (extra : Nat) (acc2 : List Val), acc2.length = acc.length + extra →
        extra = (if !f.skip && !f.other then 1 else 0) →
        ∀ (pre post : List Field) (g : Field), fs = pre ++ g :: post → g.skip = false → g.other = false →
          ∀ acc', acc'.length = acc2.length + (pre.filter fun g => !g.skip && !g.other).length → FieldOk sem env g acc' := by
      intro extra acc2 hl hex pre post g hfs hgs hgo acc' hacc'
      apply hok (f :: pre) post g (by simp [hfs]) hgs hgo acc'
      by_cases hc : (!f.skip && !f.other) = true
      · simp only [List.filter_cons, hc, if_true, List.length_cons] at hex ⊢; omega
      · simp only [List.filter_cons, hc, Bool.false_eq_true, if_false] at hex ⊢; omega
    by_cases hs : f.skip = true
    · simp only [hs, if_true]
      exact ih d acc oth hd (shift 0 acc (by omega) (by simp [hs]))
    · simp only [hs, Bool.false_eq_true, if_false]
      by_cases ho : f.other = true
      · simp only [ho, if_true]
        exact ih d acc (some d) hd (shift 0 acc (by omega) (by simp [ho]))
      · simp only [ho, Bool.false_eq_true, if_false]
        have hs' : f.skip = false := by simpa using hs
        have ho' : f.other = false := by simpa using ho
        have hf := hok [] fs f rfl hs' ho' acc (by simp)
        have := readField_clean cfg sem he f acc hf (dget (f.key.getD "") d) (fun p hp => dget_plain hd _ p hp)
        cases hr : readField cfg sem env f acc (dget (f.key.getD "") d) with
        | error e => exact clean_err e (this e hr)
        | ok v =>
          simp only []
          exact ih _ (acc ++ [v]) oth (derase_plain hd _) (shift 1 (acc ++ [v]) (by simp) (by simp [hs', ho']))

/-- number of keyed fields in front of position `pre.length` -/
def keyedBefore (pre : List Field) : Nat := (pre.filter fun g => !g.skip && !g.other).length

/-- every keyed field of `S` is covered, with `acc` as long as the keyed fields in front of it -/
def SchemaOk (sem : Sem) (env : Env) (S : Schema) : Prop :=
  ∀ (pre post : List Field) (f : Field), S.fields = pre ++ f :: post → f.skip = false → f.other = false →
    ∀ acc, acc.length = keyedBefore pre → FieldOk sem env f acc

/-- **`derived_reader_total`, struct level** (`FromDict::from_dict` / `Object::from_primitive` as derived): for every
    schema whose field shapes have clean readers and whose defaults evaluate, every input, both option sets -/
theorem readStructD_clean (cfg : Cfg) (sem : Sem) {env : Env} (he : EnvOk env) (S : Schema) (hS : SchemaOk sem env S)
    (d : Dict) (hd : plainKV d = true) : Clean (readStructD cfg sem env S d) := by
  unfold readStructD
  split
  · rename_i e heq
    refine clean_err e ?_
    split at heq
    · exact expect_clean _ _ _ _ e heq
    · cases heq
  · have h2 := expectAll_clean d S.checks
    cases hc : expectAll d S.checks with
    | error e => exact clean_err e (h2 e hc)
    | ok u2 =>
      have h3 := readFields_clean cfg sem he S.fields d [] none hd
        (fun pre post f hf hs ho acc' hl => hS pre post f hf hs ho acc' (by simpa [keyedBefore] using hl))
      cases hr : readFields cfg sem env S.fields d [] none with
      | error e => exact clean_err e (h3 e hr)
      | ok r => obtain ⟨vals, _, oth⟩ := r; exact clean_ok _

theorem readStruct_clean (cfg : Cfg) (sem : Sem) {env : Env} (he : EnvOk env) (S : Schema) (hS : SchemaOk sem env S)
    (p : Prim) (hp : p.plain = true) : Clean (readStruct cfg sem env S p) := by
  unfold readStruct
  obtain ⟨hc, hv⟩ := asDict_spec he p hp
  cases hd : asDict env p with
  | error e => exact clean_err e (hc e hd)
  | ok d => exact readStructD_clean cfg sem he S hS d (hv d hd)

theorem readEnum_clean {env : Env} (he : EnvOk env) (S : Schema) (p : Prim) (hp : p.plain = true) :
    Clean (readEnum env S p) := by
  unfold readEnum resolve1
  obtain ⟨hc, _⟩ := resolveP_spec he p hp
  cases hr : resolveP env p with
  | error e => exact clean_err e (hc e hr)
  | ok q =>
    simp only []
    unfold readEnumPrim
    split
    · split
      · split
        · exact clean_ok _
        · exact clean_err _ rfl
      · exact clean_err _ rfl
    · split
      · split
        · exact clean_ok _
        · split
          · exact clean_ok _
          · exact clean_err _ rfl
      · exact clean_err _ rfl

end Derive
