import PdfModel.Lemmas.Concurrent

/-! Part 2 of the invariants of `Model/Concurrent.lean`: on a document whose typed loads are well
founded every thread is, at every moment, on its way to the sequential answer of its current call
(`TInv`), and the shared caches only ever hold sequential answers (`SInv`). -/

namespace Conc
open Cache
variable {V E : Type}

/-- the shared caches hold only uncached answers; in-process markers are unconstrained -/
def SInv (d : Doc V E) (filt : Nat → List Nat) (a : Nat → Nat → Res V E) (sh : Shared V E) : Prop :=
  (∀ r T res, sh.slots.lookup r = some (.computed T res) → res = a T r) ∧
  (∀ r x, sh.stm.lookup r = some x → x = d.decode r (filt r))

/-- rank bound of whatever runs on top of `stack`: below the reference of the top frame -/
def bnd (rank : Nat → Nat) (N : Nat) : List (Frame V E) → Nat
  | [] => N
  | f :: _ => rank f.r

/-- `StackOK v stack cur`: `v` is what the load of the top frame must produce, the caller's
    continuation then produces what the next frame must produce, …, down to the answer of the top
    level call `cur`; all continuations only load references of smaller rank. -/
def StackOK (d : Doc V E) (filt : Nat → List Nat) (rank : Nat → Nat) (N : Nat) (a : Nat → Nat → Res V E) :
    Res V E → List (Frame V E) → Prog V E → Prop
  | v, [], cur => v = canon a d cur
  | v, f :: rest, cur =>
    v = a f.T f.r ∧ Fine filt (fun r' => rank r' < bnd rank N rest) (.get f.T f.r f.k) ∧
      StackOK d filt rank N a (canon a d (.get f.T f.r f.k)) rest cur

/-- the rest of the program the thread is executing in its innermost activity -/
def resid : Ctl V E → Option (Prog V E)
  | .enter T r k => some (.get T r k)
  | .pushed T r k => some (.get T r k)
  | .waiting T r k => some (.get T r k)
  | .logging T r k => some (.get T r k)
  | .loading _ p => some p
  | .popping _ _ k res => some (k res)
  | .storing res => some (.ret res)
  | _ => none

/-- thread invariant, relative to the list `cs` of top level calls the thread was given -/
def TInv (d : Doc V E) (filt : Nat → List Nat) (rank : Nat → Nat) (N : Nat) (a : Nat → Nat → Res V E)
    (cs : List (Prog V E)) (t : Thread V E) : Prop :=
  ∃ done, t.out = done.map (canon a d) ∧
    match resid t.ctl with
    | none => t.stack = [] ∧ cs = done ++ t.todo ∧ (t.ctl.isFinal = true → t.todo = [])
    | some p => ∃ cur, cs = done ++ cur :: t.todo ∧
        Fine filt (fun r' => rank r' < bnd rank N t.stack) p ∧ StackOK d filt rank N a (canon a d p) t.stack cur ∧
        (∀ res, t.ctl = .storing res → ∃ f rest, t.stack = f :: rest ∧ f.store = true)

theorem _root_.Cache.Fine.get_inv {filt : Nat → List Nat} {P : Nat → Prop} {T r : Nat} {k : Res V E → Prog V E}
    (h : Fine filt P (.get T r k)) : P r ∧ ∀ x, x ≠ .oof → Fine filt P (k x) := by
  cases h with
  | get _ _ _ hr hk => exact ⟨hr, hk⟩

theorem canon_get (d : Doc V E) (a : Nat → Nat → Res V E) (T r : Nat) (k : Res V E → Prog V E)
    (h : a T r ≠ .oof) : canon a d (.get T r k) = canon a d (k (a T r)) := by
  cases hx : a T r with
  | oof => exact absurd hx h
  | ok v => simp [canon, hx]
  | err e => simp [canon, hx]

theorem stack_ranks {d : Doc V E} {filt : Nat → List Nat} {rank : Nat → Nat} {N : Nat} {a : Nat → Nat → Res V E}
    (hN : ∀ r, rank r < N) :
    ∀ (stack : List (Frame V E)) (v : Res V E) (cur : Prog V E), StackOK d filt rank N a v stack cur →
      ∀ f ∈ stack, bnd rank N stack ≤ rank f.r := by
  intro stack
  induction stack with
  | nil => intro v cur _ f hf; simp at hf
  | cons g rest ih =>
    intro v cur h f hf
    simp only [StackOK] at h
    simp only [List.mem_cons] at hf
    rcases hf with rfl | hf
    · simp [bnd]
    · have h1 := ih _ cur h.2.2 f hf
      have h2 := h.2.1.get_inv.1
      simp only [bnd] at h1 h2 ⊢
      omega

/-- the stack is never deeper than the ranks allow: `stack.length + bnd stack ≤ N` -/
theorem stack_depth {d : Doc V E} {filt : Nat → List Nat} {rank : Nat → Nat} {N : Nat} {a : Nat → Nat → Res V E} :
    ∀ (stack : List (Frame V E)) (v : Res V E) (cur : Prog V E), StackOK d filt rank N a v stack cur →
      stack.length + bnd rank N stack ≤ N := by
  intro stack
  induction stack with
  | nil => intro v cur _; simp [bnd]
  | cons g rest ih =>
    intro v cur h
    simp only [StackOK] at h
    have h1 := ih _ cur h.2.2
    have h2 := h.2.1.get_inv.1
    simp only [bnd, List.length_cons] at h1 h2 ⊢
    omega

theorem dataS_spec {d : Doc V E} {filt : Nat → List Nat} {a : Nat → Nat → Res V E} (cfg : Cfg) {sh : Shared V E}
    (hi : SInv d filt a sh) (r : Nat) :
    (dataS d cfg sh r (filt r)).1 = d.decode r (filt r) ∧ SInv d filt a (dataS d cfg sh r (filt r)).2 ∧
      (dataS d cfg sh r (filt r)).2.slots = sh.slots := by
  unfold dataS
  split
  · cases hl : sh.stm.lookup r with
    | some v => exact ⟨hi.2 r v hl, hi, rfl⟩
    | none =>
      refine ⟨rfl, ⟨hi.1, ?_⟩, rfl⟩
      intro r' x hx
      simp only [List.lookup_cons] at hx
      by_cases e : r' = r
      · subst e; simp at hx; exact hx.symm
      · have : (r' == r) = false := by simpa using e
        rw [this] at hx
        exact hi.2 r' x hx
  · exact ⟨rfl, hi, rfl⟩

/-- thread-local code up to the next synchronisation point: what comes out is still the same answer -/
theorem advP_spec {d : Doc V E} {filt : Nat → List Nat} {a : Nat → Nat → Res V E} (cfg : Cfg)
    (hd : ∀ r fs, d.decode r fs ≠ .oof) {P : Nat → Prop} {p : Prog V E} (hp : Fine filt P p) :
    ∀ sh, SInv d filt a sh →
      SInv d filt a (advP d cfg sh p).2 ∧ (advP d cfg sh p).2.slots = sh.slots ∧
      match (advP d cfg sh p).1 with
      | .enter T r k => Fine filt P (.get T r k) ∧ canon a d (.get T r k) = canon a d p
      | .fin res => res = canon a d p ∧ res ≠ .oof := by
  induction hp with
  | ret x hx => intro sh hi; exact ⟨hi, rfl, rfl, hx⟩
  | get T r k hr hk _ => intro sh hi; exact ⟨hi, rfl, .get T r k hr hk, rfl⟩
  | data r fs k hf _ ih =>
    intro sh hi
    subst hf
    have h1 := dataS_spec (a := a) cfg hi r
    simp only [advP]
    rw [h1.1]
    have h2 := ih _ (hd r (filt r)) _ h1.2.1
    exact ⟨h2.1, h2.2.1.trans h1.2.2, h2.2.2⟩

section Step
variable {d : Doc V E} {filt : Nat → List Nat} {rank : Nat → Nat} {N : Nat}

/-- running a program of the right shape on top of a good stack gives a good thread -/
theorem runTo_spec (wf : WF d filt rank) (hN : ∀ r, rank r < N) (cfg : Cfg) (sh : Shared V E)
    (hi : SInv d filt (ans d rank) sh) (t : Thread V E) (p : Prog V E) (cs done : List (Prog V E)) (cur : Prog V E)
    (hout : t.out = done.map (canon (ans d rank) d)) (hcs : cs = done ++ cur :: t.todo)
    (hp : Fine filt (fun r' => rank r' < bnd rank N t.stack) p)
    (hst : StackOK d filt rank N (ans d rank) (canon (ans d rank) d p) t.stack cur) :
    SInv d filt (ans d rank) (runTo d cfg sh t p).1 ∧ (runTo d cfg sh t p).1.slots = sh.slots ∧
      TInv d filt rank N (ans d rank) cs (runTo d cfg sh t p).2 := by
  have h := advP_spec (a := ans d rank) cfg wf.dec hp sh hi
  refine ⟨h.1, h.2.1, ?_⟩
  have h3 := h.2.2
  unfold runTo
  simp only
  cases hadv : (advP d cfg sh p).1 with
  | enter T r k =>
    rw [hadv] at h3
    simp only at h3
    refine ⟨done, hout, ?_⟩
    cases hcb : cfg.cb with
    | true =>
      simp only [applyAdv, hcb, if_true, resid]
      refine ⟨cur, hcs, h3.1, ?_, ?_⟩
      · rw [h3.2]; exact hst
      · intro res hres; cases hres
    | false =>
      simp only [applyAdv, hcb, Bool.false_eq_true, if_false, resid]
      refine ⟨cur, hcs, h3.1, ?_, ?_⟩
      · rw [h3.2]; exact hst
      · intro res hres; cases hres
  | fin res =>
    rw [hadv] at h3
    simp only at h3
    obtain ⟨hres, hno⟩ := h3
    simp only [applyAdv, finish]
    cases hstk : t.stack with
    | nil =>
      rw [hstk] at hst
      simp only [StackOK] at hst
      refine ⟨done ++ [cur], ?_, ?_⟩
      · simp [hout, hres, hst]
      · simp only [resid]
        refine ⟨by simp [hstk], ?_, ?_⟩
        · simp [hcs]
        · intro hf; simp [Ctl.isFinal] at hf
    | cons f rest =>
      rw [hstk] at hst
      simp only [StackOK] at hst
      obtain ⟨hv, hfine, hrest⟩ := hst
      have hne : ans d rank f.T f.r ≠ .oof := ans_ne_oof wf N f.r f.T (hN f.r)
      simp only
      split
      · -- the compute closure that claimed the slot is over: before the store
        rename_i hstore
        refine ⟨done, hout, ?_⟩
        simp only [resid]
        refine ⟨cur, hcs, .ret res hno, ?_, ?_⟩
        · simp only [StackOK]
          exact ⟨(hres.trans hv : res = _), hfine, hrest⟩
        · intro res' _; exact ⟨f, rest, rfl, hstore⟩
      · refine ⟨done, hout, ?_⟩
        simp only [resid]
        refine ⟨cur, hcs, ?_, ?_, ?_⟩
        · exact hfine.get_inv.2 res hno
        · rw [canon_get d _ f.T f.r f.k hne] at hrest
          rw [hres, hv]; exact hrest
        · intro res' hres'; cases hres'

/-- the same for the start of a compute / reload run, which may stop inside `Log::load_object` first -/
theorem startLoad_spec (wf : WF d filt rank) (hN : ∀ r, rank r < N) (cfg : Cfg) (sh : Shared V E)
    (hi : SInv d filt (ans d rank) sh) (t : Thread V E) (r : Nat) (p : Prog V E) (cs done : List (Prog V E)) (cur : Prog V E)
    (hout : t.out = done.map (canon (ans d rank) d)) (hcs : cs = done ++ cur :: t.todo)
    (hp : Fine filt (fun r' => rank r' < bnd rank N t.stack) p)
    (hst : StackOK d filt rank N (ans d rank) (canon (ans d rank) d p) t.stack cur) :
    SInv d filt (ans d rank) (startLoad d cfg sh t r p).1 ∧ (startLoad d cfg sh t r p).1.slots = sh.slots ∧
      TInv d filt rank N (ans d rank) cs (startLoad d cfg sh t r p).2 := by
  unfold startLoad
  split
  · refine ⟨hi, rfl, done, hout, ?_⟩
    simp only [resid]
    exact ⟨cur, hcs, hp, hst, by intro res h; cases h⟩
  · exact runTo_spec wf hN cfg sh hi t p cs done cur hout hcs hp hst

theorem afterLookup_spec (wf : WF d filt rank) (hN : ∀ r, rank r < N) (cfg : Cfg) (sh : Shared V E)
    (hi : SInv d filt (ans d rank) sh) (t : Thread V E) (T r : Nat) (k : Res V E → Prog V E) (T' : Nat) (res : Res V E)
    (hres : res = ans d rank T' r)
    (cs done : List (Prog V E)) (cur : Prog V E)
    (hout : t.out = done.map (canon (ans d rank) d)) (hcs : cs = done ++ cur :: t.todo)
    (hp : Fine filt (fun r' => rank r' < bnd rank N t.stack) (.get T r k))
    (hst : StackOK d filt rank N (ans d rank) (canon (ans d rank) d (.get T r k)) t.stack cur) :
    SInv d filt (ans d rank) (afterLookup d cfg sh t T r k T' res).1 ∧ (afterLookup d cfg sh t T r k T' res).1.slots = sh.slots ∧
      TInv d filt rank N (ans d rank) cs (afterLookup d cfg sh t T r k T' res).2 := by
  have hne : ans d rank T r ≠ .oof := ans_ne_oof wf N r T (hN r)
  have fallback : SInv d filt (ans d rank) (startLoad d cfg sh { t with stack := ⟨T, r, false, k⟩ :: t.stack } r (d.body T r)).1 ∧
      (startLoad d cfg sh { t with stack := ⟨T, r, false, k⟩ :: t.stack } r (d.body T r)).1.slots = sh.slots ∧
      TInv d filt rank N (ans d rank) cs (startLoad d cfg sh { t with stack := ⟨T, r, false, k⟩ :: t.stack } r (d.body T r)).2 := by
    refine startLoad_spec wf hN cfg sh hi { t with stack := ⟨T, r, false, k⟩ :: t.stack } r (d.body T r) cs done cur hout hcs
      (wf.body T r) ?_
    simp only [StackOK]
    exact ⟨(ans_eq wf T r).symm, hp, hst⟩
  unfold afterLookup
  cases res with
  | ok v =>
    simp only
    split
    · rename_i e
      subst e
      refine ⟨hi, rfl, done, hout, ?_⟩
      simp only [resid]
      refine ⟨cur, hcs, hp.get_inv.2 _ (by simp), ?_, ?_⟩
      · rw [canon_get d _ T' r k hne, ← hres] at hst; exact hst
      · intro res' hres'; cases hres'
    · exact fallback
  | err e => exact fallback
  | oof => exact fallback

/-- **Step lemma.** A transition of one thread (own guard stack) keeps the thread invariant and the
    invariant of the shared caches. -/
theorem stepT_inv (wf : WF d filt rank) (hN : ∀ r, rank r < N) (hD : N ≤ maxNestedGets) {cfg : Cfg} (hg : cfg.sharedGuard = false)
    {i : Nat} {sh sh' : Shared V E} {t t' : Thread V E} {cs : List (Prog V E)}
    (hcalls : ∀ p ∈ cs, Fine filt (fun r' => rank r' < N) p)
    (hc : ChainOK t) (ht : TInv d filt rank N (ans d rank) cs t) (hi : SInv d filt (ans d rank) sh)
    (hs : stepT d cfg i sh t = some (sh', t')) :
    TInv d filt rank N (ans d rank) cs t' ∧ SInv d filt (ans d rank) sh' := by
  obtain ⟨ctl, stack, chain, todo, out⟩ := t
  obtain ⟨hch, _⟩ := hc
  obtain ⟨done, hout, hm⟩ := ht
  simp only at hch hout hm
  cases ctl with
  | done => simp [stepT] at hs
  | panicked => simp [stepT] at hs
  | start =>
    simp only [resid] at hm
    obtain ⟨hstk, hcs, _⟩ := hm
    subst hstk
    cases todo with
    | nil =>
      simp only [stepT, Option.some.injEq, Prod.mk.injEq] at hs
      rw [← hs.1, ← hs.2]
      exact ⟨⟨done, hout, by simp [resid, hcs]⟩, hi⟩
    | cons p ps =>
      simp only [stepT, Option.some.injEq] at hs
      have := runTo_spec wf hN cfg sh hi ⟨.start, [], chain, ps, out⟩ p cs done p hout hcs
        (hcalls p (by simp [hcs])) (by simp [StackOK])
      rw [hs] at this
      exact ⟨this.2.2, this.1⟩
  | enter T r k =>
    simp only [resid] at hm
    obtain ⟨cur, hcs, hp, hst, _⟩ := hm
    simp only [ctlKeys, List.nil_append] at hch
    simp only [stepT, hg, Bool.false_eq_true, if_false] at hs
    have hnot : r ∉ chain := by
      intro hmem
      rw [hch] at hmem
      simp only [keys, List.mem_map] at hmem
      obtain ⟨f, hf, rfl⟩ := hmem
      have h1 := stack_ranks hN stack _ cur hst f hf
      have h2 := hp.get_inv.1
      omega
    have hdeep : ¬ maxNestedGets ≤ chain.length := by
      have h1 := stack_depth stack _ cur hst
      have h2 := hp.get_inv.1
      rw [hch]
      simp only [keys, List.length_map]
      omega
    simp only [hnot, hdeep, if_false, Option.some.injEq, Prod.mk.injEq] at hs
    rw [← hs.1, ← hs.2]
    refine ⟨⟨done, hout, ?_⟩, hi⟩
    simp only [resid]
    exact ⟨cur, hcs, hp, hst, by intro res h; cases h⟩
  | pushed T r k =>
    simp only [resid] at hm
    obtain ⟨cur, hcs, hp, hst, _⟩ := hm
    have hne : ∀ T' r', rank r' < rank r → ans d rank T' r' ≠ .oof := fun T' r' h => ans_ne_oof wf (rank r) r' T' h
    have hcomp : canon (ans d rank) d (d.compute T r) = ans d rank T r := by
      rw [ans_eq wf T r]
      exact canon_orLog d _ (wf.body T r) (wf.relog r) hne wf.dec
    simp only [stepT] at hs
    split at hs
    · split at hs
      · -- claim the slot and run the compute closure
        simp only [Option.some.injEq] at hs
        have hi' : SInv d filt (ans d rank) { sh with slots := (r, .inProcess i) :: sh.slots } := by
          refine ⟨?_, hi.2⟩
          intro r' T' res hl
          simp only [List.lookup_cons] at hl
          by_cases e : r' = r
          · subst e; simp at hl
          · have : (r' == r) = false := by simpa using e
            rw [this] at hl
            exact hi.1 r' T' res hl
        have := startLoad_spec wf hN cfg _ hi' ⟨.pushed T r k, ⟨T, r, true, k⟩ :: stack, chain, todo, out⟩ r (d.compute T r)
          cs done cur hout hcs ((wf.body T r).orLog (wf.relog r)) (by
            simp only [StackOK]
            exact ⟨hcomp, hp, hst⟩)
        rw [hs] at this
        exact ⟨this.2.2, this.1⟩
      · simp only [Option.some.injEq, Prod.mk.injEq] at hs
        rw [← hs.1, ← hs.2]
        refine ⟨⟨done, hout, ?_⟩, hi⟩
        simp only [resid]
        exact ⟨cur, hcs, hp, hst, by intro res h; cases h⟩
      · rename_i T' res hl
        simp only [Option.some.injEq] at hs
        have := afterLookup_spec wf hN cfg sh hi ⟨.pushed T r k, stack, chain, todo, out⟩ T r k T' res
          (hi.1 r T' res hl) cs done cur hout hcs hp hst
        rw [hs] at this
        exact ⟨this.2.2, this.1⟩
    · simp only [Option.some.injEq] at hs
      have := startLoad_spec wf hN cfg sh hi ⟨.pushed T r k, ⟨T, r, false, k⟩ :: stack, chain, todo, out⟩ r (d.compute T r)
        cs done cur hout hcs ((wf.body T r).orLog (wf.relog r)) (by
          simp only [StackOK]
          exact ⟨hcomp, hp, hst⟩)
      rw [hs] at this
      exact ⟨this.2.2, this.1⟩
  | waiting T r k =>
    simp only [resid] at hm
    obtain ⟨cur, hcs, hp, hst, _⟩ := hm
    simp only [stepT] at hs
    split at hs
    · rename_i T' res hl
      simp only [Option.some.injEq] at hs
      have := afterLookup_spec wf hN cfg sh hi ⟨.waiting T r k, stack, chain, todo, out⟩ T r k T' res
        (hi.1 r T' res hl) cs done cur hout hcs hp hst
      rw [hs] at this
      exact ⟨this.2.2, this.1⟩
    · simp at hs
  | logging T r k =>
    simp only [resid] at hm
    obtain ⟨cur, hcs, hp, hst, _⟩ := hm
    simp only [stepT, Option.some.injEq, Prod.mk.injEq] at hs
    rw [← hs.1, ← hs.2]
    refine ⟨⟨done, hout, ?_⟩, hi⟩
    simp only [resid]
    exact ⟨cur, hcs, hp, hst, by intro res h; cases h⟩
  | loading r p =>
    simp only [resid] at hm
    obtain ⟨cur, hcs, hp, hst, _⟩ := hm
    simp only [stepT, Option.some.injEq] at hs
    have := runTo_spec wf hN cfg sh hi ⟨.loading r p, stack, chain, todo, out⟩ p cs done cur hout hcs hp hst
    rw [hs] at this
    exact ⟨this.2.2, this.1⟩
  | storing res =>
    simp only [resid] at hm
    obtain ⟨cur, hcs, hp, hst, _⟩ := hm
    cases stack with
    | nil => simp [stepT] at hs
    | cons f rest =>
      simp only [stepT, Option.some.injEq, Prod.mk.injEq] at hs
      simp only [StackOK] at hst
      obtain ⟨hv, hfine, hrest⟩ := hst
      have hv : res = ans d rank f.T f.r := hv
      have hne : ans d rank f.T f.r ≠ .oof := ans_ne_oof wf N f.r f.T (hN f.r)
      have hno : res ≠ .oof := by rw [hv]; exact hne
      rw [← hs.1, ← hs.2]
      refine ⟨⟨done, hout, ?_⟩, ?_, hi.2⟩
      · simp only [resid]
        refine ⟨cur, hcs, hfine.get_inv.2 res hno, ?_, by intro res' h; cases h⟩
        rw [canon_get d _ f.T f.r f.k hne] at hrest
        rw [hv]; exact hrest
      · intro r' T' res' hl
        simp only [List.lookup_cons] at hl
        by_cases e : r' = f.r
        · subst e
          simp at hl
          obtain ⟨rfl, rfl⟩ := hl
          exact hv
        · have : (r' == f.r) = false := by simpa using e
          rw [this] at hl
          exact hi.1 r' T' res' hl
  | popping T r k res =>
    simp only [resid] at hm
    obtain ⟨cur, hcs, hp, hst, _⟩ := hm
    simp only [ctlKeys, List.singleton_append] at hch
    simp only [stepT, hg, Bool.false_eq_true, if_false] at hs
    subst hch
    simp only [if_true, Option.some.injEq] at hs
    have := runTo_spec wf hN cfg sh hi ⟨.popping T r k res, stack, keys stack, todo, out⟩ (k res)
      cs done cur hout hcs hp hst
    rw [hs] at this
    exact ⟨this.2.2, this.1⟩

end Step

/-! ## Global invariants over reachable states -/

/-- every thread's guard is the list of its own unfinished loads -/
def AllChainOK (s : State V E) : Prop := ∀ (i : Nat) (t : Thread V E), s.threads[i]? = some t → ChainOK t

theorem init_allChainOK (slots : List (Nat × Slot V E)) (stm : List (Nat × Res V E)) (css : List (List (Prog V E))) :
    AllChainOK (State.init slots stm css) := by
  intro i t ht
  simp only [State.init, List.getElem?_map, Option.map_eq_some_iff] at ht
  obtain ⟨cs, _, rfl⟩ := ht
  exact ⟨rfl, rfl⟩

theorem step_allChainOK {d : Doc V E} {cfg : Cfg} (hg : cfg.sharedGuard = false) {s s' : State V E} {i : Nat}
    (h : AllChainOK s) (hs : step d cfg s i = some s') : AllChainOK s' := by
  unfold step at hs
  cases hti : s.threads[i]? with
  | none => simp [hti] at hs
  | some t =>
    simp only [hti] at hs
    cases hst : stepT d cfg i s.sh t with
    | none => simp [hst] at hs
    | some p =>
      obtain ⟨sh', t'⟩ := p
      simp only [hst, Option.some.injEq] at hs
      subst hs
      intro j u hu
      simp only [List.getElem?_set] at hu
      split at hu
      · split at hu
        · simp only [Option.some.injEq] at hu
          subst hu
          exact stepT_chainOK hg (h i t hti) hst
        · simp at hu
      · exact h j u hu

theorem reachable_allChainOK {d : Doc V E} {cfg : Cfg} (hg : cfg.sharedGuard = false) {s0 s : State V E}
    (h0 : AllChainOK s0) (hr : Reachable d cfg s0 s) : AllChainOK s := by
  induction hr with
  | init => exact h0
  | step i _ hs ih => exact step_allChainOK hg ih hs

/-- the invariant behind `results_sequential` -/
def GInv (d : Doc V E) (filt : Nat → List Nat) (rank : Nat → Nat) (N : Nat) (css : List (List (Prog V E)))
    (s : State V E) : Prop :=
  SInv d filt (ans d rank) s.sh ∧ s.threads.length = css.length ∧
    ∀ (i : Nat) (t : Thread V E) (cs : List (Prog V E)), s.threads[i]? = some t → css[i]? = some cs →
      ChainOK t ∧ TInv d filt rank N (ans d rank) cs t

theorem init_GInv {d : Doc V E} {filt : Nat → List Nat} {rank : Nat → Nat} {N : Nat}
    (slots : List (Nat × Slot V E)) (stm : List (Nat × Res V E)) (css : List (List (Prog V E)))
    (hsh : SInv d filt (ans d rank) ⟨slots, stm, [], false⟩) : GInv d filt rank N css (State.init slots stm css) := by
  refine ⟨hsh, by simp [State.init], ?_⟩
  intro i t cs ht hcs
  simp only [State.init, List.getElem?_map, Option.map_eq_some_iff] at ht
  obtain ⟨cs', hcs', rfl⟩ := ht
  rw [hcs] at hcs'
  simp only [Option.some.injEq] at hcs'
  subst hcs'
  refine ⟨⟨rfl, rfl⟩, [], rfl, ?_⟩
  simp [Thread.init, resid, Ctl.isFinal]

theorem step_GInv {d : Doc V E} {filt : Nat → List Nat} {rank : Nat → Nat} {N : Nat} (wf : WF d filt rank)
    (hN : ∀ r, rank r < N) (hD : N ≤ maxNestedGets) {cfg : Cfg} (hg : cfg.sharedGuard = false) {css : List (List (Prog V E))}
    (hcalls : ∀ cs ∈ css, ∀ p ∈ cs, Fine filt (fun r' => rank r' < N) p)
    {s s' : State V E} {i : Nat} (h : GInv d filt rank N css s) (hs : step d cfg s i = some s') :
    GInv d filt rank N css s' := by
  obtain ⟨hsh, hlen, hth⟩ := h
  unfold step at hs
  cases hti : s.threads[i]? with
  | none => simp [hti] at hs
  | some t =>
    simp only [hti] at hs
    cases hst : stepT d cfg i s.sh t with
    | none => simp [hst] at hs
    | some p =>
      obtain ⟨sh', t'⟩ := p
      simp only [hst, Option.some.injEq] at hs
      subst hs
      have hi : i < css.length := by
        rw [← hlen]
        exact (List.getElem?_eq_some_iff.mp hti).1
      have hcsi : css[i]? = some css[i] := List.getElem?_eq_getElem hi
      have hold := hth i t css[i] hti hcsi
      have hnew := stepT_inv wf hN hD hg (hcalls css[i] (List.getElem_mem hi)) hold.1 hold.2 hsh hst
      refine ⟨hnew.2, by simp [hlen], ?_⟩
      intro j u cs hu hcs
      simp only [List.getElem?_set] at hu
      split at hu
      · rename_i e
        subst e
        split at hu
        · simp only [Option.some.injEq] at hu
          subst hu
          rw [hcsi] at hcs
          simp only [Option.some.injEq] at hcs
          subst hcs
          exact ⟨stepT_chainOK hg hold.1 hst, hnew.1⟩
        · simp at hu
      · exact hth j u cs hu hcs

theorem reachable_GInv {d : Doc V E} {filt : Nat → List Nat} {rank : Nat → Nat} {N : Nat} (wf : WF d filt rank)
    (hN : ∀ r, rank r < N) (hD : N ≤ maxNestedGets) {cfg : Cfg} (hg : cfg.sharedGuard = false) {css : List (List (Prog V E))}
    (hcalls : ∀ cs ∈ css, ∀ p ∈ cs, Fine filt (fun r' => rank r' < N) p)
    {s0 s : State V E} (h0 : GInv d filt rank N css s0) (hr : Reachable d cfg s0 s) : GInv d filt rank N css s := by
  induction hr with
  | init => exact h0
  | step i _ hs ih => exact step_GInv wf hN hD hg hcalls ih hs

end Conc
