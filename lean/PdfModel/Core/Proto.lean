/-
  Helpers for the line protocol between the Rust harness and the Lean driver.
  One request per line: `<stream> <field> <field> ...`; one response line per request.
  Bytes travel as lower-case hex (`-` for the empty string), numbers in decimal.
-/

namespace Proto

def hexDigit (n : Nat) : Char :=
  if n < 10 then Char.ofNat (48 + n) else Char.ofNat (87 + n)

def hexOfBytes (bs : List UInt8) : String :=
  if bs.isEmpty then "-" else
  String.ofList (bs.flatMap fun b => [hexDigit (b.toNat / 16), hexDigit (b.toNat % 16)])

def hexVal (c : Char) : Option Nat :=
  if '0' ≤ c ∧ c ≤ '9' then some (c.toNat - 48)
  else if 'a' ≤ c ∧ c ≤ 'f' then some (c.toNat - 87)
  else if 'A' ≤ c ∧ c ≤ 'F' then some (c.toNat - 55)
  else none

def bytesOfHexAux : List Char → List UInt8 → Option (List UInt8)
  | [], acc => some acc.reverse
  | [_], _ => none
  | a :: b :: rest, acc =>
    match hexVal a, hexVal b with
    | some x, some y => bytesOfHexAux rest (UInt8.ofNat (x * 16 + y) :: acc)
    | _, _ => none

def bytesOfHex (s : String) : Option (List UInt8) :=
  if s == "-" then some [] else bytesOfHexAux s.toList []

def natOf (s : String) : Option Nat := s.toNat?

def intOf (s : String) : Option Int := s.toInt?

def fields (line : String) : List String :=
  (line.trimAscii.toString.splitOn " ").filter (· ≠ "")

def joinWith (sep : String) (xs : List String) : String := sep.intercalate xs

def showBool (b : Bool) : String := if b then "1" else "0"

def showOptNat : Option Nat → String
  | none => "none"
  | some n => toString n

def boolOf (s : String) : Option Bool :=
  if s == "1" then some true else if s == "0" then some false else none

/-- all-or-nothing map -/
def mapM? {α β : Type} (f : α → Option β) : List α → Option (List β)
  | [] => some []
  | x :: xs => match f x, mapM? f xs with
    | some y, some ys => some (y :: ys)
    | _, _ => none

end Proto
