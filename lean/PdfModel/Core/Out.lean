/-
  Outcome of a modelled Rust function.

  `ok a`   the Rust function returned `Ok(a)` (or a plain value)
  `err`    the Rust function returned `Err(_)`
  `panic`  the Rust function panicked (index out of range, unwrap on None/Err, assert!, division by
           zero, arithmetic overflow with overflow-checks on, explicit panic!/todo!)
  `oof`    the model ran out of fuel (only for loops that are not structurally recursive; a totality
           theorem proves it never happens for a fuel bound that is linear in the input)
-/

inductive Out (α : Type) where
  | ok : α → Out α
  | err : Out α
  | panic : Out α
  | oof : Out α
deriving Repr, DecidableEq, Inhabited

namespace Out

@[inline] def bind {α β : Type} (x : Out α) (f : α → Out β) : Out β :=
  match x with
  | .ok a => f a
  | .err => .err
  | .panic => .panic
  | .oof => .oof

instance : Monad Out where
  pure := Out.ok
  bind := Out.bind

def isOk {α : Type} : Out α → Bool
  | .ok _ => true
  | _ => false

/-- "value or error value": what every property that says "never panics / hangs" asks for. -/
def Returns {α : Type} (x : Out α) : Prop := x ≠ .panic ∧ x ≠ .oof

def tag {α : Type} : Out α → String
  | .ok _ => "ok"
  | .err => "err"
  | .panic => "panic"
  | .oof => "oof"

@[simp] theorem bind_ok {α β : Type} (a : α) (f : α → Out β) : Out.bind (.ok a) f = f a := rfl
@[simp] theorem bind_err {α β : Type} (f : α → Out β) : Out.bind (.err : Out α) f = .err := rfl
@[simp] theorem bind_panic {α β : Type} (f : α → Out β) : Out.bind (.panic : Out α) f = .panic := rfl
@[simp] theorem bind_oof {α β : Type} (f : α → Out β) : Out.bind (.oof : Out α) f = .oof := rfl

end Out
