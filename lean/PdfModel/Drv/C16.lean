import PdfModel.Core.Proto
import PdfModel.Model.Enc
import PdfModel.Drv.C05

/-! Line-protocol handler for the C16 streams.

  c16.hex <data> | c16.a85 <data>        → `ok <encoded>` | `panic`
  c16.enc <filter> <data> <third-party>  → `ok <encoded>` | `err` | `panic`
        filter as in c05.chain; third-party: what the external zlib / LZW encoder returned for `<data>`
        (`!` = it reported an error); ignored by the filters that do not call one
  c16.rt <filter> <data>                 → decode (encode data) for hex / a85 in the model: `ok <bytes>` | …
-/

namespace DrvC16
open Enc Proto

def handle (args : List String) : String :=
  match args with
  | ["c16.hex", d] => match bytesOfHex d with | some d => DrvC05.showOut (encodeHex d) | none => "bad-request"
  | ["c16.a85", d] => match bytesOfHex d with | some d => DrvC05.showOut (encode85 d) | none => "bad-request"
  | ["c16.enc", f, d, tp] =>
    match DrvC05.parseFilter f, bytesOfHex d, (if tp == "!" then some none else (bytesOfHex tp).map some) with
    | some f, some d, some tp =>
      let X : Ext := { inflateZlib := fun _ => none, inflateRaw := fun _ => none, dct := fun _ => none, zlibEncode := fun _ => tp.getD [], lzwEncode := fun _ => tp }
      DrvC05.showOut (encode X d f)
    | _, _, _ => "bad-request"
  | ["c16.rt", f, d] =>
    match f, bytesOfHex d with
    | "hex", some d => DrvC05.showOut (match encodeHex d with | .ok e => decodeHex e | o => o)
    | "a85", some d => DrvC05.showOut (match encode85 d with | .ok e => decode85 e | o => o)
    | _, _ => "bad-request"
  | _ => "bad-request"

end DrvC16
