import PdfModel.Core.Proto
import PdfModel.Model.ObjStm
import PdfModel.Spec.ObjStm

/-! Line-protocol handler for the C11 streams.

  c11.member <n> <first> <data-hex> <index>   → `ok <start> <stop> <slice-hex>` | `err` | `panic`
        header parsing (`parseHeader`), `getObjectSlice`, `memberSlice` in the order of `resolve_ref`
  c11.header <n> <data-hex>                   → `ok <off,off,…>` (`ok -` for none) | `err`
  c11.pack <members>                          → `<n> <first> <data-hex>`   the specification's writer;
        members `id:text-hex:sep-hex` joined by `,` (`-` for no members)
-/

namespace DrvC11
open Proto OffLex ObjStm ObjStmSpec

def parseMember (s : String) : Option Member :=
  match s.splitOn ":" with
  | [i, t, sp] => do some ⟨← natOf i, ← bytesOfHex t, ← bytesOfHex sp⟩
  | _ => none

def handle (args : List String) : String :=
  match args with
  | ["c11.member", n, first, d, idx] =>
    match natOf n, natOf first, bytesOfHex d, natOf idx with
    | some n, some first, some data, some idx =>
      match parseHeader n data with
      | .ok offsets =>
        match getObjectSlice offsets first (.ok data) idx with
        | .ok (dd, a, b) =>
          match memberSlice dd a b with
          | .ok sl => s!"ok {a} {b} {hexOfBytes sl}"
          | o => o.tag
        | o => o.tag
      | o => o.tag
    | _, _, _, _ => "bad-request"
  | ["c11.header", n, d] =>
    match natOf n, bytesOfHex d with
    | some n, some data =>
      match parseHeader n data with
      | .ok offs => if offs.isEmpty then "ok -" else s!"ok {joinWith "," (offs.map toString)}"
      | o => o.tag
    | _, _ => "bad-request"
  | ["c11.pack", ms] =>
    match (if ms == "-" then some [] else mapM? parseMember (ms.splitOn ",")) with
    | some members =>
      let p := pack members
      s!"{p.n} {p.first} {hexOfBytes p.data}"
    | none => "bad-request"
  | _ => "bad-request"

end DrvC11
