import PdfModel.Core.Proto
import PdfModel.Model.Content
import PdfModel.Model.ContentF32
import PdfModel.Model.ContentInline
import PdfModel.Model.ContentBytes
import PdfModel.Spec.OperatorTable
import PdfModel.Spec.ContentEquiv

/-! Line-protocol handler for the C08 streams.  Reals travel as the 8 hex digits of their `f32` bit pattern.

  operand  `z` null, `T`/`F`, `i<int>`, `r<hex8>`, `s<hex>` string, `n<hex>` name (UTF-8), `R<id>.<gen>`,
           `a(<p>,<p>,…)`, `d(<hexkey>=<p>,…)`
  op       `CODE:field:field…`, ops joined by `;` (`-` for none); see `parseOp`
  token    `P<operand>` | `K<hex of keyword>` | `I<id>` | `Ie` (inline image that fails) | `G`; joined by `;`

  c08.ser <primDot 0|1> <ops>            → `ok <tokens>` | `err` | `oof`
  c08.parse <allow 0|1> <tokens>         → `ok <ops>` | `err` | `unmodelled`
  c08.rt <primDot> <allow> <ops>         → `ok <1|0> <ops read back>` | `err`   (the model's own round trip)
  c08.spec <cur x.y|-> <hexkw> <operands joined by ;>
                                         → `none` | `unsupported` | `construct` | `illformed` | `ok <ops>`
  c08.specrun <tokens>                   → `ok <ops>` | `none`   (Spec.specRun on the statements)
  c08.bser <fmt table> <ops>              → `ok <hex>` | `err` …   byte-level writer (`ContentBytes.serializeBytes`);
                                            fmt table: `<hex8>=<hex of the Display text>,…` for every real of the ops
  c08.bparse <allow> <real table> <hex>   → `ok <ops>` | `err` | `unmodelled`   byte-level reader (`ContentBytes.parseBytes`);
                                            real table: `<hex of a real token>=<hex8>,…` (f32::from_str of the tokens in the data)
  c08.inline <hex of the bytes after ID>   → `ok <hex data> <hex of what follows EI>` | `none`
  c08.real beq|neg|ofint|toint|big|special … → the `f32` instance of `RealOps`
-/

namespace DrvC08
open Content Proto

abbrev R := UInt32

def ro : RealOps R := Content.F32.ops

def hex8 (u : UInt32) : String :=
  let n := u.toNat
  String.ofList ((List.range 8).map fun i => hexDigit ((n / 16 ^ (7 - i)) % 16))

def hexNat (cs : List Char) : Option Nat :=
  cs.foldl (fun acc c => match acc, hexVal c with
    | some a, some v => some (a * 16 + v)
    | _, _ => none) (some 0)

def parseHex8 (s : String) : Option UInt32 :=
  if s.length == 8 then (hexNat s.toList).map UInt32.ofNat else none

def strOfBytes (bs : List UInt8) : Option String := String.fromUTF8? (ByteArray.mk bs.toArray)

def hexOfString (s : String) : String := hexOfBytes s.toUTF8.toList

def stringOfHex (h : String) : Option String := (bytesOfHex h).bind strOfBytes

-- ---------------------------------------------------------------------------------------------------
-- operands

def isStop (c : Char) : Bool := c == ',' || c == ')' || c == '='

def spanScalar (cs : List Char) : List Char × List Char := cs.span (fun c => !isStop c)

mutual
def parsePrim : Nat → List Char → Option (Prim R × List Char)
  | 0, _ => none
  | fuel + 1, c :: cs =>
    if c == 'a' then
      match cs with
      | '(' :: ')' :: rest => some (.arr [], rest)
      | '(' :: rest => match parseList fuel rest with
        | some (xs, rest') => some (.arr xs, rest')
        | none => none
      | _ => none
    else if c == 'd' then
      match cs with
      | '(' :: ')' :: rest => some (.dict [] [], rest)
      | '(' :: rest => match parseKVs fuel rest with
        | some (ks, vs, rest') => some (.dict ks vs, rest')
        | none => none
      | _ => none
    else
      let (tok, rest) := spanScalar cs
      let s := String.ofList tok
      let r : Option (Prim R) :=
        if c == 'z' then (if tok.isEmpty then some .null else none)
        else if c == 'T' then (if tok.isEmpty then some (.bool true) else none)
        else if c == 'F' then (if tok.isEmpty then some (.bool false) else none)
        else if c == 'i' then (intOf s).map .int
        else if c == 'r' then (parseHex8 s).map .real
        else if c == 's' then (bytesOfHex s).map .str
        else if c == 'n' then (stringOfHex s).map .name
        else if c == 'R' then
          match s.splitOn "." with
          | [a, b] => match natOf a, natOf b with
            | some x, some y => some (.ref x y)
            | _, _ => none
          | _ => none
        else none
      r.map (·, rest)
  | _, [] => none
/-- elements up to and including the closing parenthesis -/
def parseList : Nat → List Char → Option (List (Prim R) × List Char)
  | 0, _ => none
  | fuel + 1, cs =>
    match parsePrim fuel cs with
    | some (p, ',' :: rest) => match parseList fuel rest with
      | some (ps, rest') => some (p :: ps, rest')
      | none => none
    | some (p, ')' :: rest) => some ([p], rest)
    | _ => none
def parseKVs : Nat → List Char → Option (List String × List (Prim R) × List Char)
  | 0, _ => none
  | fuel + 1, cs =>
    let (k, rest) := spanScalar cs
    match stringOfHex (String.ofList k), rest with
    | some key, '=' :: rest1 =>
      match parsePrim fuel rest1 with
      | some (p, ',' :: rest2) => match parseKVs fuel rest2 with
        | some (ks, vs, rest3) => some (key :: ks, p :: vs, rest3)
        | none => none
      | some (p, ')' :: rest2) => some ([key], [p], rest2)
      | _ => none
    | _, _ => none
end

def primOf (s : String) : Option (Prim R) :=
  let cs := s.toList
  match parsePrim (cs.length + 1) cs with
  | some (p, []) => some p
  | _ => none

mutual
def showPrim : Prim R → String
  | .null => "z"
  | .bool true => "T"
  | .bool false => "F"
  | .int i => s!"i{i}"
  | .real r => "r" ++ hex8 r
  | .str bs => "s" ++ hexOfBytes bs
  | .name s => "n" ++ hexOfString s
  | .ref a b => s!"R{a}.{b}"
  | .arr xs => "a(" ++ joinWith "," (showPrims xs) ++ ")"
  | .dict ks vs => "d(" ++ joinWith "," (showKVs ks vs) ++ ")"
def showPrims : List (Prim R) → List String
  | [] => []
  | p :: ps => showPrim p :: showPrims ps
def showKVs : List String → List (Prim R) → List String
  | k :: ks, p :: ps => (hexOfString k ++ "=" ++ showPrim p) :: showKVs ks ps
  | _, _ => []
end

-- ---------------------------------------------------------------------------------------------------
-- operations

def showWinding : Winding → String
  | .evenOdd => "0"
  | .nonZero => "1"

def windingOf (s : String) : Option Winding :=
  if s == "0" then some .evenOdd else if s == "1" then some .nonZero else none

def showIntent : Intent → String
  | .absoluteColorimetric => "0"
  | .relativeColorimetric => "1"
  | .saturation => "2"
  | .perceptual => "3"

def intentOf (s : String) : Option Intent :=
  if s == "0" then some .absoluteColorimetric else if s == "1" then some .relativeColorimetric
  else if s == "2" then some .saturation else if s == "3" then some .perceptual else none

def showTDA : TDA R → String
  | .text bs => "s" ++ hexOfBytes bs
  | .spacing s => "r" ++ hex8 s

def tdaOf (s : String) : Option (TDA R) :=
  match s.toList with
  | 's' :: cs => (bytesOfHex (String.ofList cs)).map .text
  | 'r' :: cs => (parseHex8 (String.ofList cs)).map .spacing
  | _ => none

def showList (f : α → String) (xs : List α) : String :=
  if xs.isEmpty then "-" else joinWith "," (xs.map f)

def listOf (f : String → Option α) (s : String) : Option (List α) :=
  if s == "-" then some [] else mapM? f (s.splitOn ",")

def showColor (pre : String) : Color R → String
  | .gray g => s!"{pre}g:{hex8 g}"
  | .rgb r g b => s!"{pre}rgb:{hex8 r}:{hex8 g}:{hex8 b}"
  | .cmyk c m y k => s!"{pre}cmyk:{hex8 c}:{hex8 m}:{hex8 y}:{hex8 k}"
  | .other args => s!"{pre}o:{showPrim (.arr args)}"

def showProps : Option (Prim R) → String
  | none => "-"
  | some p => showPrim p

def showOp : Op R → String
  | .beginMarkedContent tag none => s!"BMC:{hexOfString tag}"
  | .beginMarkedContent tag (some p) => s!"BDC:{hexOfString tag}:{showPrim p}"
  | .endMarkedContent => "EMC"
  | .markedContentPoint tag none => s!"MP:{hexOfString tag}"
  | .markedContentPoint tag (some p) => s!"DP:{hexOfString tag}:{showPrim p}"
  | .close => "h"
  | .moveTo p => s!"m:{hex8 p.x}:{hex8 p.y}"
  | .lineTo p => s!"l:{hex8 p.x}:{hex8 p.y}"
  | .curveTo a b c => s!"c:{hex8 a.x}:{hex8 a.y}:{hex8 b.x}:{hex8 b.y}:{hex8 c.x}:{hex8 c.y}"
  | .rect x y w h => s!"re:{hex8 x}:{hex8 y}:{hex8 w}:{hex8 h}"
  | .endPath => "n"
  | .stroke => "S"
  | .fillAndStroke w => s!"B:{showWinding w}"
  | .fill w => s!"f:{showWinding w}"
  | .shade n => s!"sh:{hexOfString n}"
  | .clip w => s!"W:{showWinding w}"
  | .save => "q"
  | .restore => "Q"
  | .transform m => s!"cm:{hex8 m.a}:{hex8 m.b}:{hex8 m.c}:{hex8 m.d}:{hex8 m.e}:{hex8 m.f}"
  | .lineWidth w => s!"w:{hex8 w}"
  | .dash pat ph => s!"d:{showList hex8 pat}:{hex8 ph}"
  | .lineJoin j => s!"j:{j.val}"
  | .lineCap c => s!"J:{c.val}"
  | .miterLimit l => s!"M:{hex8 l}"
  | .flatness t => s!"i:{hex8 t}"
  | .graphicsState n => s!"gs:{hexOfString n}"
  | .strokeColor c => showColor "SC" c
  | .fillColor c => showColor "sc" c
  | .fillColorSpace n => s!"cs:{hexOfString n}"
  | .strokeColorSpace n => s!"CS:{hexOfString n}"
  | .renderingIntent i => s!"ri:{showIntent i}"
  | .beginText => "BT"
  | .endText => "ET"
  | .charSpacing v => s!"Tc:{hex8 v}"
  | .wordSpacing v => s!"Tw:{hex8 v}"
  | .textScaling v => s!"Tz:{hex8 v}"
  | .leading v => s!"TL:{hex8 v}"
  | .textFont n s => s!"Tf:{hexOfString n}:{hex8 s}"
  | .textRenderMode m => s!"Tr:{m.val}"
  | .textRise v => s!"Ts:{hex8 v}"
  | .moveTextPosition t => s!"Td:{hex8 t.x}:{hex8 t.y}"
  | .setTextMatrix m => s!"Tm:{hex8 m.a}:{hex8 m.b}:{hex8 m.c}:{hex8 m.d}:{hex8 m.e}:{hex8 m.f}"
  | .textNewline => "T*"
  | .textDraw bs => s!"Tj:{hexOfBytes bs}"
  | .textDrawAdjusted arr => s!"TJ:{showList showTDA arr}"
  | .xObject n => s!"Do:{hexOfString n}"
  | .inlineImage id => s!"II:{id}"

def showOps (ops : List (Op R)) : String :=
  if ops.isEmpty then "-" else joinWith ";" (ops.map showOp)

def finOf? (k : Nat) (s : String) : Option (Fin k) :=
  match natOf s with
  | some n => if h : n < k then some ⟨n, h⟩ else none
  | none => none

def reals (fs : List String) : Option (List R) := mapM? parseHex8 fs

def colorOf (kind : String) (fs : List String) : Option (Color R) :=
  if kind == "g" then match reals fs with
    | some [g] => some (.gray g)
    | _ => none
  else if kind == "rgb" then match reals fs with
    | some [r, g, b] => some (.rgb r g b)
    | _ => none
  else if kind == "cmyk" then match reals fs with
    | some [c, m, y, k] => some (.cmyk c m y k)
    | _ => none
  else if kind == "o" then match fs with
    | [a] => match primOf a with
      | some (.arr xs) => some (.other xs)
      | _ => none
    | _ => none
  else none

def parseOp (s : String) : Option (Op R) :=
  match s.splitOn ":" with
  | [] => none
  | code :: fs =>
    if code.startsWith "SC" then (colorOf (code.drop 2).toString fs).map .strokeColor
    else if code.startsWith "sc" then (colorOf (code.drop 2).toString fs).map .fillColor
    else
    match code, fs with
    | "BMC", [t] => (stringOfHex t).map fun t => .beginMarkedContent t none
    | "BDC", [t, p] => do some (.beginMarkedContent (← stringOfHex t) (some (← primOf p)))
    | "EMC", [] => some .endMarkedContent
    | "MP", [t] => (stringOfHex t).map fun t => .markedContentPoint t none
    | "DP", [t, p] => do some (.markedContentPoint (← stringOfHex t) (some (← primOf p)))
    | "h", [] => some .close
    | "m", fs => match reals fs with
      | some [x, y] => some (.moveTo ⟨x, y⟩)
      | _ => none
    | "l", fs => match reals fs with
      | some [x, y] => some (.lineTo ⟨x, y⟩)
      | _ => none
    | "c", fs => match reals fs with
      | some [a, b, c, d, e, f] => some (.curveTo ⟨a, b⟩ ⟨c, d⟩ ⟨e, f⟩)
      | _ => none
    | "re", fs => match reals fs with
      | some [x, y, w, h] => some (.rect x y w h)
      | _ => none
    | "n", [] => some .endPath
    | "S", [] => some .stroke
    | "B", [w] => (windingOf w).map .fillAndStroke
    | "f", [w] => (windingOf w).map .fill
    | "sh", [n] => (stringOfHex n).map .shade
    | "W", [w] => (windingOf w).map .clip
    | "q", [] => some .save
    | "Q", [] => some .restore
    | "cm", fs => match reals fs with
      | some [a, b, c, d, e, f] => some (.transform ⟨a, b, c, d, e, f⟩)
      | _ => none
    | "w", [v] => (parseHex8 v).map .lineWidth
    | "d", [pat, ph] => do some (.dash (← listOf parseHex8 pat) (← parseHex8 ph))
    | "j", [n] => (finOf? 3 n).map .lineJoin
    | "J", [n] => (finOf? 3 n).map .lineCap
    | "M", [v] => (parseHex8 v).map .miterLimit
    | "i", [v] => (parseHex8 v).map .flatness
    | "gs", [n] => (stringOfHex n).map .graphicsState
    | "cs", [n] => (stringOfHex n).map .fillColorSpace
    | "CS", [n] => (stringOfHex n).map .strokeColorSpace
    | "ri", [i] => (intentOf i).map .renderingIntent
    | "BT", [] => some .beginText
    | "ET", [] => some .endText
    | "Tc", [v] => (parseHex8 v).map .charSpacing
    | "Tw", [v] => (parseHex8 v).map .wordSpacing
    | "Tz", [v] => (parseHex8 v).map .textScaling
    | "TL", [v] => (parseHex8 v).map .leading
    | "Tf", [n, v] => do some (.textFont (← stringOfHex n) (← parseHex8 v))
    | "Tr", [n] => (finOf? 8 n).map .textRenderMode
    | "Ts", [v] => (parseHex8 v).map .textRise
    | "Td", fs => match reals fs with
      | some [x, y] => some (.moveTextPosition ⟨x, y⟩)
      | _ => none
    | "Tm", fs => match reals fs with
      | some [a, b, c, d, e, f] => some (.setTextMatrix ⟨a, b, c, d, e, f⟩)
      | _ => none
    | "T*", [] => some .textNewline
    | "Tj", [t] => (bytesOfHex t).map .textDraw
    | "TJ", [a] => (listOf tdaOf a).map .textDrawAdjusted
    | "Do", [n] => (stringOfHex n).map .xObject
    | "II", [n] => (natOf n).map .inlineImage
    | _, _ => none

def opsOf (s : String) : Option (List (Op R)) :=
  if s == "-" then some [] else mapM? parseOp (s.splitOn ";")

-- ---------------------------------------------------------------------------------------------------
-- tokens

def showTok : Tok R → String
  | .prim p => "P" ++ showPrim p
  | .kw s => "K" ++ hexOfString s
  | .bi (some id) => s!"I{id}"
  | .bi none => "Ie"
  | .garbage => "G"

def showToks (ts : List (Tok R)) : String :=
  if ts.isEmpty then "-" else joinWith ";" (ts.map showTok)

def tokOf (s : String) : Option (Tok R) :=
  match s.toList with
  | 'P' :: cs => (primOf (String.ofList cs)).map .prim
  | 'K' :: cs => (stringOfHex (String.ofList cs)).map .kw
  | ['I', 'e'] => some (.bi none)
  | 'I' :: cs => (natOf (String.ofList cs)).map fun n => .bi (some n)
  | ['G'] => some .garbage
  | _ => none

def toksOf (s : String) : Option (List (Tok R)) :=
  if s == "-" then some [] else mapM? tokOf (s.splitOn ";")

def unmodelled : Tok R → Bool
  | .garbage => true
  | .kw s => s == "BI"
  | _ => false

-- ---------------------------------------------------------------------------------------------------
-- numeric equivalence (the relation of the round-trip theorem, executable)

def outStr {α : Type} (show_ : α → String) : Out α → String
  | .ok a => "ok " ++ show_ a
  | o => o.tag

/-- split a token list into statements (operands, keyword); `none` if something else occurs or operands
    are left over -/
def stmtsOf : List (Prim R) → List (Tok R) → Option (List (ContentSpec.Stmt R))
  | [], [] => some []
  | _ :: _, [] => none
  | buf, .prim p :: ts => stmtsOf (buf ++ [p]) ts
  | buf, .kw s :: ts => match stmtsOf [] ts with
    | some ss => some (⟨buf, s⟩ :: ss)
    | none => none
  | _, _ :: _ => none

def ptOf (s : String) : Option (Option (Pt R)) :=
  if s == "-" then some none else
  match s.splitOn "." with
  | [a, b] => match parseHex8 a, parseHex8 b with
    | some x, some y => some (some ⟨x, y⟩)
    | _, _ => none
  | _ => none

def showOptInt : Option Int → String
  | none => "none"
  | some n => toString n


-- byte level (Model/ContentBytes.lean)

def fmtTabOf (s : String) : Option (List (R × List UInt8)) :=
  if s == "-" then some [] else
  mapM? (fun e => match e.splitOn "=" with
    | [k, v] => match parseHex8 k, bytesOfHex v with
      | some k, some v => some (k, v)
      | _, _ => none
    | _ => none) (s.splitOn ",")

def prTabOf (s : String) : Option (List (List UInt8 × R)) :=
  if s == "-" then some [] else
  mapM? (fun e => match e.splitOn "=" with
    | [k, v] => match bytesOfHex k, parseHex8 v with
      | some k, some v => some (k, v)
      | _, _ => none
    | _ => none) (s.splitOn ",")

/-- `Display for f32` as a table handed over by the implementation side (third-party code) -/
def fmtOf (tab : List (R × List UInt8)) (r : R) : List UInt8 :=
  match tab.find? (fun e => e.1 == r) with
  | some e => e.2
  | none => [63]

def envOf (tab : List (List UInt8 × R)) : PdfLex.Env R :=
  { parseReal := fun t => (tab.find? (fun e => e.1 == t)).map (·.2)
    resolveLen := fun _ _ => .err
    allowMissingEndobj := false
    decrypt := none
    fileOffset := 0 }

/-- the oracle of the driver: `ContentBytes.lexOracle`; inline images are not modelled at byte level
    (`.oof` → `unmodelled`) -/
def byteOracle : ContentBytes.Oracle := ContentBytes.lexOracle (fun _ _ => .oof)

def handle (args : List String) : String :=
  match args with
  | ["c08.bser", tab, ops] =>
    match fmtTabOf tab, opsOf ops with
    | some tab, some ops => outStr hexOfBytes (ContentBytes.serializeBytes ro (fmtOf tab) ops)
    | _, _ => "bad-request"
  | ["c08.bparse", allow, tab, data] =>
    match boolOf allow, prTabOf tab, bytesOfHex data with
    | some allow, some tab, some data =>
      match ContentBytes.parseBytes ro (envOf tab) byteOracle allow data with
      | .ok ops => "ok " ++ showOps ops
      | .oof => "unmodelled"
      | o => o.tag
    | _, _, _ => "bad-request"
  | ["c08.ser", pd, ops] =>
    match boolOf pd, opsOf ops with
    | some pd, some ops => outStr showToks (serializeOps ro ⟨pd⟩ ops)
    | _, _ => "bad-request"
  | ["c08.parse", allow, toks] =>
    match boolOf allow, toksOf toks with
    | some allow, some toks =>
      if toks.any unmodelled then "unmodelled" else outStr showOps (parseOps ro allow toks)
    | _, _ => "bad-request"
  | ["c08.rt", pd, allow, ops] =>
    match boolOf pd, boolOf allow, opsOf ops with
    | some pd, some allow, some ops =>
      match serializeOps ro ⟨pd⟩ ops with
      | .ok toks =>
        if toks.any unmodelled then "unmodelled" else
        match parseOps ro allow toks with
        | .ok ops' => s!"ok {showBool (opsEquiv ro ops' ops)} {showOps ops'}"
        | o => "parse-" ++ o.tag
      | o => o.tag
    | _, _, _ => "bad-request"
  | ["c08.spec", cur, kw, prims] =>
    match ptOf cur, stringOfHex kw, (if prims == "-" then some [] else mapM? primOf (prims.splitOn ";")) with
    | some cur, some kw, some ps =>
      match ContentSpec.lookup ro kw with
      | none => "none"
      | some e =>
        match e.support with
        | .unsupported _ => "unsupported"
        | .construct => "construct"
        | .full =>
          match ContentSpec.decode ro e.sig ps with
          | none => "illformed"
          | some vals => match e.den cur vals with
            | none => "illformed"
            | some ops => "ok " ++ showOps ops
    | _, _, _ => "bad-request"
  | ["c08.specrun", toks] =>
    match toksOf toks with
    | some toks =>
      match stmtsOf [] toks with
      | none => "none"
      | some ss => match ContentSpec.specRun ro ⟨none, none⟩ ss with
        | some ops => "ok " ++ showOps ops
        | none => "none"
    | none => "bad-request"
  | ["c08.inline", rest] =>
    match bytesOfHex rest with
    | some bs =>
      match ContentInline.inlineData bs with
      | some (d, t) => s!"ok {hexOfBytes d} {hexOfBytes t}"
      | none => "none"
    | none => "bad-request"
  | ["c08.real", "beq", a, b] =>
    match parseHex8 a, parseHex8 b with
    | some a, some b => showBool (ro.beq a b)
    | _, _ => "bad-request"
  | ["c08.real", "neg", a] =>
    match parseHex8 a with
    | some a => hex8 (ro.neg a)
    | none => "bad-request"
  | ["c08.real", "ofint", n] =>
    match intOf n with
    | some n => hex8 (ro.ofInt n)
    | none => "bad-request"
  | ["c08.real", "toint", a] =>
    match parseHex8 a with
    | some a => showOptInt (ro.intDigits? a)
    | none => "bad-request"
  | ["c08.real", "big", a] =>
    match parseHex8 a with
    | some a => showBool (ro.big a)
    | none => "bad-request"
  | ["c08.real", "special", a] =>
    match parseHex8 a with
    | some a => (ro.special a).getD "finite"
    | none => "bad-request"
  | _ => "bad-request"

end DrvC08
