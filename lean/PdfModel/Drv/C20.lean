import PdfModel.Core.Proto
import PdfModel.Model.Import

/-! Line-protocol handler for the C20 streams.

  c20.clone <fuel> <next> <nodes> <roots>
      nodes  `id:payload:kidsPrim:kidsTyped` joined by `;` (`-`: no nodes); kids / roots: `p12+t13+r14+…`
             (`p` = clone_plainref, `t` = clone_ref, `r` = clone_rcref), `-` for none
      → `<results>|<map>|<objs>`: results `ok.<new>` / `err` / `panic` / `oof` joined by `,`;
        map `old>new` joined by `,` (newest first); objs `id:payload:kids(+)` joined by `;`
  c20.page <fuel> <next> <nodes> <page> <page> …
      page   `ops/res/rest`; ops joined by `,`: `u<kind>.<name>` | `i:<kids>` | `o<tag>`;
             res joined by `,`: `<kind>.<name>.<payload>:<kids>`; rest: kids; kind = 0..6 in the order of `RKind`
      → per page `ok/<res>/<rest>` (res: `<kind>.<name>.<payload>:<new kids>`, in insertion order oldest
        first; rest: new references) or `err`/…, joined by ` `… then `|<map>|<objs>`
  c20.tpage <fuel> <next> <nodes> <page> <page> …     pages as they sit in the page tree
      page   `ops/resChain/rest/media/crop/trim/rotate`; chains: levels (page, parent, grand-parent, …) joined by `~`,
             `!` = no entry at that level; a resource level is `-` (empty dictionary) or entries joined by `,`
      → per page `ok/<res>/<rest>/<media>.<crop>.<trim|!>.<rotate>` or `err`/…, then `|<map>|<objs>`
  c20.frompage <page>                                 `PageBuilder::from_page`
      → `ok/<res: kind.name.payload:kids>/<media>.<crop>.<trim|!>.<rotate>` | `err`
  c20.old.clone <fuel> <next> <nodes> <roots>    the code before the fixes (first failing root ends the run)
-/

namespace DrvC20
open Import Proto

def parseEdge (s : String) : Option Edge :=
  match s.toList with
  | 'p' :: rest => (natOf (String.ofList rest)).map (⟨.prim, ·⟩)
  | 't' :: rest => (natOf (String.ofList rest)).map (⟨.ref, ·⟩)
  | 'r' :: rest => (natOf (String.ofList rest)).map (⟨.rc, ·⟩)
  | _ => none

def parseEdges (s : String) : Option (List Edge) :=
  if s == "-" then some [] else mapM? parseEdge (s.splitOn "+")

def parseNode (s : String) : Option (Nat × Node) :=
  match s.splitOn ":" with
  | [i, p, ks, kt] => do some (← natOf i, ⟨← natOf p, ← parseEdges ks, ← parseEdges kt⟩)
  | _ => none

def parseNodes (s : String) : Option (List (Nat × Node)) :=
  if s == "-" then some [] else mapM? parseNode (s.splitOn ";")

def showNats (sep : String) (xs : List Nat) : String :=
  if xs.isEmpty then "-" else joinWith sep (xs.map toString)

def showOut : Out Nat → String
  | .ok n => s!"ok.{n}"
  | o => o.tag

def showMap (m : List (Nat × Nat)) : String :=
  if m.isEmpty then "-" else joinWith "," (m.map fun p => s!"{p.1}>{p.2}")

def showObjs (os : List Obj) : String :=
  if os.isEmpty then "-" else joinWith ";" (os.map fun o => s!"{o.id}:{o.payload}:{showNats "+" o.kids}")

def showSt (st : St) : String := s!"{showMap st.map}|{showObjs st.objs}"

def kindOf : Nat → Option RKind
  | 0 => some .gs | 1 => some .font | 2 => some .xobject | 3 => some .colorspace
  | 4 => some .pattern | 5 => some .shading | 6 => some .properties | _ => none

def kindIx : RKind → Nat
  | .gs => 0 | .font => 1 | .xobject => 2 | .colorspace => 3 | .pattern => 4 | .shading => 5 | .properties => 6

def parseOp (s : String) : Option OpM :=
  match s.toList with
  | 'u' :: rest =>
    match (String.ofList rest).splitOn "." with
    | [k, n] => do some (.use (← kindOf (← natOf k)) (← natOf n))
    | _ => none
  | 'i' :: ':' :: rest => (parseEdges (String.ofList rest)).map .inline
  | 'o' :: rest => (natOf (String.ofList rest)).map .other
  | _ => none

def parseRes (s : String) : Option ((RKind × Nat) × Entry) :=
  match s.splitOn ":" with
  | [head, ks] =>
    match head.splitOn "." with
    | [k, n, p] => do some ((← kindOf (← natOf k), ← natOf n), ⟨← natOf p, ← parseEdges ks⟩)
    | _ => none
  | _ => none

def parseList {α : Type} (f : String → Option α) (s : String) : Option (List α) :=
  if s == "-" then some [] else mapM? f (s.splitOn ",")

def parsePage (s : String) : Option PageM :=
  match s.splitOn "/" with
  | [ops, res, rest] => do some ⟨← parseList parseOp ops, ← parseList parseRes res, ← parseEdges rest⟩
  | _ => none

def showPageOut (o : PageOut) : String :=
  let res := o.res.reverse.map fun p => s!"{kindIx p.1.1}.{p.1.2}.{p.2.1}:{showNats "+" p.2.2}"
  s!"ok/{if res.isEmpty then "-" else joinWith "," res}/{showNats "+" o.rest}"

def parseOptNat (s : String) : Option (Option Nat) :=
  if s == "!" then some none else (natOf s).map some

def parseChain (s : String) : Option (List (Option Nat)) := mapM? parseOptNat (s.splitOn "~")

def parseResLevel (s : String) : Option (Option (ResTable Entry)) :=
  if s == "!" then some none else (parseList parseRes s).map some

def parsePageT (s : String) : Option PageT :=
  match s.splitOn "/" with
  | [ops, res, rest, media, crop, trim, rot] => do
    some ⟨← parseList parseOp ops, ← mapM? parseResLevel (res.splitOn "~"), ← parseChain media, ← parseChain crop,
      ← parseOptNat trim, ← parseChain rot, ← parseEdges rest⟩
  | _ => none

def showOptNat' : Option Nat → String
  | none => "!"
  | some n => toString n

def showPageOutT (o : PageOutT) : String :=
  let res := o.res.reverse.map fun p => s!"{kindIx p.1.1}.{p.1.2}.{p.2.1}:{showNats "+" p.2.2}"
  s!"ok/{if res.isEmpty then "-" else joinWith "," res}/{showNats "+" o.rest}/{o.media}.{o.crop}.{showOptNat' o.trim}.{o.rotate}"

def showPageResT : Out PageOutT → String
  | .ok o => showPageOutT o
  | x => x.tag

def showEdge (e : Edge) : String :=
  match e.kind with
  | .prim => s!"p{e.tgt}"
  | .ref => s!"t{e.tgt}"
  | .rc => s!"r{e.tgt}"

def showFrom : Out FromOut → String
  | .ok o =>
    let res := o.res.map fun p => s!"{kindIx p.1.1}.{p.1.2}.{p.2.payload}:{if p.2.kids.isEmpty then "-" else joinWith "+" (p.2.kids.map showEdge)}"
    s!"ok/{if res.isEmpty then "-" else joinWith "," res}/{o.media}.{o.crop}.{showOptNat' o.trim}.{o.rotate}"
  | x => x.tag

def showPageRes : Out PageOut → String
  | .ok o => showPageOut o
  | x => x.tag

def runOld (f : Nat) (src : Src) : List Edge → St → List String × St
  | [], st => ([], st)
  | e :: es, st =>
    match Old.cloneRef f src e st with
    | (.ok n, st1) => let rs := runOld f src es st1; (s!"ok.{n}" :: rs.1, rs.2)
    | (o, st1) => ([o.tag], st1)

def handle (args : List String) : String :=
  match args with
  | ["c20.clone", fuel, next, nodes, roots] =>
    match natOf fuel, natOf next, parseNodes nodes, parseEdges roots with
    | some f, some n, some ns, some rs =>
      let r := cloneRoots f (srcOf ns) rs (St.init n)
      s!"{if r.1.isEmpty then "-" else joinWith "," (r.1.map showOut)}|{showSt r.2}"
    | _, _, _, _ => "bad-request"
  | ["c20.old.clone", fuel, next, nodes, roots] =>
    match natOf fuel, natOf next, parseNodes nodes, parseEdges roots with
    | some f, some n, some ns, some rs =>
      let r := runOld f (srcOf ns) rs (St.init n)
      s!"{if r.1.isEmpty then "-" else joinWith "," r.1}|{showSt r.2}"
    | _, _, _, _ => "bad-request"
  | "c20.page" :: fuel :: next :: nodes :: pages =>
    match natOf fuel, natOf next, parseNodes nodes, mapM? parsePage pages with
    | some f, some n, some ns, some ps =>
      let r := clonePages f (srcOf ns) ps (St.init n)
      s!"{if r.1.isEmpty then "-" else joinWith " " (r.1.map showPageRes)}|{showSt r.2}"
    | _, _, _, _ => "bad-request"
  | "c20.tpage" :: fuel :: next :: nodes :: pages =>
    match natOf fuel, natOf next, parseNodes nodes, mapM? parsePageT pages with
    | some f, some n, some ns, some ps =>
      let r := clonePagesT f (srcOf ns) ps (St.init n)
      s!"{if r.1.isEmpty then "-" else joinWith " " (r.1.map showPageResT)}|{showSt r.2}"
    | _, _, _, _ => "bad-request"
  | ["c20.frompage", page] =>
    match parsePageT page with
    | some p => showFrom (fromPageT p)
    | none => "bad-request"
  | _ => "bad-request"

end DrvC20
