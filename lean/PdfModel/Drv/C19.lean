import PdfModel.Core.Proto
import PdfModel.Model.Widths
import PdfModel.Model.CMap
import PdfModel.Spec.CMapSpellCheck
import PdfModel.Model.FontEncoding

/-! Line-protocol handler for the C19 streams. Width values are f32 bit patterns (decimal).

  c19.w <dw> <items> <codes> [@tag]
      items (`,` separated, `-` for none):  i<int>:<bits> | r<bits> | [e;e;…] | {e;e;…} (reference to an array)
                                            | X (reference to something else) | O (other primitive)
      elements inside […]/{…}: i<int>:<bits> | r<bits> | O ; `[]` is the empty array
      codes: `,` separated
    → `ok <bits>,<bits>,…` | err | panic
  c19.simple <first> <w,w,…|-|none> <codes> [@tag]       → `ok <bits>,…`
  c19.fontw <font> <codes> [@tag]      → `ok <bits>,…` | none | err      (`Font::widths` by subtype)
      font: S/<first|none>/<w,w,…|-|none>/<missing|none>   Type1 / TrueType
          | C/<dw>/<items>  CIDFontType0/2 | O  MMType1 / Type3 | T/  Type0 without descendant | T/<font>  Type0 over <font>
  c19.diff <items|-> <codes> [@tag]    → `ok <name|->,…` | err          items `,`-separated: i<int> | n<name id> | O
  c19.diffwrite <code=name;…|-> [@tag] → `ok <items>` | panic
  c19.parse <hex> [@tag]        → `ok cid=u+u,cid=…` (sorted by cid, newest binding; `-` for the empty map) | err | unmodelled | oof
  c19.write <cid=u+u;cid=…|-> [@tag]   → `ok <hex>` | panic
  statement side (certifies that what the harness generated lies in the domain of `cmap_reads_spelling`):
  c19.conf <entries|-> <hex> [@tag]    → `1` if the text is a conformant spelling of the entries (sound checker
                                          `spellsCheck`), else `0`
      entries `;`-separated: c:<cid>:<str> | s:<lo>:<str>|<str>|… | a:<lo>:<str>|<str>|… ; str = u+u+… or `e` (empty)
-/

namespace DrvC19
open Proto

def parseElem (s : String) : Option (Widths.WP Nat) :=
  if s == "O" then some .other
  else if s == "X" then some .refOther
  else if s.startsWith "r" then (natOf (s.drop 1).toString).map .real
  else if s.startsWith "i" then
    match (s.drop 1).toString.splitOn ":" with
    | [i, b] => do some (.int (← intOf i) (← natOf b))
    | _ => none
  else none

def parseList (s : String) : Option (List (Widths.WP Nat)) :=
  if s.isEmpty then some [] else mapM? parseElem (s.splitOn ";")

def parseItem (s : String) : Option (Widths.WP Nat) :=
  if s.startsWith "[" && s.endsWith "]" then (parseList ((s.drop 1).dropEnd 1).toString).map .arr
  else if s.startsWith "{" && s.endsWith "}" then (parseList ((s.drop 1).dropEnd 1).toString).map .refArr
  else parseElem s

def parseItems (s : String) : Option (List (Widths.WP Nat)) :=
  if s == "-" then some [] else mapM? parseItem (s.splitOn ",")

def parseNats (s : String) : Option (List Nat) :=
  if s == "-" then some [] else mapM? natOf (s.splitOn ",")

def showGets (w : Widths.Widths Nat) (codes : List Nat) : String :=
  "ok " ++ joinWith "," (codes.map fun c => toString (w.get c))

def insertSorted (k : Nat) (v : List Nat) : List (Nat × List Nat) → List (Nat × List Nat)
  | [] => [(k, v)]
  | (k', v') :: r => if k < k' then (k, v) :: (k', v') :: r else if k = k' then (k, v) :: r else (k', v') :: insertSorted k v r

def showMap (m : CMap.Map) : String :=
  let sorted := m.reverse.foldl (fun acc e => insertSorted e.1 e.2 acc) []
  if sorted.isEmpty then "ok -" else
  "ok " ++ joinWith "," (sorted.map fun e => s!"{e.1}={joinWith "+" (e.2.map toString)}")

def parseEntry (s : String) : Option CMap.Entry :=
  match s.splitOn "=" with
  | [k, v] => do
    let k ← natOf k
    let v ← if v.isEmpty then some [] else mapM? natOf (v.splitOn "+")
    some (k, v)
  | _ => none

def parseUStr (s : String) : Option (List Nat) :=
  if s == "e" then some [] else mapM? natOf (s.splitOn "+")

def parseEnt (s : String) : Option CMap.Ent :=
  match s.splitOn ":" with
  | ["c", cid, str] => do some (.char (← natOf cid) (← parseUStr str))
  | ["s", lo, strs] => do some (.rstr (← natOf lo) (← mapM? parseUStr (strs.splitOn "|")))
  | ["a", lo, strs] => do some (.rarr (← natOf lo) (← mapM? parseUStr (strs.splitOn "|")))
  | _ => none

partial def parseFont (s : String) : Option (Widths.FontM Nat) :=
  if s == "O" then some .other
  else if s == "T/" then some (.type0 [])
  else if s.startsWith "T/" then (parseFont (s.drop 2).toString).map (fun d => .type0 [d])
  else match s.splitOn "/" with
    | ["S", first, ws, mw] => do
      let first ← if first == "none" then some none else (intOf first).map some
      let ws ← if ws == "none" then some none else (parseNats ws).map some
      let mw ← if mw == "none" then some none else (natOf mw).map some
      some (.simple first ws mw)
    | ["C", dw, items] => do some (.cid (← natOf dw) (← parseItems items))
    | _ => none

def parseDP (s : String) : Option (FontEncoding.DP Nat) :=
  if s == "O" then some .other
  else if s.startsWith "i" then (intOf (s.drop 1).toString).map .int
  else if s.startsWith "n" then (natOf (s.drop 1).toString).map .name
  else none

def showDP : FontEncoding.DP Nat → String
  | .int i => s!"i{i}"
  | .name n => s!"n{n}"
  | .other => "O"

def dropTag (args : List String) : List String :=
  match args.getLast? with
  | some t => if t.startsWith "@" then args.dropLast else args
  | none => args

def handle (args : List String) : String :=
  match dropTag args with
  | ["c19.w", dw, items, codes] =>
    match natOf dw, parseItems items, parseNats codes with
    | some dw, some items, some codes =>
      match Widths.cidWidths dw items with
      | .ok w => showGets w codes
      | o => o.tag
    | _, _, _ => "bad-request"
  | ["c19.simple", first, ws, codes] =>
    match intOf first, (if ws == "none" then some none else (parseNats ws).map some), parseNats codes with
    | some first, some ws, some codes => showGets (Widths.simpleWidths 0 first ws) codes
    | _, _, _ => "bad-request"
  | ["c19.fontw", font, codes] =>
    match parseFont font, parseNats codes with
    | some f, some codes =>
      match Widths.widthsOf 0 f with
      | .ok (some w) => showGets w codes
      | .ok none => "none"
      | o => o.tag
    | _, _ => "bad-request"
  | ["c19.diff", items, codes] =>
    match (if items == "-" then some [] else mapM? parseDP (items.splitOn ",")), parseNats codes with
    | some items, some codes =>
      match FontEncoding.readDiffs 0 items [] with
      | .ok m => "ok " ++ joinWith "," (codes.map fun c => match m.get c with | some n => toString n | none => "-")
      | o => o.tag
    | _, _ => "bad-request"
  | ["c19.diffwrite", entries] =>
    match (if entries == "-" then some [] else mapM? (fun e => match e.splitOn "=" with | [k, v] => do some ((← natOf k), (← natOf v)) | _ => none) (entries.splitOn ";")) with
    | some es =>
      match FontEncoding.writeDiffs none es with
      | .ok items => if items.isEmpty then "ok -" else "ok " ++ joinWith "," (items.map showDP)
      | o => o.tag
    | none => "bad-request"
  | ["c19.parse", hex] =>
    match bytesOfHex hex with
    | some bs =>
      match CMap.parseCMap bs with
      | .ok m => showMap m
      | .err => "err"
      | .unmodelled => "unmodelled"
      | .oof => "oof"
    | none => "bad-request"
  | ["c19.conf", entries, hex] =>
    match (if entries == "-" then some [] else mapM? parseEnt (entries.splitOn ";")), bytesOfHex hex with
    | some es, some bs => showBool (CMap.spellsCheck es bs)
    | _, _ => "bad-request"
  | ["c19.write", entries] =>
    match (if entries == "-" then some [] else mapM? parseEntry (entries.splitOn ";")) with
    | some es =>
      match CMap.writeCMap es with
      | .ok bs => "ok " ++ hexOfBytes bs
      | .panic => "panic"
    | none => "bad-request"
  | _ => "bad-request"

end DrvC19
