import PdfModel.Core.Proto
import PdfModel.Model.Widths
import PdfModel.Model.CMap
import PdfModel.Spec.CMapSpellCheck

/-! Line-protocol handler for the C19 streams. Width values are f32 bit patterns (decimal).

  c19.w <dw> <items> <codes> [@tag]
      items (`,` separated, `-` for none):  i<int>:<bits> | r<bits> | [e;e;…] | {e;e;…} (reference to an array)
                                            | X (reference to something else) | O (other primitive)
      elements inside […]/{…}: i<int>:<bits> | r<bits> | O ; `[]` is the empty array
      codes: `,` separated
    → `ok <bits>,<bits>,…` | err | panic
  c19.simple <first> <w,w,…|-|none> <codes> [@tag]       → `ok <bits>,…`
  c19.parse <hex> [@tag]        → `ok cid=u+u,cid=…` (sorted by cid, newest binding; `-` for the empty map) | err | unmodelled | oof
  c19.write <cid=u+u;cid=…|-> [@tag]   → `ok <hex>` | panic
  statement side (certifies that what the harness generated lies in the domain of `cmap_reads_spelling`):
  c19.conf <entries|-> <hex> [@tag]    → `1` if the text is a conformant spelling of the entries (sound checker
                                          `spellsCheck`), else `0`
      entries `;`-separated: c:<cid>:<str> | s:<lo>:<str>|<str>|… | a:<lo>:<str>|<str>|… ; str = u+u+… or `e` (empty)
-/

namespace DrvC19
open Proto

def parseElem (s : String) : Option (Widths.WP Nat) :=
  if s == "O" then some .other
  else if s == "X" then some .refOther
  else if s.startsWith "r" then (natOf (s.drop 1).toString).map .real
  else if s.startsWith "i" then
    match (s.drop 1).toString.splitOn ":" with
    | [i, b] => do some (.int (← intOf i) (← natOf b))
    | _ => none
  else none

def parseList (s : String) : Option (List (Widths.WP Nat)) :=
  if s.isEmpty then some [] else mapM? parseElem (s.splitOn ";")

def parseItem (s : String) : Option (Widths.WP Nat) :=
  if s.startsWith "[" && s.endsWith "]" then (parseList ((s.drop 1).dropEnd 1).toString).map .arr
  else if s.startsWith "{" && s.endsWith "}" then (parseList ((s.drop 1).dropEnd 1).toString).map .refArr
  else parseElem s

def parseItems (s : String) : Option (List (Widths.WP Nat)) :=
  if s == "-" then some [] else mapM? parseItem (s.splitOn ",")

def parseNats (s : String) : Option (List Nat) :=
  if s == "-" then some [] else mapM? natOf (s.splitOn ",")

def showGets (w : Widths.Widths Nat) (codes : List Nat) : String :=
  "ok " ++ joinWith "," (codes.map fun c => toString (w.get c))

def insertSorted (k : Nat) (v : List Nat) : List (Nat × List Nat) → List (Nat × List Nat)
  | [] => [(k, v)]
  | (k', v') :: r => if k < k' then (k, v) :: (k', v') :: r else if k = k' then (k, v) :: r else (k', v') :: insertSorted k v r

def showMap (m : CMap.Map) : String :=
  let sorted := m.reverse.foldl (fun acc e => insertSorted e.1 e.2 acc) []
  if sorted.isEmpty then "ok -" else
  "ok " ++ joinWith "," (sorted.map fun e => s!"{e.1}={joinWith "+" (e.2.map toString)}")

def parseEntry (s : String) : Option CMap.Entry :=
  match s.splitOn "=" with
  | [k, v] => do
    let k ← natOf k
    let v ← if v.isEmpty then some [] else mapM? natOf (v.splitOn "+")
    some (k, v)
  | _ => none

def parseUStr (s : String) : Option (List Nat) :=
  if s == "e" then some [] else mapM? natOf (s.splitOn "+")

def parseEnt (s : String) : Option CMap.Ent :=
  match s.splitOn ":" with
  | ["c", cid, str] => do some (.char (← natOf cid) (← parseUStr str))
  | ["s", lo, strs] => do some (.rstr (← natOf lo) (← mapM? parseUStr (strs.splitOn "|")))
  | ["a", lo, strs] => do some (.rarr (← natOf lo) (← mapM? parseUStr (strs.splitOn "|")))
  | _ => none

def dropTag (args : List String) : List String :=
  match args.getLast? with
  | some t => if t.startsWith "@" then args.dropLast else args
  | none => args

def handle (args : List String) : String :=
  match dropTag args with
  | ["c19.w", dw, items, codes] =>
    match natOf dw, parseItems items, parseNats codes with
    | some dw, some items, some codes =>
      match Widths.cidWidths dw items with
      | .ok w => showGets w codes
      | o => o.tag
    | _, _, _ => "bad-request"
  | ["c19.simple", first, ws, codes] =>
    match intOf first, (if ws == "none" then some none else (parseNats ws).map some), parseNats codes with
    | some first, some ws, some codes => showGets (Widths.simpleWidths 0 first ws) codes
    | _, _, _ => "bad-request"
  | ["c19.parse", hex] =>
    match bytesOfHex hex with
    | some bs =>
      match CMap.parseCMap bs with
      | .ok m => showMap m
      | .err => "err"
      | .unmodelled => "unmodelled"
      | .oof => "oof"
    | none => "bad-request"
  | ["c19.conf", entries, hex] =>
    match (if entries == "-" then some [] else mapM? parseEnt (entries.splitOn ";")), bytesOfHex hex with
    | some es, some bs => showBool (CMap.spellsCheck es bs)
    | _, _ => "bad-request"
  | ["c19.write", entries] =>
    match (if entries == "-" then some [] else mapM? parseEntry (entries.splitOn ";")) with
    | some es =>
      match CMap.writeCMap es with
      | .ok bs => "ok " ++ hexOfBytes bs
      | .panic => "panic"
    | none => "bad-request"
  | _ => "bad-request"

end DrvC19
