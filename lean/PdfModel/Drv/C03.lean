import PdfModel.Core.Proto
import PdfModel.Model.Parser
import PdfModel.Model.ParserCursor
import PdfModel.Model.Crypt
import PdfModel.Model.Serialize
import PdfModel.Spec.Render
import PdfModel.Drv.Obj

/-! Line-protocol handler for the C03 streams (bytes as hex, `-` = empty).

  c03.word <buf> <pos>                 Lexer::next           → ok <start> <stop> | err | panic
  c03.peek <buf> <pos>                 Lexer::peek           → ok <start> <stop>
  c03.back <buf> <pos>                 Lexer::back           → ok <start> <stop>
  c03.expect <buf> <pos> <word>        Lexer::next_expect    → ok <pos>
  c03.nextstream <buf> <pos>           Lexer::next_stream    → ok <pos>
  c03.readn <buf> <pos> <n>            Lexer::read_n         → ok <start> <stop> <pos>
  c03.setpos <buf> <pos> <wanted>      Lexer::set_pos        → ok <pos>
  c03.offsetpos <buf> <pos> <off>      Lexer::offset_pos     → ok <pos>
  c03.class <byte>                     → <ws><delim><hexws><octal> <nibble|-> <hexdigit|->
  c03.tok <tok>                        → <isint> <real|none> <i32|none> <u64|none> <name|err>
  c03.utf8 <bytes>                     → 0 | 1
  c03.floattext <bytes>                → 0 | 1   (does the driver's `parseReal` accept the text: assumed = f32::from_str)
  c03.litstr <buf> <pos>               StringLexer loop      → ok <bytes> <pos>
  c03.hexstr <buf> <pos>               HexStringLexer loop   → ok <bytes> <pos>
  c03.parse <mode> <buf> <pos> <flags> <fileoff> <lens> [<id>.<gen>]
        mode plain: parse_with_lexer         → ok <value> <pos>
        mode ind0 / ind1: parse_indirect_object (allow_missing_endobj 0/1) → ok <id>.<gen> <value> <pos>
        mode stm: parse_stream (id.gen of the context)  → ok <value> <pos>
  c03.parsec <buf> <pos> <flags> <fileoff> <lens>   parse_with_lexer with the cursor afterwards (Model/ParserCursor)
                                       → ok <value> <pos> <cursor> | err <cursor> | panic
  c03.parsedec ind0|ind1 <buf> <pos> <flags> <fileoff> <lens> <objkey>   parse_indirect_object with a decoder whose
                                       per-object RC4 key is <objkey> → ok <id>.<gen> <value> <pos> | err | panic
  c03.tails                            → the tails of Spec/Render.tails, hex, comma separated
  c03.render val <value> <tape> <tail>          → <bytes>   (Spec/Render.renderWithTail)
  c03.render ind <value> <tape> <tail> <id> <gen>
  c03.render seq <A[values]> <tape> <tail>
-/

namespace DrvC03
open PdfLex Proto DrvObj

def bufOf (s : String) : Option Buf := (bytesOfHex s).map List.toArray

def showOut {α : Type} (f : α → String) : Out α → String
  | .ok a => "ok " ++ f a
  | o => o.tag

def showPair (w : Nat × Nat) : String := s!"{w.1} {w.2}"

def showOptBytes : Option (List UInt8) → String
  | some b => hexOfBytes b
  | none => "none"

def b01 (b : Bool) : String := if b then "1" else "0"

def handleParse (mode : String) (buf : Buf) (pos flags off : Nat) (lens : List ((Nat × Nat) × Nat)) (ctxId : Option (Nat × Nat)) : String :=
  let fuel := defaultFuel buf
  match mode, ctxId with
  | "plain", _ =>
    showOut (fun (r : V × Nat) => s!"{showVal r.1} {r.2}") (parseWithLexer (mkEnv false off lens) buf fuel pos flags)
  | "ind0", _ =>
    showOut (fun (r : ((Nat × Nat) × V) × Nat) => s!"{r.1.1.1}.{r.1.1.2} {showVal r.1.2} {r.2}")
      (parseIndirectObject (mkEnv false off lens) buf fuel pos flags)
  | "ind1", _ =>
    showOut (fun (r : ((Nat × Nat) × V) × Nat) => s!"{r.1.1.1}.{r.1.1.2} {showVal r.1.2} {r.2}")
      (parseIndirectObject (mkEnv true off lens) buf fuel pos flags)
  | "stm", some id =>
    showOut (fun (r : V × Nat) => s!"{showVal r.1} {r.2}") (parseStream (mkEnv false off lens) buf fuel pos id)
  | _, _ => "bad-request"

def idOf (s : String) : Option (Nat × Nat) :=
  match s.splitOn "." with
  | [a, b] => do some (← natOf a, ← natOf b)
  | _ => none

def handle (args : List String) : String :=
  match args with
  | ["c03.word", b, p] =>
    match bufOf b, natOf p with
    | some buf, some pos => showOut showPair (next buf pos)
    | _, _ => "bad-request"
  | ["c03.peek", b, p] =>
    match bufOf b, natOf p with
    | some buf, some pos => showOut showPair (peek buf pos)
    | _, _ => "bad-request"
  | ["c03.back", b, p] =>
    match bufOf b, natOf p with
    | some buf, some pos => showOut showPair (back buf pos)
    | _, _ => "bad-request"
  | ["c03.expect", b, p, w] =>
    match bufOf b, natOf p, bytesOfHex w with
    | some buf, some pos, some word => showOut toString (nextExpect buf pos word)
    | _, _, _ => "bad-request"
  | ["c03.nextstream", b, p] =>
    match bufOf b, natOf p with
    | some buf, some pos => showOut toString (nextStream buf pos)
    | _, _ => "bad-request"
  | ["c03.readn", b, p, n] =>
    match bufOf b, natOf p, natOf n with
    | some buf, some pos, some n => showOut (fun (r : (Nat × Nat) × Nat) => s!"{r.1.1} {r.1.2} {r.2}") (readN buf pos n)
    | _, _, _ => "bad-request"
  | ["c03.setpos", b, p, n] =>
    match bufOf b, natOf p, natOf n with
    | some buf, some pos, some n => showOut toString (setPos buf pos n)
    | _, _, _ => "bad-request"
  | ["c03.offsetpos", b, p, n] =>
    match bufOf b, natOf p, natOf n with
    | some buf, some pos, some n => showOut toString (offsetPos buf pos n)
    | _, _, _ => "bad-request"
  | ["c03.class", x] =>
    match natOf x with
    | some n =>
      if n > 255 then "bad-request" else
      let b := UInt8.ofNat n
      let opt (o : Option UInt8) : String := match o with | some v => toString v.toNat | none => "-"
      s!"{b01 (isWhitespace b)}{b01 (isDelimiter b)}{b01 (isHexWs b)}{b01 (isOctal b)} {opt (decodeNibble b)} {opt (hexDigitVal b)}"
    | none => "bad-request"
  | ["c03.tok", t] =>
    match bytesOfHex t with
    | some tok =>
      let i32 := match parseI32 tok with | some i => toString i | none => "none"
      let u64 := match parseU64 tok with | some i => toString i | none => "none"
      let nm := match decodeName tok with | .ok s => hexOfBytes s | o => o.tag
      s!"{b01 (isInteger tok)} {showOptBytes (realNumber tok)} {i32} {u64} {nm}"
    | none => "bad-request"
  | ["c03.utf8", t] =>
    match bytesOfHex t with
    | some bs => b01 (utf8Valid bs)
    | none => "bad-request"
  | ["c03.floattext", t] =>
    match bytesOfHex t with
    | some bs => b01 (validFloatText bs)
    | none => "bad-request"
  | ["c03.litstr", b, p] =>
    match bufOf b, natOf p with
    | some buf, some pos =>
      showOut (fun (r : List UInt8 × Nat) => s!"{hexOfBytes r.1} {r.2}") (collectString buf (buf.size - pos + 2) pos 0 [])
    | _, _ => "bad-request"
  | ["c03.hexstr", b, p] =>
    match bufOf b, natOf p with
    | some buf, some pos =>
      showOut (fun (r : List UInt8 × Nat) => s!"{hexOfBytes r.1} {r.2}") (collectHex buf pos (buf.size - pos + 2) pos [])
    | _, _ => "bad-request"
  | ["c03.parse", mode, b, p, f, off, lens] =>
    match bufOf b, natOf p, natOf f, natOf off, lenMapOf lens with
    | some buf, some pos, some flags, some off, some lens => handleParse mode buf pos flags off lens none
    | _, _, _, _, _ => "bad-request"
  | ["c03.parse", mode, b, p, f, off, lens, id] =>
    match bufOf b, natOf p, natOf f, natOf off, lenMapOf lens, idOf id with
    | some buf, some pos, some flags, some off, some lens, some id => handleParse mode buf pos flags off lens (some id)
    | _, _, _, _, _, _ => "bad-request"
  | ["c03.parsec", b, p, f, off, lens] =>
    match bufOf b, natOf p, natOf f, natOf off, lenMapOf lens with
    | some buf, some pos, some flags, some off, some lens =>
      match parseWithLexerC (mkEnv false off lens) buf (defaultFuel buf) pos flags with
      | (.ok r, c) => s!"ok {showVal r.1} {r.2} {c}"
      | (.err, c) => s!"err {c}"
      | (o, _) => o.tag
    | _, _, _, _, _ => "bad-request"
  | ["c03.parsedec", mode, b, p, f, off, lens, key] =>
    -- parse_indirect_object with a decoder: every string of the object is RC4-decrypted with the object key `key`
    -- (computed by the harness from the file key, the object number and the generation)
    match bufOf b, natOf p, natOf f, natOf off, lenMapOf lens, bytesOfHex key with
    | some buf, some pos, some flags, some off, some lens, some key =>
      let env0 := mkEnv (mode == "ind1") off lens
      let env : Env (List UInt8) := { env0 with decrypt := some fun _ _ s => Crypt.rc4Encrypt key s }
      if mode == "ind0" || mode == "ind1" then
        showOut (fun (r : ((Nat × Nat) × V) × Nat) => s!"{r.1.1.1}.{r.1.1.2} {showVal r.1.2} {r.2}")
          (parseIndirectObject env buf (defaultFuel buf) pos flags)
      else "bad-request"
    | _, _, _, _, _, _ => "bad-request"
  | ["c03.tails"] => joinWith "," (PdfSpec.tails.map hexOfBytes)
  | ["c03.render", "val", v, tape, tail] =>
    match valOf v, tapeOf tape, bytesOfHex tail with
    | some v, some tape, some tail => hexOfBytes (PdfSpec.renderWithTail id v tail tape).1
    | _, _, _ => "bad-request"
  | ["c03.render", "ind", v, tape, tail, i, g] =>
    match valOf v, tapeOf tape, bytesOfHex tail, natOf i, natOf g with
    | some v, some tape, some tail, some i, some g => hexOfBytes (PdfSpec.renderIndirect id i g v tail tape).1
    | _, _, _, _, _ => "bad-request"
  | ["c03.render", "seq", v, tape, tail] =>
    match valOf v, tapeOf tape, bytesOfHex tail with
    | some (.arr vs), some tape, some tail => hexOfBytes (PdfSpec.renderSeq id vs tail tape).1
    | _, _, _ => "bad-request"
  | _ => "bad-request"

end DrvC03
