import PdfModel.Drv.C12
import PdfModel.Model.Concurrent

/-! Line-protocol handler for the C13 streams: replays a schedule on the transition system.

  c13.replay <guard> <cfg> <tol> <size> <root> <objs> <threads> <schedule>
     guard     `0` one guard stack per thread (the code under test) | `1` one stack shared by all threads (before D29)
               | `2` as `0`, and the callbacks into the user's `Log` are steps of their own (`Cfg.cb`)
     cfg tol size root objs   as in `c12.run`; the file is opened sequentially (catalog loaded) before the threads start
     threads   `/`-separated, per thread the `;`-separated calls of `c12.run` (`-` = none)
     schedule  `.`-separated thread numbers (`-` = empty)
  → `<trace>|<results>|<final>|<enabled>`
     trace     `.`-separated, per scheduled step where the thread stands afterwards:
               `t` between calls | `lg<r>` inside `Log::log_get(r)` | `lo<r>` inside the first `Log::load_object(r)` of a
               compute / reload run | `e<r>` entry of get | `p<r>` guard pushed | `w<r>` waiting for the slot
               | `s<r>` before the store | `o<r>` before the pop | `d` finished | `x` panicked
               | `!` the step was not enabled (replay stops)
     results   `/`-separated per thread, the `;`-separated answers of its completed calls
     final     `done` | `running` | `deadlock` | `panic`
     enabled   `.`-separated, per scheduled step the threads that were enabled before it (thread numbers
               concatenated): compared with what the baton scheduler saw, so that a step the model allows and
               the code does not (or the other way round) shows up
-/

namespace DrvC13
open Cache CacheDoc Conc Proto DrvC12

def status (t : Thread Val String) : String :=
  match t.ctl, t.stack with
  | .start, _ => "t"
  | .enter _ r _, _ => s!"e{r}"
  | .pushed _ r _, _ => s!"p{r}"
  | .waiting _ r _, _ => s!"w{r}"
  | .logging _ r _, _ => s!"lg{r}"
  | .loading r _, _ => s!"lo{r}"
  | .storing _, f :: _ => s!"s{f.r}"
  | .storing _, [] => "s?"
  | .popping _ r _ _, _ => s!"o{r}"
  | .done, _ => "d"
  | .panicked, _ => "x"

/-- the threads that can take a step, as a string of thread numbers -/
def enabledSet (doc : Doc Val String) (cfg : Conc.Cfg) (s : State Val String) : String :=
  String.join (((List.range s.threads.length).filter fun i => s.enabled doc cfg i).map toString)

/-- per step: where the thread stands afterwards, and which threads were enabled before the step -/
def replay (doc : Doc Val String) (cfg : Conc.Cfg) : State Val String → List Nat → List String → List String →
    List String × List String × State Val String
  | s, [], acc, en => (acc.reverse, en.reverse, s)
  | s, i :: is, acc, en =>
    match step doc cfg s i with
    | none => (("!" :: acc).reverse, (enabledSet doc cfg s :: en).reverse, s)
    | some s' =>
      match s'.threads[i]? with
      | some t => replay doc cfg s' is (status t :: acc) (enabledSet doc cfg s :: en)
      | none => (("?" :: acc).reverse, en.reverse, s')

def slotOf : Entry Val String → Slot Val String
  | .val T v => .computed T (.ok v)
  | .err e => .computed 0 (.err e)

def parseThreads (s : String) : Option (List (List CallK)) :=
  mapM? parseCalls (s.splitOn "/")

def parseSched (s : String) : Option (List Nat) :=
  if s == "-" then some [] else mapM? natOf (s.splitOn ".")

def finalOf (doc : Doc Val String) (cfg : Conc.Cfg) (s : State Val String) : String :=
  if s.anyPanic then "panic"
  else if s.allDone then "done"
  else if s.deadlocked doc cfg then "deadlock"
  else "running"

def runAll (d : Desc) (guard : Bool) (cb : Bool) (ccfg : Cache.Cfg) (rootId : Nat) (threads : List (List CallK)) (sched : List Nat) : String :=
  let doc := toDoc d
  let o := call doc ccfg (d.size + d.objs.length + 4) St.empty (getP tC rootId)
  match o.1 with
  | .ok _ =>
    let cfg : Conc.Cfg := ⟨ccfg.objCache, ccfg.stmCache, guard, cb⟩
    let slots := o.2.obj.map fun p => (p.1, slotOf p.2)
    let s0 : State Val String := State.init slots o.2.stm (threads.map fun cs => cs.map fun c => c.prog d o.1)
    let r := replay doc cfg s0 sched [] []
    let results := r.2.2.threads.map fun t => joinWith ";" (t.out.map renderRes)
    s!"{joinWith "." r.1}|{joinWith "/" results}|{finalOf doc cfg r.2.2}|{joinWith "." r.2.1}"
  | x => s!"open-failed:{renderRes x}"

def handleSched (args : List String) : String :=
  match args with
  | ["c13.replay", guard, cfg, tol, size, root, objs, threads, sched] =>
    match natOf guard, parseCfg cfg, boolOf tol, natOf size, natOf root, parseObjs objs, parseThreads threads, parseSched sched with
    | some guard, some cfg, some tol, some size, some root, some objs, some threads, some sched =>
      runAll ⟨size, tol, objs⟩ (guard == 1) (guard == 2) cfg root threads sched
    | _, _, _, _, _, _, _, _ => "bad-request"
  | _ => "bad-request"

end DrvC13
