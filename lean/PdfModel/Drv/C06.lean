import PdfModel.Core.Proto
import PdfModel.Model.Crypt
import PdfModel.Spec.Primitives

/-! Line-protocol handler for the C06 streams.

  Tables `T`: `-` or entries joined by `,`:
     `m:<in>:<out>` MD5, `s2:`/`s3:`/`s5:` SHA-256/384/512, `a:<key>:<in>:<out>` one AES block (`E_key(in) = out`,
     looked up in both directions), `p:<in>:<out|err>` SASLprep of a password.
  Every `m`/`s*`/`a` entry is first cross-checked against the Lean-native primitive (`bad-table` otherwise).
  The model may only look inputs up: a missing entry makes the model answer `miss`. Mode 0: tables
  only. Mode 1 (revision 6, in-domain): SHA-2 and the AES forward function are the Lean-native ones
  (Algorithm 2.B is too bulky for tables); MD5, the AES inverse function and SASLprep stay table-only.
  Mode 2 (out-of-domain streams with malformed dictionaries, for which the harness' implementation of the
  standard has no answer): every primitive but SASLprep is Lean-native.

  c06.rc4 <key> <data>                                             → `ok <hex>` | `panic`
  c06.decrypt <method> <keySize> <key> <encMeta> <id> <gen> <data> <mode> <T>
                                                                   → `ok <hex>` | `err` | `panic` | `miss`
  c06.frompw <dict> <id0> <pass> <probeId> <probeGen> <probeData> <mode> <T>
        dict = `o;u;r;p;v;bits|-;cf;stmF|-;encMeta|-;oe|-;ue|-` (`_` stands for an empty byte string here),
        cf = `~` or `name=method.len|-` joined by `+`
                                                                   → `ok <key()> <method> <probe>` | `badpw` | `err` | `panic` | `miss`
  c06.doc <dict> <id0> <pass> <encRef|-> <metaRef|-> <mode> <objects> <T>
        objects joined by `|`: `id.gen.c|d.v|s.items`, items = `~` or hex strings joined by `/`
        (for `s` the last item is the raw stream data)
                                                                   → `ok <per object: ok:items | err | panic | miss>` | `badpw` | …
-/

namespace DrvC06
open Crypt Proto

structure Tables where
  md5 : List (Bytes × Bytes) := []
  s2 : List (Bytes × Bytes) := []
  s3 : List (Bytes × Bytes) := []
  s5 : List (Bytes × Bytes) := []
  aes : List (Bytes × Bytes × Bytes) := []
  prep : List (Bytes × Option Bytes) := []

def hx (s : String) : Option Bytes := bytesOfHex s

def parseEntry (t : Tables) (e : String) : Option Tables :=
  match e.splitOn ":" with
  | ["m", i, o] => do some { t with md5 := (← hx i, ← hx o) :: t.md5 }
  | ["s2", i, o] => do some { t with s2 := (← hx i, ← hx o) :: t.s2 }
  | ["s3", i, o] => do some { t with s3 := (← hx i, ← hx o) :: t.s3 }
  | ["s5", i, o] => do some { t with s5 := (← hx i, ← hx o) :: t.s5 }
  | ["a", k, i, o] => do some { t with aes := (← hx k, ← hx i, ← hx o) :: t.aes }
  | ["p", i, "err"] => do some { t with prep := (← hx i, none) :: t.prep }
  | ["p", i, o] => do some { t with prep := (← hx i, some (← hx o)) :: t.prep }
  | _ => none

def parseTables (s : String) : Option Tables :=
  if s == "-" then some {} else (s.splitOn ",").foldlM parseEntry {}

/-- cross-check of the harness' tables against the Lean-native primitives -/
def badEntry (t : Tables) : Option String :=
  if let some (i, _) := t.md5.find? (fun (i, o) => Prim.md5 i != o) then some s!"m:{hexOfBytes i}"
  else if let some (i, _) := t.s2.find? (fun (i, o) => Prim.sha256 i != o) then some s!"s2:{hexOfBytes i}"
  else if let some (i, _) := t.s3.find? (fun (i, o) => Prim.sha384 i != o) then some s!"s3:{hexOfBytes i}"
  else if let some (i, _) := t.s5.find? (fun (i, o) => Prim.sha512 i != o) then some s!"s5:{hexOfBytes i}"
  else if let some (k, i, _) := t.aes.find? (fun (k, i, o) => Prim.aesEnc k i != some o) then some s!"a:{hexOfBytes k}:{hexOfBytes i}"
  else none

def look (tbl : List (Bytes × Bytes)) (x : Bytes) : Out Bytes :=
  match tbl.lookup x with
  | some o => .ok o
  | none => .oof

/-- forward cipher with an already expanded key (so that the bulk CBC of Algorithm 2.B expands once) -/
def encWith (rk : Array UInt32) (nr : Nat) (b : Bytes) : Out Bytes :=
  if b.length = 16 then .ok (Prim.aesEncWords rk nr b.toArray).toList else .oof

def nativeEnc (k : Bytes) : Bytes → Out Bytes :=
  if k.length = 16 ∨ k.length = 32 then encWith (Prim.keyWords (Prim.aesExpand k.toArray)) (k.length / 4 + 6) else fun _ => .oof

def ofOpt : Option Bytes → Out Bytes
  | some o => .ok o
  | none => .oof

/-- the primitives handed to the model -/
def prims (t : Tables) (mode : Nat) : Prims :=
  let native := mode ≥ 1
  let all := mode ≥ 2
  { md5 := fun x => if all then .ok (Prim.md5 x) else look t.md5 x
    sha256 := fun x => if native then .ok (Prim.sha256 x) else look t.s2 x
    sha384 := fun x => if native then .ok (Prim.sha384 x) else look t.s3 x
    sha512 := fun x => if native then .ok (Prim.sha512 x) else look t.s5 x
    aesEnc := fun k =>
      if native then nativeEnc k
      else fun b => match t.aes.find? (fun (k', i, _) => k' == k && i == b) with
        | some (_, _, o) => .ok o
        | none => .oof
    aesDec := fun k b =>
      if all then ofOpt (Prim.aesDec k b) else
      match t.aes.find? (fun (k', _, o) => k' == k && o == b) with
      | some (_, i, _) => .ok i
      | none => .oof
    saslprep := fun x =>
      match t.prep.lookup x with
      | some (some o) => .ok o
      | some none => .err
      | none => .oof }

def showOut (o : Out Bytes) : String :=
  match o with
  | .ok b => s!"ok {hexOfBytes b}"
  | .err => "err"
  | .panic => "panic"
  | .oof => "miss"

def parseMethod (s : String) : Option Method :=
  if s == "none" then some .none else if s == "v2" then some .v2
  else if s == "aesv2" then some .aesv2 else if s == "aesv3" then some .aesv3 else none

def showMethod : Method → String
  | .none => "none" | .v2 => "v2" | .aesv2 => "aesv2" | .aesv3 => "aesv3"

def optField {α : Type} (f : String → Option α) (s : String) : Option (Option α) :=
  if s == "-" then some none else (f s).map some

/-- inside `;`-separated records the empty byte string is `_` (so that `-` can mean "absent") -/
def hx' (s : String) : Option Bytes := if s == "_" then some [] else hx s

def parseCf (s : String) : Option (List (Bytes × CryptFilter)) :=
  if s == "~" then some [] else
  mapM? (fun e => match e.splitOn "=" with
    | [n, ml] => match ml.splitOn "." with
      | [m, l] => do some (← hx' n, { method := ← parseMethod m, length := ← optField natOf l })
      | _ => none
    | _ => none) (s.splitOn "+")

def parseDict (s : String) : Option CryptDict :=
  match s.splitOn ";" with
  | [o, u, r, p, v, bits, cf, stmF, em, oe, ue] => do
    let raw : RawCryptDict := {
      o := ← hx' o, u := ← hx' u, r := ← natOf r, p := ← intOf p, v := ← intOf v,
      bits := ← optField natOf bits, cf := ← parseCf cf, stmF := ← optField hx' stmF,
      encryptMetadata := ← optField boolOf em, oe := ← optField hx' oe, ue := ← optField hx' ue }
    some raw.toDict
  | _ => none

def parseRef (s : String) : Option (Option (Nat × Nat)) :=
  if s == "-" then some none else
  match s.splitOn "." with
  | [a, b] => do some (some (← natOf a, ← natOf b))
  | _ => none

structure DocObj where
  id : Nat
  gen : Nat
  compressed : Bool
  isStream : Bool
  items : List Bytes

def parseItems (s : String) : Option (List Bytes) :=
  if s == "~" then some [] else mapM? hx (s.splitOn "/")

def parseObj (s : String) : Option DocObj :=
  match s.splitOn "." with
  | [id, gen, c, k, items] => do
    let compressed ← if c == "c" then some true else if c == "d" then some false else none
    let isStream ← if k == "s" then some true else if k == "v" then some false else none
    some { id := ← natOf id, gen := ← natOf gen, compressed, isStream, items := ← parseItems items }
  | _ => none

def showItems (xs : List Bytes) : String :=
  if xs.isEmpty then "~" else joinWith "/" (xs.map hexOfBytes)

def strsOf : Val → List Bytes
  | .arr xs => xs.filterMap fun | .str b => some b | _ => none
  | _ => []

/-- one object of a document: its strings through `readObject`, its stream data through `decodeStream` -/
def readDocObj (P : Prims) (dec : Decoder) (o : DocObj) : String :=
  let (strs, raw) := if o.isStream then (o.items.dropLast, o.items.getLast?) else (o.items, none)
  match readObject P (some dec) o.compressed o.id o.gen (.arr (strs.map .str)) with
  | .ok v =>
    match raw with
    | none => s!"ok:{showItems (strsOf v)}"
    | some r =>
      match decodeStream P (some dec) o.id o.gen r [] with
      | .ok d => s!"ok:{showItems (strsOf v ++ [d])}"
      | .err => "err" | .panic => "panic" | .oof => "miss"
  | .err => "err" | .panic => "panic" | .oof => "miss"

def withTables (ts : String) (k : Tables → String) : String :=
  match parseTables ts with
  | none => "bad-request"
  | some t => match badEntry t with
    | some e => s!"bad-table {e}"
    | none => k t

def handle (args : List String) : String :=
  match args with
  | ["c06.rc4", key, data] =>
    match hx key, hx data with
    | some k, some d => showOut (rc4Encrypt k d)
    | _, _ => "bad-request"
  | ["c06.decrypt", m, ks, key, em, id, gen, data, mode, ts] =>
    match parseMethod m, natOf ks, hx key, boolOf em, natOf id, natOf gen, hx data, natOf mode with
    | some m, some ks, some key, some em, some id, some gen, some data, some mode =>
      withTables ts fun t => showOut (decrypt (prims t mode) (Decoder.mk' key ks m em) id gen data)
    | _, _, _, _, _, _, _, _ => "bad-request"
  | ["c06.frompw", dict, id0, pass, pid, pgen, pdata, native, ts] =>
    match parseDict dict, hx id0, hx pass, natOf pid, natOf pgen, hx pdata, natOf native with
    | some d, some id0, some pass, some pid, some pgen, some pdata, some native =>
      withTables ts fun t =>
        let P := prims t native
        match fromPassword P d id0 pass with
        | .ok (.decoder dec) =>
          let k := match dec.keyOf with | .ok k => hexOfBytes k | .panic => "panic" | _ => "?"
          let probe := match decrypt P dec pid pgen pdata with
            | .ok b => s!"ok:{hexOfBytes b}" | .err => "err" | .panic => "panic" | .oof => "miss"
          s!"ok {k} {showMethod dec.method} {probe}"
        | .ok .invalidPassword => "badpw"
        | .err => "err" | .panic => "panic" | .oof => "miss"
    | _, _, _, _, _, _, _ => "bad-request"
  | ["c06.doc", dict, id0, pass, encRef, metaRef, native, objs, ts] =>
    match parseDict dict, hx id0, hx pass, parseRef encRef, parseRef metaRef, natOf native, mapM? parseObj (objs.splitOn "|") with
    | some d, some id0, some pass, some encRef, some metaRef, some native, some objs =>
      withTables ts fun t =>
        let P := prims t native
        match fromPassword P d id0 pass with
        | .ok (.decoder dec) =>
          let dec := installDecoder dec encRef metaRef
          s!"ok {joinWith "|" (objs.map (readDocObj P dec))}"
        | .ok .invalidPassword => "badpw"
        | .err => "err" | .panic => "panic" | .oof => "miss"
    | _, _, _, _, _, _, _ => "bad-request"
  | _ => "bad-request"

end DrvC06
