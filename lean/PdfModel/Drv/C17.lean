import PdfModel.Core.Proto
import PdfModel.Model.Offsets
import PdfModel.Drv.C02
import PdfModel.Model.OffsetsConcrete
import PdfModel.Model.XrefStreamSection
import PdfModel.Model.ScanLoop
import PdfModel.Drv.Obj

/-! Line-protocol handler for the C17 streams.

  c17.start <hex>        → `ok <pos>` | `err`                      locateStart
  c17.xref <hex>         → `ok <value>` | `err`                    locateXref
  c17.xrefc <hex>        → `ok <value>` | `err`                    locateXrefC (the twin on `Model/Lexer.lean`)
  c17.xrefsec <suffix-hex> <0|1>   `read_xref_and_trailer_at` on the suffix (both formats; 0|1 = allow_xref_error;
                         a filtered cross-reference stream is `err`: the filter chain is a parameter)
                         → `ok <subs> <trailer>` | `err` | `panic`   (subs in the C02 notation, trailer as a value)
  c17.loadc <file-hex>   `locateStart` + `XrefSec.loadTableC` → `ok <start> <entries> <trailer>`
  c17.scanc <file-hex> <lens>   `locateStart` + `ScanLoop.scanC` (lens as in `c03.parse`)
                         → `ok <item> …` with items `O<id>.<gen>=<value>` | `T=<value>` | `E`
  c17.word <hex>         → `ok <lexeme-hex> <cursor>` | `err`      nextWord (cursor = bytes consumed)
  c17.usize <hex>        → `ok <n>` | `err`                        parseUsize
  c17.load <hex> <fuel> <X-table> <O-table>
      The token-level parsers of `Offsets.Parsers` are instantiated by tables keyed by the absolute
      position of the suffix they are handed (recovered as `len - suffix.length`):
        X-table  `pos=subs/size/prev/tag` joined by `+`  (subs in the C02 notation with `;` and `,`,
                 size = number | `e`, prev = number | `n` (absent) | `e`)
        O-table  `pos=p.marker.isint` | `pos=s.marker.rel.len.n.first`  joined by `+`
                 (len = `d<n>` | `i<id>` | `b`)
      `streamEnd` is the model lexer expecting `endstream` `endobj`; `decode` is the identity;
      members of object streams are unsigned integers (`parseMember` = first word as usize).
      → `start=<..> trailer=<tag> <id>:<result> ...` for ids 0..size+2
  c17.scan <hex> <S-table>
      `Offsets.scan` from the header found by `locateStart`, with `scanItems` instantiated by a word
      scanner over the slice: every `int int obj` is an object; S-table `id=rel.len` (joined by `+`) says
      which numbers are streams, where their data begins relative to the object and how long it is (the
      scanner continues behind the data).   → `ok <id | id@a-b> ...` | `err` | `panic`
-/

namespace DrvC17
open Proto OffLex Offsets

def secEnv : PdfLex.Env (List UInt8) := DrvObj.mkEnv false 0 []

/-- the filter chain of a cross-reference stream is third-party: only unfiltered streams here -/
def noFilterDec : PdfLex.Dict (List UInt8) → List UInt8 → Out (List UInt8) := fun info raw =>
  match PdfLex.dictGet info [70, 105, 108, 116, 101, 114] with
  | none => .ok raw
  | some _ => .err

def showSubsC (subs : List Xref.Sub) : String :=
  if subs.isEmpty then "-" else joinWith ";" (subs.map fun s =>
    s!"{s.first}:" ++ (if s.entries.isEmpty then "-" else joinWith "," (s.entries.map DrvC02.showEntry)))

def showOutNat : Out Nat → String
  | .ok n => s!"ok {n}"
  | o => o.tag

/-- values of the table-instantiated model: a marker, and for object streams `/N` and `/First` -/
structure Val where
  marker : Nat
  n : Nat
  first : Nat
deriving Repr, DecidableEq

structure Trailer where
  size : Out Nat
  prev : Option (Out Nat)
  tag : Nat

inductive OEntry where
  | plain (marker : Nat) (isInt : Bool)
  | stream (marker rel : Nat) (len : LenSpec) (n first : Nat)

def parseSubs (s : String) : Option (List Xref.Sub) :=
  if s == "-" then some [] else mapM? DrvC02.parseSub (s.splitOn ";")

def parseOutNat (s : String) : Option (Out Nat) :=
  if s == "e" then some .err else (natOf s).map .ok

def parseX (s : String) : Option (Nat × List Xref.Sub × Trailer) :=
  match s.splitOn "=" with
  | [pos, rest] =>
    match rest.splitOn "/" with
    | [subs, size, prev, tag] => do
      let p ← natOf pos
      let ss ← parseSubs subs
      let sz ← parseOutNat size
      let pv ← if prev == "n" then some none else (parseOutNat prev).map some
      let tg ← natOf tag
      some (p, ss, ⟨sz, pv, tg⟩)
    | _ => none
  | _ => none

def parseLen (s : String) : Option LenSpec :=
  if s == "b" then some .bad
  else if s.startsWith "d" then (natOf (s.drop 1).toString).map .direct
  else if s.startsWith "i" then (natOf (s.drop 1).toString).map .indirect
  else none

def parseO (s : String) : Option (Nat × OEntry) :=
  match s.splitOn "=" with
  | [pos, rest] =>
    match rest.splitOn "." with
    | ["p", m, i] => do some (← natOf pos, .plain (← natOf m) (← boolOf i))
    | ["s", m, rel, len, n, first] => do
      some (← natOf pos, .stream (← natOf m) (← natOf rel) (← parseLen len) (← natOf n) (← natOf first))
    | _ => none
  | _ => none

def parseTable {α : Type} (f : String → Option α) (s : String) : Option (List α) :=
  if s == "-" then some [] else mapM? f (s.splitOn "+")

def kwEndstream : Bytes := [101, 110, 100, 115, 116, 114, 101, 97, 109]
def kwEndobj : Bytes := [101, 110, 100, 111, 98, 106]

def expectWord (kw : Bytes) (r : Bytes) : Out Bytes :=
  match nextWord r with
  | .ok (w, r') => if w = kw then .ok r' else .err
  | .err => .err | .panic => .panic | .oof => .oof

def tableParsers (len : Nat) (xs : List (Nat × List Xref.Sub × Trailer)) (os : List (Nat × OEntry)) :
    Parsers Val Trailer where
  xrefAt := fun suffix =>
    match xs.find? (fun e => e.1 == len - suffix.length) with
    | some (_, subs, tr) => .ok (subs, tr)
    | none => .err
  sizeOf := fun t => t.size
  prevOf := fun t => t.prev
  objAt := fun flags suffix =>
    match os.find? (fun e => e.1 == len - suffix.length) with
    | some (_, .plain m isInt) =>
      if flags == .integer && !isInt then .err else .ok (.plain ⟨m, 0, 0⟩)
    | some (_, .stream m rel ls n first) =>
      if flags == .integer then .err else .ok (.stream ⟨m, n, first⟩ rel ls)
    | none => .err
  streamEnd := fun r =>
    match expectWord kwEndstream r with
    | .ok r' => match expectWord kwEndobj r' with
      | .ok _ => .ok ()
      | .err => .err | .panic => .panic | .oof => .oof
    | .err => .err | .panic => .panic | .oof => .oof
  asLen := fun v => .ok v.marker
  stmHead := fun v => .ok (v.n, v.first)
  decode := fun _ raw => .ok raw
  parseMember := fun _ slice =>
    match nextWord slice with
    | .ok (w, _) => match parseUsize w with
      | .ok n => .ok ⟨n, 0, 0⟩
      | .err => .err | .panic => .panic | .oof => .oof
    | .err => .err | .panic => .panic | .oof => .oof
  scanItems := fun _ => []

def kwObj : Bytes := [111, 98, 106]

/-- the word scanner: `fuel` bounds the number of words -/
def scanWords (st : List (Nat × Nat × Nat)) (total : Nat) : Nat → Bytes → List (Out (Obj Val))
  | 0, _ => []
  | fuel + 1, r =>
    match nextWord r with
    | .ok (w1, r1) =>
      match parseUsize w1, nextWord r1 with
      | .ok id, .ok (w2, r2) =>
        match parseUsize w2, nextWord r2 with
        | .ok _, .ok (w3, r3) =>
          if w3 = kwObj then
            let tok := total - r1.length - w1.length
            match st.find? (fun e => e.1 == id) with
            | some (_, rel, len) =>
              .ok (.stream ⟨id, 0, 0⟩ (tok + rel) (tok + rel + len)) :: scanWords st total fuel (r.drop (tok + rel + len - (total - r.length)))
            | none => .ok (.plain ⟨id, 0, 0⟩) :: scanWords st total fuel r3
          else scanWords st total fuel r1
        | _, _ => scanWords st total fuel r1
      | _, _ => scanWords st total fuel r1
    | _ => []

def parseS (s : String) : Option (Nat × Nat × Nat) :=
  match s.splitOn "=" with
  | [id, rest] =>
    match rest.splitOn "." with
    | [rel, len] => do some (← natOf id, ← natOf rel, ← natOf len)
    | _ => none
  | _ => none

def scanParsers (st : List (Nat × Nat × Nat)) : Parsers Val Trailer where
  xrefAt := fun _ => .err
  sizeOf := fun t => t.size
  prevOf := fun t => t.prev
  objAt := fun _ _ => .err
  streamEnd := fun _ => .err
  asLen := fun _ => .err
  stmHead := fun _ => .err
  decode := fun _ _ => .err
  parseMember := fun _ _ => .err
  scanItems := fun slice => scanWords st slice.length (slice.length + 1) slice

def showObj : Out (Obj Val) → String
  | .ok (.plain v) => s!"v{v.marker}"
  | .ok (.stream v a b) => s!"s{v.marker}@{a}-{b}"
  | .err => "E"
  | .panic => "panic"
  | .oof => "oof"

def showLookupClass (t : Xref.Table) (id : Nat) (r : Out (Obj Val)) : String :=
  match r with
  | .err =>
    match Xref.lookup t id with
    | .freeObject => "F"
    | .nullRef => "N"
    | .unspecified => "U"
    | _ => "E"
  | _ => showObj r

def handle (args : List String) : String :=
  match args with
  | ["c17.start", h] =>
    match bytesOfHex h with
    | some b => showOutNat (locateStart b)
    | none => "bad-request"
  | ["c17.xref", h] =>
    match bytesOfHex h with
    | some b => showOutNat (locateXref b)
    | none => "bad-request"
  | ["c17.xrefc", h] =>
    match bytesOfHex h with
    | some b => showOutNat (locateXrefC b)
    | none => "bad-request"
  | ["c17.word", h] =>
    match bytesOfHex h with
    | some b =>
      match nextWord b with
      | .ok (w, r) => s!"ok {hexOfBytes w} {b.length - r.length}"
      | o => o.tag
    | none => "bad-request"
  | ["c17.usize", h] =>
    match bytesOfHex h with
    | some b => showOutNat (parseUsize b)
    | none => "bad-request"
  | ["c17.load", h, fuel, xt, ot] =>
    match bytesOfHex h, natOf fuel, parseTable parseX xt, parseTable parseO ot with
    | some buf, some fuel, some xs, some os =>
      let P := tableParsers buf.length xs os
      match openFile P fuel buf with
      | .ok (start, t, tr) =>
        let ids := List.range (t.length + 2)
        let rs := ids.map fun id =>
          let r := resolveRef P buf start t fuel [] .any id
          let raw := match r with
            | .ok (.stream _ a b) => match readRange buf a b with
              | .ok d => s!"#{d.length}"
              | _ => "#E"
            | _ => ""
          s!"{id}:{showLookupClass t id r}{raw}"
        s!"start={start} trailer={tr.tag} {joinWith " " rs}"
      | o => o.tag
    | _, _, _, _ => "bad-request"
  | ["c17.scan", h, stt] =>
    match bytesOfHex h, parseTable parseS stt with
    | some buf, some st =>
      match locateStart buf with
      | .ok start =>
        match scan (scanParsers st) buf start with
        | .ok items => "ok " ++ joinWith " " (items.map fun it =>
            match it with
            | .ok (.plain v) => s!"{v.marker}"
            | .ok (.stream v a b) => s!"{v.marker}@{a}-{b}"
            | _ => "E")
        | o => o.tag
      | o => o.tag
    | _, _ => "bad-request"
  | ["c17.xrefsec", h, ae] =>
    match bytesOfHex h, boolOf ae with
    | some sfx, some allowErr =>
      match XrefSec.sectionAt secEnv noFilterDec allowErr sfx with
      | .ok (subs, tr) => s!"ok {showSubsC subs} {DrvObj.showVal (.dict tr)}"
      | o => o.tag
    | _, _ => "bad-request"
  | ["c17.loadc", h] =>
    match bytesOfHex h with
    | some buf =>
      match locateStart buf with
      | .ok start =>
        match XrefSec.loadTableC secEnv noFilterDec false (concreteP secEnv 0 noFilterDec (fun _ => .err) (fun _ => [])) 64 buf start with
        | .ok (t, tr) => s!"ok {start} {joinWith "," (t.map DrvC02.showEntry)} {DrvObj.showVal (.dict tr)}"
        | o => o.tag
      | o => o.tag
    | none => "bad-request"
  | ["c17.scanc", h, lens] =>
    match bytesOfHex h, DrvObj.lenMapOf lens with
    | some buf, some lm =>
      match locateStart buf with
      | .ok start =>
        match ScanLoop.scanC (DrvObj.mkEnv false 0 lm) buf start with
        | .ok items => "ok " ++ joinWith " " (items.map fun it =>
            match it with
            | .obj i g v => s!"O{i}.{g}={DrvObj.showVal v}"
            | .trailer d => s!"T={DrvObj.showVal (.dict d)}"
            | .error => "E")
        | o => o.tag
      | o => o.tag
    | _, _ => "bad-request"
  | _ => "bad-request"

end DrvC17
