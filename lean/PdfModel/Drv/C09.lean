import PdfModel.Core.Proto
import PdfModel.Model.Storage
import PdfModel.Drv.C02
import PdfModel.Drv.Obj
import PdfModel.Model.SaveBytes
import PdfModel.Model.OpenBytes

/-! Line-protocol handler for the C09 streams.

  c09.hist <cached> <start> <len> <startxref> <objs> <secs> <ops>
     objs   `,`-separated `off:id:gen:tok:members`, members `-` or `tok+tok+…`          (`-`: none)
     secs   `|`-separated `off/size/prev/rootid.rootgen/info/subs`, prev, info `n` or a number,
            subs in the notation of c02.merge (`first:e,e;first:e`, `-`)
     tok    `<marker>` (serialisable value) or `<marker>!` (a stream whose data is still in the file)
     ops    `;`-separated: `c:tok` create, `u:id:tok` update, `p` promise, `f:id:tok` fulfil, `g:id` get,
            `r:id` resolve, `s:id.len,id.len:xlen:tail` save with the measured record lengths (`s` alone:
            the implementation's save failed, nothing to measure), `l:cached` reload the bytes and resolve
            every object number
  → one answer per op, `;`-separated (see `showRes`), or `load-err` when the base does not load
  c09.bytes <start> <len> <startxref> <objs> <secs> <info> <ids> <ops>
     the same base (object values reduced to their markers), the loaded info dictionary (`n`: none) and
     the /ID strings (`~`-separated, `-`: none) as values in the notation of Drv/Obj.lean, and a history
     `c=<val>` `u=<id>=<val>` `p` `f=<id>=<val>` `s=<typed 0|1>` (`;`-separated) with full values: `save` is the
     byte model `SaveBytes.saveB` (`typed`: does the catalog load as a catalog in the current state — decides whether
     the save fails after its revision was written); the answer of a successful save is `ok/<hex of the bytes appended
     since the last successful save>`
  c09.open <hex>              the byte-level open path (`OpenBytes.openB`: header, startxref, section readers for
                              tables and streams, /Prev walk, merge) on a whole file
                              → `ok <start> <size> <prev|n> <entries>` | `err` | `panic`
  c09.bytelen <n>             → byteLen n
  c09.rowbytes <aw> <bw> <e>  → the bytes `write_stream` emits for entry e
-/

namespace DrvC09
open Storage Xref Proto

structure Tok where
  m : Nat
  ok : Bool
deriving Repr, DecidableEq

def P : Params Tok := ⟨fun t => t.ok, fun _ => ⟨0, true⟩, fun _ _ _ => ⟨0, true⟩⟩

def parseTok (s : String) : Option Tok :=
  if s.endsWith "!" then do some ⟨← natOf (s.dropEnd 1).toString, false⟩
  else do some ⟨← natOf s, true⟩

def parseOptNat (s : String) : Option (Option Nat) :=
  if s == "n" then some none else do some (some (← natOf s))

def parseObj (s : String) : Option (Obj Tok) :=
  match s.splitOn ":" with
  | [off, id, gen, tok, mem] => do
    let ms ← if mem == "-" then some [] else mapM? parseTok (mem.splitOn "+")
    some ⟨← natOf off, ← natOf id, ← natOf gen, ← parseTok tok, ms⟩
  | _ => none

def parseRef (s : String) : Option (Nat × Nat) :=
  match s.splitOn "." with
  | [a, b] => do some (← natOf a, ← natOf b)
  | _ => none

def parseSec (s : String) : Option Sec :=
  match s.splitOn "/" with
  | [off, size, prev, root, info, subs] => do
    some ⟨← natOf off, ← DrvC02.parseSection subs, ← natOf size, ← parseOptNat prev, ← parseRef root, ← parseOptNat info⟩
  | _ => none

def parseLens (s : String) : Option (List (Nat × Nat)) :=
  if s == "-" then some [] else mapM? parseRef (s.splitOn ",")

inductive DOp where
  | op (o : Op Tok)
  | saveNoLayout
  | reloadCheck (cached : Bool)

def lookupLen (ls : List (Nat × Nat)) (id : Nat) : Nat :=
  match ls with
  | [] => 0
  | (i, l) :: rest => if i = id then l else lookupLen rest id

def parseOp (s : String) : Option DOp :=
  match s.splitOn ":" with
  | ["c", t] => do some (.op (.create (← parseTok t)))
  | ["u", id, t] => do some (.op (.update (← natOf id) (← parseTok t)))
  | ["p"] => some (.op .promise)
  | ["f", id, t] => do some (.op (.fulfil (← natOf id) (← parseTok t)))
  | ["g", id] => do some (.op (.get (← natOf id)))
  | ["r", id] => do some (.op (.resolve (← natOf id)))
  | ["s", lens, xl, tl] => do
    let ls ← parseLens lens
    let x ← natOf xl
    let t ← natOf tl
    some (.op (.save ⟨lookupLen ls, fun _ => x, fun _ => t, true⟩))
  | ["s"] => some .saveNoLayout
  | ["l", c] => do some (.reloadCheck (← boolOf c))
  | _ => none

def showRd : Rd Tok → String
  | .val v => s!"v{v.m}"
  | .free => "F"
  | .null => "N"
  | .unspec => "U"
  | .other => "E"

def showObjs (os : List (Obj Tok)) : String :=
  if os.isEmpty then "-" else joinWith "," (os.map fun o => s!"{o.id}.{o.gen}@{o.off}")

/-- one answer: what the caller sees, plus for a save what was appended -/
def showRes (before after : Doc Tok) : Res Tok → String
  | .ref id gen => s!"R{id}.{gen}"
  | .failed o => o.tag
  | .read r => showRd r
  | .saved i =>
    let appended := after.st.objs.drop before.st.objs.length
    s!"ok/{i.xpos}/{i.size}/{i.aw}.{i.bw}/{showObjs appended}/{joinWith "," (i.rows.map DrvC02.showEntry)}/{after.st.len}"

def showReload (d : Doc Tok) (cached : Bool) : String :=
  match reload d.st cached with
  | .ok d' =>
    let ids := List.range (d'.st.refs.length + 2)
    "L" ++ joinWith "," (ids.map fun i => showRd (resolve d'.st i))
  | o => "L" ++ o.tag

def runOps (d : Doc Tok) : List DOp → List String → List String
  | [], acc => acc.reverse
  | .op o :: rest, acc =>
    let (d', r) := step P d o
    runOps d' rest (showRes d d' r :: acc)
  | .saveNoLayout :: rest, acc =>
    let (d', r) := step P d (.save ⟨fun _ => 0, fun _ => 0, fun _ => 0, true⟩)
    match r with
    | .saved _ => runOps d' rest ("ok-but-no-layout" :: acc)
    | r => runOps d' rest (showRes d d' r :: acc)
  | .reloadCheck c :: rest, acc => runOps d rest (showReload d c :: acc)

def rowEntry (s : String) : Option XRef := DrvC02.parseEntry s

/-! ### the byte model -/

abbrev BV := DrvObj.V

def parseObjB (s : String) : Option (Obj BV) :=
  match s.splitOn ":" with
  | [off, id, gen, tok, mem] => do
    let t ← parseTok tok
    let ms ← if mem == "-" then some [] else mapM? parseTok (mem.splitOn "+")
    some ⟨← natOf off, ← natOf id, ← natOf gen, .int t.m, ms.map fun m => .int m.m⟩
  | _ => none

abbrev BOp := SaveBytes.OpB (List UInt8)

def parseBOp (s : String) : Option BOp :=
  match s.splitOn "=" with
  | ["c", v] => do some (.create (← DrvObj.valOf v))
  | ["u", id, v] => do some (.update (← natOf id) (← DrvObj.valOf v))
  | ["p"] => some .promise
  | ["f", id, v] => do some (.fulfil (← natOf id) (← DrvObj.valOf v))
  | ["s"] => some (.save true)
  | ["s", t] => do some (.save (← boolOf t))
  | _ => none

/-- the history through `SaveBytes.stepB`; a successful save answers with the bytes appended since the last
    successful save (a save that failed after writing its revision has left that revision behind: the
    implementation shows it only with the next successful save) -/
def runB (b : SaveBytes.BDoc (List UInt8)) (seen : Nat) : List BOp → List String → List String
  | [], acc => acc.reverse
  | o :: rest, acc =>
    let (b', r) := SaveBytes.stepB id b o
    match r with
    | .saved _ => runB b' b'.bytes.length rest (("ok/" ++ hexOfBytes (b'.bytes.drop seen)) :: acc)
    | .ref i g => runB b' seen rest (s!"R{i}.{g}" :: acc)
    | .failed o => runB b' seen rest (o.tag :: acc)
    | _ => runB b' seen rest ("?" :: acc)

def handle (args : List String) : String :=
  match args with
  | ["c09.hist", cached, start, len, sx, objs, secs, ops] =>
    match boolOf cached, natOf start, natOf len, natOf sx,
          (if objs == "-" then some [] else mapM? parseObj (objs.splitOn ",")),
          (if secs == "-" then some [] else mapM? parseSec (secs.splitOn "|")),
          (if ops == "-" then some [] else mapM? parseOp (ops.splitOn ";")) with
    | some c, some st, some ln, some sx, some os, some ss, some ops =>
      let raw : St Tok := ⟨[], [], [], c, os, ss, ln, st, sx⟩
      match reload raw c with
      | .ok d => joinWith ";" (runOps d ops [])
      | o => s!"load-{o.tag}"
    | _, _, _, _, _, _, _ => "bad-request"
  | ["c09.bytes", start, len, sx, objs, secs, info, ids, ops] =>
    match natOf start, natOf len, natOf sx,
          (if objs == "-" then some [] else mapM? parseObjB (objs.splitOn ",")),
          (if secs == "-" then some [] else mapM? parseSec (secs.splitOn "|")),
          (if info == "n" then some none else (DrvObj.valOf info).map some),
          (if ids == "-" then some [] else mapM? (fun s => match DrvObj.valOf s with | some (.str b) => some b | _ => none) (ids.splitOn "~")),
          (if ops == "-" then some [] else mapM? parseBOp (ops.splitOn ";")) with
    | some st, some ln, some sx, some os, some ss, some inf, some ids, some ops =>
      let raw : St BV := ⟨[], [], [], false, os, ss, ln, st, sx⟩
      match reload raw false with
      | .ok d =>
        let d := { d with tr := { d.tr with info := inf } }
        joinWith ";" (runB ⟨d, ids, []⟩ 0 ops [])
      | o => s!"load-{o.tag}"
    | _, _, _, _, _, _, _, _ => "bad-request"
  | ["c09.open", file] =>
    match bytesOfHex file with
    | some bs =>
      let env : PdfLex.Env (List UInt8) :=
        { parseReal := fun t => some t, resolveLen := fun _ _ => .err, allowMissingEndobj := false, decrypt := none, fileOffset := 0 }
      let dec : PdfLex.Dict (List UInt8) → List UInt8 → Out (List UInt8) :=
        fun d raw => match PdfLex.dictGet d OpenBytes.kFilter with | none => .ok raw | some _ => .err
      match OpenBytes.openB env (3 * bs.length + 64) dec 64 bs with
      | .ok (start, t, tr) =>
        let size := match XrefTable.trailerSize tr with | .ok n => toString n | _ => "?"
        let prev := match XrefTable.trailerPrev tr with | none => "n" | some (.ok p) => toString p | some _ => "?"
        s!"ok {start} {size} {prev} {joinWith "," (t.map DrvC02.showEntry)}"
      | o => o.tag
    | none => "bad-request"
  | ["c09.bytelen", n] =>
    match natOf n with
    | some n => toString (byteLen n)
    | none => "bad-request"
  | ["c09.rowbytes", aw, bw, e] =>
    match natOf aw, natOf bw, rowEntry e with
    | some aw, some bw, some e => joinWith "," ((rowBytes aw bw e).map toString)
    | _, _, _ => "bad-request"
  | _ => "bad-request"

end DrvC09
