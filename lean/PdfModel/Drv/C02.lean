import PdfModel.Core.Proto
import PdfModel.Model.Xref

/-! Line-protocol handler for the C02 streams.

  c02.merge <size> <sections>      sections newest first, `|` between sections, `;` between subsections,
                                   subsection `first:e,e,..`, entry `f.next.gen | r.pos.gen | s.sid.idx | P | I`,
                                   `-` for a section without subsections / a subsection without entries
  → `ok <entries> <lookups>` | `err` | `panic`
-/

namespace DrvC02
open Xref Proto

def parseEntry (s : String) : Option XRef :=
  match s.splitOn "." with
  | ["f", a, b] => do some (.free (← natOf a) (← natOf b))
  | ["r", a, b] => do some (.raw (← natOf a) (← natOf b))
  | ["s", a, b] => do some (.stream (← natOf a) (← natOf b))
  | ["P"] => some .promised
  | ["I"] => some .invalid
  | _ => none

def showEntry : XRef → String
  | .free a b => s!"f.{a}.{b}"
  | .raw a b => s!"r.{a}.{b}"
  | .stream a b => s!"s.{a}.{b}"
  | .promised => "P"
  | .invalid => "I"

def showLookup : Lookup → String
  | .direct p => s!"d.{p}"
  | .compressed s i => s!"c.{s}.{i}"
  | .freeObject => "F"
  | .nullRef => "N"
  | .unspecified => "U"
  | .unimplemented => "X"

def parseSub (s : String) : Option Sub :=
  match s.splitOn ":" with
  | [f, es] => do
    let first ← natOf f
    let entries ← if es == "-" then some [] else mapM? parseEntry (es.splitOn ",")
    some ⟨first, entries⟩
  | _ => none

def parseSection (s : String) : Option (List Sub) :=
  if s == "-" then some [] else mapM? parseSub (s.splitOn ";")

def parseSections (s : String) : Option (List (List Sub)) :=
  if s == "-" then some [] else mapM? parseSection (s.splitOn "|")

def handle (args : List String) : String :=
  match args with
  | ["c02.merge", size, secs] =>
    match natOf size, parseSections secs with
    | some n, some ss =>
      match mergeAll (newTable n) ss with
      | .ok t =>
        let ids := List.range (t.length + 2)
        s!"ok {joinWith "," (t.map showEntry)} {joinWith "," (ids.map fun i => showLookup (lookup t i))}"
      | o => o.tag
    | _, _ => "bad-request"
  | _ => "bad-request"

end DrvC02
