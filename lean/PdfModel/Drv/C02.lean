import PdfModel.Core.Proto
import PdfModel.Model.Xref
import PdfModel.Model.XrefStream

/-! Line-protocol handler for the C02 streams.

  c02.merge <size> <sections>      sections newest first, `|` between sections, `;` between subsections,
                                   subsection `first:e,e,..`, entry `f.next.gen | r.pos.gen | s.sid.idx | P | I`,
                                   `-` for a section without subsections / a subsection without entries
  → `ok <entries> <lookups>` | `err` | `panic`

  c02.xrefstm <allowErr 0|1> <size> <w,w,..> <first:n,first:n,..|-> <hex data>
                                   one cross-reference stream read by `parseSections` and merged into
                                   `newTable size`
  → `ok <entries>` | `err` | `panic`
-/

namespace DrvC02
open Xref Proto

def parseEntry (s : String) : Option XRef :=
  match s.splitOn "." with
  | ["f", a, b] => do some (.free (← natOf a) (← natOf b))
  | ["r", a, b] => do some (.raw (← natOf a) (← natOf b))
  | ["s", a, b] => do some (.stream (← natOf a) (← natOf b))
  | ["P"] => some .promised
  | ["I"] => some .invalid
  | _ => none

def showEntry : XRef → String
  | .free a b => s!"f.{a}.{b}"
  | .raw a b => s!"r.{a}.{b}"
  | .stream a b => s!"s.{a}.{b}"
  | .promised => "P"
  | .invalid => "I"

def showLookup : Lookup → String
  | .direct p => s!"d.{p}"
  | .compressed s i => s!"c.{s}.{i}"
  | .freeObject => "F"
  | .nullRef => "N"
  | .unspecified => "U"
  | .unimplemented => "X"

def parseSub (s : String) : Option Sub :=
  match s.splitOn ":" with
  | [f, es] => do
    let first ← natOf f
    let entries ← if es == "-" then some [] else mapM? parseEntry (es.splitOn ",")
    some ⟨first, entries⟩
  | _ => none

def parseSection (s : String) : Option (List Sub) :=
  if s == "-" then some [] else mapM? parseSub (s.splitOn ";")

def readSections (s : String) : Option (List (List Sub)) :=
  if s == "-" then some [] else mapM? parseSection (s.splitOn "|")

def handle (args : List String) : String :=
  match args with
  | ["c02.merge", size, secs] =>
    match natOf size, readSections secs with
    | some n, some ss =>
      match mergeAll (newTable n) ss with
      | .ok t =>
        let ids := List.range (t.length + 2)
        s!"ok {joinWith "," (t.map showEntry)} {joinWith "," (ids.map fun i => showLookup (lookup t i))}"
      | o => o.tag
    | _, _ => "bad-request"
  | ["c02.xrefstm", allow, size, ws, index, hex] =>
    let pairs : Option (List (Nat × Nat)) :=
      if index == "-" then some [] else
      mapM? (fun (p : String) => match p.splitOn ":" with
        | [a, b] => do some ((← natOf a), (← natOf b))
        | _ => none) (index.splitOn ",")
    match boolOf allow, natOf size, mapM? natOf (ws.splitOn ","), pairs, bytesOfHex hex with
    | some a, some n, some w, some ix, some data =>
      match parseSections w a ix data [] with
      | .ok subs =>
        match mergeAll (newTable n) [subs] with
        | .ok t => s!"ok {joinWith "," (t.map showEntry)}"
        | o => o.tag
      | o => o.tag
    | _, _, _, _, _ => "bad-request"
  | _ => "bad-request"

end DrvC02
