import PdfModel.Core.Proto
import PdfModel.Model.Xref
import PdfModel.Model.XrefStream
import PdfModel.Model.XrefTable
import PdfModel.Model.Offsets
import PdfModel.Model.XrefFile
import PdfModel.Spec.XrefTable
import PdfModel.Drv.Obj
import PdfModel.Drv.C05
import PdfModel.Model.XrefStreamFilters

/-! Line-protocol handler for the C02 streams.

  c02.merge <size> <sections>      sections newest first, `|` between sections, `;` between subsections,
                                   subsection `first:e,e,..`, entry `f.next.gen | r.pos.gen | s.sid.idx | P | I`,
                                   `-` for a section without subsections / a subsection without entries
  → `ok <entries> <lookups>` | `err` | `panic`

  c02.xrefstm <allowErr 0|1> <size> <w,w,..> <first:n,first:n,..|-> <hex data>
                                   one cross-reference stream read by `parseSections` and merged into
                                   `newTable size`
  → `ok <entries>` | `err` | `panic`

  c02.table <hex>                  `read_xref_and_trailer_at` with the lexer at position 0 of the buffer
                                   (`XrefTable.readXrefAndTrailerAt`; the cross-reference *stream* branch
                                   is not modelled here and answers `stream`)
  → `ok <section> <trailer value>` | `err` | `panic` | `oof` | `stream`
  c02.tableat <hex> <pos>          `parse_xref_table_and_trailer` with the lexer at `pos` (behind the keyword
                                   `xref`): `XrefTable.parseXrefTableAndTrailer`; the final lexer position
  → `ok <section> <trailer value> <pos>` | `err` | `panic` | `oof`
  c02.tablewrite <section> <trailer D[..]> <tape> <tail hex>
                                   the conforming writer of `Spec/XrefTable` (`writeSection`)
  → `<hex>`
  c02.walk <hex> <start>           `Backend::read_xref_table_and_trailer(start, ..)` = `XrefTable.readXrefTableAndTrailer`
                                   (Model/XrefFile: `Offsets.loadTable` with the classic table reader as section parser)
  → `ok <entries> <trailer value>` | `err` | `panic` | `oof`
  c02.walkf <allowErr 0|1> <hex> <start> <ext>
                                   the same walk with both section formats concrete: `XrefSec.loadTableC`
                                   (Model/XrefStreamSection) with the stream data decoded by the filter model
                                   (`XrefFilters.decOf`, Model/XrefStreamFilters over Model/Enc); `<ext>` is the table
                                   of third-party inflate results in the notation of c05.chain (`z.<in>.<out>;…`)
  → `ok <entries> <trailer value>` | `err` | `panic` | `oof`
  (`<section>` as in c02.merge: subsections joined by `;`, `-` for none; values in the C03 notation, Drv/Obj)
-/

namespace DrvC02
open Xref Proto

def parseEntry (s : String) : Option XRef :=
  match s.splitOn "." with
  | ["f", a, b] => do some (.free (← natOf a) (← natOf b))
  | ["r", a, b] => do some (.raw (← natOf a) (← natOf b))
  | ["s", a, b] => do some (.stream (← natOf a) (← natOf b))
  | ["P"] => some .promised
  | ["I"] => some .invalid
  | _ => none

def showEntry : XRef → String
  | .free a b => s!"f.{a}.{b}"
  | .raw a b => s!"r.{a}.{b}"
  | .stream a b => s!"s.{a}.{b}"
  | .promised => "P"
  | .invalid => "I"

def showLookup : Lookup → String
  | .direct p => s!"d.{p}"
  | .compressed s i => s!"c.{s}.{i}"
  | .freeObject => "F"
  | .nullRef => "N"
  | .unspecified => "U"
  | .unimplemented => "X"

def parseSub (s : String) : Option Sub :=
  match s.splitOn ":" with
  | [f, es] => do
    let first ← natOf f
    let entries ← if es == "-" then some [] else mapM? parseEntry (es.splitOn ",")
    some ⟨first, entries⟩
  | _ => none

def parseSection (s : String) : Option (List Sub) :=
  if s == "-" then some [] else mapM? parseSub (s.splitOn ";")

def readSections (s : String) : Option (List (List Sub)) :=
  if s == "-" then some [] else mapM? parseSection (s.splitOn "|")

def showSub (s : Sub) : String :=
  s!"{s.first}:{if s.entries.isEmpty then "-" else joinWith "," (s.entries.map showEntry)}"

def showSection (subs : List Sub) : String :=
  if subs.isEmpty then "-" else joinWith ";" (subs.map showSub)

abbrev TrailerDict := PdfLex.Dict (List UInt8)

def tableEnv : PdfLex.Env (List UInt8) := DrvObj.mkEnv false 0 []

def readAt (buf : PdfLex.Buf) : Out (List Sub × TrailerDict) :=
  XrefTable.readXrefAndTrailerAt tableEnv (fun _ _ => .err) buf (XrefTable.defaultFuel buf) (PdfLex.defaultFuel buf) 0

/-- the object-level parsers of `Offsets.Parsers`: never called by the walk -/
def noObjects : Offsets.Parsers Unit TrailerDict where
  xrefAt := fun _ => .err
  sizeOf := fun _ => .err
  prevOf := fun _ => none
  objAt := fun _ _ => .err
  streamEnd := fun _ => .err
  asLen := fun _ => .err
  stmHead := fun _ => .err
  decode := fun _ _ => .err
  parseMember := fun _ _ => .err
  scanItems := fun _ => []

/-- does the first lexeme read `xref`? (otherwise the Rust code takes the stream branch) -/
def startsWithXref (buf : PdfLex.Buf) : Bool :=
  match PdfLex.next buf 0 with
  | .ok w => PdfLex.slice buf w.1 w.2 == XrefTable.kwXref
  | _ => true

def handle (args : List String) : String :=
  match args with
  | ["c02.table", hex] =>
    match bytesOfHex hex with
    | some bs =>
      let buf := bs.toArray
      if !startsWithXref buf then "stream" else
      match readAt buf with
      | .ok (subs, d) => s!"ok {showSection subs} {DrvObj.showVal (.dict d)}"
      | o => o.tag
    | none => "bad-request"
  | ["c02.tableat", hex, pos] =>
    match bytesOfHex hex, natOf pos with
    | some bs, some p =>
      let buf := bs.toArray
      match XrefTable.parseXrefTableAndTrailer tableEnv buf (XrefTable.defaultFuel buf) (PdfLex.defaultFuel buf) p with
      | .ok ((subs, d), q) => s!"ok {showSection subs} {DrvObj.showVal (.dict d)} {q}"
      | o => o.tag
    | _, _ => "bad-request"
  | ["c02.tablewrite", sec, trailer, tape, tail] =>
    match parseSection sec, DrvObj.valOf trailer, DrvObj.tapeOf tape, bytesOfHex tail with
    | some subs, some (.dict d), some tp, some tl =>
      hexOfBytes (XrefTableSpec.writeSection (fun (r : List UInt8) => r) subs d tl tp).1
    | _, _, _, _ => "bad-request"
  | ["c02.walkf", allow, hex, start, ext] =>
    match boolOf allow, bytesOfHex hex, natOf start, DrvC05.parseExt ext with
    | some a, some bs, some st, some tab =>
      match XrefSec.loadTableC tableEnv (XrefFilters.decOf (DrvC05.extOf tab) a) a noObjects (bs.length + 2) bs st with
      | .ok (t, d) => s!"ok {joinWith "," (t.map showEntry)} {DrvObj.showVal (.dict d)}"
      | o => o.tag
    | _, _, _, _ => "bad-request"
  | ["c02.walk", hex, start] =>
    match bytesOfHex hex, natOf start with
    | some bs, some st =>
      match XrefTable.readXrefTableAndTrailer tableEnv (fun _ _ => .err) noObjects (bs.length + 2) bs st with
      | .ok (t, d) => s!"ok {joinWith "," (t.map showEntry)} {DrvObj.showVal (.dict d)}"
      | o => o.tag
    | _, _ => "bad-request"
  | ["c02.merge", size, secs] =>
    match natOf size, readSections secs with
    | some n, some ss =>
      match mergeAll (newTable n) ss with
      | .ok t =>
        let ids := List.range (t.length + 2)
        s!"ok {joinWith "," (t.map showEntry)} {joinWith "," (ids.map fun i => showLookup (lookup t i))}"
      | o => o.tag
    | _, _ => "bad-request"
  | ["c02.xrefstm", allow, size, ws, index, hex] =>
    let pairs : Option (List (Nat × Nat)) :=
      if index == "-" then some [] else
      mapM? (fun (p : String) => match p.splitOn ":" with
        | [a, b] => do some ((← natOf a), (← natOf b))
        | _ => none) (index.splitOn ",")
    match boolOf allow, natOf size, mapM? natOf (ws.splitOn ","), pairs, bytesOfHex hex with
    | some a, some n, some w, some ix, some data =>
      match parseSections w a ix data [] with
      | .ok subs =>
        match mergeAll (newTable n) [subs] with
        | .ok t => s!"ok {joinWith "," (t.map showEntry)}"
        | o => o.tag
      | o => o.tag
    | _, _, _, _, _ => "bad-request"
  | _ => "bad-request"

end DrvC02
