import PdfModel.Drv.C13Sched
import PdfModel.Model.ConcurrentLazy

/-! Second handler of the C13 streams: threads that load / read once-initialised fields (`Lazy<_>`) of
shared typed objects, replayed on `Model/ConcurrentLazy.lean`.

  c13.lazy <racy> <cfg> <tol> <size> <root> <objs> <cells> <threads> <schedule>
     racy      `0` `get_or_try_init` (the code under test) | `1` check / load outside / set().expect() (for the record)
     cells     `;`-separated `<page>:a:<ids|->` (/Annots is an array of references) | `<page>:r:<id>` (a reference
               to an array object) | `<page>:n` (no /Annots); cell number = position. Before the threads start the
               pages are loaded one after the other (`get::<PagesNode>`): they are the shared objects.
     threads   `/`-separated, items `;`-separated: `L<c>` = `page.annotations.load(resolve)`, `K<c>` = read the cell
               without loading, anything else a call of `c12.run`
  → `<trace>|<results>|<final>|<enabled>` as `c13.replay`, with the extra positions `le<c>` (entry of `Lazy::load`)
    and `ls<c>` (initialiser returned, before the store); a read answers `set` / `unset`
-/

namespace DrvC13
open Cache CacheDoc Conc Proto DrvC12

def parseCell (s : String) : Option (Nat × CellForm) :=
  match s.splitOn ":" with
  | [p, "a", ids] => do some (← natOf p, .direct (← parseNatList ids))
  | [p, "r", r] => do some (← natOf p, .ref (← natOf r))
  | [p, "n"] => do some (← natOf p, .absent)
  | _ => none

def parseCells (s : String) : Option (List (Nat × CellForm)) :=
  if s == "-" then some [] else mapM? parseCell (s.splitOn ";")

inductive RawItem where
  | lazy (c : Nat)
  | peek (c : Nat)
  | call (k : CallK)

def parseItem (s : String) : Option RawItem :=
  if s.startsWith "L" then (natOf (s.drop 1).toString).map .lazy
  else if s.startsWith "K" then (natOf (s.drop 1).toString).map .peek
  else (parseCall s).map .call

def parseItems (s : String) : Option (List RawItem) :=
  if s == "-" then some [] else mapM? parseItem (s.splitOn ";")

def lstatus (s : LState Val String) (i : Nat) : String :=
  match s.lthreads[i]? with
  | none => "?"
  | some lt =>
    match lt.lctl with
    | .idle => "t"
    | .entering c => s!"le{c}"
    | .storing c _ => s!"ls{c}"
    | .finished => "d"
    | .panicked => "x"
    | .running _ _ =>
      match s.inner.threads[i]? with
      | some t => status t
      | none => "?"

def lenabledSet (doc : Doc Val String) (init : Nat → P) (lc : LCfg) (s : LState Val String) : String :=
  String.join (((List.range s.lthreads.length).filter fun i => s.enabled doc init lc i).map toString)

def lreplay (doc : Doc Val String) (init : Nat → P) (lc : LCfg) : LState Val String → List Nat → List String → List String →
    List String × List String × LState Val String
  | s, [], acc, en => (acc.reverse, en.reverse, s)
  | s, i :: is, acc, en =>
    match lstep doc init lc s i with
    | none => (("!" :: acc).reverse, (lenabledSet doc init lc s :: en).reverse, s)
    | some s' => lreplay doc init lc s' is (lstatus s' i :: acc) (lenabledSet doc init lc s :: en)

def renderOuts (lt : LThread Val String) : String :=
  joinWith ";" ((lt.past.zip lt.out).map fun p =>
    match p.1, p.2 with
    | .peek _, .unset => "unset"
    | .peek _, .res _ => "set"
    | _, .res r => renderRes r
    | _, .unset => "unset")

def lfinal (doc : Doc Val String) (init : Nat → P) (lc : LCfg) (s : LState Val String) : String :=
  if s.anyPanic then "panic"
  else if s.allDone then "done"
  else if s.deadlocked doc init lc then "deadlock"
  else "running"

/-- load the shared pages one after the other (main thread), starting from the state the open left -/
def preload (doc : Doc Val String) (cfg : Cache.Cfg) (fuel : Nat) : St Val String → List Nat → St Val String
  | st, [] => st
  | st, p :: ps => preload doc cfg fuel (call doc cfg fuel st (getP tP p)).2 ps

def runLazy (d : Desc) (racy : Bool) (ccfg : Cache.Cfg) (rootId : Nat) (cells : List (Nat × CellForm))
    (threads : List (List RawItem)) (sched : List Nat) : String :=
  let doc := toDoc d
  let fuel := d.size + d.objs.length + 4
  let o := call doc ccfg fuel St.empty (getP tC rootId)
  match o.1 with
  | .ok _ =>
    let st := preload doc ccfg fuel o.2 (cells.map (·.1))
    let cfg : Conc.Cfg := ⟨ccfg.objCache, ccfg.stmCache, false, false⟩
    let lc : LCfg := ⟨cfg, racy⟩
    let init : Nat → P := fun c => match cells[c]? with
      | some p => lazyInit p.2
      | none => errP "E"
    let slots := st.obj.map fun p => (p.1, slotOf p.2)
    let items : List (List (Item Val String)) := threads.map fun is => is.map fun it => match it with
      | .lazy c => Item.lazy c
      | .peek c => Item.peek c
      | .call k => Item.call (k.prog d o.1)
    let s0 : LState Val String := LState.init slots st.stm items
    let r := lreplay doc init lc s0 sched [] []
    let results := r.2.2.lthreads.map renderOuts
    s!"{joinWith "." r.1}|{joinWith "/" results}|{lfinal doc init lc r.2.2}|{joinWith "." r.2.1}"
  | x => s!"open-failed:{renderRes x}"

def handleLazy (args : List String) : String :=
  match args with
  | ["c13.lazy", racy, cfg, tol, size, root, objs, cells, threads, sched] =>
    match boolOf racy, parseCfg cfg, boolOf tol, natOf size, natOf root, parseObjs objs, parseCells cells,
          mapM? parseItems (threads.splitOn "/"), parseSched sched with
    | some racy, some cfg, some tol, some size, some root, some objs, some cells, some threads, some sched =>
      runLazy ⟨size, tol, objs⟩ racy cfg root cells threads sched
    | _, _, _, _, _, _, _, _, _ => "bad-request"
  | _ => "bad-request"

end DrvC13
