import PdfModel.Drv.C15
import PdfModel.Model.Dangling

/-! Line-protocol handler for the C18 streams (same notation as Drv/C15).

  c18.rd <peel> <tolerant> <shape> <objects> <missing> <prim>
      read `prim` at `shape`, write the value  → `ok <p1>` | `rerr <chain>` | `werr`
  c18.lazy <peel> <tolerant> <shape> <objects> <missing> <prim>
      `Lazy::<shape>::from_primitive(prim).load()`, then write the loaded value → `ok <p>` | `rerr <chain>` | `werr`
  c18.decide <peel> <tolerant> <kind F|N|U> <path direct|get|try|tryget|gettryget>
      the `Option` reader's decision on the wrapped root error → `none` | `err <chain>`
-/

namespace DrvC18
open Derive Proto DrvC15

def readWrite (cfg : Cfg) (env : Env) (shape : Shape) (p : Prim) : String :=
  let sem := semN cfg Generated.generatedSchemas modelDepth
  match readShape cfg sem env shape p with
  | .error e => "rerr " ++ showErr e
  | .ok x =>
    match writeShape sem shape x with
    | .error _ => "werr"
    | .ok p1 => s!"ok {showPrim p1}"

def loadWrite (cfg : Cfg) (env : Env) (shape : Shape) (p : Prim) : String :=
  let sem := semN cfg Generated.generatedSchemas modelDepth
  match lazyLoad cfg sem env shape (.lazy p) with
  | .error e => "rerr " ++ showErr e
  | .ok x =>
    match writeShape sem (.maybeRef shape) x with
    | .error _ => "werr"
    | .ok p1 => s!"ok {showPrim p1}"

def parseKind : String → Option DKind
  | "F" => some .free
  | "N" => some .gap
  | "U" => some .beyond
  | _ => none

def parsePath : String → Option Path
  | "direct" => some .direct
  | "get" => some .viaGet
  | "try" => some .viaTry
  | "tryget" => some .viaTryGet
  | "gettryget" => some .viaGetTryGet
  | _ => none

def handle (args : List String) : String :=
  match args with
  | [cmd, peel, tol, shape, objs, miss, prim] =>
    match boolOf peel, boolOf tol, parseShapeAll shape, parseObjects objs, parseMissing miss, parsePrimAll prim with
    | some pl, some tl, some sh, some os, some ms, some p =>
      if cmd == "c18.rd" then readWrite ⟨pl⟩ (mkEnv os ms tl) sh p
      else if cmd == "c18.lazy" then loadWrite ⟨pl⟩ (mkEnv os ms tl) sh p
      else "bad-request"
    | _, _, _, _, _, _ => "bad-request"
  | ["c18.decide", peel, tol, kind, path] =>
    match boolOf peel, boolOf tol, parseKind kind, parsePath path with
    | some pl, some tl, some k, some w =>
      match optionDecision ⟨pl⟩ tl (w.wrap (rootErr k)) with
      | .none => "none"
      | .error e => "err " ++ showErr e
    | _, _, _, _ => "bad-request"
  | _ => "bad-request"

end DrvC18
