import PdfModel.Drv.C13Sched
import PdfModel.Drv.C13Lazy

/-! Line-protocol handler for the C13 streams: `c13.replay` (Drv/C13Sched.lean: schedules of typed loads) and
`c13.lazy` (Drv/C13Lazy.lean: once-initialised fields of shared objects). -/

namespace DrvC13

def handle (args : List String) : String :=
  match args with
  | "c13.lazy" :: _ => handleLazy args
  | _ => handleSched args

end DrvC13
