import PdfModel.Core.Proto
import PdfModel.Model.Enc
import PdfModel.Spec.CodecsCheck
import PdfModel.Spec.Lzw

/-! Line-protocol handler for the C05 streams (bytes as hex, `-` = empty).

  c05.nibble <n>                                  → `none` | `<value>`
  c05.hex <data> | c05.a85 <data> | c05.rl <data> → `ok <bytes>` | `err` | `panic` | `oof`
  c05.paethrow <b> <c>                            → 256 bytes: `filter_paeth(a, b, c)` for a = 0..255
  c05.unfilter <type 0-4> <bpp> <prev> <inp> <out>→ `ok <out'>` | `panic`
  c05.unpredict <predictor> <colors> <bpc> <columns> <decoded> → `ok <bytes>` | `err` | `panic` | `oof`
  c05.chain <filters> <data> <ext>                → `ok <bytes>` | `err` | `panic` | `oof`
        filters: `,`-separated, `-` for none: hex | a85 | rl | jpx | dct | ccitt | jbig2 | crypt |
                 fl:<pred>:<colors>:<bpc>:<columns>:<early> | lzw:<pred>:<colors>:<bpc>:<columns>:<early>
        ext: `-` or `;`-separated `<fn>.<input>.<output|!>`, fn ∈ z (zlib) r (raw deflate) d (dct)
             (l0 / l1 entries of older harnesses are accepted and ignored: LZW is decoded by the model itself);
             inputs that are not listed make the third-party decoder fail
  c05.pair <names> <parms>                        → `ok name=parm,…` | `err`
        names / parms: `null` | `bad` | `one:<tok>` | `arr:<tok|null>,…` (`arr:` = empty array)
  statement side (certifies that what the harness generated lies in the domain of the theorems):
  c05.conf <hex|a85|rl> <bytes> <text>            → `1` if `text` is in the encoder relation for `bytes` (sound checker), else `0`
  c05.spec.png <bpp> <stride> <tags> <image>      → the specification's PNG prediction of the image (rows of `stride` bytes)
  c05.spec.tiff <colors> <bpc> <columns> <stride> <image> → the specification's TIFF predictor 2
  c05.lzw <early 0|1> <data>                      → the model of weezl's decoder: `ok <bytes>` | `err` | `oof`
  c05.lzwconf <early 0|1> <bytes> <text>          → `1` if `text` is in the LZW encoder relation for `bytes` (sound checker)
-/

namespace DrvC05
open Enc Proto

def showOut : Out Bytes → String
  | .ok b => s!"ok {hexOfBytes b}"
  | o => o.tag

def intParams (a b c d e : String) : Option Params := do
  some { predictor := ← intOf a, colors := ← intOf b, bpc := ← intOf c, columns := ← intOf d, earlyChange := ← intOf e }

def parseFilter (s : String) : Option Filter :=
  match s.splitOn ":" with
  | ["hex"] => some .asciiHex
  | ["a85"] => some .ascii85
  | ["rl"] => some .runLength
  | ["jpx"] => some .jpx
  | ["dct"] => some .dct
  | ["ccitt"] => some .ccittFax
  | ["jbig2"] => some .jbig2
  | ["crypt"] => some .crypt
  | ["fl", a, b, c, d, e] => (intParams a b c d e).map .flate
  | ["lzw", a, b, c, d, e] => (intParams a b c d e).map .lzw
  | _ => none

def parseFilters (s : String) : Option (List Filter) :=
  if s == "-" then some [] else mapM? parseFilter (s.splitOn ",")

structure ExtEntry where
  fn : String
  input : Bytes
  output : Option Bytes

def parseExtEntry (s : String) : Option ExtEntry :=
  match s.splitOn "." with
  | [fn, i, o] => do
    if !(fn == "z" || fn == "r" || fn == "l0" || fn == "l1" || fn == "d") then none
    let input ← bytesOfHex i
    let output ← if o == "!" then some none else (bytesOfHex o).map some
    some ⟨fn, input, output⟩
  | _ => none

def parseExt (s : String) : Option (List ExtEntry) :=
  if s == "-" then some [] else mapM? parseExtEntry (s.splitOn ";")

def lookupExt (tab : List ExtEntry) (fn : String) (input : Bytes) : Option Bytes :=
  match tab.find? (fun e => e.fn == fn && e.input == input) with
  | some e => e.output
  | none => none

def extOf (tab : List ExtEntry) : Ext where
  inflateZlib := lookupExt tab "z"
  inflateRaw := lookupExt tab "r"
  dct := lookupExt tab "d"
  zlibEncode := fun _ => []
  lzwEncode := fun _ => none

def parsePVal (s : String) : Option (PVal String) :=
  if s == "null" then some .null
  else if s == "bad" then some .bad
  else if s.startsWith "one:" then some (.one (s.drop 4).toString)
  else if s == "arr:" then some (.arr [])
  else if s.startsWith "arr:" then
    some (.arr (((s.drop 4).toString.splitOn ",").map fun t => if t == "null" then none else some t))
  else none

def predType (n : Nat) : Option PredictorType :=
  match n with
  | 0 => some .noFilter | 1 => some .sub | 2 => some .up | 3 => some .avg | 4 => some .paeth
  | _ => none

def chunkList (n : Nat) : Nat → Bytes → List Bytes
  | 0, _ => []
  | _ + 1, [] => []
  | fuel + 1, l => l.take n :: chunkList n fuel (l.drop n)

def handle (args : List String) : String :=
  match args with
  | ["c05.nibble", n] =>
    match natOf n with
    | some n => if n < 256 then
        match decodeNibble (UInt8.ofNat n) with
        | some v => toString v.toNat
        | none => "none"
      else "bad-request"
    | none => "bad-request"
  | ["c05.hex", d] => match bytesOfHex d with | some d => showOut (decodeHex d) | none => "bad-request"
  | ["c05.a85", d] => match bytesOfHex d with | some d => showOut (decode85 d) | none => "bad-request"
  | ["c05.rl", d] => match bytesOfHex d with | some d => showOut (runLengthDecode d) | none => "bad-request"
  | ["c05.paethrow", b, c] =>
    match natOf b, natOf c with
    | some b, some c =>
      if b < 256 ∧ c < 256 then
        hexOfBytes ((List.range 256).map fun a => filterPaeth (UInt8.ofNat a) (UInt8.ofNat b) (UInt8.ofNat c))
      else "bad-request"
    | _, _ => "bad-request"
  | ["c05.unfilter", t, bpp, prev, inp, out] =>
    match (natOf t).bind predType, natOf bpp, bytesOfHex prev, bytesOfHex inp, bytesOfHex out with
    | some t, some bpp, some prev, some inp, some out => showOut (unfilter t bpp prev inp out)
    | _, _, _, _, _ => "bad-request"
  | ["c05.unpredict", a, b, c, d, data] =>
    match intParams a b c d "1", bytesOfHex data with
    | some p, some data => showOut (unpredict data p)
    | _, _ => "bad-request"
  | ["c05.chain", fs, data, ext] =>
    match parseFilters fs, bytesOfHex data, parseExt ext with
    | some fs, some data, some tab => showOut (decodeChain (extOf tab) data fs)
    | _, _, _ => "bad-request"
  | ["c05.pair", names, parms] =>
    match parsePVal names, parsePVal parms with
    | some n, some p =>
      match nameList n, parmList p with
      | .ok ns, .ok ps =>
        let pairs := pairFilters "default" ns ps
        if pairs.isEmpty then "ok -" else s!"ok {joinWith "," (pairs.map fun (a, b) => s!"{a}={b}")}"
      | _, _ => "err"
    | _, _ => "bad-request"
  | ["c05.conf", kind, bs, text] =>
    match bytesOfHex bs, bytesOfHex text with
    | some bs, some text =>
      if kind == "hex" then showBool (Codecs.checkHex bs text)
      else if kind == "a85" then showBool (Codecs.check85 bs text)
      else if kind == "rl" then showBool (Codecs.checkRL bs text)
      else "bad-request"
    | _, _ => "bad-request"
  | ["c05.spec.png", bpp, stride, tags, image] =>
    match natOf bpp, natOf stride, bytesOfHex tags, bytesOfHex image with
    | some bpp, some stride, some tags, some image =>
      if stride = 0 then "bad-request" else
      let rows := chunkList stride (image.length + 1) image
      if rows.length ≠ tags.length then "bad-request" else
      hexOfBytes (Codecs.pngPredictRows bpp (List.replicate stride 0) ((tags.map (·.toNat)).zip rows))
    | _, _, _, _ => "bad-request"
  | ["c05.spec.tiff", colors, bpc, columns, stride, image] =>
    match natOf colors, natOf bpc, natOf columns, natOf stride, bytesOfHex image with
    | some colors, some bpc, some columns, some stride, some image =>
      if stride = 0 then "bad-request" else
      hexOfBytes ((chunkList stride (image.length + 1) image).map (Codecs.tiffDiffRow colors bpc columns)).flatten
    | _, _, _, _, _ => "bad-request"
  | ["c05.lzw", early, d] =>
    match boolOf early, bytesOfHex d with
    | some early, some d => showOut (Lzw.decode early d)
    | _, _ => "bad-request"
  | ["c05.lzwconf", early, bs, text] =>
    match boolOf early, bytesOfHex bs, bytesOfHex text with
    | some early, some bs, some text => showBool (LzwSpec.checkLzw early bs text)
    | _, _, _ => "bad-request"
  | _ => "bad-request"

end DrvC05
