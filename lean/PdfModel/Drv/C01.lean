import PdfModel.Core.Proto
import PdfModel.Model.Parser
import PdfModel.Model.ContentLoop
import PdfModel.Model.ContentLoopEI
import PdfModel.Model.XrefTable
import PdfModel.Model.XrefStreamRead
import PdfModel.Drv.Obj
import PdfModel.Model.DeriveTower
import PdfModel.Generated.Schemas
import PdfModel.Drv.C01Typed

/-! Line-protocol handler for the C01 streams (bytes as hex, `-` = empty). The entry points that the C03
    package already serves (`c03.word`, `.peek`, `.back`, `.expect`, `.nextstream`, `.readn`, `.setpos`,
    `.offsetpos`, `.litstr`, `.hexstr`, `.parse`) are asked under their `c03.` names; here are the ones C01 adds.

  c01.seek <buf> <pos> <pat>       Lexer::seek_substr       → ok none <pos> | ok <start> <stop> <pos> | panic
  c01.seekback <buf> <pos> <pat>   Lexer::seek_substr_back  → ok <start> <stop> <pos> | err | panic
  c01.fromend <buf> <pos> <n>      Lexer::set_pos_from_end  → ok <pos>
  c01.newline <buf> <pos>          Lexer::seek_newline      → ok <start> <stop> <pos>
  c01.ctx <buf> <pos>              Lexer::ctx               → ok <start> <stop>
  c01.lexeme <buf> <pos>           StringLexer::next_lexeme (fresh lexer on buf[pos..]) → ok <byte|none> <pos> | err
  c01.hexbyte <buf> <pos>          HexStringLexer::next_hex_byte                       → ok <byte|none> <pos> | err
  c01.inline <lf|ei> <buf> <0|1>   inline_image on a content stream that starts with `BI` (cursor 2), error
                                   kinds: none is EOF; the flag says whether the typed entries convert;
                                   `lf`: the search `seek_substr("\nEI")` (`inlineImage`), `ei`: the search of repo
                                   commit 4386f8d, white-space + token `EI` (`inlineImageEI`) — the harness names
                                   the one that mirrors the code under test (`INLINE_SEARCH` in c01_corr.rs)
                                   → ok <data start> <data stop> <pos> | fail <pos>
  c01.xref <buf> <pos> <lens> <0|1>  read_xref_and_trailer_at (`XrefTable.readXrefAt`, both formats; the flag is
                                   `allow_xref_error`) → table <sections> <trailer> <pos> | stream <sections> <trailer>
                                   | err | unmodelled (a stream dictionary outside the plain shape `typedSimple` reads)
  c01.registry                     `Derive.registryOkB Generated.generatedSchemas` (the hypothesis of `typed_registry_total`)
                                   → ok schemas=<n> defaults=<n> hand-leaves=<names> | not-ok …
        sections: `first=e,e;first=…` with e = `f<next>.<gen>` | `n<pos>.<gen>` | `s<stream>.<index>`, `-` = none
-/

namespace DrvC01
open PdfLex Proto DrvObj

def bufOf (s : String) : Option Buf := (bytesOfHex s).map List.toArray

def showOut {α : Type} (f : α → String) : Out α → String
  | .ok a => "ok " ++ f a
  | o => o.tag

def showOptByte : Option UInt8 → String
  | some b => toString b.toNat
  | none => "none"

def showEntry : Xref.XRef → String
  | .free a g => s!"f{a}.{g}"
  | .raw a g => s!"n{a}.{g}"
  | .stream a g => s!"s{a}.{g}"
  | .promised => "p"
  | .invalid => "i"

def showSub (s : Xref.Sub) : String := s!"{s.first}=" ++ ",".intercalate (s.entries.map showEntry)

def showSubs (ss : List Xref.Sub) : String := if ss.isEmpty then "-" else ";".intercalate (ss.map showSub)

def kw (t : String) : List UInt8 := t.toUTF8.data.toList

def natList : List V → Option (List Nat)
  | [] => some []
  | .int n :: rest => if n ≥ 0 then (natList rest).map (n.toNat :: ·) else none
  | _ => none

/-- `Stream::<XRefInfo>::from_primitive` on the plain shape of a cross-reference stream dictionary (`/Type /XRef`,
    direct non-negative integers, no filter, only the keys below); any other shape is answered `oof`, which the
    handler reports as `unmodelled` (the typed reader is a parameter of `Model/XrefStreamRead`) -/
def typedSimple (d : Dict (List UInt8)) : Out XrefTable.XInfo :=
  let known := ["Type", "Size", "W", "Index", "Prev", "Length", "Root", "Info", "ID"].map kw
  if !(d.all fun kv => known.contains kv.1) then .oof else
  match dictGet d (kw "Type"), dictGet d (kw "Size"), dictGet d (kw "W") with
  | some (.name t), some (.int size), some (.arr ws) =>
    if t != kw "XRef" || size < 0 || size > 4294967295 then .oof else
    match natList ws with
    | none => .oof
    | some w =>
      let prevOk := match dictGet d (kw "Prev") with
        | none => true
        | some (.int n) => decide (-2147483648 ≤ n ∧ n ≤ 2147483647)
        | _ => false
      if !prevOk then .oof else
      match dictGet d (kw "Index") with
      | none => .ok ⟨w, [0, size.toNat]⟩
      | some (.arr ix) =>
        match natList ix with
        | some index => if index.all (· ≤ 4294967295) then .ok ⟨w, index⟩ else .oof
        | none => .oof
      | some _ => .oof
  | _, _, _ => .oof

/-- the data of an unfiltered stream: the bytes of its file range (the lexer runs with offset 0) -/
def dataSimple (buf : Buf) (_d : Dict (List UInt8)) : StreamInner → Out (List UInt8)
  | .inFile _ _ lo hi => .ok (slice buf lo hi)
  | .pending data => .ok data

def noOracle : Oracle := { isEof := fun _ _ => false, opOk := fun _ _ => true, imgOk := fun _ => true }

def handle (args : List String) : String :=
  match args with
  | ["c01.seek", b, p, pat] =>
    match bufOf b, natOf p, bytesOfHex pat with
    | some buf, some pos, some pat =>
      showOut (fun (r : Option (Nat × Nat) × Nat) => match r.1 with
        | some s => s!"{s.1} {s.2} {r.2}"
        | none => s!"none {r.2}") (seekSubstr buf pos pat)
    | _, _, _ => "bad-request"
  | ["c01.seekback", b, p, pat] =>
    match bufOf b, natOf p, bytesOfHex pat with
    | some buf, some pos, some pat =>
      showOut (fun (r : (Nat × Nat) × Nat) => s!"{r.1.1} {r.1.2} {r.2}") (seekSubstrBack buf pos pat)
    | _, _, _ => "bad-request"
  | ["c01.fromend", b, p, n] =>
    match bufOf b, natOf p, natOf n with
    | some buf, some pos, some n => showOut toString (setPosFromEnd buf pos n)
    | _, _, _ => "bad-request"
  | ["c01.newline", b, p] =>
    match bufOf b, natOf p with
    | some buf, some pos => showOut (fun (r : (Nat × Nat) × Nat) => s!"{r.1.1} {r.1.2} {r.2}") (seekNewline buf pos)
    | _, _ => "bad-request"
  | ["c01.ctx", b, p] =>
    match bufOf b, natOf p with
    | some buf, some pos => showOut (fun (r : Nat × Nat) => s!"{r.1} {r.2}") (ctxRange buf pos)
    | _, _ => "bad-request"
  | ["c01.lexeme", b, p] =>
    match bufOf b, natOf p with
    | some buf, some pos =>
      showOut (fun (r : Option UInt8 × Nat × Int) => s!"{showOptByte r.1} {r.2.1}") (nextLexeme buf (buf.size - pos + 1) pos 0)
    | _, _ => "bad-request"
  | ["c01.hexbyte", b, p] =>
    match bufOf b, natOf p with
    | some buf, some pos =>
      showOut (fun (r : Option UInt8 × Nat) => s!"{showOptByte r.1} {r.2}") (nextHexByte buf pos pos)
    | _, _ => "bad-request"
  | ["c01.inline", variant, b, ok] =>
    match bufOf b, boolOf ok with
    | some buf, some imgOk =>
      let o : Oracle := { noOracle with imgOk := fun _ => imgOk }
      let r := if variant == "lf" then some (inlineImage (mkEnv false 0 []) buf o 2)
        else if variant == "ei" then some (inlineImageEI (mkEnv false 0 []) buf o 2)
        else none
      match r with
      | some (.ok ((true, p), some s)) => s!"ok {s.1} {s.2} {p}"
      | some (.ok ((_, p), _)) => s!"fail {p}"
      | some o => o.tag
      | none => "bad-request"
    | _, _ => "bad-request"
  | ["c01.xref", b, p, lens, ae] =>
    match bufOf b, natOf p, lenMapOf lens, boolOf ae with
    | some buf, some pos, some lens, some allowErr =>
      let env := mkEnv false 0 lens
      match next buf pos with
      | .ok w =>
        let isTable := slice buf w.1 w.2 == XrefTable.kwXref
        match XrefTable.readXrefAt env typedSimple (dataSimple buf) allowErr buf pos with
        | .ok (secs, d) =>
          if isTable then
            -- the cursor of the table branch (the dispatcher drops it)
            match XrefTable.parseXrefTableAndTrailer env buf (XrefTable.defaultFuel buf) (defaultFuel buf) w.2 with
            | .ok (_, q) => s!"table {showSubs secs} {showVal (.dict d)} {q}"
            | o => s!"inconsistent:{o.tag}"
          else s!"stream {showSubs secs} {showVal (.dict d)}"
        | .oof => "unmodelled"
        | o => o.tag
      | o => o.tag
    | _, _, _, _ => "bad-request"
  | ["c01.registry"] =>
    -- the decidable hypothesis `RegistryOk` of `Props/C01.typed_registry_total`, evaluated on the generated schemas
    let G := Generated.generatedSchemas
    let bad := (G.filter fun S => !S.dfltOk G).map (·.name)
    let nd := (G.flatMap fun S => S.fields.filterMap (·.default)).length
    let hand := ((G.flatMap fun S => S.fields.flatMap fun f => f.shape.leaves).filter
      (fun n => Derive.isHand G (.leaf n))).eraseDups
    if Derive.registryOkB G then s!"ok schemas={G.length} defaults={nd} hand-leaves={",".intercalate hand}"
    else s!"not-ok defaults-that-do-not-evaluate-in={",".intercalate bad}"
  | args => DrvC01T.handle args      -- c01.date, c01.cs, c01.font: Drv/C01Typed.lean

end DrvC01
