import PdfModel.Core.Proto
import PdfModel.Model.CacheDoc

/-! Line-protocol handler for the C12 streams (shared parsers are reused by `Drv/C13`).

  c12.run <cfg> <tol> <size> <root> <objs> <calls>
     cfg    two digits: object cache on/off, stream cache on/off            e.g. `10`
     tol    `1` = ParseOptions::tolerant (allow_error_in_option), `0` = strict
     size   /Size of the cross-reference table
     root   object number of the catalog (the file is opened with `File::load_data`, which loads it)
     objs   `;`-separated  `id,place,kind,args…`
              place  `d` direct | `f` free | `s<sid>.<idx>` member of object stream sid
              kind   `i,<v>` | `d` | `P,<parent|0>,<kids|->,<count>` | `p,<parent>` | `c,<pages>`
                     | `S,<filters|->,<stages>` | `X,<filters|->,<stages>` | `O,<n>,<filters|->,<stages>`
                     | `A,<page|0>` annotation | `V,<ids|->` array of annotation references
              lists are `.`-separated
     calls  `;`-separated (`-` = none)  `g<T>.<id>` typed load | `r.<id>` resolve | `s.<id>` Stream::data
              | `w.<id>` raw_image_data | `m.<id>` image_data | `p.<n>` File::get_page
  → `<open>|<answer>;<answer>;…`   answers `ok:<value>` | `err:<class>` | `oof`

  c12.dom <tol> <size> <root> <objs>
  → `1` if the description lies in the domain of the theorems of Props/C12 (`CacheDoc.okRanks`: no cycle
    among typed loads; sound by `Cache.generated_doc_wf`), else `0`
-/

namespace DrvC12
open Cache CacheDoc Proto

def parseNatList (s : String) : Option (List Nat) :=
  if s == "-" then some [] else mapM? natOf (s.splitOn ".")

def parseStrList (s : String) : List String :=
  if s == "-" then [] else s.splitOn "."

def parsePlace (s : String) : Option Place :=
  if s == "d" then some .direct
  else if s == "f" then some .free
  else if s.startsWith "s" then
    match (s.drop 1).toString.splitOn "." with
    | [a, b] => do some (.inStm (← natOf a) (← natOf b))
    | _ => none
  else none

def parseKind : List String → Option Kind
  | ["i", v] => do some (.int (← intOf v))
  | ["d"] => some .dict
  | ["P", p, ks, c] => do some (.pages (← natOf p) (← parseNatList ks) (← natOf c))
  | ["p", p] => do some (.page (← natOf p))
  | ["c", p] => do some (.cat (← natOf p))
  | ["S", fs, st] => do some (.stream (← parseNatList fs) (parseStrList st))
  | ["X", fs, st] => do some (.image (← parseNatList fs) (parseStrList st))
  | ["O", n, fs, st] => do some (.objstm (← natOf n) (← parseNatList fs) (parseStrList st))
  | ["A", p] => do some (.annot (← natOf p))
  | ["V", ids] => do some (.annots (← parseNatList ids))
  | _ => none

def parseObj (s : String) : Option Obj :=
  match s.splitOn "," with
  | id :: pl :: rest => do some ⟨← natOf id, ← parseKind rest, ← parsePlace pl⟩
  | _ => none

def parseObjs (s : String) : Option (List Obj) :=
  if s == "-" then some [] else mapM? parseObj (s.splitOn ";")

def parseCall (s : String) : Option CallK :=
  match s.splitOn "." with
  | [k, a] =>
    if k == "r" then (natOf a).map .resolve
    else if k == "s" then (natOf a).map .sdata
    else if k == "w" then (natOf a).map .rawimg
    else if k == "m" then (natOf a).map .imgdata
    else if k == "p" then (natOf a).map .page
    else if k.startsWith "g" then do some (.get (← natOf (k.drop 1).toString) (← natOf a))
    else none
  | _ => none

def parseCalls (s : String) : Option (List CallK) :=
  if s == "-" then some [] else mapM? parseCall (s.splitOn ";")

def parseCfg (s : String) : Option Cfg :=
  match s.toList with
  | [a, b] => do some ⟨← boolOf a.toString, ← boolOf b.toString, false⟩
  | _ => none

/-- open the file (`get::<Catalog>(root)` through the caches), then the calls in order -/
def runAll (d : Desc) (cfg : Cfg) (rootId : Nat) (calls : List CallK) : String :=
  let doc := toDoc d
  let fuel := d.size + d.objs.length + 4
  let o := call doc cfg fuel St.empty (getP tC rootId)
  let rec go (st : St Val String) : List CallK → List String
    | [] => []
    | c :: cs =>
      let q := call doc cfg fuel st (c.prog d o.1)
      renderRes q.1 :: go q.2 cs
  match o.1 with
  | .ok _ => s!"{renderRes o.1}|{joinWith ";" (go o.2 calls)}"
  | _ => s!"{renderRes o.1}|"   -- `File::load_data` failed: there is no file to call

def handle (args : List String) : String :=
  match args with
  | ["c12.run", cfg, tol, size, root, objs, calls] =>
    match parseCfg cfg, boolOf tol, natOf size, natOf root, parseObjs objs, parseCalls calls with
    | some cfg, some tol, some size, some root, some objs, some calls =>
      runAll ⟨size, tol, objs⟩ cfg root calls
    | _, _, _, _, _, _ => "bad-request"
  | ["c12.dom", tol, size, _root, objs] =>
    match boolOf tol, natOf size, parseObjs objs with
    | some tol, some size, some objs => showBool (okRanks ⟨size, tol, objs⟩)
    | _, _, _ => "bad-request"
  | _ => "bad-request"

end DrvC12
