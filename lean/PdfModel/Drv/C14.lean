import PdfModel.Core.Proto
import PdfModel.Model.TypedLoad
import PdfModel.Model.Numeric

/-! Line-protocol handler for the C14 streams (lists: `,` between items, `-` for the empty list).

  c14.load <tolerant 0|1> <k> <objs>       obj `b` (malformed) | `m` (free / undefined) | `n<tag>` | `n<tag>:<field>+<field>…`, field `target.kind.want` (kind 0 required, 1 optional, 2 list element; want `x` = none)
      → ok | err
  c14.resolve <k> <objs>                   obj `r<j>` | `v<n>`            → `ok <v> | err` then ` ` + the same for fromPrim
  c14.walk <root> <objs>                   obj `l<n>` | `i` | `i<k>+<k>…` | `b`   → `ok <calls> <gets>` | `err <gets>`
  c14.page <n> <rootkids> <objs>           obj `t<count>` | `t<count>:<k>+…` | `p` | `b`; rootkids `k+k…` or `-`   → `ok <leaf>` | `err`
  c14.cs <k> <objs>                        obj `n` | `x<b>` | `s<b>` | `d<b>` | `o` | `b`  → ok | err
  c14.keysched <clamp> <revision> <keyBits> <userOk>   → ok | err | panic   (slices of from_password, revisions 2–4)
  c14.objkey <aes> <keySize> <keyLen>      → ok | panic   (slices of Decoder::decrypt)
  c14.ap <k> <objs>                        obj `s` | `d` | `d<v>+<v>…` | `b`   → ok | err
  c14.prev <start_offset> <startxref|x> <buffer length> <abs:sec,…>   sec `u` (unreadable) | `e` (no /Prev) | `p<header-relative number>`
                                           (positions not listed are unreadable)  → `ok <sections>` | err
  c14.xref <tolerant> <W> <index pairs f.n,…> <data hex>   → `ok first:e+e…;first:…` (entry `f.a.b | r.a.b | s.a.b`) | err
  c14.objstm <first> <N> <pairs a.b,…> <index> <dataLen>   (a, b: number or `x`)  → `ok <start> <end>` | err
  c14.diff <parts>                         part `c<int>` | `n<id>` | `o`   → `ok gid.name,…` | err
  c14.ps <program hex> <input ints> <outLen>    → `ok <f32 bits>,…` | err
  Every answer is `panic` / `oof` if the model says so.
-/

namespace DrvC14
open Proto TypedLoad Numeric

def listOf (s : String) (sep : String) : List String :=
  if s == "-" then [] else s.splitOn sep

def dropPrefix (s : String) (n : Nat) : String := String.ofList (s.toList.drop n)

-- ---------------------------------------------------------------- load

def parseField (s : String) : Option Field :=
  match s.splitOn "." with
  | [t, o, w] => do
    let t ← natOf t
    -- `0` required, `1` optional, `2` element of a list (a missing object is skipped)
    let (o, sk) ← if o == "2" then some (false, true) else (boolOf o).map (·, false)
    let w ← if w == "x" then some none else (natOf w).map some
    some ⟨t, o, w, sk⟩
  | _ => none

def parseObj (s : String) : Option Obj :=
  if s == "b" then some .bad
  else if s == "m" then some .missing
  else if s.startsWith "n" then
    match (dropPrefix s 1).splitOn ":" with
    | [tag] => do some (.node (← natOf tag) [])
    | [tag, fs] => do some (.node (← natOf tag) (← mapM? parseField (fs.splitOn "+")))
    | _ => none
  else none

-- ---------------------------------------------------------------- resolve

def parseStored (s : String) : Option Stored :=
  if s.startsWith "r" then (natOf (dropPrefix s 1)).map .ref
  else if s.startsWith "v" then (natOf (dropPrefix s 1)).map .val
  else none

def showOutNat : Out Nat → String
  | .ok v => s!"ok {v}"
  | o => o.tag

-- ---------------------------------------------------------------- walk

def parseNats (s : String) : Option (List Nat) :=
  if s == "" then some [] else mapM? natOf (s.splitOn "+")

def parseTNode (s : String) : Option TNode :=
  if s == "b" then some .bad
  else if s.startsWith "l" then (natOf (dropPrefix s 1)).map .leaf
  else if s.startsWith "i" then (parseNats (dropPrefix s 1)).map .inter
  else none

-- ---------------------------------------------------------------- page

def parsePNode (s : String) : Option PNode :=
  if s == "b" then some .bad
  else if s == "p" then some .leaf
  else if s.startsWith "t" then
    match (dropPrefix s 1).splitOn ":" with
    | [c] => do some (.tree [] (← natOf c))
    | [c, ks] => do some (.tree (← parseNats ks) (← natOf c))
    | _ => none
  else none

-- ---------------------------------------------------------------- colour spaces

def parseCObj (s : String) : Option CObj :=
  if s == "n" then some .name
  else if s == "o" then some .otherArray
  else if s == "b" then some .bad
  else if s.startsWith "x" then (natOf (dropPrefix s 1)).map .indexed
  else if s.startsWith "s" then (natOf (dropPrefix s 1)).map .separation
  else if s.startsWith "d" then (natOf (dropPrefix s 1)).map .deviceN
  else none

def parseAObj (s : String) : Option AObj :=
  if s == "s" then some .stream
  else if s == "b" then some .bad
  else if s.startsWith "d" then (parseNats (dropPrefix s 1)).map .dict
  else none

-- ---------------------------------------------------------------- prev

def parseSec (s : String) : Option (Option (Option Nat)) :=
  if s == "u" then some none
  else if s == "e" then some (some none)
  else if s.startsWith "p" then (natOf (dropPrefix s 1)).map (fun p => some (some p))
  else none

/-- `abs:u | abs:e | abs:p<rel>`: what is at an absolute buffer position -/
def parseSecAt (s : String) : Option (Nat × Option (Option Nat)) :=
  match s.splitOn ":" with
  | [a, k] => do some (← natOf a, ← parseSec k)
  | _ => none

-- ---------------------------------------------------------------- xref

def parsePair (s : String) : Option (Nat × Nat) :=
  match s.splitOn "." with
  | [a, b] => do some (← natOf a, ← natOf b)
  | _ => none

def showXEntry : XEntry → String
  | .free a b => s!"f.{a}.{b}"
  | .raw a b => s!"r.{a}.{b}"
  | .stream a b => s!"s.{a}.{b}"

def showSection (p : Nat × List XEntry) : String :=
  s!"{p.1}:{if p.2.isEmpty then "-" else joinWith "+" (p.2.map showXEntry)}"

-- ---------------------------------------------------------------- objstm

def parseOptNat (s : String) : Option (Option Nat) :=
  if s == "x" then some none else (natOf s).map some

def parseOptPair (s : String) : Option (Option Nat × Option Nat) :=
  match s.splitOn "." with
  | [a, b] => do some (← parseOptNat a, ← parseOptNat b)
  | _ => none

-- ---------------------------------------------------------------- differences

def parseDPart (s : String) : Option DPart :=
  if s == "o" then some .other
  else if s.startsWith "c" then (intOf (dropPrefix s 1)).map .code
  else if s.startsWith "n" then (natOf (dropPrefix s 1)).map .name
  else none

-- ---------------------------------------------------------------- PostScript

def f32Arith : Arith Float32 where
  ofInt := Float32.ofInt
  add := (· + ·)
  sub := (· - ·)
  mul := (· * ·)
  abs := Float32.abs
  toIsize := fun v => v.toInt64.toInt
  toUsize := fun v => v.toUInt64.toNat

def isWs (b : Nat) : Bool := b == 32 || b == 9 || b == 10 || b == 12 || b == 13

def splitWs : List Nat → List Nat → List (List Nat) → List (List Nat)
  | [], cur, acc => (if cur.isEmpty then acc else cur.reverse :: acc).reverse
  | b :: rest, cur, acc =>
    if isWs b then splitWs rest [] (if cur.isEmpty then acc else cur.reverse :: acc)
    else splitWs rest (b :: cur) acc

def tokStr (t : List Nat) : String := String.ofList (t.map (fun b => Char.ofNat b))

def allDigits (s : String) : Bool := !s.isEmpty && s.toList.all Char.isDigit

/-- the tokens the generator emits: integers (optionally negative), `d.d` decimals, operator names -/
def parsePsOp (t : List Nat) : Option (PsOp Float32) :=
  let s := tokStr t
  let (neg, body) := if s.startsWith "-" then (true, dropPrefix s 1) else (false, s)
  if allDigits body then
    let n := body.toNat!
    let i : Int := if neg then -(n : Int) else (n : Int)
    if -2147483648 ≤ i ∧ i ≤ 2147483647 then some (.int i)
    else
      let f := Float32.ofScientific n false 0
      some (.value (if neg then -f else f))
  else
    match body.splitOn "." with
    | [a, b] =>
      if allDigits a && allDigits b then
        let f := Float32.ofScientific (a ++ b).toNat! true b.length
        some (.value (if neg then -f else f))
      else none
    | _ =>
      if neg then none else
      match s with
      | "add" => some .add | "sub" => some .sub | "abs" => some .abs | "mul" => some .mul
      | "dup" => some .dup | "exch" => some .exch | "roll" => some .roll | "index" => some .index
      | "cvr" => some .cvr | "pop" => some .pop
      | _ => none

def showF32 (f : Float32) : String := if f.isNaN then "nan" else toString f.toBits.toNat

def outTag {α : Type} (o : Out α) : String := o.tag

def handle (args : List String) : String :=
  match args with
  | ["c14.load", tol, k, objs] =>
    match boolOf tol, natOf k, mapM? parseObj (listOf objs ",") with
    | some tol, some k, some g => (load g tol (g.length + 1) [] k).tag
    | _, _, _ => "bad-request"
  | ["c14.resolve", k, objs] =>
    match natOf k, mapM? parseStored (listOf objs ",") with
    | some k, some g => s!"{showOutNat (resolve g k)} {showOutNat (fromPrim g 2 (.reference k))}"
    | _, _ => "bad-request"
  | ["c14.walk", root, objs] =>
    match natOf root, mapM? parseTNode (listOf objs ",") with
    | some root, some g =>
      match g[root]? with
      | none => "err 0"
      | some .bad => "err 0"
      | some node =>
        let r := walkTree g node
        match r.out with
        | .ok _ => s!"ok {r.st.calls} {r.st.gets}"
        | .err => s!"err {r.st.gets}"
        | o => o.tag
    | _, _ => "bad-request"
  | ["c14.page", n, kids, objs] =>
    match natOf n, parseNats (if kids == "-" then "" else kids), mapM? parsePNode (listOf objs ",") with
    | some n, some kids, some g => showOutNat (page g true kids n).out
    | _, _, _ => "bad-request"
  | ["c14.cs", k, objs] =>
    match natOf k, mapM? parseCObj (listOf objs ",") with
    | some k, some g => (csLoad g 5 k).tag
    | _, _ => "bad-request"
  | ["c14.keysched", clamp, revision, bits, userOk] =>
    match boolOf clamp, natOf revision, natOf bits, boolOf userOk with
    | some c, some r, some b, some u => (keySchedule c r b u).tag
    | _, _, _, _ => "bad-request"
  | ["c14.objkey", aes, keySize, keyLen] =>
    match boolOf aes, natOf keySize, natOf keyLen with
    | some a, some ks, some kl => (objectKeySlices a ks kl).tag
    | _, _, _ => "bad-request"
  | ["c14.ap", k, objs] =>
    match natOf k, mapM? parseAObj (listOf objs ",") with
    | some k, some g => (apLoad g 2 k).tag
    | _, _ => "bad-request"
  | ["c14.prev", start, xrefOffset, len, entries] =>
    match natOf start, natOf len, mapM? parseSecAt (listOf entries ",") with
    | some start, some len, some es =>
      -- `x`: the number after `startxref` is not a usize
      match natOf xrefOffset with
      | none => if xrefOffset == "x" then "err" else "bad-request"
      | some x =>
        let secs : Sections := es.foldl (fun (t : Sections) (e : Nat × Option (Option Nat)) => t.set e.1 e.2) (List.replicate len none)
        showOutNat (readChain secs start (secs.length + 1) x)
    | _, _, _ => "bad-request"
  | ["c14.xref", tol, w, pairs, data] =>
    match boolOf tol, mapM? natOf (listOf w ","), mapM? parsePair (listOf pairs ","), bytesOfHex data with
    | some tol, some w, some pairs, some data =>
      match xrefSections 64 true tol w pairs (data.map UInt8.toNat) [] with
      | .ok secs => s!"ok {if secs.isEmpty then "-" else joinWith ";" (secs.map showSection)}"
      | o => o.tag
    | _, _, _, _ => "bad-request"
  | ["c14.objstm", first, n, pairs, index, dataLen] =>
    match natOf first, natOf n, mapM? parseOptPair (listOf pairs ","), natOf index, natOf dataLen with
    | some first, some n, some pairs, some index, some dataLen =>
      match objOffsets n pairs [] with
      | .ok offsets =>
        match objSlice 64 true first offsets index dataLen with
        | .ok (s, e) => s!"ok {s} {e}"
        | o => o.tag
      | o => o.tag
    | _, _, _, _, _ => "bad-request"
  | ["c14.diff", parts] =>
    match mapM? parseDPart (listOf parts ",") with
    | some parts =>
      match differences true parts 0 [] with
      | .ok m => s!"ok {if m.isEmpty then "-" else joinWith "," (m.map fun p => s!"{p.1}.{p.2}")}"
      | o => o.tag
    | none => "bad-request"
  | ["c14.ps", prog, input, outLen] =>
    match bytesOfHex prog, mapM? intOf (listOf input ","), natOf outLen with
    | some prog, some input, some outLen =>
      match psBody true (prog.map UInt8.toNat) with
      | .ok body =>
        match mapM? parsePsOp (splitWs body [] []) with
        | none => "err"
        | some ops =>
          match exec f32Arith true ops (input.map Float32.ofInt) outLen with
          | .ok st => s!"ok {if st.isEmpty then "-" else joinWith "," (st.map showF32)}"
          | o => o.tag
      | o => o.tag
    | _, _, _ => "bad-request"
  | _ => "bad-request"

end DrvC14
