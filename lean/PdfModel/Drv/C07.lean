import PdfModel.Core.Proto
import PdfModel.Model.PageTree
import PdfModel.Model.PageTreeBytes
import PdfModel.Model.PageTreeDerived

/-! Line-protocol handler for the C07 streams.

  c07.bytes <nq> <hex file> [@tag]     the byte-level composition: `PageTreeB.openPagesB` (open path, resolver, parser
                                        models, node reader) then `getPage` for i < nq; same answer format
  c07.dflt0                            `1` iff the literal default `"0"` evaluates to the integer 0 at the tower levels 1..25
                                        (the hypothesis `DefaultZeroEvaluates` of `page_nth_bytes_partial3`, evaluated)
  c07.agree <hex file> [@tag]          `1` iff on every page-tree object of the file the derived readers yield the node the
                                        hand-written `nodeOf` yields (the hypothesis `DerivedAgrees` of `page_nth_bytes_partial2`,
                                        evaluated), else `0 <object numbers>`
  c07.bytesd <nq> <hex file> [@tag]    the same with the *derived* node readers (`PageTreeB.openPagesBD`: /Type dispatch over the
                                        generated schemas of `Page` / `PageTree`, parent chains loaded through the resolver)
  c07.tree <root> <nq> <objs> [@<stream>/<seed>/<case>]      (the last field is a replay tag, ignored)
      objs: objects separated by `;`, fields by `:`
        P:<id>:<parent>:<mb>:<cb>:<rs>                         /Type /Page
        T:<id>:<parent|->:<kids k+k+..|->:<count>:<mb>:<cb>:<rs>   /Type /Pages
        O:<id>                                                 something that is neither
      attributes: marker or `-`
  → `root=err` | `root=<tag>` |
    `num=<count> r0 r1 … r(nq-1)`   with ri = `ok.<id>.<mb>.<cb>.<rs>` (each attribute: marker or `E`) | err | panic | oof
-/

namespace DrvC07
open PageTree Proto

def optNat (s : String) : Option (Option Nat) :=
  if s == "-" then some none else (natOf s).map some

def parseAttrs (mb cb rs : String) : Option Attrs := do
  some ⟨← optNat mb, ← optNat cb, ← optNat rs⟩

def parseKids (s : String) : Option (List Nat) :=
  if s == "-" then some [] else mapM? natOf (s.splitOn "+")

def parseObj (s : String) : Option (Nat × Obj) :=
  match s.splitOn ":" with
  | ["P", id, parent, mb, cb, rs] => do
    some (← natOf id, .page (← natOf parent) (← parseAttrs mb cb rs))
  | ["T", id, parent, kids, count, mb, cb, rs] => do
    some (← natOf id, .pages (← optNat parent) (← parseKids kids) (← natOf count) (← parseAttrs mb cb rs))
  | ["O", id] => do some (← natOf id, .other)
  | _ => none

def tblOf (l : List (Nat × Obj)) : Tbl := fun i => (l.find? (·.1 == i)).map (·.2)

def showAttr : Out Nat → String
  | .ok n => toString n
  | .err => "E"
  | .panic => "PANIC"
  | .oof => "OOF"

def showPage : Out Leaf → String
  | .ok l => s!"ok.{l.id}.{showAttr (mediaBox l)}.{showAttr (cropBox l)}.{showAttr (resources l)}"
  | o => o.tag

def handle (args : List String) : String :=
  match args with
  | ["c07.dflt0"] =>
    -- the hypothesis `DefaultZeroEvaluates` of `page_nth_bytes_partial3`, evaluated at the tower levels in use
    if (List.range 25).all fun k =>
        match (Derive.semN ⟨true⟩ Generated.generatedSchemas (k + 1)).dflt "0" [] with
        | .ok (.leaf (.int 0)) => true
        | _ => false
    then "1" else "0"
  | ["c07.agree", file, _tag] => handle ["c07.agree", file]
  | ["c07.agree", file] =>
    match bytesOfHex file with
    | some bs =>
      let env : PdfLex.Env (List UInt8) :=
        { parseReal := fun t => some t, resolveLen := fun _ _ => .err, allowMissingEndobj := false, decrypt := none, fileOffset := 0 }
      let dec : PdfLex.Dict (List UInt8) → List UInt8 → Out (List UInt8) :=
        fun d raw => match PdfLex.dictGet d OpenBytes.kFilter with | none => .ok raw | some _ => .err
      match OpenBytes.openB env (3 * bs.length + 64) dec 64 bs with
      | .ok (start, t, _) =>
        let a := PageTreeB.tblB PageTreeB.nodeOf env (3 * bs.length + 64) dec 16 bs start t
        let b := PageTreeB.tblBD (fun _ => 0) env (3 * bs.length + 64) dec 16 bs start t
        -- objects that are page-tree nodes for the hand-written reader: the derived readers must yield the same node
        let bad := (List.range t.length).filter fun id =>
          match a id with
          | some (.page _ _) | some (.pages _ _ _ _) => decide (a id ≠ b id)
          | _ => false
        if bad.isEmpty then "1" else s!"0 {joinWith "," (bad.map toString)}"
      | o => s!"open={o.tag}"
    | none => "bad-request"
  | ["c07.bytesd", nq, file, _tag] => handle ["c07.bytesd", nq, file]
  | ["c07.bytesd", nq, file] =>
    match natOf nq, bytesOfHex file with
    | some nq, some bs =>
      let env : PdfLex.Env (List UInt8) :=
        { parseReal := fun t => some t, resolveLen := fun _ _ => .err, allowMissingEndobj := false, decrypt := none, fileOffset := 0 }
      let dec : PdfLex.Dict (List UInt8) → List UInt8 → Out (List UInt8) :=
        fun d raw => match PdfLex.dictGet d OpenBytes.kFilter with | none => .ok raw | some _ => .err
      -- reals occur only in positions of a box the page tree does not observe: their bit pattern is immaterial
      match PageTreeB.openPagesBD (fun _ => 0) env (3 * bs.length + 64) dec 64 16 64 bs with
      | .ok (tbl, r) =>
        let rs := (List.range nq).map fun i => showPage (getPage tbl 64 r i)
        s!"num={numPages r} {joinWith " " rs}"
      | o => s!"root={o.tag}"
    | _, _ => "bad-request"
  | ["c07.bytes", nq, file, _tag] => handle ["c07.bytes", nq, file]
  | ["c07.bytes", nq, file] =>
    match natOf nq, bytesOfHex file with
    | some nq, some bs =>
      let env : PdfLex.Env (List UInt8) :=
        { parseReal := fun t => some t, resolveLen := fun _ _ => .err, allowMissingEndobj := false, decrypt := none, fileOffset := 0 }
      let dec : PdfLex.Dict (List UInt8) → List UInt8 → Out (List UInt8) :=
        fun d raw => match PdfLex.dictGet d OpenBytes.kFilter with | none => .ok raw | some _ => .err
      match PageTreeB.openPagesB PageTreeB.nodeOf env (3 * bs.length + 64) dec 64 16 64 bs with
      | .ok (tbl, r) =>
        let rs := (List.range nq).map fun i => showPage (getPage tbl 64 r i)
        s!"num={numPages r} {joinWith " " rs}"
      | o => s!"root={o.tag}"
    | _, _ => "bad-request"
  | ["c07.tree", root, nq, objs, _tag] => handle ["c07.tree", root, nq, objs]
  | ["c07.tree", root, nq, objs] =>
    match natOf root, natOf nq, mapM? parseObj (objs.splitOn ";") with
    | some root, some nq, some l =>
      let tbl := tblOf l
      let fuel := l.length + 2
      match loadRoot tbl fuel root with
      | .ok r =>
        let rs := (List.range nq).map fun i => showPage (getPage tbl fuel r i)
        s!"num={numPages r} {joinWith " " rs}"
      | o => s!"root={o.tag}"
    | _, _, _ => "bad-request"
  | _ => "bad-request"

end DrvC07
