import PdfModel.Core.Proto
import PdfModel.Drv.C15
import PdfModel.Model.DateRead
import PdfModel.Model.ColorSpaceLoad
import PdfModel.Model.FontLoad
import PdfModel.Model.DeriveTower
import PdfModel.Generated.Schemas

/-! Line-protocol handler for the typed-reader streams of C01 (`harness/src/c01_typed.rs`). Primitives, object tables and
    missing-object tables are in the text form of `Drv/C15.lean` (`n`, `i<int>`, `r<bits>`, `t`, `f`, `s<hex>`, `N<hex>`,
    `[..]`, `{hexkey:prim,..}`, `R<id>.<gen>`; objects `id=prim;…`, `-` = none).

  c01.date <hex>                      `Date::from_primitive` on a string primitive with these bytes (`DateRead.readDate`)
                                      → ok <year> <month> <day> <hour> <minute> <second> <rel> <tzh> <tzm> | err | panic
  c01.cs <depth> <objs> <streams> <prim>
                                      `ColorSpace::from_primitive_depth` (`CSLoad.csRead`); streams: `id=<dict>~<hex>;…`
                                      → ok <space> <calls> | err | oof
        space:  G | RGB | CMYK | P | Nm(<hexname>) | I(<space>;<hival>;s<hex>|?) | S(<hexname>;<space>) | ICC
                | DN(<space>;<dict>|-) | CG(<dict>) | CR(<dict>) | CC(<dict>) | O(<array>)
        calls:  the recorded loads in order, `|`-separated, `-` = none: F<prim> `Function::from_primitive`,
                I<prim> `RcRef::<Stream<IccInfo>>::from_primitive`, V<prim> `Vec::<Name>::from_primitive`,
                X<dict>~<hex> the data of a `Stream<()>` with filters
  c01.font <0|1> <objs> <missing> <streams> <prim>
                                      `Font::from_primitive` up to the loads it hands over to (`FontLoad.fontPlan`); the flag
                                      is `allow_error_in_option`
                                      → ok <hexsubtype> <hexname|-> <enc> <tu> <other> <loader> <dict> | err | oof
        enc:    - | <hexbase>/<code>:<hexname>,…   (sorted by code, the newest binding of a code)
        tu:     - | <prim>      loader: T0 | TF | CID | O
-/

namespace DrvC01T
open Derive Proto DrvC15

def showDate (d : Derive.Date) : String :=
  s!"{d.year} {d.month} {d.day} {d.hour} {d.minute} {d.second} {d.rel} {d.tzHour} {d.tzMinute}"

def parseStreams (s : String) : Option (List (Nat × (Dict × List UInt8))) :=
  if s == "-" then some [] else
  mapM? (fun e => match e.splitOn "=" with
    | [a, b] =>
      match b.splitOn "~" with
      | [d, h] =>
        match natOf a, parsePrimAll d, bytesOfHex (if h == "" then "-" else h) with
        | some id, some (.dict kvs), some bs => some (id, (kvs, bs))
        | _, _, _ => none
      | _ => none
    | _ => none) (s.splitOn ";")

open CSLoad in
partial def showCS : CS → String
  | .deviceGray => "G"
  | .deviceRGB => "RGB"
  | .deviceCMYK => "CMYK"
  | .pattern => "P"
  | .named n => s!"Nm({hexOfString n})"
  | .indexed b h (.bytes bs) => s!"I({showCS b};{h};s{hexOfBytes bs})"
  | .indexed b h (.deferred _ _) => s!"I({showCS b};{h};?)"
  | .separation n a _ => s!"S({hexOfString n};{showCS a})"
  | .icc _ => "ICC"
  | .deviceN _ a _ none => s!"DN({showCS a};-)"
  | .deviceN _ a _ (some d) => s!"DN({showCS a};{showPrim (.dict d)})"
  | .calGray d => s!"CG({showPrim (.dict d)})"
  | .calRGB d => s!"CR({showPrim (.dict d)})"
  | .calCMYK d => s!"CC({showPrim (.dict d)})"
  | .other arr => s!"O({showPrim (.arr arr)})"

open CSLoad in
def showSub : Sub → String
  | .function p => "F" ++ showPrim p
  | .icc p => "I" ++ showPrim p
  | .names p => "V" ++ showPrim p
  | .streamData i d => "X" ++ showPrim (.dict i) ++ "~" ++ hexOfBytes d

def showR {α : Type} (f : α → String) : R α → String
  | .ok a => "ok " ++ f a
  | .error e => if e.hasOof then "oof" else "err"

def showEnc : Option (String × FontEncoding.DMap String) → String
  | none => "-"
  | some (b, m) =>
    hexOfString b ++ "/" ++ ",".intercalate ((sortDiffs m).map fun kv => s!"{kv.1}:{hexOfString kv.2}")

def showLoader : FontLoad.Loader → String
  | .type0 => "T0"
  | .tfont => "TF"
  | .cid => "CID"
  | .other => "O"

def showPlan (pl : FontLoad.Plan) : String :=
  let nm := match pl.name with | some n => hexOfString n | none => "-"
  let tu := match pl.toUnicode with | some q => showPrim q | none => "-"
  s!"{hexOfString pl.subtype} {nm} {showEnc pl.encoding} {tu} {showPrim (.dict pl.other)} {showLoader pl.loader} {showPrim (.dict pl.dict)}"

def handle (args : List String) : String :=
  match args with
  | ["c01.date", h] =>
    match bytesOfHex h with
    | some bs =>
      match DateRead.readDate bs with
      | .ok d => "ok " ++ showDate d
      | o => o.tag
    | none => "bad-request"
  | ["c01.cs", depth, objs, streams, prim] =>
    match natOf depth, parseObjects objs, parseStreams streams, parsePrimAll prim with
    | some n, some os, some ss, some p =>
      let se : CSLoad.SEnv := { env := mkEnv os [] false, streams := fun id => ss.lookup id }
      showR (fun cs =>
        let subs := cs.subs
        showCS cs ++ " " ++ (if subs.isEmpty then "-" else "|".intercalate (subs.map showSub))) (CSLoad.csRead se n p)
    | _, _, _, _ => "bad-request"
  | ["c01.font", tol, objs, missing, streams, prim] =>
    match parseObjects objs, parseMissing missing, parseStreams streams, parsePrimAll prim with
    | some os, some ms, some ss, some p =>
      -- a stream object is not a dictionary, a name or an array: every resolve the plan makes fails on it
      let base := mkEnv os ms (tol == "1")
      let env : Env := { base with resolve := fun id => if (ss.lookup id).isSome then .error .other else base.resolve id }
      showR showPlan (FontLoad.fontPlan env Generated.s_FontType p)
    | _, _, _, _ => "bad-request"
  | _ => "bad-request"

end DrvC01T
