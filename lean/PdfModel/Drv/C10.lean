import PdfModel.Core.Proto
import PdfModel.Model.Build
import PdfModel.Drv.C09
import PdfModel.Model.BuildBytes

/-! Line-protocol handler for the C10 streams.

  c10.build <cached> <npages> <info 0|1> <id.len,id.len,…> <xlen> <tail>
     runs `PdfBuilder::build` of the model on `npages` pages (payloads are the page indices) with the
     measured record lengths
  → `ok/<tree>/<kid+kid+…>/<pid.res.content,…>/<catalog>/<info|n>/<xpos>/<size>/<aw.bw>/<objs>/<rows>/<len>/<xref data hex>`
    | `err` | `panic`
  c10.bytes <info|n> <page|page|…>
     `BuildBytes.buildB`: the whole file `PdfBuilder::build` returns. A page is
     `<other>~<boxes>~<rest>~<resources>~<content hex>`: three dictionaries (entries in order) and a value in the
     notation of Drv/Obj.lean, and the bytes of the content stream; `-` for no pages
  → `ok/<hex of the file>` | `err` | `panic`
  c10.bytelen <n>          → byteLen n  (xref.rs `byte_len`, reached through `write_stream`)
  c10.table <e,e,…>        → `ok <aw>.<bw> <hex of the rows>` | `err`: `XRefTable::write_stream` of that table
-/

namespace DrvC10
open Build Storage Xref Proto

abbrev BT := BVal Nat Nat Nat Nat

def pagesN (n : Nat) : List (PageSpec Nat Nat Nat) := (List.range n).map fun i => ⟨i, i, i⟩

def showObjs (os : List (Obj BT)) : String :=
  if os.isEmpty then "-" else joinWith "," (os.map fun o => s!"{o.id}.{o.gen}@{o.off}")

def natList (xs : List Nat) : String := if xs.isEmpty then "-" else joinWith "+" (xs.map toString)

def parsePageB (s : String) : Option (BuildBytes.PageB (List UInt8)) :=
  match s.splitOn "~" with
  | [o, b, r, res, c] =>
    match DrvObj.valOf o, DrvObj.valOf b, DrvObj.valOf r, DrvObj.valOf res, bytesOfHex c with
    | some (.dict o), some (.dict b), some (.dict r), some res, some c => some ⟨o, b, r, res, c⟩
    | _, _, _, _, _ => none
  | _ => none

def handle (args : List String) : String :=
  match args with
  | ["c10.bytes", info, pages] =>
    match (if info == "n" then some none else (DrvObj.valOf info).map some),
          (if pages == "-" then some [] else mapM? parsePageB (pages.splitOn "|")) with
    | some inf, some ps =>
      match BuildBytes.buildB id ps inf with
      | .ok bytes => "ok/" ++ hexOfBytes bytes
      | o => o.tag
    | _, _ => "bad-request"
  | ["c10.build", cached, n, info, lens, xl, tl] =>
    match boolOf cached, natOf n, boolOf info, DrvC09.parseLens lens, natOf xl, natOf tl with
    | some c, some n, some inf, some ls, some xl, some tl =>
      let L : Layout := ⟨DrvC09.lookupLen ls, fun _ => xl, fun _ => tl, true⟩
      match build L c (pagesN n) (if inf then some 7 else none) with
      | .ok (d, i) =>
        let rd := resolve d.st
        let root := d.tr.root.1
        let tree := match rd root with | .val (.catalog t) => t | _ => 0
        let kids := match rd tree with | .val (.tree ks _) => ks | _ => []
        let pages := kids.map fun k => match rd k with
          | .val (.page _ r ct _) => s!"{k}.{r}.{ct}"
          | _ => s!"{k}.?.?"
        let infoId := match d.st.secs.getLast? with
          | some s => (match s.info with | some x => toString x | none => "n")
          | none => "?"
        let data := i.rows.flatMap (rowBytes i.aw i.bw)
        s!"ok/{tree}/{natList kids}/{if pages.isEmpty then "-" else joinWith "," pages}/{root}/{infoId}/{i.xpos}/{i.size}/{i.aw}.{i.bw}/{showObjs d.st.objs}/{joinWith "," (i.rows.map DrvC02.showEntry)}/{d.st.len}/{hexOfBytes (data.map UInt8.ofNat)}"
      | o => o.tag
    | _, _, _, _, _, _ => "bad-request"
  | ["c10.bytelen", n] =>
    match natOf n with
    | some n => toString (byteLen n)
    | none => "bad-request"
  | ["c10.table", entries] =>
    -- `XRefTable::write_stream(len)` of the table made of these entries: widths and bytes
    match (if entries == "-" then some [] else mapM? DrvC02.parseEntry (entries.splitOn ",")) with
    | some t =>
      match rowsOf t with
      | some rows =>
        let (aw, bw) := widths t
        let data := rows.flatMap (rowBytes aw bw)
        s!"ok {aw}.{bw} {hexOfBytes (data.map UInt8.ofNat)}"
      | none => "err"
    | none => "bad-request"
  | _ => "bad-request"

end DrvC10
