import PdfModel.Core.Proto
import PdfModel.Model.Serialize
import PdfModel.Drv.Obj
import PdfModel.Drv.C03

/-! Line-protocol handler for the C04 streams.

  c04.ser <value>                    Primitive::serialize           → ok <bytes> | err
  c04.frame <id> <gen> <value>       the object as written by save  → ok <bytes> | err
  (re-reading goes through `c03.parse`; reals in <value> are the `f32::to_string` text)
-/

namespace DrvC04
open PdfLex Proto DrvObj

def handle (args : List String) : String :=
  match args with
  | ["c04.ser", v] =>
    match valOf v with
    | some v => DrvC03.showOut hexOfBytes (serialize id v)
    | none => "bad-request"
  | ["c04.frame", i, g, v] =>
    match natOf i, natOf g, valOf v with
    | some i, some g, some v => DrvC03.showOut hexOfBytes ((serialize id v).bind fun b => .ok (objFrame i g b))
    | _, _, _ => "bad-request"
  | _ => "bad-request"

end DrvC04
