import PdfModel.Core.Proto
import PdfModel.Model.Parser

/-! Text codec for `Prim` values on the driver protocol (shared by the C03 and C04 handlers). No spaces.

    n | i<int> | r<hex> | b0 | b1 | s<hex> | N<hex> | R<id>.<gen> | A[v,v,..] | D[<hexkey>:v,..]
    | P[<entries>]<hex>              stream, `Pending { data }`
    | F[<entries>]<id>.<gen>.<lo>.<hi>   stream, `InFile { id, file_range }`

    hex: lower case, `-` for the empty string.  Reals travel as text (`R := List UInt8`): the decimal
    token the model handed to / got from the f32 conversion; the harness turns it into f32 bits. -/

namespace DrvObj
open PdfLex Proto

abbrev V := Prim (List UInt8)

mutual
def showVal : V → String
  | .null => "n"
  | .int i => s!"i{i}"
  | .real r => "r" ++ hexOfBytes r
  | .bool b => if b then "b1" else "b0"
  | .str s => "s" ++ hexOfBytes s
  | .name s => "N" ++ hexOfBytes s
  | .ref i g => s!"R{i}.{g}"
  | .arr xs => "A[" ++ showList xs true ++ "]"
  | .dict kvs => "D[" ++ showEntries kvs true ++ "]"
  | .stream info (.pending d) => "P[" ++ showEntries info true ++ "]" ++ hexOfBytes d
  | .stream info (.inFile i g lo hi) => "F[" ++ showEntries info true ++ s!"]{i}.{g}.{lo}.{hi}"
def showList : List V → Bool → String
  | [], _ => ""
  | x :: xs, first => (if first then "" else ",") ++ showVal x ++ showList xs false
def showEntries : List (List UInt8 × V) → Bool → String
  | [], _ => ""
  | (k, v) :: rest, first => (if first then "" else ",") ++ hexOfBytes k ++ ":" ++ showVal v ++ showEntries rest false
end

def isHexChar (c : Char) : Bool := c.isDigit || ('a' ≤ c && c ≤ 'f') || c == '-'

def spanChars (p : Char → Bool) : List Char → List Char × List Char
  | [] => ([], [])
  | c :: cs => if p c then let (a, b) := spanChars p cs; (c :: a, b) else ([], c :: cs)

def takeHex (cs : List Char) : Option (List UInt8 × List Char) :=
  let (a, b) := spanChars isHexChar cs
  match bytesOfHex (String.ofList a) with
  | some bs => some (bs, b)
  | none => none

def takeNat (cs : List Char) : Option (Nat × List Char) :=
  let (a, b) := spanChars Char.isDigit cs
  match (String.ofList a).toNat? with
  | some n => some (n, b)
  | none => none

def takeInt (cs : List Char) : Option (Int × List Char) :=
  match cs with
  | '-' :: rest => (takeNat rest).map fun (n, r) => (-(n : Int), r)
  | _ => (takeNat cs).map fun (n, r) => ((n : Int), r)

mutual
def readVal : Nat → List Char → Option (V × List Char)
  | 0, _ => none
  | fuel + 1, cs =>
    match cs with
    | 'n' :: r => some (.null, r)
    | 'i' :: r => (takeInt r).map fun (i, r) => (.int i, r)
    | 'r' :: r => (takeHex r).map fun (b, r) => (.real b, r)
    | 'b' :: '0' :: r => some (.bool false, r)
    | 'b' :: '1' :: r => some (.bool true, r)
    | 's' :: r => (takeHex r).map fun (b, r) => (.str b, r)
    | 'N' :: r => (takeHex r).map fun (b, r) => (.name b, r)
    | 'R' :: r =>
      match takeNat r with
      | some (i, '.' :: r) => (takeNat r).map fun (g, r) => (.ref i g, r)
      | _ => none
    | 'A' :: '[' :: r =>
      match readList fuel r with
      | some (xs, r) => some (.arr xs, r)
      | none => none
    | 'D' :: '[' :: r =>
      match readEntries fuel r with
      | some (kvs, r) => some (.dict kvs, r)
      | none => none
    | 'P' :: '[' :: r =>
      match readEntries fuel r with
      | some (kvs, r) => (takeHex r).map fun (d, r) => (.stream kvs (.pending d), r)
      | none => none
    | 'F' :: '[' :: r =>
      match readEntries fuel r with
      | some (kvs, r) =>
        match takeNat r with
        | some (i, '.' :: r) =>
          match takeNat r with
          | some (g, '.' :: r) =>
            match takeNat r with
            | some (lo, '.' :: r) => (takeNat r).map fun (hi, r) => (.stream kvs (.inFile i g lo hi), r)
            | _ => none
          | _ => none
        | _ => none
      | none => none
    | _ => none
/-- after `[`: elements up to and including `]` -/
def readList : Nat → List Char → Option (List V × List Char)
  | 0, _ => none
  | fuel + 1, cs =>
    match cs with
    | ']' :: r => some ([], r)
    | ',' :: r =>
      match readVal fuel r with
      | some (v, r) => (readList fuel r).map fun (vs, r) => (v :: vs, r)
      | none => none
    | _ =>
      match readVal fuel cs with
      | some (v, r) => (readList fuel r).map fun (vs, r) => (v :: vs, r)
      | none => none
def readEntries : Nat → List Char → Option (List (List UInt8 × V) × List Char)
  | 0, _ => none
  | fuel + 1, cs =>
    match cs with
    | ']' :: r => some ([], r)
    | _ =>
      let cs := match cs with | ',' :: r => r | _ => cs
      match takeHex cs with
      | some (k, ':' :: r) =>
        match readVal fuel r with
        | some (v, r) => (readEntries fuel r).map fun (kvs, r) => ((k, v) :: kvs, r)
        | none => none
      | _ => none
end

def valOf (s : String) : Option V :=
  let cs := s.toList
  match readVal (cs.length + 2) cs with
  | some (v, []) => some v
  | _ => none

/-- the strings `f32::from_str` accepts among texts over `+ - . 0-9`: `[+-]?(d+(.d*)?|.d+)` -/
def validFloatText (t : List UInt8) : Bool :=
  let body := match t with
    | 43 :: r => r
    | 45 :: r => r
    | _ => t
  match splitDot body with
  | some (a, c) => allDigits a && allDigits c && !(a.isEmpty && c.isEmpty)
  | none => allDigits body && !body.isEmpty

/-- `id.gen=len;id.gen=len` or `-` -/
def lenMapOf (s : String) : Option (List ((Nat × Nat) × Nat)) :=
  if s == "-" then some [] else
  mapM? (fun e => match e.splitOn "=" with
    | [k, v] => match k.splitOn "." with
      | [i, g] => do some ((← natOf i, ← natOf g), ← natOf v)
      | _ => none
    | _ => none) (s.splitOn ";")

def mkEnv (allowMissingEndobj : Bool) (fileOffset : Nat) (lens : List ((Nat × Nat) × Nat)) : Env (List UInt8) :=
  { parseReal := fun t => if validFloatText t then some t else none
    resolveLen := fun i g => match lens.find? (fun e => e.1 == (i, g)) with
      | some e => .ok e.2
      | none => .err
    allowMissingEndobj := allowMissingEndobj
    decrypt := none
    fileOffset := fileOffset }

def tapeOf (s : String) : Option (List Nat) :=
  if s == "-" then some [] else mapM? natOf (s.splitOn ",")

end DrvObj
