import PdfModel.Core.Proto
import PdfModel.Model.Derive
import PdfModel.Generated.Schemas
import PdfModel.Generated.Dispatch
import PdfModel.Model.Handwritten2
import PdfModel.Model.ColorSpaceWrite
import PdfModel.Model.FontWrite
import PdfModel.Model.HandTower
import PdfModel.Generated.Lexical

/-! Line-protocol handler for the C15 streams (also used by Drv/C18).

  c15.rt <peel> <tolerant> <shape> <objects> <missing> <prim>
      read `prim` at `shape` in the environment, write the value, read that back, write again
      → `ok <p1> <p2>` | `rerr <chain>` | `werr` | `rerr2 <chain>` | `werr2`
  c15.f32 <int>                    → bits of `<int> as f32`

  prim     n | i<int> | r<f32 bits> | t | f | s<hex> | N<hex of the name> | [p,p,..] | {<hexkey>:p,..}
           | R<id>.<gen> | C(p)    (no spaces; `-` is the empty hex string)
  shape    l.NAME | la.NAME(s) | m.NAME | ma.NAME(s) | o(s) | v(s) | h(s) | b(s) | mr(s) | rc(s) | rf(s) | lz(s) | p(s;s)
           (the unit type is `l.unit`)
  objects  `-` | id=prim;id=prim;…      what `resolve` finds
  missing  `-` | id:F;id:N;id:U         free entry / inside a gap (`NullRef`) / beyond the table (`Try(Unspecified)`)
  chain    T> (Try) S> (Shared) FP(field)> ME(field) N F U E oof
  Dictionaries are printed with their keys sorted (the implementation side does the same). -/

namespace DrvC15
open Derive Proto

partial def parsePrim : List Char → Option (Prim × List Char)
  | 'n' :: r => some (.null, r)
  | 't' :: r => some (.bool true, r)
  | 'f' :: r => some (.bool false, r)
  | 'i' :: r =>
    let tok := r.takeWhile fun c => c.isDigit || c == '-'
    (String.ofList tok).toInt?.map fun i => (.int i, r.drop tok.length)
  | 'r' :: r =>
    let tok := r.takeWhile Char.isDigit
    (String.ofList tok).toNat?.map fun n => (.real n, r.drop tok.length)
  | 's' :: r =>
    let tok := r.takeWhile fun c => c.isAlphanum || c == '-'
    (bytesOfHex (String.ofList tok)).map fun bs => (.str bs, r.drop tok.length)
  | 'N' :: r =>
    let tok := r.takeWhile fun c => c.isAlphanum || c == '-'
    (bytesOfHex (String.ofList tok)).map fun bs => (.name (String.ofList (bs.map fun b => Char.ofNat b.toNat)), r.drop tok.length)
  | 'R' :: r =>
    let a := r.takeWhile Char.isDigit
    match r.drop a.length with
    | '.' :: r2 =>
      let b := r2.takeWhile Char.isDigit
      match (String.ofList a).toNat?, (String.ofList b).toNat? with
      | some x, some y => some (.ref x y, r2.drop b.length)
      | _, _ => none
    | _ => none
  | 'C' :: '(' :: r =>
    match parsePrim r with
    | some (p, ')' :: r2) => some (.created p, r2)
    | _ => none
  | '[' :: ']' :: r => some (.arr [], r)
  | '[' :: r =>
    let rec elems (r : List Char) (acc : List Prim) : Option (Prim × List Char) :=
      match parsePrim r with
      | some (p, ',' :: r2) => elems r2 (p :: acc)
      | some (p, ']' :: r2) => some (.arr (p :: acc).reverse, r2)
      | _ => none
    elems r []
  | '{' :: '}' :: r => some (.dict [], r)
  | '{' :: r =>
    let rec entries (r : List Char) (acc : List (String × Prim)) : Option (Prim × List Char) :=
      let ktok := r.takeWhile fun c => c.isAlphanum || c == '-'
      match bytesOfHex (String.ofList ktok), r.drop ktok.length with
      | some kb, ':' :: r1 =>
        let k := String.ofList (kb.map fun b => Char.ofNat b.toNat)
        match parsePrim r1 with
        | some (p, ',' :: r2) => entries r2 ((k, p) :: acc)
        | some (p, '}' :: r2) => some (.dict ((k, p) :: acc).reverse, r2)
        | _ => none
      | _, _ => none
    entries r []
  | _ => none

def parsePrimAll (s : String) : Option Prim :=
  match parsePrim s.toList with
  | some (p, []) => some p
  | _ => none

def hexOfString (s : String) : String := hexOfBytes (s.toList.map fun c => UInt8.ofNat c.toNat)

def insertSorted (kv : String × String) : List (String × String) → List (String × String)
  | [] => [kv]
  | x :: xs => if kv.1 < x.1 then kv :: x :: xs else x :: insertSorted kv xs

partial def showPrim : Prim → String
  | .null => "n"
  | .int i => s!"i{i}"
  | .real b => s!"r{b}"
  | .bool true => "t"
  | .bool false => "f"
  | .str bs => "s" ++ hexOfBytes bs
  | .name n => "N" ++ hexOfString n
  | .arr xs => "[" ++ ",".intercalate (xs.map showPrim) ++ "]"
  | .dict kvs =>
    let es := kvs.foldl (fun acc kv => insertSorted (kv.1, showPrim kv.2) acc) []
    "{" ++ ",".intercalate (es.map fun kv => hexOfString kv.1 ++ ":" ++ kv.2) ++ "}"
  | .ref a b => s!"R{a}.{b}"
  | .created p => "C(" ++ showPrim p ++ ")"

def showErr : Err → String
  | .nullRef => "N"
  | .freeObject => "F"
  | .unspecified => "U"
  | .tryE e => "T>" ++ showErr e
  | .shared e => "S>" ++ showErr e
  | .fromPrimitive f e => s!"FP({f})>" ++ showErr e
  | .missingEntry f => s!"ME({f})"
  | .other => "E"
  | .oof => "oof"

partial def parseShape : List Char → Option (Shape × List Char)
  | cs =>
    let head := cs.takeWhile fun c => c.isAlpha
    let rest := cs.drop head.length
    let ident (r : List Char) : String × List Char :=
      let t := r.takeWhile fun c => c.isAlphanum || c == '_'
      (String.ofList t, r.drop t.length)
    let fixName (n : String) : String := if n == "unit" then "()" else n
    let one (mk : Shape → Shape) (r : List Char) : Option (Shape × List Char) :=
      match r with
      | '(' :: r1 =>
        match parseShape r1 with
        | some (a, ')' :: r2) => some (mk a, r2)
        | _ => none
      | _ => none
    match String.ofList head, rest with
    | "l", '.' :: r => let (n, r2) := ident r; some (.leaf (fixName n), r2)
    | "m", '.' :: r => let (n, r2) := ident r; some (.model n, r2)
    | "la", '.' :: r => let (n, r2) := ident r; one (.leafApp n) r2
    | "ma", '.' :: r => let (n, r2) := ident r; one (.modelApp n) r2
    | "o", r => one .option r
    | "v", r => one .vec r
    | "h", r => one .hashMap r
    | "b", r => one .box r
    | "mr", r => one .maybeRef r
    | "rc", r => one .rcRef r
    | "rf", r => one .ref r
    | "lz", r => one .lazy r
    | "p", '(' :: r =>
      match parseShape r with
      | some (a, ';' :: r2) =>
        match parseShape r2 with
        | some (b, ')' :: r3) => some (.pair a b, r3)
        | _ => none
      | _ => none
    | _, _ => none

def parseShapeAll (s : String) : Option Shape :=
  match parseShape s.toList with
  | some (sh, []) => some sh
  | _ => none

def parseObjects (s : String) : Option (List (Nat × Prim)) :=
  if s == "-" then some [] else
  mapM? (fun e => match e.splitOn "=" with
    | [a, b] => do some ((← natOf a), (← parsePrimAll b))
    | _ => none) (s.splitOn ";")

def parseMissing (s : String) : Option (List (Nat × Err)) :=
  if s == "-" then some [] else
  mapM? (fun e => match e.splitOn ":" with
    | [a, "F"] => do some ((← natOf a), Err.freeObject)
    | [a, "N"] => do some ((← natOf a), Err.nullRef)
    | [a, "U"] => do some ((← natOf a), Err.tryE .unspecified)
    | _ => none) (s.splitOn ";")

def mkEnv (objs : List (Nat × Prim)) (miss : List (Nat × Err)) (tolerant : Bool) : Env where
  resolve := fun id =>
    match objs.lookup id with
    | some p => .ok p
    | none =>
      match miss.lookup id with
      | some e => .error e
      | none => .error .nullRef
  tolerant := tolerant
  depth := 8

/-- nesting depth of derived models the driver unfolds -/
def modelDepth : Nat := 6

def roundTrip (cfg : Cfg) (env : Env) (shape : Shape) (p : Prim) : String :=
  let sem := semN cfg Generated.generatedSchemas modelDepth
  match readShape cfg sem env shape p with
  | .error e => "rerr " ++ showErr e
  | .ok x =>
    match writeShape sem shape x with
    | .error _ => "werr"
    | .ok p1 =>
      match readShape cfg sem env shape p1 with
      | .error e => "rerr2 " ++ showErr e
      | .ok x' =>
        match writeShape sem shape x' with
        | .error _ => "werr2"
        | .ok p2 => s!"ok {showPrim p1} {showPrim p2}"

def handleRt (args : List String) : String :=
  match args with
  | [_, peel, tol, shape, objs, miss, prim] =>
    match boolOf peel, boolOf tol, parseShapeAll shape, parseObjects objs, parseMissing miss, parsePrimAll prim with
    | some pl, some tl, some sh, some os, some ms, some p => roundTrip ⟨pl⟩ (mkEnv os ms tl) sh p
    | _, _, _, _, _, _ => "bad-request"
  | _ => "bad-request"

/-! ### hand-written pairs (`c15.hw <type> …`)

  tprim    P<prim> | S<dict prim>~<hex data>           a plain primitive or a stream
  aprim    S | O | D{<hexkey>:aprim,…}                  an appearance entry after resolution (S: a form stream) -/

def parseTPrim (s : String) : Option TPrim :=
  match s.toList with
  | 'P' :: r => (parsePrimAll (String.ofList r)).map .plain
  | 'S' :: r =>
    match (String.ofList r).splitOn "~" with
    | [d, h] =>
      match parsePrimAll d, bytesOfHex h with
      | some (.dict kvs), some bs => some (.stream kvs bs)
      | _, _ => none
    | _ => none
  | _ => none

def showTPrim : TPrim → String
  | .plain p => "P" ++ showPrim p
  | .stream d b => "S" ++ showPrim (.dict d) ++ "~" ++ hexOfBytes b

partial def parseAPrim : List Char → Option (APrim × List Char)
  | 'S' :: r => some (.stream [] [], r)
  | 'O' :: r => some (.other, r)
  | 'D' :: '{' :: '}' :: r => some (.dict [], r)
  | 'D' :: '{' :: r =>
    let rec entries (r : List Char) (acc : List (String × APrim)) : Option (APrim × List Char) :=
      let ktok := r.takeWhile fun c => c.isAlphanum || c == '-'
      match bytesOfHex (String.ofList ktok), r.drop ktok.length with
      | some kb, ':' :: r1 =>
        let k := String.ofList (kb.map fun b => Char.ofNat b.toNat)
        match parseAPrim r1 with
        | some (p, ',' :: r2) => entries r2 ((k, p) :: acc)
        | some (p, '}' :: r2) => some (.dict ((k, p) :: acc).reverse, r2)
        | _ => none
      | _, _ => none
    entries r []
  | _ => none

partial def showAPrim : APrim → String
  | .stream _ _ => "S"
  | .other => "O"
  | .dict kvs =>
    let es := kvs.foldl (fun acc kv => insertSorted (kv.1, showAPrim kv.2) acc) []
    "D{" ++ ",".intercalate (es.map fun kv => hexOfString kv.1 ++ ":" ++ kv.2) ++ "}"

def hwSem : Sem := semN ⟨true⟩ Generated.generatedSchemas modelDepth

def xobjTag (ident : String) : Option String :=
  match Generated.d_XObject.writer.find? (fun wa => wa.variants.contains ident) with
  | some wa => wa.tags.find? fun t => (Generated.s_XObject.variants.any fun v => v.name == t)
  | none => none

def handleHw (args : List String) : String :=
  match args with
  | [_, "NamedDest", tol, objs, prim] =>
    match boolOf tol, parseObjects objs, parsePrimAll prim with
    | some tl, some os, some p =>
      match readNamedDestV (mkEnv os [] tl) p with
      | .ok d => "ok " ++ showPrim (writeNamedDestV d)
      | .error _ => "rerr"
    | _, _, _ => "bad-request"
  | [_, "NumberTree", objs, prim] =>
    match parseObjects objs, parsePrimAll prim with
    | some os, some p =>
      let env := mkEnv os [] false
      let rdT := fun q => baseSem.rd env (.leaf "i32") q
      match readNumTree rdT env p with
      | .ok t => (match writeNumTree (baseSem.wr (.leaf "i32")) t with | .ok q => "ok " ++ showPrim q | .error _ => "werr")
      | .error _ => "rerr"
    | _, _ => "bad-request"
  | [_, "NameTree", objs, prim] =>
    match parseObjects objs, parsePrimAll prim with
    | some os, some p =>
      let env := mkEnv os [] false
      match readNameTree (fun q => .ok (.leaf q)) env p with
      | .ok t => (match specNameTree (fun v => match v with | .leaf q => (.ok q : R Prim) | _ => .error .other) t with | .ok q => "ok " ++ showPrim q | .error _ => "werr")
      | .error _ => "rerr"
    | _, _ => "bad-request"
  | [_, "CidToGidMap", tprim] =>
    match parseTPrim tprim with
    | some tp =>
      match readCidMap tp with
      | .ok m => "ok " ++ showTPrim (writeCidMap m)
      | .error .oof => "oof"
      | .error _ => "rerr"
    | none => "bad-request"
  | [_, "ASE", aprim] =>
    match parseAPrim aprim.toList with
    | some (a, []) =>
      match readASE (fun _ _ => .ok (.leaf .null)) Generated.appearanceDepth a with
      | .ok t => (match writeASE (fun _ => .ok ([], [])) 8 t with | .ok b => "ok " ++ showAPrim b | .error _ => "werr")
      | .error _ => "rerr"
    | _ => "bad-request"
  | [_, "Pattern", objs, tprim] =>
    match parseObjects objs, parseTPrim tprim with
    | some os, some tp =>
      let env := mkEnv os [] false
      let rdDict := fun d => readStructD ⟨true⟩ hwSem env Generated.s_PatternDict d
      let wrDict := fun v => match writeStruct hwSem Generated.s_PatternDict v with
        | .ok (.dict d) => (.ok d : R Dict)
        | _ => .error .other
      match readPattern rdDict (fun b => .ok b) tp with
      | .ok x =>
        match writePattern wrDict (fun b => .ok b) x with
        | .ok (.plain q) => "ok dict " ++ showPrim q
        | .ok (.stream d _) => "ok stream " ++ showPrim (.dict (derase "Length" d))
        | .error _ => "werr"
      | .error .oof => "oof"
      | .error _ => "rerr"
    | _, _ => "bad-request"
  | [_, "XObject", tprim] =>
    match parseTPrim tprim with
    | some tp =>
      match readXObject Generated.s_XObject.variants (fun _ _ _ => .ok (.leaf .null)) tp with
      | .ok (ident, _) => s!"ok {ident} {(xobjTag ident).getD "?"}"
      | .error _ => "rerr"
    | none => "bad-request"
  | [_, "Encoding", objs, prim] =>
    match parseObjects objs, parsePrimAll prim with
    | some os, some p =>
      match readEncoding (mkEnv os [] false) 8 p with
      | .ok (b, m) => (match writeEncoding ⟨b, sortDiffs m⟩ with | .ok q => "ok " ++ showPrim q | .error _ => "werr")
      | .error _ => "rerr"
    | _, _ => "bad-request"
  | _ => "bad-request"

/-! ### the value side (`c15.vw <peel> <tolerant> <mode> <shape> <objs> <missing> <prim>`)

  A value of a derived struct that did not come out of the reader as it is: the dictionary is read, then the
  catch-all is emptied (mode `c`), stripped of the type tag and the checked entries (`t`) or kept (`k`); the value
  is written and read back. Answer: `ok <written> <same|differs> <keys the catch-all gained>`. -/

partial def showVal : Val → String
  | .leaf p => "L" ++ showPrim p
  | .none => "_"
  | .some v => "S(" ++ showVal v ++ ")"
  | .list vs => "[" ++ ",".intercalate (vs.map showVal) ++ "]"
  | .map kvs =>
    let es := kvs.foldl (fun acc kv => insertSorted (kv.1, showVal kv.2) acc) []
    "M{" ++ ",".intercalate (es.map fun kv => hexOfString kv.1 ++ ":" ++ kv.2) ++ "}"
  | .pair a b => "P(" ++ showVal a ++ "," ++ showVal b ++ ")"
  | .direct v => "D(" ++ showVal v ++ ")"
  -- an object the writer created for an `indirect` field is identified with its content
  | .indirect (.created _) v => "D(" ++ showVal v ++ ")"
  | .indirect r v => "I(" ++ showPrim r ++ "," ++ showVal v ++ ")"
  | .lazy p => "Z" ++ showPrim p
  | .struct vals other => "T(" ++ ",".intercalate (vals.map showVal) ++ ";" ++ showPrim (.dict other) ++ ")"

def topSchema : Shape → Option Schema
  | .model n => findSchema n Generated.generatedSchemas
  | .modelApp n _ => findSchema n Generated.generatedSchemas
  | _ => none

def valueSide (cfg : Cfg) (env : Env) (shape : Shape) (mode : String) (p : Prim) : String :=
  let sem := semN cfg Generated.generatedSchemas modelDepth
  match readShape cfg sem env shape p with
  | .error e => "rerr " ++ showErr e
  | .ok (.struct vals other) =>
    let tags := match topSchema shape with | some S => S.tagKeys | none => []
    let other1 : Dict :=
      if mode = "c" then [] else if mode = "t" then other.filter (fun kv => !tags.contains kv.1) else other
    match writeShape sem shape (.struct vals other1) with
    | .error _ => "werr"
    | .ok p1 =>
      match readShape cfg sem env shape p1 with
      | .error e => "rerr2 " ++ showErr e
      | .ok (.struct vals2 other2) =>
        let same := showVal (.struct vals []) == showVal (.struct vals2 [])
        let gained := (other2.filter fun kv => (dget kv.1 other1).isNone).map (·.1)
        let gs := gained.foldl (fun acc k => insertSorted (k, "") acc) []
        let gtxt := if gs.isEmpty then "-" else "+".intercalate (gs.map fun kv => hexOfString kv.1)
        s!"ok {showPrim p1} {if same then "same" else "differs"} {gtxt}"
      | .ok _ => "not-a-struct"
  | .ok _ => "not-a-struct"

def handleVw (args : List String) : String :=
  match args with
  | [_, peel, tol, mode, shape, objs, miss, prim] =>
    match boolOf peel, boolOf tol, parseShapeAll shape, parseObjects objs, parseMissing miss, parsePrimAll prim with
    | some pl, some tl, some sh, some os, some ms, some p => valueSide ⟨pl⟩ (mkEnv os ms tl) sh mode p
    | _, _, _, _, _, _ => "bad-request"
  | _ => "bad-request"

/-! ### `ColorSpace::to_primitive` (`c15.cs <value>`)

  value   C | R | G | P | N<hexname> | K(<dict prim>) | I(<value>;<hival>;<hex bytes or ->)
  answer  `unwritable` (the `unimplemented!()` arm) or `ok <written> <same|differs|rerr>`: the written form (a stream the
          writer made is shown as `X{dict}~data`), and what reading it back gives -/

partial def parseCS : List Char → Option (CSLoad.CS × List Char)
  | 'C' :: r => some (.deviceCMYK, r)
  | 'R' :: r => some (.deviceRGB, r)
  | 'G' :: r => some (.deviceGray, r)
  | 'P' :: r => some (.pattern, r)
  | 'N' :: r =>
    let tok := r.takeWhile fun c => c.isAlphanum
    match bytesOfHex (String.ofList tok) with
    | some bs => some (.named (String.ofList (bs.map fun b => Char.ofNat b.toNat)), r.drop tok.length)
    | none => none
  | 'K' :: '(' :: r =>
    let tok := r.takeWhile fun c => c != ')'
    match parsePrimAll (String.ofList tok), r.drop tok.length with
    | some (.dict d), ')' :: r2 => some (.calGray d, r2)
    | _, _ => none
  | 'I' :: '(' :: r =>
    match parseCS r with
    | some (base, ';' :: r1) =>
      let htok := r1.takeWhile fun c => c.isDigit
      match (String.ofList htok).toNat?, r1.drop htok.length with
      | some h, ';' :: r2 =>
        let btok := r2.takeWhile fun c => c != ')'
        let bs := if btok == ['-'] then some [] else bytesOfHex (String.ofList btok)
        match bs, r2.drop btok.length with
        | some b, ')' :: r3 => some (.indexed base h (.bytes b), r3)
        | _, _ => none
      | _, _ => none
    | _ => none
  | _ => none

partial def showW (made : CSLoad.Made) : Prim → String
  | .arr xs => "[" ++ ",".intercalate (xs.map (showW made)) ++ "]"
  | .ref id g =>
    match made.find? (fun e => e.1 == id) with
    | some (_, info, data) => "X" ++ showPrim (.dict info) ++ "~" ++ hexOfBytes data
    | none => showPrim (.ref id g)
  | p => showPrim p

def handleCs (args : List String) : String :=
  match args with
  | [_, v] =>
    match parseCS v.toList with
    | some (cs, []) =>
      match CSLoad.csWrite 1000000 cs with
      | .error _ => "unwritable"
      | .ok (p, made, _) =>
        let se : CSLoad.SEnv := { env := mkEnv [] [] false, streams := fun id => (made.find? (fun e => e.1 == id)).map (·.2) }
        let back := match CSLoad.csLoad se p with
          | .ok cs2 => if CSLoad.CS.same cs cs2 then "same" else "differs"
          | .error _ => "rerr"
        s!"ok {showW made p} {back}"
    | _ => "bad-request"
  | _ => "bad-request"

/-! ### `Font::to_primitive` (`c15.font <peel> <tolerant> <objs> <prim>`)

  read (`FontLoad.readFont`, C01, over the tower `semM`), the writer's view of the value (`FontLoad.ofRead`), write
  (`FontLoad.writeFont`), read back. Answer: `ok <written> <variant read back> <name read back>` -/

def fontSem (cfg : Cfg) : Sem := semM cfg Generated.generatedSchemas (fun _ _ _ => .error .other) 3

def variantName (subtype : String) : String :=
  match FontLoad.variantOf subtype with
  | .other => "Other"
  | v => v.tag

def handleFont (args : List String) : String :=
  match args with
  | [_, peel, tol, objs, prim] =>
    match boolOf peel, boolOf tol, parseObjects objs, parsePrimAll prim, fontSchemas Generated.generatedSchemas with
    | some pl, some tl, some os, some p, some S =>
      let cfg : Cfg := ⟨pl⟩
      let env := mkEnv os [] tl
      match FontLoad.readFont cfg (fontSem cfg) S env p with
      | .error _ => "rerr"
      | .ok v =>
        match FontLoad.writeFont (fontSem cfg) S (FontLoad.ofRead sortDiffs v) with
        | .error _ => "werr"
        | .ok p1 =>
          match FontLoad.readFont cfg (fontSem cfg) S env p1 with
          | .error _ => s!"rerr2 {showPrim p1}"
          | .ok v2 => s!"ok {showPrim p1} {variantName v2.plan.subtype} {(v2.plan.name.map hexOfString).getD "-"}"
    | _, _, _, _, _ => "bad-request"
  | _ => "bad-request"

def handle (args : List String) : String :=
  match args with
  | "c15.rt" :: _ => handleRt args
  | "c15.font" :: _ => handleFont args
  | "c15.cs" :: _ => handleCs args
  | "c15.vw" :: _ => handleVw args
  | "c15.hw" :: _ => handleHw args
  | ["c15.f32", i] =>
    match intOf i with
    | some n => toString (f32OfInt n)
    | none => "bad-request"
  | _ => "bad-request"

end DrvC15
