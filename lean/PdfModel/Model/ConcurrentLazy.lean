import PdfModel.Model.Concurrent

/-!
# Once-initialised fields of shared typed objects (C13, second layer)

Inventory of the interior mutability reachable from the public read API of `pdf` (grep of pdf/src for
OnceCell / Mutex / RwLock / Atomic / Cell / RefCell / Lazy / static):

site                                                         → here
------------------------------------------------------------------------------------------------------
`StorageResolver.chain : Mutex<HashMap<ThreadId, Vec<_>>>`     `Model/Concurrent.lean` (guard steps)
object / stream cache behind the `Cache` trait (`SyncCache`)   `Model/Concurrent.lean` (slot steps, `dataS`)
`Lazy<T>.cache : once_cell::sync::OnceCell<MaybeRef<T>>`       THIS FILE: `Cell` = empty | loading(by) | full(v)
  (object/mod.rs; `Page::annotations`, `Resources::fonts`)
  `Lazy::load` = `cache.get_or_try_init(|| …resolve.get…)`       steps `entering` (hit | wait | claim + run the
                                                                 initialiser) and `storing` (Ok → full, Err → empty)
  `Lazy: Clone`, `DataSize`, `Debug` = `cache.get()`             item `peek` (atomic read: unset | the value)
`enc::JPX_DECODER`, `enc::JBIG2_DECODER` : static `OnceCell`   set-once registries (`let _ = CELL.set(f)`, the value
                                                                 is built before the call, no loading phase, a losing
                                                                 `set` is ignored): a `Cell` that goes empty → full in
                                                                 one atomic step; covered by the stress oracle only
`let computed = Cell<bool>` inside `get`                       local to one call, not shared
`Shared<T> = Arc<T>`, `AnySync(Arc<dyn …>)`                     immutable after construction (only the reference
                                                                 count is atomic: memory ordering, not modelled)
`verif_hook::HOOK : RwLock<…>`                                  the test hook itself (cfg only)

`Lazy::load` is only ever called by the user of the library, on a typed object it holds (a `PageRc`
shared by several threads, or the same cached object obtained twice), so it is modelled as a kind of
top level *item* of a thread, on top of the transition system of `Model/Concurrent.lean`: the initialiser
is a program (`Cache.Prog`) whose nested `get`s take the steps of that system.

`LCfg.racy = true` is a *wrong* implementation kept for the counter-example: check `cache.get()`, run the
initialiser outside the cell, then `cache.set(v).expect(…)` — two overlapping loads of one cell both
initialise and the second `set` panics. The code under test (`get_or_try_init`) is `racy = false`; its
store step still *checks* that the storing thread is the one that claimed the cell, so that "no panic"
is a theorem about the protocol and not true by construction.
-/

namespace Conc
open Cache

inductive Cell (V : Type) where
  | empty
  | loading (owner : Nat)
  | full (v : V)

/-- what a thread does, one after the other -/
inductive Item (V E : Type) where
  | call (p : Prog V E)        -- an ordinary top level call
  | lazy (c : Nat)             -- `object.field.load(resolve)` on the shared cell `c`
  | peek (c : Nat)             -- `object.field.cache.get()` (Clone / DataSize / Debug of the shared object)

inductive LOut (V E : Type) where
  | res (r : Res V E)
  | unset

inductive LCtl (V E : Type) where
  | idle
  | entering (c : Nat)
  | running (c : Option Nat) (p : Prog V E)
  | storing (c : Nat) (res : Res V E)
  | finished
  | panicked

structure LThread (V E : Type) where
  lctl : LCtl V E
  items : List (Item V E)
  past : List (Item V E)       -- ghost: the items completed so far
  out : List (LOut V E)

structure LState (V E : Type) where
  inner : State V E
  cells : List (Nat × Cell V)
  lthreads : List (LThread V E)

structure LCfg where
  cfg : Cfg
  racy : Bool := false

variable {V E : Type}

def LState.init (slots : List (Nat × Slot V E)) (stm : List (Nat × Res V E)) (items : List (List (Item V E))) : LState V E :=
  ⟨State.init slots stm (items.map fun _ => []), [], items.map fun its => ⟨.idle, its, [], []⟩⟩

def cellOf (cells : List (Nat × Cell V)) (c : Nat) : Cell V := (cells.lookup c).getD .empty

/-- is inner thread `i` between two calls? -/
def innerIdle (s : State V E) (i : Nat) : Bool :=
  match s.threads[i]? with
  | some t => (match t.ctl with | .start => true | _ => false) && t.todo.isEmpty
  | none => false

/-- hand program `p` to the (idle) inner thread `i` and let it run to its first synchronisation point -/
def launch (d : Doc V E) (cfg : Cfg) (s : State V E) (i : Nat) (p : Prog V E) : Option (State V E) :=
  match s.threads[i]? with
  | some t => step d cfg { s with threads := s.threads.set i { t with todo := [p] } } i
  | none => none

/-- what the program inner thread `i` has just completed returned -/
def lastOut (s : State V E) (i : Nat) : Res V E :=
  match s.threads[i]? with
  | some t => (t.out.getLast?).getD .oof
  | none => .oof

/-- after an inner step of thread `i` that is running `p` (for cell `c?`): still inside, or the program returned -/
def settle (s : LState V E) (i : Nat) (lt : LThread V E) (c : Option Nat) (p : Prog V E) (inner' : State V E) : LState V E :=
  if innerIdle inner' i then
    let res : Res V E := lastOut inner' i
    match c with
    | some c => { s with inner := inner', lthreads := s.lthreads.set i { lt with lctl := .storing c res } }
    | none =>
      let lt' : LThread V E := { lt with lctl := .idle, past := lt.past ++ [.call p], out := lt.out ++ [.res res] }
      { s with inner := inner', lthreads := s.lthreads.set i lt' }
  else { s with inner := inner', lthreads := s.lthreads.set i { lt with lctl := .running c p } }

/-- one step of thread `i`; `init c` is the initialiser of cell `c` -/
def lstep (d : Doc V E) (init : Nat → Prog V E) (lc : LCfg) (s : LState V E) (i : Nat) : Option (LState V E) :=
  match s.lthreads[i]? with
  | none => none
  | some lt =>
    match lt.lctl with
    | .finished => none
    | .panicked => none
    | .idle =>
      match lt.items with
      | [] => some { s with lthreads := s.lthreads.set i { lt with lctl := .finished } }
      | .call p :: rest =>
        (launch d lc.cfg s.inner i p).map fun inner' => settle s i { lt with items := rest } none p inner'
      | .lazy c :: rest => some { s with lthreads := s.lthreads.set i { lt with lctl := .entering c, items := rest } }
      | .peek c :: rest =>
        let o : LOut V E := match cellOf s.cells c with
          | .full v => .res (.ok v)
          | _ => .unset
        some { s with lthreads := s.lthreads.set i { lt with items := rest, past := lt.past ++ [.peek c], out := lt.out ++ [o] } }
    | .entering c =>
      match cellOf s.cells c with
      | .full v =>
        some { s with lthreads := s.lthreads.set i { lt with lctl := .idle, past := lt.past ++ [.lazy c], out := lt.out ++ [.res (.ok v)] } }
      | .loading _ =>
        if lc.racy then (launch d lc.cfg s.inner i (init c)).map fun inner' => settle s i lt (some c) (init c) inner'
        else none       -- `get_or_try_init`: blocked until the initialising thread is through
      | .empty =>
        let cells' := if lc.racy then s.cells else (c, .loading i) :: s.cells
        (launch d lc.cfg s.inner i (init c)).map fun inner' => settle { s with cells := cells' } i lt (some c) (init c) inner'
    | .running c p =>
      (step d lc.cfg s.inner i).map fun inner' => settle s i lt c p inner'
    | .storing c res =>
      let fin (cells' : List (Nat × Cell V)) : LState V E :=
        { s with cells := cells', lthreads := s.lthreads.set i { lt with lctl := .idle, past := lt.past ++ [.lazy c], out := lt.out ++ [.res res] } }
      let panic : LState V E := { s with lthreads := s.lthreads.set i { lt with lctl := .panicked } }
      if lc.racy then
        -- `self.cache.set(v).expect(..)`: fails when somebody else has stored meanwhile
        match res, cellOf s.cells c with
        | .ok _, .full _ => some panic
        | .ok v, _ => some (fin ((c, .full v) :: s.cells))
        | _, _ => some (fin s.cells)
      else
        match cellOf s.cells c with
        | .loading j =>
          if j = i then
            match res with
            | .ok v => some (fin ((c, .full v) :: s.cells))
            | _ => some (fin ((c, .empty) :: s.cells))
          else some panic
        | _ => some panic

def lrunSched (d : Doc V E) (init : Nat → Prog V E) (lc : LCfg) : LState V E → List Nat → Option (LState V E)
  | s, [] => some s
  | s, i :: is =>
    match lstep d init lc s i with
    | none => none
    | some s' => lrunSched d init lc s' is

inductive LReachable (d : Doc V E) (init : Nat → Prog V E) (lc : LCfg) (s0 : LState V E) : LState V E → Prop
  | init : LReachable d init lc s0 s0
  | step {s s' : LState V E} (i : Nat) : LReachable d init lc s0 s → lstep d init lc s i = some s' → LReachable d init lc s0 s'

def LState.anyPanic (s : LState V E) : Bool :=
  s.inner.anyPanic || s.lthreads.any fun lt => match lt.lctl with | .panicked => true | _ => false

def LState.allDone (s : LState V E) : Bool :=
  s.lthreads.all fun lt => match lt.lctl with | .finished => true | .panicked => true | _ => false

def LState.enabled (d : Doc V E) (init : Nat → Prog V E) (lc : LCfg) (s : LState V E) (i : Nat) : Bool :=
  (lstep d init lc s i).isSome

def LState.deadlocked (d : Doc V E) (init : Nat → Prog V E) (lc : LCfg) (s : LState V E) : Bool :=
  !s.allDone && (List.range s.lthreads.length).all fun i => !s.enabled d init lc i

end Conc
