import PdfModel.Model.Cache

/-!
# Concrete documents for the cache model (instances of `Cache.Doc`)

The correspondence checks of C12 / C13 generate PDF files from a small description (`Desc`): integers,
plain dictionaries, page-tree nodes with `/Parent` links, pages, catalogs, streams with filter chains,
image XObjects, object streams with members. This file says what the library's typed loads do on such
objects, as programs (`Cache.Prog`) over the resolver:

Rust item                                                   → definition here
------------------------------------------------------------------------------------------------------
`Storage::resolve_ref` (file.rs:242): direct object, member of
  an object stream (`get::<ObjectStream>` + `get_object_slice`
  → `Stream::data`), free / missing / out of table             → `rawP`
`Primitive`, `i32`, `Dictionary`, `PagesNode` (`PageTree`,
  `Page`), `Catalog`, `Stream<()>`, `ImageXObject`,
  `ObjectStream` `::from_primitive`                            → `fromPrim` (type tags `tR tI tD tP tC tS tX tO`)
`Option<T>::from_primitive` (object/mod.rs:737): an error is
  `None` in tolerant mode (`allow_error_in_option`)            → the `d.tolerant` branches
`Stream::data` (stream.rs:73)                                  → `sdataP`
`ImageXObject::raw_image_data` / `image_data` (types.rs:620)   → `rawimgP` / `imgdataP` (filter split `imageSplit`)
`PageTree::page_limited` (types.rs:200)                        → `pageLoop`
`Storage::decode` on the generated streams                     → `decodeD` (stage table supplied by the generator,
                                                                 which built the stream by encoding)
-/

namespace CacheDoc
open Cache

inductive Val where
  | none
  | int (v : Int)
  | prim (id : Nat)
  | dict (id : Nat)
  | tree (id : Nat) (parent : Val) (kids : List Nat) (count : Nat)
  | leaf (id : Nat) (parent : Val)
  | cat (id : Nat) (pages : Val)
  | stream (id : Nat)
  | image (id : Nat)
  | objstm (id : Nat) (n : Nat)
  | bytes (h : String)
  | rawimg (h : String) (f : Nat)
  | annot (id : Nat)
  | annots (ids : List Nat)
deriving Repr, Inhabited

def tP : Nat := 0  -- PagesNode
def tI : Nat := 1  -- i32
def tD : Nat := 2  -- Dictionary
def tR : Nat := 3  -- Primitive
def tS : Nat := 4  -- Stream<()>
def tX : Nat := 5  -- ImageXObject
def tO : Nat := 6  -- ObjectStream
def tC : Nat := 7  -- Catalog
def tA : Nat := 8  -- Annot
def tV : Nat := 9  -- Vec<MaybeRef<Annot>>  (what `Page::annotations : Lazy<_>` holds)

/-- filter codes: 1 ASCIIHex, 2 ASCII85, 3 LZW, 4 Flate, 5 RunLength, 6 DCT -/
inductive Kind where
  | int (v : Int)
  | dict
  | pages (parent : Nat) (kids : List Nat) (count : Nat)   -- parent 0 = no /Parent
  | page (parent : Nat)
  | cat (pages : Nat)
  | stream (filters : List Nat) (stages : List String)
  | image (filters : List Nat) (stages : List String)
  | objstm (n : Nat) (filters : List Nat) (stages : List String)
  | annot (page : Nat)                                         -- annotation dictionary, /P page (0 = none)
  | annots (ids : List Nat)                                    -- array object `[a 0 R b 0 R …]`
deriving Repr, Inhabited

inductive Place where
  | direct
  | inStm (sid idx : Nat)
  | free
deriving Repr, Inhabited

structure Obj where
  id : Nat
  kind : Kind
  place : Place
deriving Repr, Inhabited

structure Desc where
  size : Nat
  tolerant : Bool
  objs : List Obj
deriving Repr, Inhabited

abbrev P := Prog Val String
abbrev R := Res Val String

def Desc.find (d : Desc) (id : Nat) : Option Obj := d.objs.find? (·.id == id)

def errP (e : String) : P := .ret (.err e)
def okP (v : Val) : P := .ret (.ok v)
def oofP : P := .ret .oof

def Kind.filters : Kind → List Nat
  | .stream fs _ | .image fs _ | .objstm _ fs _ => fs
  | _ => []

def Kind.stages : Kind → List String
  | .stream _ s | .image _ s | .objstm _ _ s => s
  | _ => []

def Kind.isStream : Kind → Bool
  | .stream .. | .image .. | .objstm .. => true
  | _ => false

def filtersOf (d : Desc) (id : Nat) : List Nat :=
  match d.find id with
  | some o => o.kind.filters
  | none => []

/-- `Storage::decode(id, range, fs)`: `fs` is always a prefix of the stream's own filter list; the data
    after decoding `j` filters is stage `j` of the generator's table (`E` = the decoder fails) -/
def decodeD (d : Desc) (id : Nat) (fs : List Nat) : R :=
  match d.find id with
  | some o =>
    if fs.isPrefixOf o.kind.filters then
      match o.kind.stages[fs.length]? with
      | some "E" => .err "E"
      | some h => .ok (.bytes h)
      | none => .err "E"
    else .err "E"
  | none => .err "E"

/-- `Storage::resolve_ref` -/
def rawP (d : Desc) (id : Nat) : P :=
  match d.find id with
  | none => if id < d.size then errP "N" else if id = d.size then errP "F" else errP "U"
  | some o =>
    match o.place with
    | .free => errP "F"
    | .direct => okP (.prim id)
    | .inStm sid idx =>
      .get tO sid fun x => match x with
        | .ok (.objstm _ n) =>
          if idx < n then
            .data sid (filtersOf d sid) fun y => match y with
              | .ok _ => okP (.prim id)
              | .err e => errP e
              | .oof => oofP
          else errP "E"
        | .ok _ => errP "E"
        | .err e => errP e
        | .oof => oofP

/-- `Option<PagesRc>` / `PagesRc` field `/Parent` of a page-tree node -/
def parentP (d : Desc) (p : Nat) (optional : Bool) (k : Val → P) : P :=
  .get tP p fun x => match x with
    | .ok (.tree i q ks c) => k (.tree i q ks c)
    | .ok _ => if optional && d.tolerant then k .none else errP "E"
    | .err e => if optional && d.tolerant then k .none else errP e
    | .oof => oofP

/-- `Option<PageRc>` field `/P` of an annotation -/
def pageRefP (d : Desc) (p : Nat) (k : P) : P :=
  .get tP p fun x => match x with
    | .ok (.leaf _ _) => k
    | .ok _ => if d.tolerant then k else errP "E"
    | .err e => if d.tolerant then k else errP e
    | .oof => oofP

/-- `Annot::from_primitive` on the dictionary of object `id` -/
def annotP (d : Desc) (id page : Nat) (k : P) : P :=
  if page = 0 then k else pageRefP d page k

/-- `Vec<MaybeRef<Annot>>::from_primitive([a 0 R, b 0 R, …])`: one `get::<Annot>` per element, in order;
    the first error ends it -/
def annotsLoop : List Nat → List Nat → P
  | [], acc => okP (.annots acc.reverse)
  | a :: rest, acc => .get tA a fun x => match x with
      | .ok _ => annotsLoop rest (a :: acc)
      | .err e => errP e
      | .oof => oofP

/-- `T::from_primitive(p, resolve)` where `p` is the primitive of object `id` -/
def fromPrim (d : Desc) (T : Nat) (id : Nat) (k : Kind) : P :=
  if T = tR then okP (.prim id)
  else if T = tI then
    match k with
    | .int v => okP (.int v)
    | _ => errP "E"
  else if T = tD then
    match k with
    | .dict | .pages .. | .page .. | .cat .. | .annot .. => okP (.dict id)
    | _ => errP "E"
  else if T = tP then
    match k with
    | .pages parent kids count =>
      if parent = 0 then okP (.tree id .none kids count)
      else parentP d parent true fun v => okP (.tree id v kids count)
    | .page parent => parentP d parent false fun v => okP (.leaf id v)
    | _ => errP "E"
  else if T = tC then
    match k with
    | .cat pages => parentP d pages false fun v => okP (.cat id v)
    | _ => errP "E"
  else if T = tS then
    if k.isStream then okP (.stream id) else errP "E"
  else if T = tX then
    match k with
    | .image .. => okP (.image id)
    | _ => errP "E"
  else if T = tO then
    match k with
    | .objstm n fs _ =>
      .data id fs fun y => match y with
        | .ok _ => okP (.objstm id n)
        | .err e => errP e
        | .oof => oofP
    | _ => errP "E"
  else if T = tA then
    match k with
    | .annot page => annotP d id page (okP (.annot id))
    | _ => errP "E"
  else if T = tV then
    match k with
    | .annots ids => annotsLoop ids []
    | .annot page => annotP d id page (okP (.annots [id]))
    | _ => errP "E"
  else errP "E"

def bindRaw (p : P) (f : Nat → P) : P :=
  match p with
  | .ret (.ok (.prim id)) => f id
  | .ret (.ok _) => errP "E"
  | .ret x => .ret x
  | .get T r k => .get T r fun x => bindRaw (k x) f
  | .data r fs k => .data r fs fun x => bindRaw (k x) f

/-- `self.resolve(key).and_then(|p| T::from_primitive(p, self))` -/
def bodyD (d : Desc) (T id : Nat) : P :=
  bindRaw (rawP d id) fun _ =>      -- `rawP d id` only ever returns the primitive of `id`
    match d.find id with
    | some o => fromPrim d T id o.kind
    | none => errP "E"

def toDoc (d : Desc) : Doc Val String := ⟨bodyD d, rawP d, decodeD d, "E"⟩

/-! ### the call kinds -/

def getP (T id : Nat) : P := .get T id .ret

/-- `get::<Stream<()>>(id)?.data(resolve)` -/
def sdataP (d : Desc) (id : Nat) : P :=
  .get tS id fun x => match x with
    | .ok _ => .data id (filtersOf d id) .ret
    | .err e => errP e
    | .oof => oofP

/-- filters that `raw_image_data` treats as the image codec: everything but ASCIIHex, ASCII85, LZW, RunLength -/
def isImageFilter (f : Nat) : Bool := !(f = 1 || f = 2 || f = 3 || f = 5)

/-- `filters.iter().rposition(is image codec).unwrap_or(filters.len())` -/
def imageSplit (fs : List Nat) : Nat :=
  match (fs.zipIdx.filter fun p => isImageFilter p.1).getLast? with
  | some p => p.2
  | none => fs.length

/-- `raw_image_data`: decode the non-image prefix of the filters. Since the repair of D27 the stream cache
    is used only when the prefix is the whole list; `viaCache = true` is the old rule. -/
def rawimgK (d : Desc) (viaCache : Bool) (id : Nat) (k : String → Nat → P) : P :=
  .get tX id fun x => match x with
    | .ok _ =>
      let fs := filtersOf d id
      let e := imageSplit fs
      let normal := fs.take e
      let image := fs.drop e
      let fin : R → P := fun y => match y with
        | .ok (.bytes h) =>
          match image with
          | [] => k h 0
          | [f] => if f = 6 || f = 4 then k h f else errP "E"
          | _ => errP "E"
        | .ok _ => errP "E"
        | .err er => errP er
        | .oof => oofP
      if image.isEmpty || viaCache then .data id normal fin else fin (decodeD d id normal)
    | .err e => errP e
    | .oof => oofP

def rawimgP (d : Desc) (id : Nat) : P := rawimgK d false id fun h f => okP (.rawimg h f)

/-- `image_data`: `raw_image_data` then the image codec, i.e. the fully decoded data -/
def imgdataP (d : Desc) (id : Nat) : P :=
  rawimgK d false id fun h f =>
    if f = 0 then okP (.bytes h) else
      match decodeD d id (filtersOf d id) with
      | .ok v => okP v
      | .err e => errP e
      | .oof => oofP

/-- `PageTree::page_limited` -/
def pageLoop (dep : Nat) (kids : List Nat) (pos n : Nat) : P :=
  match dep, kids with
  | 0, _ => errP "E"
  | _+1, [] => errP "E"
  | dep+1, kid :: rest =>
    .get tP kid fun x => match x with
      | .ok (.tree _ _ ks c) =>
        if pos ≤ n ∧ n < pos + c then pageLoop dep ks 0 (n - pos)
        else pageLoop (dep+1) rest (pos + c) n
      | .ok (.leaf i p) => if pos = n then okP (.leaf i p) else pageLoop (dep+1) rest (pos + 1) n
      | .ok _ => errP "E"
      | .err e => errP e
      | .oof => oofP
termination_by (dep, kids.length)

/-- `File::get_page(n)` on a file whose catalog value (loaded when the file was opened) is `root` -/
def pageP (root : R) (n : Nat) : P :=
  match root with
  | .ok (.cat _ (.tree _ _ ks _)) => pageLoop 16 ks 0 n
  | _ => errP "E"

/-- how the `/Annots` entry of a page is written: the primitive that `Page::annotations : Lazy<_>` keeps -/
inductive CellForm where
  | direct (ids : List Nat)      -- `[a 0 R b 0 R]`
  | ref (r : Nat)                -- `r 0 R`, an array object
  | absent
deriving Repr, Inhabited

/-- the initialiser `Lazy::load` hands to `get_or_try_init` (object/mod.rs) -/
def lazyInit : CellForm → P
  | .direct ids => annotsLoop ids []
  | .ref r => .get tV r fun x => match x with
      | .ok v => okP v
      | .err e => if e = "N" || e = "F" || e = "U" then okP (.annots []) else errP e   -- `is_missing_object`
      | .oof => oofP
  | .absent => okP (.annots [])

/-- the call kinds of the property -/
inductive CallK where
  | get (T id : Nat)
  | resolve (id : Nat)
  | sdata (id : Nat)
  | rawimg (id : Nat)
  | imgdata (id : Nat)
  | page (n : Nat)

def CallK.prog (d : Desc) (root : R) : CallK → P
  | .get T id => getP T id
  | .resolve id => rawP d id
  | .sdata id => sdataP d id
  | .rawimg id => rawimgP d id
  | .imgdata id => imgdataP d id
  | .page n => pageP root n

/-! ### is a description inside the domain of the C12 / C13 theorems? (decidable; proved sound in
`Lemmas/CacheDocWF.lean`) -/

/-- the references a typed load of `id` loads in turn: its object stream, its /Parent, its /Pages -/
def depsOf (d : Desc) (id : Nat) : List Nat :=
  match d.find id with
  | none => []
  | some o =>
    (match o.place with
      | .inStm sid _ => [sid]
      | _ => []) ++
    (match o.kind with
      | .pages p _ _ => if p = 0 then [] else [p]
      | .page p => [p]
      | .cat p => [p]
      | .annot p => if p = 0 then [] else [p]
      | .annots ids => ids
      | _ => [])

def rkF (d : Desc) : Nat → Nat → Nat
  | 0, _ => 0
  | f+1, id => (depsOf d id).foldl (fun m x => max m (rkF d f x + 1)) 0

/-- depth of the typed loads below `id` (meaningful when there is no cycle) -/
def rk (d : Desc) (id : Nat) : Nat := rkF d (d.objs.length + 1) id

/-- every nested load goes to a reference of smaller rank: no cycle among typed loads -/
def okRanks (d : Desc) : Bool :=
  d.objs.all fun o => (depsOf d o.id).all fun x => decide (rk d x < rk d o.id)

/-! ### canonical text of answers (compared with the harness' rendering of the real values) -/

def natList (xs : List Nat) : String := ".".intercalate (xs.map toString)

def Val.render : Val → String
  | .none => "-"
  | .int v => s!"I{v}"
  | .prim id => s!"P{id}"
  | .dict id => s!"D{id}"
  | .tree id p ks c => s!"T{id}[{natList ks}]{c}({p.render})"
  | .leaf id p => s!"L{id}({p.render})"
  | .cat id p => s!"C{id}({p.render})"
  | .stream id => s!"S{id}"
  | .image id => s!"X{id}"
  | .objstm id n => s!"O{id}.{n}"
  | .bytes h => s!"B{h}"
  | .rawimg h f => s!"B{h}/{f}"
  | .annot id => s!"A{id}"
  | .annots ids => s!"V[{natList ids}]"

def renderRes : R → String
  | .ok v => s!"ok:{v.render}"
  | .err e => s!"err:{e}"
  | .oof => "oof"

end CacheDoc
