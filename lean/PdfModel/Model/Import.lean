import PdfModel.Core.Out

/-
  Model of the page importer: pdf/src/build.rs (`Importer`, `impl Cloner for Importer`,
  `PageBuilder::clone_page`), pdf/src/object/mod.rs (`DeepClone` for `PlainRef`, `Ref<T>`, `RcRef<T>`,
  `MaybeRef<T>`, `Primitive`, containers), pdf/src/primitive.rs (`Dictionary`, `PdfStream`),
  pdf/src/content.rs (`deep_clone_op`).

  The source document is a graph of indirect objects. Everything in an object that is not a reference is
  its `payload` (dictionary keys, numbers, strings, stream bytes: copied verbatim by the `DeepClone`
  impls, compared by the oracle in harness/src/c20.rs); the references it holds, in the order in which
  `deep_clone` visits them, are its kids. The traversal is type-directed: an edge is `prim` when it is
  followed through `clone_plainref` (`Primitive::Reference`: the target is loaded and cloned as a
  `Primitive`), `ref` when it is followed through `clone_ref` (`Ref<T>`: the target is loaded and cloned as
  a `T`) — the two functions have the same shape: memo, load, deep-clone, `create`, memo insert — and `rc`
  when it is followed through `clone_rcref` (`RcRef<T>`, `MaybeRef::Indirect`), which additionally keeps
  the typed copy in `rcrefs`. Which references of an object are visited, in which order and through which
  kind of edge depends on whether the object is cloned as a `Primitive` (`kidsPrim`: every reference, in
  dictionary order) or as a typed value (`kidsTyped`: the references of the fields of `T`, in field order).

  Rust (after the fix: commits of this package)            model
  ----                                                      -----
  Importer.map      : HashMap<PlainRef, PlainRef>           St.map      (association list, newest first)
  Importer.rcrefs   : HashMap<PlainRef, AnySync> (keys)     St.rcrefs
  Importer.pending  : Vec<PlainRef>  (copies in progress)   St.pending  (head = last pushed)
  Storage.refs.len()                                        St.next
  Storage.changes   (objects created so far)                St.objs
  Updater::create(obj)  (id = refs.len(); push)             the `fresh` branch of `cloneRef`: id := st.next
  Importer::enter  (cycle ⇒ Err) … pending.pop()            `if e.tgt ∈ st.pending then .err` … `.tail`
  clone_plainref                                            cloneRef … ⟨.prim, r⟩
  clone_ref                                                 cloneRef … ⟨.ref, r⟩
  clone_rcref                                               cloneRef … ⟨.rc, r⟩
     hit in map, typed copy in rcrefs                          `.ok n`, state unchanged
     hit in map, no typed copy (object was copied through      children walked again (all memo hits), nothing
       a plain edge before)                                    allocated, `n` added to rcrefs
  resolver.resolve(old)? / resolver.get(old)?               `src e.tgt = none ⇒ .err`
  obj.deep_clone(self)?  (children in order, `?`)           mapSt (cloneRef f src) node.kids
  Result::Err anywhere: state mutated so far stays          every function returns `Out _ × St`
  deep_clone_op                                             cloneOp
  PageBuilder::clone_page                                   clonePage (ops, then metadata/lgi/vp/other)
  the code before the fixes (D41: no `pending`;             Old.cloneRef (kept for the regression theorems)
    D46: `rcrefs.get(..).unwrap()`)

  The payload is abstract here; the correspondence makes it concrete: every generated object's payload number
  determines its plaintext (stream data, string entry), the harness attaches the digest of that plaintext to
  the model's answer and the digest of what the copy really holds (read back from the new document) to the
  implementation's, so a copy that carries other bytes (ciphertext, bytes from a wrong offset, a stale
  revision) breaks the tie although the graph shape is right.

  Not modelled: `clone_shared` (pointer-keyed sharing of *direct* values: never visible in the written
  file), the extra `create` inside `Pattern::deep_clone`, the typed re-serialisation of the payload
  (`to_primitive`), stream bytes (`stream_data`) — these are covered by the oracle only.
-/

namespace Import

inductive Kind where
  | prim
  | ref
  | rc
deriving DecidableEq, Repr, Inhabited

structure Edge where
  kind : Kind
  tgt : Nat
deriving DecidableEq, Repr, Inhabited

structure Node where
  payload : Nat
  kidsPrim : List Edge
  kidsTyped : List Edge
deriving DecidableEq, Repr, Inhabited

/-- the references visited when the object is entered through an edge of kind `k` -/
def Node.kids (n : Node) : Kind → List Edge
  | .prim => n.kidsPrim
  | _ => n.kidsTyped

/-- the source document: object number ↦ object (`none`: free / missing object) -/
abbrev Src := Nat → Option Node

/-- an object created in the new document -/
structure Obj where
  id : Nat
  payload : Nat
  kids : List Nat
deriving DecidableEq, Repr, Inhabited

structure St where
  map : List (Nat × Nat)
  rcrefs : List Nat
  pending : List Nat
  next : Nat
  objs : List Obj
deriving DecidableEq, Repr, Inhabited

/-- `Importer::new` on a storage that already holds `next` objects -/
def St.init (next : Nat) : St := ⟨[], [], [], next, []⟩

/-- `HashMap::get` on the memo (association list, newest entry first) -/
def lk : List (Nat × Nat) → Nat → Option Nat
  | [], _ => none
  | (k, v) :: m, a => if a = k then some v else lk m a

/-- sequential traversal with early exit (`iter().map(..).collect::<Result<_>>()`, `?` in a loop);
    the state reached so far is returned with the error -/
def mapSt {σ α β : Type} (g : α → σ → Out β × σ) : List α → σ → Out (List β) × σ
  | [], s => (.ok [], s)
  | a :: as, s =>
    match (g a s).1 with
    | .ok b =>
      match (mapSt g as (g a s).2).1 with
      | .ok bs => (.ok (b :: bs), (mapSt g as (g a s).2).2)
      | .err => (.err, (mapSt g as (g a s).2).2)
      | .panic => (.panic, (mapSt g as (g a s).2).2)
      | .oof => (.oof, (mapSt g as (g a s).2).2)
    | .err => (.err, (g a s).2)
    | .panic => (.panic, (g a s).2)
    | .oof => (.oof, (g a s).2)

/-- `self.pending.push(old)` -/
def St.push (st : St) (o : Nat) : St := { st with pending := o :: st.pending }
/-- `self.pending.pop()` -/
def St.pop (st : St) : St := { st with pending := st.pending.tail }

/-- `self.updater.create(clone)`, `self.map.insert(old, new)` (and `rcrefs.insert` in `clone_rcref`) -/
def St.alloc (st : St) (old : Nat) (payload : Nat) (kids : List Nat) (rc : Bool) : St :=
  { map := (old, st.next) :: st.map,
    rcrefs := if rc then st.next :: st.rcrefs else st.rcrefs,
    pending := st.pending,
    next := st.next + 1,
    objs := ⟨st.next, payload, kids⟩ :: st.objs }

/-- `clone_plainref` / `clone_ref` / `clone_rcref` (the kind of the edge selects which). -/
def cloneRef : Nat → Src → Edge → St → Out Nat × St
  | 0, _, _, st => (.oof, st)
  | f+1, src, e, st =>
    match lk st.map e.tgt with
    | some n =>
      match e.kind with
      | .prim => (.ok n, st)
      | .ref => (.ok n, st)
      | .rc =>
        if n ∈ st.rcrefs then (.ok n, st)
        else if e.tgt ∈ st.pending then (.err, st)
        else
          match src e.tgt with
          | none => (.err, st)
          | some node =>
            match (mapSt (cloneRef f src) (node.kids .rc) (st.push e.tgt)).1 with
            | .ok _ =>
              let st1 := (mapSt (cloneRef f src) (node.kids .rc) (st.push e.tgt)).2.pop
              (.ok n, { st1 with rcrefs := n :: st1.rcrefs })
            | .err => (.err, (mapSt (cloneRef f src) (node.kids .rc) (st.push e.tgt)).2.pop)
            | .panic => (.panic, (mapSt (cloneRef f src) (node.kids .rc) (st.push e.tgt)).2.pop)
            | .oof => (.oof, (mapSt (cloneRef f src) (node.kids .rc) (st.push e.tgt)).2.pop)
    | none =>
      if e.tgt ∈ st.pending then (.err, st)
      else
        match src e.tgt with
        | none => (.err, st)
        | some node =>
          match (mapSt (cloneRef f src) (node.kids e.kind) (st.push e.tgt)).1 with
          | .ok ks =>
            let st1 := (mapSt (cloneRef f src) (node.kids e.kind) (st.push e.tgt)).2.pop
            (.ok st1.next, st1.alloc e.tgt node.payload ks (e.kind = .rc))
          | .err => (.err, (mapSt (cloneRef f src) (node.kids e.kind) (st.push e.tgt)).2.pop)
          | .panic => (.panic, (mapSt (cloneRef f src) (node.kids e.kind) (st.push e.tgt)).2.pop)
          | .oof => (.oof, (mapSt (cloneRef f src) (node.kids e.kind) (st.push e.tgt)).2.pop)

/-- the references of a direct value (an `Option<Primitive>`, a `Dictionary`, a resource entry),
    cloned in order -/
def cloneKids (f : Nat) (src : Src) (kids : List Edge) (st : St) : Out (List Nat) × St :=
  mapSt (cloneRef f src) kids st

/-- a sequence of top-level requests on one importer; a failing request does not stop the sequence
    (the caller may skip a page that cannot be imported) -/
def cloneRoots (f : Nat) (src : Src) : List Edge → St → List (Out Nat) × St
  | [], st => ([], st)
  | e :: es, st =>
    let r := cloneRef f src e st
    let rs := cloneRoots f src es r.2
    (r.1 :: rs.1, rs.2)

/-! ### pages: `deep_clone_op`, `PageBuilder::clone_page` -/

/-- the resource categories of a `/Resources` dictionary that content-stream operators name -/
inductive RKind where
  | gs          -- /ExtGState   (gs)
  | font        -- /Font        (Tf)
  | xobject     -- /XObject     (Do)
  | colorspace  -- /ColorSpace  (cs, CS, inline image /CS)
  | pattern     -- /Pattern     (scn, SCN with a name operand)
  | shading     -- /Shading     (sh)
  | properties  -- /Properties  (BDC, DP with a name operand)
deriving DecidableEq, Repr, Inhabited

/-- the categories `deep_clone_op` looks at (`properties` since the repair of that part of D40) -/
def handled : RKind → Bool
  | .gs | .font | .xobject | .properties => true
  | _ => false

/-- content-stream operations as far as importing is concerned -/
inductive OpM where
  | use (k : RKind) (name : Nat)     -- names a resource of category `k` (gs, Tf, Do, cs/CS, scn/SCN, sh, BDC/DP with a name)
  | inline (kids : List Edge)        -- carries a direct value with references (BDC/DP property lists)
  | other (tag : Nat)                -- anything else: cloned verbatim
deriving DecidableEq, Repr, Inhabited

/-- a resource entry (a direct value: payload + the references `deep_clone` visits in it) -/
structure Entry where
  payload : Nat
  kids : List Edge
deriving DecidableEq, Repr, Inhabited

abbrev ResTable (α : Type) := List ((RKind × Nat) × α)

def resGet {α : Type} : ResTable α → RKind → Nat → Option α
  | [], _, _ => none
  | ((k', n'), v) :: t, k, n => if k' = k ∧ n' = n then some v else resGet t k n

structure PageM where
  ops : List OpM
  res : ResTable Entry
  /-- references of `metadata`, `lgi`, `vp`, `other`, in that order -/
  rest : List Edge
deriving DecidableEq, Repr, Inhabited

structure PageOut where
  res : ResTable (Nat × List Nat)
  rest : List Nat
deriving DecidableEq, Repr, Inhabited

/-- `deep_clone_op`: the new resource table is threaded through; operations themselves keep their names -/
def cloneOp (f : Nat) (src : Src) (old : ResTable Entry) (op : OpM) (s : ResTable (Nat × List Nat) × St) :
    Out Unit × (ResTable (Nat × List Nat) × St) :=
  match op with
  | .use k name =>
    if handled k then
      match resGet s.1 k name with
      | some _ => (.ok (), s)
      | none =>
        match resGet old k name with
        | none => (.ok (), s)
        | some ent =>
          match (cloneKids f src ent.kids s.2).1 with
          | .ok ks => (.ok (), (((k, name), (ent.payload, ks)) :: s.1, (cloneKids f src ent.kids s.2).2))
          | .err => (.err, (s.1, (cloneKids f src ent.kids s.2).2))
          | .panic => (.panic, (s.1, (cloneKids f src ent.kids s.2).2))
          | .oof => (.oof, (s.1, (cloneKids f src ent.kids s.2).2))
    else (.ok (), s)
  | .inline kids =>
    match (cloneKids f src kids s.2).1 with
    | .ok _ => (.ok (), (s.1, (cloneKids f src kids s.2).2))
    | .err => (.err, (s.1, (cloneKids f src kids s.2).2))
    | .panic => (.panic, (s.1, (cloneKids f src kids s.2).2))
    | .oof => (.oof, (s.1, (cloneKids f src kids s.2).2))
  | .other _ => (.ok (), s)

/-- the operations of a page, in order (`ops.into_iter().map(deep_clone_op).collect()`) -/
def cloneOps (f : Nat) (src : Src) (old : ResTable Entry) (ops : List OpM) (st : St) :
    Out (List Unit) × (ResTable (Nat × List Nat) × St) :=
  mapSt (cloneOp f src old) ops ([], st)

/-- `PageBuilder::clone_page` -/
def clonePage (f : Nat) (src : Src) (p : PageM) (st : St) : Out PageOut × St :=
  match (cloneOps f src p.res p.ops st).1 with
  | .ok _ =>
    match (cloneKids f src p.rest (cloneOps f src p.res p.ops st).2.2).1 with
    | .ok ks => (.ok ⟨(cloneOps f src p.res p.ops st).2.1, ks⟩, (cloneKids f src p.rest (cloneOps f src p.res p.ops st).2.2).2)
    | .err => (.err, (cloneKids f src p.rest (cloneOps f src p.res p.ops st).2.2).2)
    | .panic => (.panic, (cloneKids f src p.rest (cloneOps f src p.res p.ops st).2.2).2)
    | .oof => (.oof, (cloneKids f src p.rest (cloneOps f src p.res p.ops st).2.2).2)
  | .err => (.err, (cloneOps f src p.res p.ops st).2.2)
  | .panic => (.panic, (cloneOps f src p.res p.ops st).2.2)
  | .oof => (.oof, (cloneOps f src p.res p.ops st).2.2)

/-- several pages imported through one importer, in order; a page that fails is skipped -/
def clonePages (f : Nat) (src : Src) : List PageM → St → List (Out PageOut) × St
  | [], st => ([], st)
  | p :: ps, st =>
    let r := clonePage f src p st
    let rs := clonePages f src ps r.2
    (r.1 :: rs.1, rs.2)

/-! ### pages in the page tree: inheritable attributes, the two entry points

  Rust                                                      model
  ----                                                      -----
  inherit(&self.parent, f)  (types.rs)                      nearest  (the tail of a chain)
  Page::media_box()   own, else nearest ancestor, else Err  nearest pt.media
  Page::crop_box()    own, else nearest ancestor, else      (nearest pt.crop).getD (media box)
                      media_box()
  Page::resources()   own, else nearest ancestor, else Err  nearest pt.resChain   (a whole dictionary: no merging)
  page.trim_box       own entry only                        pt.trim
  page.rotate         own entry, default 0: the library     (pt.rotate.head?).join.getD 0
                      does NOT inherit /Rotate
  PageBuilder::clone_page                                   clonePageT  (resources()? → operations → media_box()? →
                                                            crop_box()? → metadata, lgi, vp, other)
  PageBuilder::from_page                                    fromPageT   (media_box()? → crop_box()? → resources()?;
                                                            nothing is cloned, the typed `Resources` is kept whole —
                                                            it has no /Shading field, so those entries are gone)
-/

/-- an inheritable attribute as the page tree gives it: the page's own entry first, then the entries of its
    ancestors, nearest first -/
def nearest {α : Type} : List (Option α) → Option α
  | [] => none
  | some v :: _ => some v
  | none :: c => nearest c

/-- a page as it sits in the page tree; box values are abstract numbers -/
structure PageT where
  ops : List OpM
  /-- /Resources of the page, of its parent, of its grand-parent, … -/
  resChain : List (Option (ResTable Entry))
  media : List (Option Nat)
  crop : List (Option Nat)
  /-- /TrimBox is not inheritable -/
  trim : Option Nat
  /-- /Rotate of the page, of its parent, … (the specification makes it inheritable) -/
  rotate : List (Option Nat)
  rest : List Edge
deriving DecidableEq, Repr, Inhabited

structure PageOutT where
  res : ResTable (Nat × List Nat)
  rest : List Nat
  media : Nat
  crop : Nat
  trim : Option Nat
  rotate : Nat
deriving DecidableEq, Repr, Inhabited

/-- `page.rotate`: `#[pdf(key="Rotate", default="0")]` on `Page`; `PageTree` has no such field -/
def PageT.ownRotate (pt : PageT) : Nat := (pt.rotate.head?.join).getD 0

/-- `PageBuilder::clone_page` on a page of the tree -/
def clonePageT (f : Nat) (src : Src) (pt : PageT) (st : St) : Out PageOutT × St :=
  match nearest pt.resChain with
  | none => (.err, st)
  | some res =>
    match (cloneOps f src res pt.ops st).1 with
    | .ok _ =>
      match nearest pt.media with
      | none => (.err, (cloneOps f src res pt.ops st).2.2)
      | some m =>
        match (cloneKids f src pt.rest (cloneOps f src res pt.ops st).2.2).1 with
        | .ok ks =>
          (.ok ⟨(cloneOps f src res pt.ops st).2.1, ks, m, (nearest pt.crop).getD m, pt.trim, pt.ownRotate⟩,
            (cloneKids f src pt.rest (cloneOps f src res pt.ops st).2.2).2)
        | .err => (.err, (cloneKids f src pt.rest (cloneOps f src res pt.ops st).2.2).2)
        | .panic => (.panic, (cloneKids f src pt.rest (cloneOps f src res pt.ops st).2.2).2)
        | .oof => (.oof, (cloneKids f src pt.rest (cloneOps f src res pt.ops st).2.2).2)
    | .err => (.err, (cloneOps f src res pt.ops st).2.2)
    | .panic => (.panic, (cloneOps f src res pt.ops st).2.2)
    | .oof => (.oof, (cloneOps f src res pt.ops st).2.2)

def clonePagesT (f : Nat) (src : Src) : List PageT → St → List (Out PageOutT) × St
  | [], st => ([], st)
  | p :: ps, st =>
    let r := clonePageT f src p st
    let rs := clonePagesT f src ps r.2
    (r.1 :: rs.1, rs.2)

structure FromOut where
  res : ResTable Entry
  media : Nat
  crop : Nat
  trim : Option Nat
  rotate : Nat
deriving DecidableEq, Repr, Inhabited

/-- the typed `Resources` struct keeps every category it has a field for -/
def typedRes (t : ResTable Entry) : ResTable Entry := t.filter fun p => p.1.1 ≠ .shading

/-- `PageBuilder::from_page` -/
def fromPageT (pt : PageT) : Out FromOut :=
  match nearest pt.media with
  | none => .err
  | some m =>
    match nearest pt.resChain with
    | none => .err
    | some res => .ok ⟨typedRes res, m, (nearest pt.crop).getD m, pt.trim, pt.ownRotate⟩

/-! ### the code before the fixes (regression statements only) -/

namespace Old

/-- `clone_*` as they were: no cycle guard (D41), `rcrefs.get(&new_ref).unwrap()` (D46) -/
def cloneRef : Nat → Src → Edge → St → Out Nat × St
  | 0, _, _, st => (.oof, st)
  | f+1, src, e, st =>
    match lk st.map e.tgt with
    | some n =>
      match e.kind with
      | .prim => (.ok n, st)
      | .ref => (.ok n, st)
      | .rc => if n ∈ st.rcrefs then (.ok n, st) else (.panic, st)
    | none =>
      match src e.tgt with
      | none => (.err, st)
      | some node =>
        match (mapSt (cloneRef f src) (node.kids e.kind) st).1 with
        | .ok ks =>
          let st1 := (mapSt (cloneRef f src) (node.kids e.kind) st).2
          (.ok st1.next, st1.alloc e.tgt node.payload ks (e.kind = .rc))
        | .err => (.err, (mapSt (cloneRef f src) (node.kids e.kind) st).2)
        | .panic => (.panic, (mapSt (cloneRef f src) (node.kids e.kind) st).2)
        | .oof => (.oof, (mapSt (cloneRef f src) (node.kids e.kind) st).2)

end Old

/-- a finite source document given as a table -/
def srcOf (nodes : List (Nat × Node)) : Src := fun r => nodes.lookup r

end Import
