import PdfModel.Core.Out

/-!
# Token-level model of `pdf/src/content.rs` (property C08)

The model works on *tokens*: an operand is a `Prim` (what `parse_with_lexer` returns), everything else is a
keyword (what `Lexer::next` returns when `parse_with_lexer` fails with a non-EOF error).  The lexical layer
(bytes ↔ tokens: `Primitive::serialize`, `serialize_name`, `PdfString::serialize`, `parse_with_lexer`) is the
subject of C03/C04 and is not modelled here; the correspondence check of C08 tokenises the bytes written by the
real `serialize_ops` with the real lexer and renders the tokens fed to the real `parse_ops` with a plain
printer.

Rust item (content.rs, after the `fix:` commits of C08)      model definition
-----------------------------------------------------------  ---------------------------------------------
`f32` with `==`, unary `-`, `i32 as f32`, `{}`               `RealOps R` (`beq neg ofInt intDigits? big special`)
`primitive::Primitive`                                       `Prim R` (no streams: not a possible operand)
`content::Op`, `Point`, `ViewRect`, `Matrix`, `Color`, …     `Op R`, `Pt R`, `Color R`, `TDA R`, enums as `Fin`
`struct Real(f32)` + `Display`                               `numPrim?` / `numTok`
`Primitive::serialize` (numbers inside a primitive)          `serPrim?` (`Cfg.primDot`: D9 fixed in primitive.rs or not)
`serialize_ops` (one loop iteration, look-ahead, `advance`)  `serOne`
`serialize_ops`                                              `serializeOps` (fuel = number of operations)
`name number string point rect rgb cmyk matrix array`        `asNumber popNum popNums popName popStr popInt`
`OpBuilder { last, subpath_start, compability_section, ops }` `PState`
`OpBuilder::add`                                             `add` (returns what was pushed *before* an error, too)
`OpBuilder::parse` (loop, operand buffer, `allow_invalid_ops`) `step`, `parseLoop`, `parseOps`
`inline_image`                                               abstract: token `.bi (some id)` / `.bi none`
`unimplemented!()` (overridden in error.rs: returns `Err`)   `.err`

Not modelled: `serialize_name` on characters above `~` (panics today, D8, other package), anything below
token level.
-/

namespace Content

set_option linter.unusedVariables false

/-- The operations on `f32` that content.rs uses.
    `intDigits? r = some n`: `{}` prints `r` without a decimal point, as the digits of the integer `n`
    (`r` is finite and integral; `n` is the shortest decimal that reads back to `r`, padded with zeros, so
    `n` is the value of `r` only below 2^24; `-0` prints as `-0`, `n = 0`).
    `big r`: `r.fract() == 0.0 && r.abs() >= 2147483648.0` (the test of `struct Real`).
    `special r = some s` iff `r` is not finite (`{}` prints `NaN`, `inf`, `-inf`). -/
structure RealOps (R : Type) where
  beq : R → R → Bool
  neg : R → R
  ofInt : Int → R
  intDigits? : R → Option Int
  big : R → Bool
  special : R → Option String

structure Pt (R : Type) where
  x : R
  y : R
deriving Repr

/-- `primitive::Primitive` without `Stream`; a dictionary is its list of keys and its list of values
    (insertion order, as in `IndexMap`). -/
inductive Prim (R : Type) where
  | null
  | bool (b : Bool)
  | int (i : Int)
  | real (r : R)
  | str (bs : List UInt8)
  | name (s : String)
  | ref (id gen : Nat)
  | arr (xs : List (Prim R))
  | dict (keys : List String) (vals : List (Prim R))

inductive Winding where
  | evenOdd | nonZero
deriving Repr, DecidableEq

inductive Intent where
  | absoluteColorimetric | relativeColorimetric | saturation | perceptual
deriving Repr, DecidableEq

inductive Color (R : Type) where
  | gray (g : R)
  | rgb (r g b : R)
  | cmyk (c m y k : R)
  | other (args : List (Prim R))

/-- `content::TextDrawAdjusted` -/
inductive TDA (R : Type) where
  | text (bs : List UInt8)
  | spacing (s : R)

structure Matrix (R : Type) where
  a : R
  b : R
  c : R
  d : R
  e : R
  f : R

/-- `content::Op`; `LineJoin`, `LineCap`, `TextMode` are their discriminants. -/
inductive Op (R : Type) where
  | beginMarkedContent (tag : String) (props : Option (Prim R))
  | endMarkedContent
  | markedContentPoint (tag : String) (props : Option (Prim R))
  | close
  | moveTo (p : Pt R)
  | lineTo (p : Pt R)
  | curveTo (c1 c2 p : Pt R)
  | rect (x y w h : R)
  | endPath
  | stroke
  | fillAndStroke (w : Winding)
  | fill (w : Winding)
  | shade (name : String)
  | clip (w : Winding)
  | save
  | restore
  | transform (m : Matrix R)
  | lineWidth (w : R)
  | dash (pattern : List R) (phase : R)
  | lineJoin (j : Fin 3)
  | lineCap (c : Fin 3)
  | miterLimit (l : R)
  | flatness (t : R)
  | graphicsState (name : String)
  | strokeColor (c : Color R)
  | fillColor (c : Color R)
  | fillColorSpace (name : String)
  | strokeColorSpace (name : String)
  | renderingIntent (i : Intent)
  | beginText
  | endText
  | charSpacing (v : R)
  | wordSpacing (v : R)
  | textScaling (v : R)
  | leading (v : R)
  | textFont (name : String) (size : R)
  | textRenderMode (m : Fin 8)
  | textRise (v : R)
  | moveTextPosition (t : Pt R)
  | setTextMatrix (m : Matrix R)
  | textNewline
  | textDraw (text : List UInt8)
  | textDrawAdjusted (arr : List (TDA R))
  | xObject (name : String)
  | inlineImage (img : Nat)

/-- A token of a content stream.
    `bi r` stands for a whole `BI … ID … EI` construct: `some id` when `inline_image` returns the image
    `id`, `none` when it returns an error.
    `garbage` stands for bytes the token level cannot describe (a number that `Primitive::serialize` wrote
    in a form the lexer does not read back, inside an operand); the model never interprets it. -/
inductive Tok (R : Type) where
  | prim (p : Prim R)
  | kw (s : String)
  | bi (img : Option Nat)
  | garbage

structure Cfg where
  /-- `Primitive::Number` is written with a decimal point always (D9 repaired in primitive.rs) -/
  primDot : Bool

-- ---------------------------------------------------------------------------------------------------
-- writing numbers

def inI32 (n : Int) : Bool := decide (-2147483648 ≤ n) && decide (n ≤ 2147483647)

/-- `struct Real(f32)`: `{}` and a trailing `.` when the value is integral with magnitude ≥ 2^31.
    Result: the operand the reader sees (`none`: not finite, `{}` prints a bare word). -/
def numPrim? {R : Type} (ro : RealOps R) (r : R) : Option (Prim R) :=
  match ro.special r with
  | some _ => none
  | none =>
    match ro.intDigits? r with
    | some n => if ro.big r then some (.real r) else some (.int n)
    | none => some (.real r)

/-- a real operand written at the top level of the stream: an operand, or the bare word `NaN`/`inf`/`-inf` -/
def numTok {R : Type} (ro : RealOps R) (r : R) : Tok R :=
  match numPrim? ro r with
  | some p => .prim p
  | none => .kw ((ro.special r).getD "NaN")

/-- all-or-nothing map -/
def allSome {α : Type} : List (Option α) → Option (List α)
  | [] => some []
  | none :: _ => none
  | some x :: xs => match allSome xs with
    | some ys => some (x :: ys)
    | none => none

/-- `Primitive::Number(n) => write!(out, "{}", n)` as the reader sees it; `none`: not read back as one
    operand (non-finite, or integral outside `i32` while D9 is open). -/
def primReal? {R : Type} (ro : RealOps R) (cfg : Cfg) (r : R) : Option (Prim R) :=
  match ro.special r with
  | some _ => none
  | none =>
    if cfg.primDot then some (.real r) else
    match ro.intDigits? r with
    | some n => if inI32 n then some (.int n) else none
    | none => some (.real r)

mutual
/-- `Primitive::serialize` followed by the lexer, at token level -/
def serPrim? {R : Type} (ro : RealOps R) (cfg : Cfg) : Prim R → Option (Prim R)
  | .real r => primReal? ro cfg r
  | .arr xs => match serPrims? ro cfg xs with
    | some ys => some (.arr ys)
    | none => none
  | .dict ks vs => match serPrims? ro cfg vs with
    | some ws => some (.dict ks ws)
    | none => none
  | p => some p
def serPrims? {R : Type} (ro : RealOps R) (cfg : Cfg) : List (Prim R) → Option (List (Prim R))
  | [] => some []
  | p :: ps => match serPrim? ro cfg p, serPrims? ro cfg ps with
    | some q, some qs => some (q :: qs)
    | _, _ => none
end

def primTok {R : Type} (ro : RealOps R) (cfg : Cfg) (p : Prim R) : Tok R :=
  match serPrim? ro cfg p with
  | some q => .prim q
  | none => .garbage

def ptToks {R : Type} (ro : RealOps R) (p : Pt R) : List (Tok R) := [numTok ro p.x, numTok ro p.y]

def matrixToks {R : Type} (ro : RealOps R) (m : Matrix R) : List (Tok R) :=
  [numTok ro m.a, numTok ro m.b, numTok ro m.c, numTok ro m.d, numTok ro m.e, numTok ro m.f]

/-- an array of reals written with `Real`: one operand, or garbage when an element is not finite -/
def numArrayTok {R : Type} (ro : RealOps R) (xs : List R) : Tok R :=
  match allSome (xs.map (numPrim? ro)) with
  | some ps => .prim (.arr ps)
  | none => .garbage

def tdaPrim? {R : Type} (ro : RealOps R) : TDA R → Option (Prim R)
  | .text bs => some (.str bs)
  | .spacing s => numPrim? ro s

def tdaArrayTok {R : Type} (ro : RealOps R) (xs : List (TDA R)) : Tok R :=
  match allSome (xs.map (tdaPrim? ro)) with
  | some ps => .prim (.arr ps)
  | none => .garbage

def intentName : Intent → String
  | .absoluteColorimetric => "AbsoluteColorimetric"
  | .relativeColorimetric => "RelativeColorimetric"
  | .saturation => "Saturation"
  | .perceptual => "Perceptual"

def intentOfName (s : String) : Option Intent :=
  if s = "AbsoluteColorimetric" then some .absoluteColorimetric
  else if s = "RelativeColorimetric" then some .relativeColorimetric
  else if s = "Perceptual" then some .perceptual
  else if s = "Saturation" then some .saturation
  else none

def ptBeq {R : Type} (ro : RealOps R) (a b : Pt R) : Bool := ro.beq a.x b.x && ro.beq a.y b.y

/-- `Some(c1) == current_point` -/
def isCurrent {R : Type} (ro : RealOps R) (c1 : Pt R) : Option (Pt R) → Bool
  | some q => ptBeq ro c1 q
  | none => false

/-- serializer state: `current_point`, `subpath_start` -/
structure SState (R : Type) where
  cur : Option (Pt R)
  start : Option (Pt R)

/-- result of one iteration of the loop of `serialize_ops`: the tokens written, `advance - 1`, new state -/
structure SerStep (R : Type) where
  toks : List (Tok R)
  extra : Nat
  st : SState R

def colorToks {R : Type} (ro : RealOps R) (cfg : Cfg) (stroke : Bool) : Color R → List (Tok R)
  | .gray g => [numTok ro g, .kw (if stroke then "G" else "g")]
  | .rgb r g b => [numTok ro r, numTok ro g, numTok ro b, .kw (if stroke then "RG" else "rg")]
  | .cmyk c m y k => [numTok ro c, numTok ro m, numTok ro y, numTok ro k, .kw (if stroke then "K" else "k")]
  | .other args => args.map (primTok ro cfg) ++ [.kw (if stroke then "SCN" else "scn")]

/-- One iteration of `while ops.len() > 0 { match ops[0] { … } ops = &ops[advance..] }`.
    `none`: `Op::InlineImage` (`unimplemented!()`, which returns `Err`). -/
def serOne {R : Type} (ro : RealOps R) (cfg : Cfg) (s : SState R) (op : Op R) (rest : List (Op R)) :
    Option (SerStep R) :=
  let plain (toks : List (Tok R)) : Option (SerStep R) := some ⟨toks, 0, s⟩
  match op with
  | .beginMarkedContent tag (some p) => plain [.prim (.name tag), primTok ro cfg p, .kw "BDC"]
  | .beginMarkedContent tag none => plain [.prim (.name tag), .kw "BMC"]
  | .markedContentPoint tag (some p) => plain [.prim (.name tag), primTok ro cfg p, .kw "DP"]
  | .markedContentPoint tag none => plain [.prim (.name tag), .kw "MP"]
  | .endMarkedContent => plain [.kw "EMC"]
  | .close =>
    let s' : SState R := ⟨s.start, s.start⟩
    match rest with
    | .stroke :: _ => some ⟨[.kw "s"], 1, s'⟩
    | .fillAndStroke .nonZero :: _ => some ⟨[.kw "b"], 1, s'⟩
    | .fillAndStroke .evenOdd :: _ => some ⟨[.kw "b*"], 1, s'⟩
    | _ => some ⟨[.kw "h"], 0, s'⟩
  | .moveTo p => some ⟨ptToks ro p ++ [.kw "m"], 0, ⟨some p, some p⟩⟩
  | .lineTo p => some ⟨ptToks ro p ++ [.kw "l"], 0, ⟨some p, s.start⟩⟩
  | .curveTo c1 c2 p =>
    let s' : SState R := ⟨some p, s.start⟩
    if isCurrent ro c1 s.cur then some ⟨ptToks ro c2 ++ ptToks ro p ++ [.kw "v"], 0, s'⟩
    else if ptBeq ro c2 p then some ⟨ptToks ro c1 ++ ptToks ro p ++ [.kw "y"], 0, s'⟩
    else some ⟨ptToks ro c1 ++ ptToks ro c2 ++ ptToks ro p ++ [.kw "c"], 0, s'⟩
  | .rect x y w h =>
    some ⟨[numTok ro x, numTok ro y, numTok ro w, numTok ro h, .kw "re"], 0, ⟨some ⟨x, y⟩, some ⟨x, y⟩⟩⟩
  | .endPath => plain [.kw "n"]
  | .stroke => plain [.kw "S"]
  | .fillAndStroke .nonZero => plain [.kw "B"]
  | .fillAndStroke .evenOdd => plain [.kw "B*"]
  | .fill .nonZero => plain [.kw "f"]
  | .fill .evenOdd => plain [.kw "f*"]
  | .shade name => plain [.prim (.name name), .kw "sh"]
  | .clip .nonZero => plain [.kw "W"]
  | .clip .evenOdd => plain [.kw "W*"]
  | .save => plain [.kw "q"]
  | .restore => plain [.kw "Q"]
  | .transform m => plain (matrixToks ro m ++ [.kw "cm"])
  | .lineWidth w => plain [numTok ro w, .kw "w"]
  | .dash pattern phase => plain [numArrayTok ro pattern, numTok ro phase, .kw "d"]
  | .lineJoin j => plain [.prim (.int j.val), .kw "j"]
  | .lineCap c => plain [.prim (.int c.val), .kw "J"]
  | .miterLimit l => plain [numTok ro l, .kw "M"]
  | .flatness t => plain [numTok ro t, .kw "i"]
  | .graphicsState name => plain [.prim (.name name), .kw "gs"]
  | .strokeColor c => plain (colorToks ro cfg true c)
  | .fillColor c => plain (colorToks ro cfg false c)
  | .fillColorSpace name => plain [.prim (.name name), .kw "cs"]
  | .strokeColorSpace name => plain [.prim (.name name), .kw "CS"]
  | .renderingIntent i => plain [.prim (.name (intentName i)), .kw "ri"]
  | .beginText => plain [.kw "BT"]
  | .endText => plain [.kw "ET"]
  | .charSpacing v => plain [numTok ro v, .kw "Tc"]
  | .wordSpacing ws =>
    match rest with
    | .charSpacing cs :: .textNewline :: .textDraw text :: _ =>
      some ⟨[numTok ro ws, numTok ro cs, .prim (.str text), .kw "\""], 3, s⟩
    | _ => plain [numTok ro ws, .kw "Tw"]
  | .textScaling v => plain [numTok ro v, .kw "Tz"]
  | .leading l =>
    match rest with
    | .moveTextPosition t :: _ =>
      if ro.beq l (ro.neg t.y) then some ⟨ptToks ro t ++ [.kw "TD"], 1, s⟩
      else plain [numTok ro l, .kw "TL"]
    | _ => plain [numTok ro l, .kw "TL"]
  | .textFont name size => plain [.prim (.name name), numTok ro size, .kw "Tf"]
  | .textRenderMode m => plain [.prim (.int m.val), .kw "Tr"]
  | .textRise v => plain [numTok ro v, .kw "Ts"]
  | .moveTextPosition t => plain (ptToks ro t ++ [.kw "Td"])
  | .setTextMatrix m => plain (matrixToks ro m ++ [.kw "Tm"])
  | .textNewline =>
    match rest with
    | .textDraw text :: _ => some ⟨[.prim (.str text), .kw "'"], 1, s⟩
    | _ => plain [.kw "T*"]
  | .textDraw text => plain [.prim (.str text), .kw "Tj"]
  | .textDrawAdjusted arr => plain [tdaArrayTok ro arr, .kw "TJ"]
  | .inlineImage _ => none
  | .xObject name => plain [.prim (.name name), .kw "Do"]

/-- `serialize_ops` with explicit fuel (one unit per loop iteration) -/
def serLoop {R : Type} (ro : RealOps R) (cfg : Cfg) : Nat → SState R → List (Op R) → Out (List (Tok R))
  | _, _, [] => .ok []
  | 0, _, _ :: _ => .oof
  | fuel + 1, s, op :: rest =>
    match serOne ro cfg s op rest with
    | none => .err
    | some r =>
      match serLoop ro cfg fuel r.st (rest.drop r.extra) with
      | .ok more => .ok (r.toks ++ more)
      | o => o

/-- `content::serialize_ops`, followed by the lexer: the token sequence a reader sees -/
def serializeOps {R : Type} (ro : RealOps R) (cfg : Cfg) (ops : List (Op R)) : Out (List (Tok R)) :=
  serLoop ro cfg ops.length ⟨none, none⟩ ops

-- ---------------------------------------------------------------------------------------------------
-- reading

/-- `Primitive::as_number` -/
def asNumber {R : Type} (ro : RealOps R) : Prim R → Option R
  | .int n => some (ro.ofInt n)
  | .real r => some r
  | _ => none

/-- `number(&mut args)`: `args.next().ok_or(NoOpArg)?.as_number()` -/
def popNum {R : Type} (ro : RealOps R) : List (Prim R) → Option (R × List (Prim R))
  | [] => none
  | p :: ps => match asNumber ro p with
    | some r => some (r, ps)
    | none => none

/-- `k` numbers in a row (`point`, `rect`, `rgb`, `cmyk`, `matrix`, `numbers!`) -/
def popNums {R : Type} (ro : RealOps R) : Nat → List (Prim R) → Option (List R × List (Prim R))
  | 0, ps => some ([], ps)
  | k + 1, ps => match popNum ro ps with
    | none => none
    | some (r, ps') => match popNums ro k ps' with
      | none => none
      | some (rs, ps'') => some (r :: rs, ps'')

def popName {R : Type} : List (Prim R) → Option (String × List (Prim R))
  | .name s :: ps => some (s, ps)
  | _ => none

def popStr {R : Type} : List (Prim R) → Option (List UInt8 × List (Prim R))
  | .str bs :: ps => some (bs, ps)
  | _ => none

/-- `args.next().ok_or(NoOpArg)?.as_integer()` -/
def popInt {R : Type} : List (Prim R) → Option (Int × List (Prim R))
  | .int n :: ps => some (n, ps)
  | _ => none

/-- state of `OpBuilder` between two operators -/
structure PState (R : Type) where
  last : Pt R
  start : Pt R
  compat : Bool
  ops : List (Op R)

/-- result of `OpBuilder::add`: the state (with whatever was pushed before an error) and `Ok`/`Err` -/
structure AddResult (R : Type) where
  st : PState R
  ok : Bool

def PState.push {R : Type} (st : PState R) (os : List (Op R)) : PState R := { st with ops := st.ops ++ os }

def okPush {R : Type} (st : PState R) (os : List (Op R)) : AddResult R := ⟨st.push os, true⟩
def fail {R : Type} (st : PState R) : AddResult R := ⟨st, false⟩

def finOfInt (k : Nat) (n : Int) : Option (Fin k) :=
  if h : 0 ≤ n ∧ n.toNat < k then some ⟨n.toNat, h.2⟩ else none

/-- one element of the array of `TJ` -/
def tdaOfPrim {R : Type} (ro : RealOps R) : Prim R → Option (TDA R)
  | .int i => some (.spacing (ro.ofInt i))
  | .real r => some (.spacing r)
  | .str bs => some (.text bs)
  | _ => none

def one1 {R : Type} (ro : RealOps R) (st : PState R) (args : List (Prim R)) (f : R → Op R) : AddResult R :=
  match popNum ro args with
  | some (r, _) => okPush st [f r]
  | none => fail st

def name1 {R : Type} (st : PState R) (args : List (Prim R)) (f : String → Op R) : AddResult R :=
  match popName args with
  | some (s, _) => okPush st [f s]
  | none => fail st

/-- the arm `BDC` of `OpBuilder::add` -/
def addBDC {R : Type} (ro : RealOps R) (st : PState R) (args : List (Prim R)) : AddResult R :=
  match popName args with
  | some (tag, p :: _) => okPush st [.beginMarkedContent tag (some p)]
  | _ => fail st

/-- the arm `c` of `OpBuilder::add` -/
def addC {R : Type} (ro : RealOps R) (st : PState R) (args : List (Prim R)) : AddResult R :=
  match popNums ro 6 args with
  | some ([a, b, c, d, e, f], _) =>
    ⟨{ st.push [.curveTo ⟨a, b⟩ ⟨c, d⟩ ⟨e, f⟩] with last := ⟨e, f⟩ }, true⟩
  | _ => fail st

/-- the arm `cm` of `OpBuilder::add` -/
def addCm {R : Type} (ro : RealOps R) (st : PState R) (args : List (Prim R)) : AddResult R :=
  match popNums ro 6 args with
  | some ([a, b, c, d, e, f], _) => okPush st [.transform ⟨a, b, c, d, e, f⟩]
  | _ => fail st

/-- the arm `d` of `OpBuilder::add` -/
def addD {R : Type} (ro : RealOps R) (st : PState R) (args : List (Prim R)) : AddResult R :=
  match args with
  | .arr xs :: rest =>
    match allSome (xs.map (asNumber ro)) with
    | some pattern =>
      match popNum ro rest with
      | some (phase, _) => okPush st [.dash pattern phase]
      | none => fail st
    | none => fail st
  | _ => fail st

/-- the arm `DP` of `OpBuilder::add` -/
def addDP {R : Type} (ro : RealOps R) (st : PState R) (args : List (Prim R)) : AddResult R :=
  match popName args with
  | some (tag, p :: _) => okPush st [.markedContentPoint tag (some p)]
  | _ => fail st

/-- the arm `j` of `OpBuilder::add` -/
def addJLower {R : Type} (ro : RealOps R) (st : PState R) (args : List (Prim R)) : AddResult R :=
  match popInt args with
  | some (n, _) => match finOfInt 3 n with
    | some j => okPush st [.lineJoin j]
    | none => fail st
  | none => fail st

/-- the arm `J` of `OpBuilder::add` -/
def addJUpper {R : Type} (ro : RealOps R) (st : PState R) (args : List (Prim R)) : AddResult R :=
  match popInt args with
  | some (n, _) => match finOfInt 3 n with
    | some c => okPush st [.lineCap c]
    | none => fail st
  | none => fail st

/-- the arm `K` of `OpBuilder::add` -/
def addKUpper {R : Type} (ro : RealOps R) (st : PState R) (args : List (Prim R)) : AddResult R :=
  match popNums ro 4 args with
  | some ([c, m, y, k], _) => okPush st [.strokeColor (.cmyk c m y k)]
  | _ => fail st

/-- the arm `k` of `OpBuilder::add` -/
def addKLower {R : Type} (ro : RealOps R) (st : PState R) (args : List (Prim R)) : AddResult R :=
  match popNums ro 4 args with
  | some ([c, m, y, k], _) => okPush st [.fillColor (.cmyk c m y k)]
  | _ => fail st

/-- the arm `l` of `OpBuilder::add` -/
def addL {R : Type} (ro : RealOps R) (st : PState R) (args : List (Prim R)) : AddResult R :=
  match popNums ro 2 args with
  | some ([x, y], _) => ⟨{ st.push [.lineTo ⟨x, y⟩] with last := ⟨x, y⟩ }, true⟩
  | _ => fail st

/-- the arm `m` of `OpBuilder::add` -/
def addM {R : Type} (ro : RealOps R) (st : PState R) (args : List (Prim R)) : AddResult R :=
  match popNums ro 2 args with
  | some ([x, y], _) => ⟨{ st.push [.moveTo ⟨x, y⟩] with last := ⟨x, y⟩, start := ⟨x, y⟩ }, true⟩
  | _ => fail st

/-- the arm `re` of `OpBuilder::add` -/
def addRe {R : Type} (ro : RealOps R) (st : PState R) (args : List (Prim R)) : AddResult R :=
  match popNums ro 4 args with
  | some ([x, y, w, h], _) => ⟨{ st.push [.rect x y w h] with last := ⟨x, y⟩, start := ⟨x, y⟩ }, true⟩
  | _ => fail st

/-- the arm `RG` of `OpBuilder::add` -/
def addRGUpper {R : Type} (ro : RealOps R) (st : PState R) (args : List (Prim R)) : AddResult R :=
  match popNums ro 3 args with
  | some ([r, g, b], _) => okPush st [.strokeColor (.rgb r g b)]
  | _ => fail st

/-- the arm `rg` of `OpBuilder::add` -/
def addRgLower {R : Type} (ro : RealOps R) (st : PState R) (args : List (Prim R)) : AddResult R :=
  match popNums ro 3 args with
  | some ([r, g, b], _) => okPush st [.fillColor (.rgb r g b)]
  | _ => fail st

/-- the arm `ri` of `OpBuilder::add` -/
def addRi {R : Type} (ro : RealOps R) (st : PState R) (args : List (Prim R)) : AddResult R :=
  match popName args with
  | some (s, _) => match intentOfName s with
    | some i => okPush st [.renderingIntent i]
    | none => fail st
  | none => fail st

/-- the arm `Td` of `OpBuilder::add` -/
def addTdLower {R : Type} (ro : RealOps R) (st : PState R) (args : List (Prim R)) : AddResult R :=
  match popNums ro 2 args with
  | some ([x, y], _) => okPush st [.moveTextPosition ⟨x, y⟩]
  | _ => fail st

/-- the arm `TD` of `OpBuilder::add` -/
def addTDUpper {R : Type} (ro : RealOps R) (st : PState R) (args : List (Prim R)) : AddResult R :=
  match popNums ro 2 args with
  | some ([x, y], _) => okPush st [.leading (ro.neg y), .moveTextPosition ⟨x, y⟩]
  | _ => fail st

/-- the arm `Tf` of `OpBuilder::add` -/
def addTf {R : Type} (ro : RealOps R) (st : PState R) (args : List (Prim R)) : AddResult R :=
  match popName args with
  | some (name, rest) => match popNum ro rest with
    | some (size, _) => okPush st [.textFont name size]
    | none => fail st
  | none => fail st

/-- the arm `Tj` of `OpBuilder::add` -/
def addTjLower {R : Type} (ro : RealOps R) (st : PState R) (args : List (Prim R)) : AddResult R :=
  match popStr args with
  | some (bs, _) => okPush st [.textDraw bs]
  | none => fail st

/-- the arm `TJ` of `OpBuilder::add` -/
def addTJUpper {R : Type} (ro : RealOps R) (st : PState R) (args : List (Prim R)) : AddResult R :=
  match args with
  | [] => okPush st [.textDrawAdjusted []]
  | .arr xs :: _ => match allSome (xs.map (tdaOfPrim ro)) with
    | some arr => okPush st [.textDrawAdjusted arr]
    | none => fail st
  | _ => fail st

/-- the arm `Tm` of `OpBuilder::add` -/
def addTm {R : Type} (ro : RealOps R) (st : PState R) (args : List (Prim R)) : AddResult R :=
  match popNums ro 6 args with
  | some ([a, b, c, d, e, f], _) => okPush st [.setTextMatrix ⟨a, b, c, d, e, f⟩]
  | _ => fail st

/-- the arm `Tr` of `OpBuilder::add` -/
def addTr {R : Type} (ro : RealOps R) (st : PState R) (args : List (Prim R)) : AddResult R :=
  match popInt args with
  | some (n, _) => match finOfInt 8 n with
    | some m => okPush st [.textRenderMode m]
    | none => fail st
  | none => fail st

/-- the arm `v` of `OpBuilder::add` -/
def addV {R : Type} (ro : RealOps R) (st : PState R) (args : List (Prim R)) : AddResult R :=
  match popNums ro 4 args with
  | some ([a, b, c, d], _) =>
    ⟨{ st.push [.curveTo st.last ⟨a, b⟩ ⟨c, d⟩] with last := ⟨c, d⟩ }, true⟩
  | _ => fail st

/-- the arm `y` of `OpBuilder::add` -/
def addY {R : Type} (ro : RealOps R) (st : PState R) (args : List (Prim R)) : AddResult R :=
  match popNums ro 4 args with
  | some ([a, b, c, d], _) =>
    ⟨{ st.push [.curveTo ⟨a, b⟩ ⟨c, d⟩ ⟨c, d⟩] with last := ⟨c, d⟩ }, true⟩
  | _ => fail st

/-- the arm `'` of `OpBuilder::add` -/
def addQuote {R : Type} (ro : RealOps R) (st : PState R) (args : List (Prim R)) : AddResult R :=
  -- `push(TextNewline)` happens before the operand is looked at
  match popStr args with
  | some (bs, _) => okPush st [.textNewline, .textDraw bs]
  | none => fail (st.push [.textNewline])

/-- the arm `"` of `OpBuilder::add` -/
def addDQuote {R : Type} (ro : RealOps R) (st : PState R) (args : List (Prim R)) : AddResult R :=
  match popNum ro args with
  | none => fail st
  | some (ws, r1) =>
    match popNum ro r1 with
    | none => fail (st.push [.wordSpacing ws])
    | some (cs, r2) =>
      match popStr r2 with
      | none => fail (st.push [.wordSpacing ws, .charSpacing cs, .textNewline])
      | some (bs, _) => okPush st [.wordSpacing ws, .charSpacing cs, .textNewline, .textDraw bs]

/-- `OpBuilder::add(op, args, lexer, resolve)` for every operator except `BI` (see `step`) -/
def add {R : Type} (ro : RealOps R) (st : PState R) (op : String) (args : List (Prim R)) : AddResult R :=
  if op = "b" then ⟨{ st.push [.close, .fillAndStroke .nonZero] with last := st.start }, true⟩
  else if op = "B" then okPush st [.fillAndStroke .nonZero]
  else if op = "b*" then ⟨{ st.push [.close, .fillAndStroke .evenOdd] with last := st.start }, true⟩
  else if op = "B*" then okPush st [.fillAndStroke .evenOdd]
  else if op = "BI" then fail st   -- a bare `BI` keyword: see `Tok.bi`; never produced by the tokeniser of the check
  else if op = "BDC" then addBDC ro st args
  else if op = "BMC" then name1 st args (fun tag => .beginMarkedContent tag none)
  else if op = "BT" then okPush st [.beginText]
  else if op = "BX" then ⟨{ st with compat := true }, true⟩
  else if op = "c" then addC ro st args
  else if op = "cm" then addCm ro st args
  else if op = "CS" then name1 st args .strokeColorSpace
  else if op = "cs" then name1 st args .fillColorSpace
  else if op = "d" then addD ro st args
  else if op = "d0" then ⟨st, true⟩
  else if op = "d1" then ⟨st, true⟩
  else if op = "Do" ∨ op = "Do0" then name1 st args .xObject
  else if op = "DP" then addDP ro st args
  else if op = "EI" then fail st
  else if op = "EMC" then okPush st [.endMarkedContent]
  else if op = "ET" then okPush st [.endText]
  else if op = "EX" then ⟨{ st with compat := false }, true⟩
  else if op = "f" ∨ op = "F" then okPush st [.fill .nonZero]
  else if op = "f*" then okPush st [.fill .evenOdd]
  else if op = "G" then one1 ro st args (fun g => .strokeColor (.gray g))
  else if op = "g" then one1 ro st args (fun g => .fillColor (.gray g))
  else if op = "gs" then name1 st args .graphicsState
  else if op = "h" then ⟨{ st.push [.close] with last := st.start }, true⟩
  else if op = "i" then one1 ro st args .flatness
  else if op = "ID" then fail st
  else if op = "j" then addJLower ro st args
  else if op = "J" then addJUpper ro st args
  else if op = "K" then addKUpper ro st args
  else if op = "k" then addKLower ro st args
  else if op = "l" then addL ro st args
  else if op = "m" then addM ro st args
  else if op = "M" then one1 ro st args .miterLimit
  else if op = "MP" then name1 st args (fun tag => .markedContentPoint tag none)
  else if op = "n" then okPush st [.endPath]
  else if op = "q" then okPush st [.save]
  else if op = "Q" then okPush st [.restore]
  else if op = "re" then addRe ro st args
  else if op = "RG" then addRGUpper ro st args
  else if op = "rg" then addRgLower ro st args
  else if op = "ri" then addRi ro st args
  else if op = "s" then ⟨{ st.push [.close, .stroke] with last := st.start }, true⟩
  else if op = "S" then okPush st [.stroke]
  else if op = "SC" ∨ op = "SCN" then okPush st [.strokeColor (.other args)]
  else if op = "sc" ∨ op = "scn" then okPush st [.fillColor (.other args)]
  else if op = "sh" then name1 st args .shade
  else if op = "T*" then okPush st [.textNewline]
  else if op = "Tc" then one1 ro st args .charSpacing
  else if op = "Td" then addTdLower ro st args
  else if op = "TD" then addTDUpper ro st args
  else if op = "Tf" then addTf ro st args
  else if op = "Tj" then addTjLower ro st args
  else if op = "TJ" then addTJUpper ro st args
  else if op = "TL" then one1 ro st args .leading
  else if op = "Tm" then addTm ro st args
  else if op = "Tr" then addTr ro st args
  else if op = "Ts" then one1 ro st args .textRise
  else if op = "Tw" then one1 ro st args .wordSpacing
  else if op = "Tz" then one1 ro st args .textScaling
  else if op = "v" then addV ro st args
  else if op = "w" then one1 ro st args .lineWidth
  else if op = "W" then okPush st [.clip .nonZero]
  else if op = "W*" then okPush st [.clip .evenOdd]
  else if op = "y" then addY ro st args
  else if op = "'" then addQuote ro st args
  else if op = "\"" then addDQuote ro st args
  else if st.compat then ⟨st, true⟩
  else fail st

/-- configuration of the loop of `OpBuilder::parse`: the builder and the operand buffer -/
structure PCfg (R : Type) where
  st : PState R
  buf : List (Prim R)

/-- One round of the loop of `OpBuilder::parse` on one token.  `allow` is
    `resolve.options().allow_invalid_ops`.  `buffer.drain(..)` is dropped when `add` returns, whatever it
    returns: the buffer is empty afterwards. -/
def step {R : Type} (ro : RealOps R) (allow : Bool) (c : PCfg R) : Tok R → Out (PCfg R)
  | .prim p => .ok ⟨c.st, c.buf ++ [p]⟩
  | .kw s =>
    let r := add ro c.st s c.buf
    if r.ok || allow then .ok ⟨r.st, []⟩ else .err
  | .bi (some id) => .ok ⟨c.st.push [.inlineImage id], []⟩
  | .bi none => if allow then .ok ⟨c.st, []⟩ else .err
  | .garbage => .err

def parseLoop {R : Type} (ro : RealOps R) (allow : Bool) (c : PCfg R) : List (Tok R) → Out (PCfg R)
  | [] => .ok c
  | t :: ts => match step ro allow c t with
    | .ok c' => parseLoop ro allow c' ts
    | .err => .err
    | .panic => .panic
    | .oof => .oof

def initState {R : Type} (ro : RealOps R) : PState R :=
  ⟨⟨ro.ofInt 0, ro.ofInt 0⟩, ⟨ro.ofInt 0, ro.ofInt 0⟩, false, []⟩

/-- `content::parse_ops` on the token sequence of the data (operands left over at the end are dropped) -/
def parseOps {R : Type} (ro : RealOps R) (allow : Bool) (toks : List (Tok R)) : Out (List (Op R)) :=
  match parseLoop ro allow ⟨initState ro, []⟩ toks with
  | .ok c => .ok c.st.ops
  | .err => .err
  | .panic => .panic
  | .oof => .oof

end Content
