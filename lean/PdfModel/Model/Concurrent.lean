import PdfModel.Model.Cache

/-!
# Labelled transition system of concurrent typed loads (C13)

Threads resolve and load objects of one open document through `StorageResolver::get`. The shared state
and the places where a thread can be interleaved with the others are exactly the synchronisation points
of `StorageResolver::get` (file.rs:309-348) and `SyncCache::get` (globalcache sync.rs:53-119):

Rust                                                           → here
------------------------------------------------------------------------------------------------------
entry of `get` (hook `Enter`)                                  → `Ctl.enter T r k`
  `chain.lock()`, `contains`, `len() >= MAX_NESTED_GETS`,
  `push`  (file.rs)                                              step `enter`: error "Recursive reference" |
                                                                 error "nested too deeply" | push
after the push (hook `AfterPush`), before `get_or_compute`     → `Ctl.pushed T r k`
  `SyncCache::get`: `inner.lock()`, `entries.entry(key)`         step `pushed`:
     `Computed(v)` → clone                                          hit  → `afterLookup` (downcast / fallback)
     `InProcess(condvar)` → `poll`: `condvar.wait`                  wait → `Ctl.waiting` (enabled again once computed)
     `Vacant` → insert `InProcess`, unlock, run `compute()`         claim → frame `store = true`, run the body
  `NoCache`: run `compute()`                                        frame `store = false`, run the body
the compute closure returned, before `inner.lock()` again      → `Ctl.storing res`
  replace the slot by `Computed`, `notify_all`                   step `storing`
`AnySync::downcast` mismatch or cached `Err` → uncached reload → frame `store = false` (`afterLookup`)
result known, `Defer` about to run (hook `BeforePop`)          → `Ctl.popping T r k res`
  `chain.lock()`, `assert_eq!(chain.pop(), Some(key))`           step `popping`: pop | panic (and poisoned mutex)
between two top level calls of a thread (harness loop)         → `Ctl.start`

Everything a thread does between two such points touches no shared state except the stream cache:
`get_data_or_decode` is one atomic action here (`dataS`): its compute closure (`Storage::decode`) has no
synchronisation point inside and calls nothing back, so lookup / decode / store of the stream cache
linearise at one point. The nested loads of a body are an arbitrary program `Cache.Prog`, as in C12.

`Cfg.sharedGuard = true` is the guard before the repair of D29 (one stack for all threads of a
resolver); the code under test keeps one stack per thread (`false`), which is also what threads with
a resolver each have. The slot owner recorded in `Slot.inProcess` is ghost state (`SyncCache` stores only
the condvar); no transition reads it.

Not in the model (stated in the claim): memory ordering, the real condvar (spurious wake-ups are
harmless: `poll` re-checks the slot), OS scheduling and fairness.
-/

namespace Conc
open Cache

inductive Slot (V E : Type) where
  | inProcess (owner : Nat)
  | computed (T : Nat) (res : Res V E)

structure Frame (V E : Type) where
  T : Nat
  r : Nat
  store : Bool
  k : Res V E → Prog V E

inductive Ctl (V E : Type) where
  | start
  | enter (T r : Nat) (k : Res V E → Prog V E)
  | pushed (T r : Nat) (k : Res V E → Prog V E)
  | waiting (T r : Nat) (k : Res V E → Prog V E)
  /-- inside `Log::log_get(r)`: user code, before `get::<T>(r)` has touched anything (callbacks on) -/
  | logging (T r : Nat) (k : Res V E → Prog V E)
  /-- inside the first `Log::load_object(r)` of a run of the compute closure / of the uncached reload of `r`:
      user code; the guard is pushed, the frame is open, with the object cache on the slot may be claimed -/
  | loading (r : Nat) (p : Prog V E)
  | storing (res : Res V E)
  | popping (T r : Nat) (k : Res V E → Prog V E) (res : Res V E)
  | done
  | panicked

structure Thread (V E : Type) where
  ctl : Ctl V E
  stack : List (Frame V E)
  chain : List Nat
  todo : List (Prog V E)
  out : List (Res V E)

structure Shared (V E : Type) where
  slots : List (Nat × Slot V E)
  stm : List (Nat × Res V E)
  chain : List Nat
  poisoned : Bool

structure State (V E : Type) where
  sh : Shared V E
  threads : List (Thread V E)

structure Cfg where
  objCache : Bool
  stmCache : Bool
  sharedGuard : Bool := false
  /-- the callbacks into the user's `Log` are steps of their own (the user's code may take arbitrarily long there) -/
  cb : Bool := false
deriving DecidableEq, Repr

variable {V E : Type}

def Thread.init (calls : List (Prog V E)) : Thread V E := ⟨.start, [], [], calls, []⟩

def State.init (slots : List (Nat × Slot V E)) (stm : List (Nat × Res V E)) (calls : List (List (Prog V E))) : State V E :=
  ⟨⟨slots, stm, [], false⟩, calls.map Thread.init⟩

/-- `get_data_or_decode` through the (sync or absent) stream cache: atomic -/
def dataS (d : Doc V E) (cfg : Cfg) (sh : Shared V E) (r : Nat) (fs : List Nat) : Res V E × Shared V E :=
  if cfg.stmCache then
    match sh.stm.lookup r with
    | some v => (v, sh)
    | none => (d.decode r fs, { sh with stm := (r, d.decode r fs) :: sh.stm })
  else (d.decode r fs, sh)

/-- outcome of running a program up to its next synchronisation point -/
inductive Adv (V E : Type) where
  | enter (T r : Nat) (k : Res V E → Prog V E)
  | fin (res : Res V E)

/-- thread-local code between two synchronisation points -/
def advP (d : Doc V E) (cfg : Cfg) : Shared V E → Prog V E → Adv V E × Shared V E
  | sh, .ret x => (.fin x, sh)
  | sh, .get T r k => (.enter T r k, sh)
  | sh, .data r fs k => advP d cfg (dataS d cfg sh r fs).2 (k (dataS d cfg sh r fs).1)

/-- the program the thread was running returned `res`: the compute closure of the top frame is over
    (→ before the store, or straight to the pop when nothing is stored), or a top level call is complete -/
def finish (t : Thread V E) (res : Res V E) : Thread V E :=
  match t.stack with
  | f :: rest => if f.store then { t with ctl := .storing res } else { t with ctl := .popping f.T f.r f.k res, stack := rest }
  | [] => { t with ctl := .start, out := t.out ++ [res] }

def applyAdv (cfg : Cfg) (t : Thread V E) : Adv V E → Thread V E
  | .enter T r k => { t with ctl := if cfg.cb then .logging T r k else .enter T r k }
  | .fin res => finish t res

/-- run program `p` as thread `t` up to the next synchronisation point -/
def runTo (d : Doc V E) (cfg : Cfg) (sh : Shared V E) (t : Thread V E) (p : Prog V E) : Shared V E × Thread V E :=
  ((advP d cfg sh p).2, applyAdv cfg t (advP d cfg sh p).1)

/-- a run of the compute closure, or of the uncached reload, of `r` starts: `resolve(r)` calls `Log::load_object(r)`
    first thing -/
def startLoad (d : Doc V E) (cfg : Cfg) (sh : Shared V E) (t : Thread V E) (r : Nat) (p : Prog V E) : Shared V E × Thread V E :=
  if cfg.cb then (sh, { t with ctl := .loading r p }) else runTo d cfg sh t p

/-- the cache handed out a value computed earlier (by anybody): type-checked downcast, otherwise the
    object is loaded again without touching the cache (also for a cached `Err`, since D28) -/
def afterLookup (d : Doc V E) (cfg : Cfg) (sh : Shared V E) (t : Thread V E) (T r : Nat) (k : Res V E → Prog V E)
    (T' : Nat) (res : Res V E) : Shared V E × Thread V E :=
  match res with
  | .ok v =>
    if T' = T then (sh, { t with ctl := .popping T r k (.ok v) })
    else startLoad d cfg sh { t with stack := ⟨T, r, false, k⟩ :: t.stack } r (d.body T r)
  | _ => startLoad d cfg sh { t with stack := ⟨T, r, false, k⟩ :: t.stack } r (d.body T r)

/-- one step of thread number `i` whose state is `t`; `none` = not enabled (blocked or finished) -/
def stepT (d : Doc V E) (cfg : Cfg) (i : Nat) (sh : Shared V E) (t : Thread V E) : Option (Shared V E × Thread V E) :=
  match t.ctl with
  | .done => none
  | .panicked => none
  | .start =>
    match t.todo with
    | [] => some (sh, { t with ctl := .done })
    | p :: ps => some (runTo d cfg sh { t with todo := ps } p)
  | .enter T r k =>
    if cfg.sharedGuard then
      if sh.poisoned then some (sh, { t with ctl := .panicked })
      else if r ∈ sh.chain then some (runTo d cfg sh t (k (.err d.recErr)))
      else if maxNestedGets ≤ sh.chain.length then some (runTo d cfg sh t (k (.err d.recErr)))
      else some ({ sh with chain := r :: sh.chain }, { t with ctl := .pushed T r k })
    else
      if r ∈ t.chain then some (runTo d cfg sh t (k (.err d.recErr)))
      else if maxNestedGets ≤ t.chain.length then some (runTo d cfg sh t (k (.err d.recErr)))
      else some (sh, { t with ctl := .pushed T r k, chain := r :: t.chain })
  | .pushed T r k =>
    if cfg.objCache then
      match sh.slots.lookup r with
      | none =>
        some (startLoad d cfg { sh with slots := (r, .inProcess i) :: sh.slots }
                { t with stack := ⟨T, r, true, k⟩ :: t.stack } r (d.compute T r))
      | some (.inProcess _) => some (sh, { t with ctl := .waiting T r k })
      | some (.computed T' res) => some (afterLookup d cfg sh t T r k T' res)
    else some (startLoad d cfg sh { t with stack := ⟨T, r, false, k⟩ :: t.stack } r (d.compute T r))
  | .waiting T r k =>
    match sh.slots.lookup r with
    | some (.computed T' res) => some (afterLookup d cfg sh t T r k T' res)
    | _ => none
  | .logging T r k => some (sh, { t with ctl := .enter T r k })
  | .loading _ p => some (runTo d cfg sh t p)
  | .storing res =>
    match t.stack with
    | f :: rest =>
      some ({ sh with slots := (f.r, .computed f.T res) :: sh.slots },
            { t with ctl := .popping f.T f.r f.k res, stack := rest })
    | [] => none
  | .popping _ r k res =>
    if cfg.sharedGuard then
      if sh.poisoned then some (sh, { t with ctl := .panicked })
      else
        match sh.chain with
        | c :: cs =>
          if c = r then some (runTo d cfg { sh with chain := cs } t (k res))
          else some ({ sh with chain := cs, poisoned := true }, { t with ctl := .panicked })
        | [] => some ({ sh with poisoned := true }, { t with ctl := .panicked })
    else
      match t.chain with
      | c :: cs =>
        if c = r then some (runTo d cfg sh { t with chain := cs } (k res))
        else some (sh, { t with ctl := .panicked, chain := cs })
      | [] => some (sh, { t with ctl := .panicked })

def step (d : Doc V E) (cfg : Cfg) (s : State V E) (i : Nat) : Option (State V E) :=
  match s.threads[i]? with
  | none => none
  | some t =>
    match stepT d cfg i s.sh t with
    | none => none
    | some (sh', t') => some ⟨sh', s.threads.set i t'⟩

/-- run a schedule (a list of thread numbers); a step that is not enabled stops the run -/
def runSched (d : Doc V E) (cfg : Cfg) : State V E → List Nat → Option (State V E)
  | s, [] => some s
  | s, i :: is =>
    match step d cfg s i with
    | none => none
    | some s' => runSched d cfg s' is

/-- a scheduler of its own: always the enabled thread with the smallest number (at most `fuel` steps) -/
def runFirst (d : Doc V E) (cfg : Cfg) : Nat → State V E → State V E
  | 0, s => s
  | fuel+1, s =>
    match (List.range s.threads.length).findSome? fun i => step d cfg s i with
    | some s' => runFirst d cfg fuel s'
    | none => s

inductive Reachable (d : Doc V E) (cfg : Cfg) (s0 : State V E) : State V E → Prop
  | init : Reachable d cfg s0 s0
  | step {s s' : State V E} (i : Nat) : Reachable d cfg s0 s → step d cfg s i = some s' → Reachable d cfg s0 s'

def Ctl.isFinal : Ctl V E → Bool
  | .done => true
  | .panicked => true
  | _ => false

def State.allDone (s : State V E) : Bool := s.threads.all fun t => t.ctl.isFinal

def State.enabled (d : Doc V E) (cfg : Cfg) (s : State V E) (i : Nat) : Bool := (step d cfg s i).isSome

/-- nobody can move although somebody is not finished -/
def State.deadlocked (d : Doc V E) (cfg : Cfg) (s : State V E) : Bool :=
  !s.allDone && (List.range s.threads.length).all fun i => !s.enabled d cfg i

def State.anyPanic (s : State V E) : Bool :=
  s.threads.any fun t => match t.ctl with | .panicked => true | _ => false

end Conc
