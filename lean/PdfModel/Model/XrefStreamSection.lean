import PdfModel.Model.XrefTable
import PdfModel.Model.XrefStream
import PdfModel.Model.XrefFile

/-
  Model of `parse_xref_stream_and_trailer` (pdf/src/parser/parse_xref.rs) on the concrete lexer / parser,
  i.e. the parameter `stm` of `XrefTable.readXrefAndTrailerAt`, and with it the section reader
  `read_xref_and_trailer_at` and `Backend::read_xref_table_and_trailer` with no section-reader parameter.

  Rust                                                            model
  ----                                                            -----
  parse_indirect_stream(lexer, resolve, None)                      PdfLex.parseIndirectStream (Model/Parser)
  if lexer.next()? == "trailer" { parse_with_lexer(DICT) … }       trailerOf   (`next` failing = Err: something
     else { xref_stream.info.clone() }                                          must follow the stream object)
  Stream::<XRefInfo>::from_primitive                               xrefInfo    (the derived `FromDict`:
     #[pdf(Type = "XRef")]           required, a name                           `/Type /XRef` required,
     size: u32                       required                                   `/Size` as_u32,
     index: Vec<u32>, default [0, size]                                         `/Index` absent / null → [0, size],
     prev: Option<i32>                                                          `/Prev` an integer if present,
     w: Vec<usize>                   absent → []                                `/W`)
     a value that is a reference, or an array holding one: the resolver is empty while the table is
     being loaded, the error `is_missing_object`, the derive treats the entry as absent             refAbsent
  StreamInfo::from_primitive (Length, Filter, DecodeParms, F, …)   parameter `dec info raw`
     + xref_stream.data(resolve) = decode(read(file_range), filters)            (third party: zlib, …;
                                                                                raw = the bytes of `file_range`)
  index.len() % 2 != 0 → Err;  index.chunks_exact(2)               pairsOf
  parse_xref_section_from_stream … allow_xref_error                Xref.parseSections (Model/XrefStream), `allowErr`

  The buffer is the one the lexer runs on.  `Model/XrefFile.lean` hands the reader the *suffix* of the file
  at the section's offset as a fresh buffer; the Rust lexer is `Lexer::with_offset(read(pos ..), pos)` and
  reads the stream data through the backend at `pos + range`, which are the same bytes as `range` of the
  suffix: the model runs the parser with lexer offset 0 and takes `slice buf lo hi`.
-/

namespace XrefSec
open PdfLex Xref XrefTable

variable {R : Type}

def keyType : List UInt8 := [84, 121, 112, 101]
def keyW : List UInt8 := [87]
def keyIndex : List UInt8 := [73, 110, 100, 101, 120]
def nameXRef : List UInt8 := [88, 82, 101, 102]

/-- does the value mention a reference at the top or as an array element (→ the entry counts as absent) -/
def refAbsent : Prim R → Bool
  | .ref _ _ => true
  | .arr xs => xs.any fun x => match x with
    | .ref _ _ => true
    | _ => false
  | _ => false

/-- an entry as the derived `from_dict` sees it: `none` = absent (missing, `null`, or unresolvable reference) -/
def entry (d : Dict R) (k : List UInt8) : Option (Prim R) :=
  match dictGet d k with
  | some .null => none
  | some v => if refAbsent v then none else some v
  | none => none

def mapOut {α β : Type} (f : α → Out β) : List α → Out (List β)
  | [] => .ok []
  | x :: xs =>
    match f x with
    | .ok y =>
      match mapOut f xs with
      | .ok ys => .ok (y :: ys)
      | .err => .err | .panic => .panic | .oof => .oof
    | .err => .err | .panic => .panic | .oof => .oof

/-- `Vec::<u32>::from_primitive` / `Vec::<usize>::from_primitive` of a present value -/
def vecUnsigned : Prim R → Out (List Nat)
  | .arr xs => mapOut asUnsigned xs
  | v =>
    match asUnsigned v with
    | .ok n => .ok [n]
    | .err => .err | .panic => .panic | .oof => .oof

structure Info where
  size : Nat
  index : List Nat
  w : List Nat
deriving Repr, DecidableEq

/-- `XRefInfo::from_dict` -/
def xrefInfo (d : Dict R) : Out Info :=
  match dictGet d keyType with
  | some (.name n) =>
    if n != nameXRef then .err else
    match entry d keySize with
    | none => .err
    | some sv =>
      match asUnsigned sv with
      | .ok size =>
        let index : Out (List Nat) := match entry d keyIndex with
          | none => .ok [0, size]
          | some v => vecUnsigned v
        match index with
        | .ok index =>
          let prevOk : Bool := match entry d keyPrev with
            | none => true
            | some (.int _) => true
            | some _ => false
          if !prevOk then .err else
          let w : Out (List Nat) := match entry d keyW with
            | none => .ok []
            | some v => vecUnsigned v
          match w with
          | .ok w => .ok ⟨size, index, w⟩
          | .err => .err | .panic => .panic | .oof => .oof
        | .err => .err | .panic => .panic | .oof => .oof
      | .err => .err | .panic => .panic | .oof => .oof
  | _ => .err

/-- `index.chunks_exact(2)` after the parity check -/
def pairsOf : List Nat → Out (List (Nat × Nat))
  | [] => .ok []
  | [_] => .err
  | a :: b :: rest =>
    match pairsOf rest with
    | .ok ps => .ok ((a, b) :: ps)
    | .err => .err | .panic => .panic | .oof => .oof

/-- the trailer of a stream section: the dictionary behind a `trailer` keyword that follows the object, or the
    stream dictionary itself -/
def trailerOf (env : Env R) (buf : Buf) (pfuel pos : Nat) (info : Dict R) : Out (Dict R) :=
  match next buf pos with
  | .ok w =>
    if slice buf w.1 w.2 == kwTrailer then
      match trailerDict env buf pfuel w.2 with
      | .ok (d, _) => .ok d
      | .err => .err | .panic => .panic | .oof => .oof
    else .ok info
  | .err => .err | .panic => .panic | .oof => .oof

/-- `parse_xref_stream_and_trailer` with the lexer at `pos` -/
def parseXrefStreamAndTrailer (env : Env R) (dec : Dict R → List UInt8 → Out (List UInt8)) (allowErr : Bool)
    (buf : Buf) (pfuel pos : Nat) : Out (List Sub × Dict R) :=
  match parseIndirectStream { env with fileOffset := 0 } buf pfuel pos with
  | .ok ((_, .stream info (.inFile _ _ lo hi)), p1) =>
    match trailerOf { env with fileOffset := 0 } buf pfuel p1 info with
    | .ok trailer =>
      match xrefInfo info with
      | .ok xi =>
        match dec info (slice buf lo hi) with
        | .ok data =>
          match pairsOf xi.index with
          | .ok pairs =>
            match parseSections xi.w allowErr pairs data [] with
            | .ok secs => .ok (secs, trailer)
            | .err => .err | .panic => .panic | .oof => .oof
          | .err => .err | .panic => .panic | .oof => .oof
        | .err => .err | .panic => .panic | .oof => .oof
      | .err => .err | .panic => .panic | .oof => .oof
    | .err => .err | .panic => .panic | .oof => .oof
  | .ok _ => .err
  | .err => .err | .panic => .panic | .oof => .oof

/-- the parameter `stm` of `XrefTable.readXrefAndTrailerAt`, concrete -/
def stmC (env : Env R) (dec : Dict R → List UInt8 → Out (List UInt8)) (allowErr : Bool) :
    Buf → Nat → Out (List Sub × Dict R) :=
  fun buf pos => parseXrefStreamAndTrailer env dec allowErr buf (PdfLex.defaultFuel buf) pos

/-- `read_xref_and_trailer_at` on the suffix of the file at a section's offset, both formats -/
def sectionAt (env : Env R) (dec : Dict R → List UInt8 → Out (List UInt8)) (allowErr : Bool)
    (suffix : List UInt8) : Out (List Sub × Dict R) :=
  XrefTable.xrefAt { env with fileOffset := 0 } (stmC env dec allowErr) suffix

/-- `Backend::read_xref_table_and_trailer(start, resolve)`: classic tables, cross-reference streams, `/Prev`
    chains through both; no section-reader parameter -/
def loadTableC {V : Type} (env : Env R) (dec : Dict R → List UInt8 → Out (List UInt8)) (allowErr : Bool)
    (base : Offsets.Parsers V (Dict R)) (fuel : Nat) (buf : List UInt8) (start : Nat) : Out (Table × Dict R) :=
  XrefTable.readXrefTableAndTrailer { env with fileOffset := 0 } (stmC env dec allowErr) base fuel buf start

end XrefSec
