import PdfModel.Model.XrefFile
import PdfModel.Model.XrefStreamRead
import PdfModel.Model.OffsetsConcrete

/-!
  The open path with every token-level parser made concrete: the instance of `Offsets.Parsers` that the
  composition theorems of `Props/C01` are stated for. Nothing new is modelled here — it plugs together

    sections            `XrefTable.fileParsers` (Model/XrefFile): `read_xref_and_trailer_at` = `XrefTable.readXrefAndTrailerAt`
                        with the classic reader of Model/XrefTable and, for the stream format,
                        `XrefTable.parseXrefStreamAndTrailer` (Model/XrefStreamRead) over the row reader of Model/XrefStream;
                        trailer `/Size`, `/Prev`
    objects, members    `Offsets.concreteP` (Model/OffsetsConcrete): `parse_indirect_object`, `parse` of Model/Parser

  What stays a parameter (third-party code or the typed layer): `typed` (`Stream::<XRefInfo>::from_primitive`),
  `sdata` (the data of a cross-reference stream: `Resolve::stream_data` + filters), `dec` (the filter chain of an
  object stream), `S` (the item loop of `Storage::scan`), and inside `env` the real-number reader, the resolver
  behind an indirect `/Length` and string decryption.  `n` is the length of the file: the object parser runs with
  fuel `3 n + 64`, enough for every suffix of the file.
-/

namespace Offsets
open PdfLex

variable {R : Type}

def coreParsers (env : Env R) (typed : Dict R → Out XrefTable.XInfo) (sdata : Dict R → StreamInner → Out (List UInt8))
    (allowErr : Bool) (dec : Dict R → OffLex.Bytes → Out OffLex.Bytes) (S : OffLex.Bytes → List (Out (Obj (Prim R))))
    (n : Nat) : Parsers (Prim R) (Dict R) :=
  XrefTable.fileParsers env
    (fun b p => XrefTable.parseXrefStreamAndTrailer env typed sdata allowErr b (PdfLex.defaultFuel b) p)
    (concreteP env (3 * n + 64) dec (fun _ => .err) S)

end Offsets
