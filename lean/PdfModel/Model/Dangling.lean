import PdfModel.Model.Derive

/-!
# References to objects that do not exist (C18)

The readers themselves are the interpreter of `Model/Derive.lean` (`readShape`, `readField`, `readStructD`,
`lazyLoad`, with `Cfg.peel` distinguishing the pinned commit from the repaired tree). This file adds what
C18 talks about on top of it.

| Rust                                                                                         | here |
|----------------------------------------------------------------------------------------------|------|
| `Storage::resolve_ref`: `XRef::Free` ⇒ `FreeObject`, `XRef::Invalid` ⇒ `NullRef`, `t!(self.refs.get(id))` ⇒ `Try(UnspecifiedXRefEntry)` (xref.rs:72-77, file.rs:242-267) | `DKind`, `rootErr` |
| `?` (bare), `StorageResolver::get` (`Shared`), `t!` (`Try`), `t!(RcRef::from_primitive(..))` (`Try(Shared)`) | `Path`, `Path.wrap` |
| `PdfError::is_missing_object` (repaired) / the two bare match arms (pinned)                     | `Err.isMissing` (Model/Derive.lean) |
| which reader does what with a `Reference` it is handed                                         | `DClass`, `leafClass`, `Shape.dclass` |
-/

namespace Derive

/-- the three ways an object number can fail to name an object -/
inductive DKind where
  | free | gap | beyond
  deriving DecidableEq, Repr

def DKind.all : List DKind := [.free, .gap, .beyond]

/-- what `resolve_ref` answers -/
def rootErr : DKind → Err
  | .free => .freeObject
  | .gap => .nullRef
  | .beyond => .tryE .unspecified

/-- the wrappers an error picks up between `resolve_ref` and the reader that looks at it -/
inductive Path where
  /-- `r.resolve(id)?` -/
  | direct
  /-- through `Resolve::get` (`RcRef`, `MaybeRef`, `Lazy::load`) -/
  | viaGet
  /-- through `t!(..)` (`Content`, `NameTree`, …) -/
  | viaTry
  /-- `t!(RcRef::from_primitive(..))` (`PagesRc`, `PageRc`, `ColorSpace::Icc`) -/
  | viaTryGet
  /-- a value computed inside another typed `get` that is itself wrapped by `t!` -/
  | viaGetTryGet
  deriving DecidableEq, Repr

def Path.all : List Path := [.direct, .viaGet, .viaTry, .viaTryGet, .viaGetTryGet]

def Path.wrap : Path → Err → Err
  | .direct, e => e
  | .viaGet, e => .shared e
  | .viaTry, e => .tryE e
  | .viaTryGet, e => .tryE (.shared e)
  | .viaGetTryGet, e => .shared (.tryE (.shared e))

/-- the decision of `Option<T>::from_primitive` on an error of the inner reader -/
inductive Decision where
  | none
  | error (e : Err)
  deriving DecidableEq, Repr

def optionDecision (cfg : Cfg) (tolerant : Bool) (e : Err) : Decision :=
  if e.isMissing cfg.peel then .none else if tolerant then .none else .error e

/-- an environment in which object number `r` does not exist -/
def Env.without (env : Env) (r : Nat) (k : DKind) : Env :=
  { env with resolve := fun id => if id = r then .error (rootErr k) else env.resolve id }

/-- what a reader does with a `Primitive::Reference` it is handed -/
inductive DClass where
  /-- it resolves the reference (directly, through `get`, under `t!`): a missing object surfaces as a
      missing-object error, possibly wrapped -/
  | resolves
  /-- it keeps the reference without looking at the object (`Ref`, `Lazy`, `Primitive`, `PlainRef`) -/
  | keeps
  /-- not modelled: a hand-written reader whose behaviour is validated on the implementation only -/
  | unmodelled
  deriving DecidableEq, Repr

/-- the hand-written leaf types (read off `object/mod.rs`, `primitive.rs`, `object/types.rs`, `content.rs`,
    `font.rs`, `encoding.rs`, `object/color.rs`, `object/stream.rs`; each line is exercised on the
    implementation by the C18 oracle) -/
def leafClass : String → DClass
  | "i32" | "u32" | "usize" | "f32" | "bool" | "Name" | "PdfString" | "Dictionary" | "Rectangle" | "Matrix"
  | "PagesRc" | "PageRc" | "PagesNode" => .resolves
  | "Primitive" | "()" | "PlainRef" => .keeps
  | _ => .unmodelled

def Shape.dclass (schemas : List Schema) : Shape → DClass
  | .leaf n => leafClass n
  | .leafApp _ _ => .unmodelled
  | .model m =>
    match findSchema m schemas with
    | some S => match S.kind with
      | .struct | .nameEnum | .intEnum => .resolves
      | _ => .unmodelled
    | none => .unmodelled
  | .modelApp m _ =>
    match findSchema m schemas with
    | some _ => .resolves
    | none => .unmodelled
  | .param _ => .unmodelled
  -- `Option<Option<T>>` / `Box<Option<T>>` do not occur; they would need their own analysis
  | .option (.option _) | .option (.box _) | .box (.option _) => .unmodelled
  | .option a => a.dclass schemas
  | .box a => a.dclass schemas
  | .vec _ | .hashMap _ | .pair _ _ | .maybeRef _ | .rcRef _ => .resolves
  | .ref _ | .lazy _ => .keeps

/-- a reference to an object that does not exist in `env` -/
def MissingAt (env : Env) (p : Prim) : Prop :=
  p.isRef = true ∧ ∃ e, resolveP env p = .error e ∧ e.isMissing true = true

/-- reading `p` fails with a (possibly wrapped) missing-object error -/
def ReadsMissing (cfg : Cfg) (sem : Sem) (env : Env) (s : Shape) (p : Prim) : Prop :=
  ∃ e, readShape cfg sem env s p = .error e ∧ e.isMissing true = true

/-- the entry `p` of field `f` is read like no entry at all -/
def AbsentLike (cfg : Cfg) (sem : Sem) (env : Env) (f : Field) (p : Prim) : Prop :=
  ReadsMissing cfg sem env f.shape p ∨
    (f.default = none ∧ ∃ v, readShape cfg sem env f.shape p = .ok v ∧ readShape cfg sem env f.shape .null = .ok v)

/-- the leaf-ish readers of `sem` resolve the reference they are given -/
def Sem.ResolvesMissing (sem : Sem) (env : Env) (schemas : List Schema) (p : Prim) : Prop :=
  ∀ s, s.isContainer = false → s.dclass schemas = .resolves → ∃ e, sem.rd env s p = .error e ∧ e.isMissing true = true

end Derive
