import PdfModel.Core.Out

/-
  The part of `pdf/src/parser/lexer/mod.rs` that the offset-related code (C17) and the object-stream
  header (C11) run on, as functions of the *suffix* `buf[pos ..]` of the lexer's buffer.  Every function
  below only ever looks forward from `pos` (`next_word`, `skip_whitespace`, `boundary`, `advance_pos`,
  `is_whitespace(pos)`, `is_delimiter(pos)` all index `buf` at `≥ pos`), which is why the suffix is a
  faithful argument; positions are recovered as `buf.length - suffix.length`.

  Rust                                               model
  ----                                               -----
  is_whitespace(b)                                   isWs
  b"()<>[]{}/%".contains(b)                          isDelim
  !is_whitespace(pos) && !is_delimiter(pos)          isRegular
  Lexer::skip_whitespace  (Err(EOF) at the end)      skipWs
  the `while buf.get(pos) == Some(&b'%')` loop       skipComments  (a comment without an end of line leaves
                                                                    the cursor right behind the `%`)
  Lexer::next_word / next                            nextWord      (lexeme, suffix behind the lexeme)
  Substr::to::<usize>() / to::<u64>()                parseUsize    (`usize::from_str`: optional `+`,
                                                                    at least one digit, overflow = Err)
  slice.windows(n).position(|w| w == pat)            findFirst pat
  slice.windows(n).rposition(|w| w == pat)           findLast pat
-/

namespace OffLex

abbrev Bytes := List UInt8

/-- `is_whitespace`: NUL, space, CR, LF, TAB, FF (the tree after the D1 repair). -/
def isWs (b : UInt8) : Bool := b == 0 || b == 32 || b == 13 || b == 10 || b == 9 || b == 12

/-- `b"()<>[]{}/%".contains(b)` -/
def isDelim (b : UInt8) : Bool :=
  b == 40 || b == 41 || b == 60 || b == 62 || b == 91 || b == 93 || b == 123 || b == 125 || b == 47 || b == 37

def isRegular (b : UInt8) : Bool := !isWs b && !isDelim b

def isDigit (b : UInt8) : Bool := 48 ≤ b && b ≤ 57

/-- `skip_whitespace`: position of the first non-white-space byte, `Err(EOF)` if there is none. -/
def skipWs (r : Bytes) : Out Bytes :=
  match r.dropWhile isWs with
  | [] => .err
  | b :: r' => .ok (b :: r')

/-- `if let Some(off) = buf[pos..].iter().position(|&b| b == b'\n' || b == b'\r') { pos += off + 1 }`
    (the tree after the D3 repair: a comment ends at CR or LF) -/
def afterNl (tl : Bytes) : Bytes :=
  match tl.dropWhile (fun b => b != 10 && b != 13) with
  | [] => tl
  | _ :: rest => rest

/-- the comment loop of `next_word`; the argument starts with a non-white-space byte. Every round
    consumes the `%`, so `fuel = length` rounds suffice (`skipComments_ne_oof`). -/
def skipCommentsF : Nat → Bytes → Out Bytes
  | _, [] => .ok []
  | 0, b :: tl => if b = 37 then .oof else .ok (b :: tl)
  | fuel + 1, b :: tl =>
    if b = 37 then
      match (afterNl tl).dropWhile isWs with
      | [] => .err
      | c :: r' => skipCommentsF fuel (c :: r')
    else .ok (b :: tl)

def skipComments (r : Bytes) : Out Bytes := skipCommentsF r.length r

/-- `Lexer::next_word` on the suffix at the cursor: the lexeme and the suffix behind it. -/
def nextWord (r : Bytes) : Out (Bytes × Bytes) :=
  match r with
  | [] => .err
  | _ :: _ =>
    match skipWs r with
    | .ok r1 =>
      match skipComments r1 with
      | .ok [] => .err
      | .ok (b :: tl) =>
        if isDelim b then
          if b = 47 then .ok (b :: tl.takeWhile isRegular, tl.dropWhile isRegular)
          else
            match tl with
            | c :: tl2 =>
              if (b = 60 ∧ c = 60) ∨ (b = 62 ∧ c = 62) then .ok ([b, c], tl2) else .ok ([b], tl)
            | [] => .ok ([b], [])
        else .ok ((b :: tl).takeWhile isRegular, (b :: tl).dropWhile isRegular)
      | .err => .err | .panic => .panic | .oof => .oof
    | .err => .err | .panic => .panic | .oof => .oof

/-- value of a run of ASCII digits, `none` on any other byte -/
def digitsVal : Bytes → Nat → Option Nat
  | [], acc => some acc
  | b :: bs, acc => if isDigit b then digitsVal bs (acc * 10 + (b.toNat - 48)) else none

def usizeMax : Nat := 18446744073709551615

/-- `str::parse::<usize>()` (also `u64`): optional `+`, one or more digits, overflow is an error. -/
def parseUsize (w : Bytes) : Out Nat :=
  let ds := if w.head? = some 43 then w.tail else w
  match ds with
  | [] => .err
  | _ :: _ =>
    match digitsVal ds 0 with
    | some n => if n ≤ usizeMax then .ok n else .err
    | none => .err

/-- `windows(pat.len()).position(|w| w == pat)` for a non-empty pattern -/
def findFirst (pat : Bytes) : Bytes → Option Nat
  | [] => none
  | b :: bs => if pat.isPrefixOf (b :: bs) then some 0 else (findFirst pat bs).map (· + 1)

/-- `windows(pat.len()).rposition(|w| w == pat)` for a non-empty pattern -/
def findLast (pat : Bytes) : Bytes → Option Nat
  | [] => none
  | b :: bs =>
    match findLast pat bs with
    | some i => some (i + 1)
    | none => if pat.isPrefixOf (b :: bs) then some 0 else none

end OffLex
