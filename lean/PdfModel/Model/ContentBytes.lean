import PdfModel.Model.Content
import PdfModel.Model.Serialize

/-!
# Byte-level model of `pdf/src/content.rs` (property C08, lexical composition)

`Model/Content.lean` is the *token*-level model (operands are values, everything else a keyword).  This file
is the *byte* level around it: what `serialize_ops` writes, byte for byte, and the loop of `OpBuilder::parse`
on bytes.  The lexer, the object parser and the object writer are the shared models of the C03/C04 package
(`Model/Lexer`, `Model/Parser`, `Model/Serialize`), imported read-only.

Rust item                                                     model definition
------------------------------------------------------------  --------------------------------------------
`Primitive` ↔ the operand type of `Model/Content`             `toLex` / `ofLex` (names: `String` ↔ UTF-8 bytes)
one loop iteration of `serialize_ops`: *what* is written      `serItems` (operands in order + keyword, look-ahead,
                                                              `advance`, `current_point` / `subpath_start`)
`struct Real(f32)` + `Display`                                `realB` (`fmt` = `Display for f32`, third party)
`serialize_name`, `PdfString::serialize`,                     `PdfLex.serializeName`, `serializeString`,
  `Primitive::serialize`                                        `serialize` (shared)
`[{}]` with `.format(" ")`, the `TJ` array                    `numsB`, `tdaB`
`write!(f, "{} ", x)` … `writeln!(f, "kw")`                   `stmtB`: every operand text followed by one space, the
                                                              keyword, a line feed
`serialize_ops`                                               `serializeBytes`
`OpBuilder::parse` (the loop on bytes)                        `bytesStep`, `bytesLoop`, `parseBytes`
`OpBuilder::add`                                              `Content.add` (through `Content.step`)
`Content::operations`: parts joined, LF after each part       `joinParts`

Parameters (`Oracle`), because the shared parser model's `err` carries no error kind and `inline_image` is
below / beside this level:
  `isEof buf pos`        the error that `parse_with_lexer` returned at `pos` is an EOF error (`e.is_eof()`)
  `inlineImage buf pos`  `inline_image` started after the keyword `BI`: the image (or failure) and where the
                         lexer stands afterwards
The theorems say which facts about the oracle they use (`EofFacts`).
-/

namespace ContentBytes
open Content
open PdfLex (Buf Env)

set_option linter.unusedVariables false

/-- the UTF-8 bytes of a name / keyword -/
def strBytes (s : String) : List UInt8 := s.toUTF8.data.toList

def bytesStr (bs : List UInt8) : Option String := String.fromUTF8? (ByteArray.mk bs.toArray)

mutual
/-- an operand of `Model/Content` as a value of the shared object model -/
def toLex {R : Type} : Content.Prim R → PdfLex.Prim R
  | .null => .null
  | .bool b => .bool b
  | .int i => .int i
  | .real r => .real r
  | .str bs => .str bs
  | .name s => .name (strBytes s)
  | .ref a b => .ref a b
  | .arr xs => .arr (toLexL xs)
  | .dict ks vs => .dict (toLexE ks vs)
def toLexL {R : Type} : List (Content.Prim R) → List (PdfLex.Prim R)
  | [] => []
  | x :: xs => toLex x :: toLexL xs
def toLexE {R : Type} : List String → List (Content.Prim R) → List (List UInt8 × PdfLex.Prim R)
  | k :: ks, v :: vs => (strBytes k, toLex v) :: toLexE ks vs
  | _, _ => []
end

mutual
/-- a value read by `parse_with_lexer` as an operand (`none`: a stream, which cannot be read without a
    context, or a name that is not UTF-8, which `decode_name` rejects) -/
def ofLex {R : Type} : PdfLex.Prim R → Option (Content.Prim R)
  | .null => some .null
  | .bool b => some (.bool b)
  | .int i => some (.int i)
  | .real r => some (.real r)
  | .str bs => some (.str bs)
  | .name bs => match bytesStr bs with
    | some s => some (.name s)
    | none => none
  | .ref a b => some (.ref a b)
  | .arr xs => match ofLexL xs with
    | some ys => some (.arr ys)
    | none => none
  | .dict kvs => match ofLexE kvs with
    | some (ks, vs) => some (.dict ks vs)
    | none => none
  | .stream _ _ => none
def ofLexL {R : Type} : List (PdfLex.Prim R) → Option (List (Content.Prim R))
  | [] => some []
  | x :: xs => match ofLex x, ofLexL xs with
    | some y, some ys => some (y :: ys)
    | _, _ => none
def ofLexE {R : Type} : List (List UInt8 × PdfLex.Prim R) → Option (List String × List (Content.Prim R))
  | [] => some ([], [])
  | (k, v) :: rest => match bytesStr k, ofLex v, ofLexE rest with
    | some s, some y, some (ks, vs) => some (s :: ks, y :: vs)
    | _, _, _ => none
end

-- ---------------------------------------------------------------------------------------------------
-- writing

/-- what `serialize_ops` writes for one operand (or keyword), before it is turned into bytes -/
inductive Item (R : Type) where
  /-- an `f32` through `struct Real` -/
  | num (r : R)
  /-- a `u8` discriminant through `{}` -/
  | nat (n : Nat)
  | name (s : String)
  | str (bs : List UInt8)
  /-- `Primitive::serialize` -/
  | prim (p : Content.Prim R)
  /-- `[{}]` of `Real`s joined by one space -/
  | nums (xs : List R)
  /-- the array of `TJ` -/
  | tda (xs : List (TDA R))

/-- one iteration of the loop of `serialize_ops`: the operands in the order written, the keyword,
    `advance - 1`, the new `(current_point, subpath_start)`; `none`: `Op::InlineImage` -/
structure SerItems (R : Type) where
  operands : List (Item R)
  kw : String
  extra : Nat
  st : SState R

def ptItems {R : Type} (p : Pt R) : List (Item R) := [.num p.x, .num p.y]

def matrixItems {R : Type} (m : Matrix R) : List (Item R) :=
  [.num m.a, .num m.b, .num m.c, .num m.d, .num m.e, .num m.f]

def colorItems {R : Type} (stroke : Bool) : Color R → List (Item R) × String
  | .gray g => ([.num g], if stroke then "G" else "g")
  | .rgb r g b => ([.num r, .num g, .num b], if stroke then "RG" else "rg")
  | .cmyk c m y k => ([.num c, .num m, .num y, .num k], if stroke then "K" else "k")
  | .other args => (args.map .prim, if stroke then "SCN" else "scn")

def serItems {R : Type} (ro : RealOps R) (s : SState R) (op : Op R) (rest : List (Op R)) : Option (SerItems R) :=
  let plain (os : List (Item R)) (kw : String) : Option (SerItems R) := some ⟨os, kw, 0, s⟩
  match op with
  | .beginMarkedContent tag (some p) => plain [.name tag, .prim p] "BDC"
  | .beginMarkedContent tag none => plain [.name tag] "BMC"
  | .markedContentPoint tag (some p) => plain [.name tag, .prim p] "DP"
  | .markedContentPoint tag none => plain [.name tag] "MP"
  | .endMarkedContent => plain [] "EMC"
  | .close =>
    let s' : SState R := ⟨s.start, s.start⟩
    match rest with
    | .stroke :: _ => some ⟨[], "s", 1, s'⟩
    | .fillAndStroke .nonZero :: _ => some ⟨[], "b", 1, s'⟩
    | .fillAndStroke .evenOdd :: _ => some ⟨[], "b*", 1, s'⟩
    | _ => some ⟨[], "h", 0, s'⟩
  | .moveTo p => some ⟨ptItems p, "m", 0, ⟨some p, some p⟩⟩
  | .lineTo p => some ⟨ptItems p, "l", 0, ⟨some p, s.start⟩⟩
  | .curveTo c1 c2 p =>
    let s' : SState R := ⟨some p, s.start⟩
    if isCurrent ro c1 s.cur then some ⟨ptItems c2 ++ ptItems p, "v", 0, s'⟩
    else if ptBeq ro c2 p then some ⟨ptItems c1 ++ ptItems p, "y", 0, s'⟩
    else some ⟨ptItems c1 ++ ptItems c2 ++ ptItems p, "c", 0, s'⟩
  | .rect x y w h => some ⟨[.num x, .num y, .num w, .num h], "re", 0, ⟨some ⟨x, y⟩, some ⟨x, y⟩⟩⟩
  | .endPath => plain [] "n"
  | .stroke => plain [] "S"
  | .fillAndStroke .nonZero => plain [] "B"
  | .fillAndStroke .evenOdd => plain [] "B*"
  | .fill .nonZero => plain [] "f"
  | .fill .evenOdd => plain [] "f*"
  | .shade name => plain [.name name] "sh"
  | .clip .nonZero => plain [] "W"
  | .clip .evenOdd => plain [] "W*"
  | .save => plain [] "q"
  | .restore => plain [] "Q"
  | .transform m => plain (matrixItems m) "cm"
  | .lineWidth w => plain [.num w] "w"
  | .dash pattern phase => plain [.nums pattern, .num phase] "d"
  | .lineJoin j => plain [.nat j.val] "j"
  | .lineCap c => plain [.nat c.val] "J"
  | .miterLimit l => plain [.num l] "M"
  | .flatness t => plain [.num t] "i"
  | .graphicsState name => plain [.name name] "gs"
  | .strokeColor c => plain (colorItems true c).1 (colorItems true c).2
  | .fillColor c => plain (colorItems false c).1 (colorItems false c).2
  | .fillColorSpace name => plain [.name name] "cs"
  | .strokeColorSpace name => plain [.name name] "CS"
  | .renderingIntent i => plain [.name (intentName i)] "ri"
  | .beginText => plain [] "BT"
  | .endText => plain [] "ET"
  | .charSpacing v => plain [.num v] "Tc"
  | .wordSpacing ws =>
    match rest with
    | .charSpacing cs :: .textNewline :: .textDraw text :: _ => some ⟨[.num ws, .num cs, .str text], "\"", 3, s⟩
    | _ => plain [.num ws] "Tw"
  | .textScaling v => plain [.num v] "Tz"
  | .leading l =>
    match rest with
    | .moveTextPosition t :: _ =>
      if ro.beq l (ro.neg t.y) then some ⟨ptItems t, "TD", 1, s⟩
      else plain [.num l] "TL"
    | _ => plain [.num l] "TL"
  | .textFont name size => plain [.name name, .num size] "Tf"
  | .textRenderMode m => plain [.nat m.val] "Tr"
  | .textRise v => plain [.num v] "Ts"
  | .moveTextPosition t => plain (ptItems t) "Td"
  | .setTextMatrix m => plain (matrixItems m) "Tm"
  | .textNewline =>
    match rest with
    | .textDraw text :: _ => some ⟨[.str text], "'", 1, s⟩
    | _ => plain [] "T*"
  | .textDraw text => plain [.str text] "Tj"
  | .textDrawAdjusted arr => plain [.tda arr] "TJ"
  | .inlineImage _ => none
  | .xObject name => plain [.name name] "Do"

/-- `Display for Real`: the text of the `f32`, and a `.` when it is integral with magnitude ≥ 2^31 -/
def realB {R : Type} (ro : RealOps R) (fmt : R → List UInt8) (r : R) : List UInt8 :=
  if ro.big r then fmt r ++ [46] else fmt r

/-- texts joined by one space -/
def joinSp : List (List UInt8) → List UInt8
  | [] => []
  | [t] => t
  | t :: ts => t ++ 32 :: joinSp ts

def tdaText {R : Type} (ro : RealOps R) (fmt : R → List UInt8) : TDA R → List UInt8
  | .text bs => PdfLex.serializeString bs
  | .spacing s => realB ro fmt s

/-- the bytes written for one operand -/
def itemB {R : Type} (ro : RealOps R) (fmt : R → List UInt8) : Item R → Out (List UInt8)
  | .num r => .ok (realB ro fmt r)
  | .nat n => .ok (PdfLex.fmtNat n)
  | .name s => .ok (PdfLex.serializeName (strBytes s))
  | .str bs => .ok (PdfLex.serializeString bs)
  | .prim p => PdfLex.serialize fmt (toLex p)
  | .nums xs => .ok (91 :: joinSp (xs.map (realB ro fmt)) ++ [93])
  | .tda xs => .ok (91 :: joinSp (xs.map (tdaText ro fmt)) ++ [93])

/-- every operand text followed by one space -/
def operandsB {R : Type} (ro : RealOps R) (fmt : R → List UInt8) : List (Item R) → Out (List UInt8)
  | [] => .ok []
  | it :: its =>
    match itemB ro fmt it, operandsB ro fmt its with
    | .ok t, .ok r => .ok (t ++ 32 :: r)
    | .ok _, o => o
    | .err, _ => .err
    | .panic, _ => .panic
    | .oof, _ => .oof

/-- one statement: operands, keyword, line feed -/
def stmtB {R : Type} (ro : RealOps R) (fmt : R → List UInt8) (x : SerItems R) : Out (List UInt8) :=
  match operandsB ro fmt x.operands with
  | .ok t => .ok (t ++ strBytes x.kw ++ [10])
  | o => o

def serBytesLoop {R : Type} (ro : RealOps R) (fmt : R → List UInt8) : Nat → SState R → List (Op R) → Out (List UInt8)
  | _, _, [] => .ok []
  | 0, _, _ :: _ => .oof
  | fuel + 1, s, op :: rest =>
    match serItems ro s op rest with
    | none => .err
    | some x =>
      match stmtB ro fmt x with
      | .ok t =>
        match serBytesLoop ro fmt fuel x.st (rest.drop x.extra) with
        | .ok more => .ok (t ++ more)
        | o => o
      | o => o

/-- `content::serialize_ops`: the bytes -/
def serializeBytes {R : Type} (ro : RealOps R) (fmt : R → List UInt8) (ops : List (Op R)) : Out (List UInt8) :=
  serBytesLoop ro fmt ops.length ⟨none, none⟩ ops

-- ---------------------------------------------------------------------------------------------------
-- reading

structure Oracle where
  isEof : Buf → Nat → Bool
  inlineImage : Buf → Nat → Out (Option Nat × Nat)

/-- `BI` -/
def kwBI : List UInt8 := [66, 73]

/-- The oracle that the model driver runs with.  `isEof`: the error is an EOF error when no lexeme is left
    (`Lexer::next` fails with `EOF` only), when the failing operand starts a literal string (its lexer fails only by
    running off the end), or a hexadecimal string that is never closed; other run-offs (unterminated arrays /
    dictionaries, a name that ends in a truncated `#` escape) are not recognised: such inputs are outside the domain of
    the property and the streams that contain them are drift-only.  `inlineImage`: the value it is given. -/
def lexOracle (img : Buf → Nat → Out (Option Nat × Nat)) : Oracle :=
  { isEof := fun buf pos => match PdfLex.next buf pos with
      | .err => true
      | .ok w =>
        let t := PdfLex.slice buf w.1 w.2
        if t == [40] then true
        else if t == [60] then !((buf.extract w.2 buf.size).toList.contains 62)
        else false
      | _ => false
    inlineImage := img }

/-- One round of the loop of `OpBuilder::parse` at lexer position `pos`: `none` — `break` (EOF error);
    `some (c, p)` — the builder afterwards and the lexer position. -/
def bytesStep {R : Type} (ro : RealOps R) (env : Env R) (o : Oracle) (allow : Bool) (buf : Buf) (c : PCfg R)
    (pos : Nat) : Out (Option (PCfg R × Nat)) :=
  match PdfLex.parseWithLexer env buf (PdfLex.defaultFuel buf) pos PdfLex.Flags.any with
  | .ok (v, p) =>
    -- an operand: `buffer.push(obj)`
    match ofLex v with
    | some q => .ok (some (⟨c.st, c.buf ++ [q]⟩, p))
    | none => .err
  | .err =>
    if o.isEof buf pos then .ok none else
    -- `lexer.set_pos(backup_pos); let op = t!(lexer.next()); let operator = t!(op.as_str(), op);`
    (PdfLex.setPos buf pos pos).bind fun p0 =>
    (PdfLex.next buf p0).bind fun w =>
    let word := PdfLex.slice buf w.1 w.2
    match bytesStr word with
    | none => .err
    | some s =>
      if word == kwBI then
        -- `"BI" => push(Op::InlineImage { image: inline_image(lexer, resolve)? })`
        (o.inlineImage buf w.2).bind fun (img, p) =>
        match Content.step ro allow c (.bi img) with
        | .ok c' => .ok (some (c', p))
        | .err => .err
        | .panic => .panic
        | .oof => .oof
      else
        match Content.step ro allow c (.kw s) with
        | .ok c' => .ok (some (c', w.2))
        | .err => .err
        | .panic => .panic
        | .oof => .oof
  | .panic => .panic
  | .oof => .oof

/-- the loop of `OpBuilder::parse` (`fuel`: rounds; every round moves the lexer forward) -/
def bytesLoop {R : Type} (ro : RealOps R) (env : Env R) (o : Oracle) (allow : Bool) (buf : Buf) :
    Nat → PCfg R → Nat → Out (PCfg R)
  | 0, _, _ => .oof
  | fuel + 1, c, pos =>
    match bytesStep ro env o allow buf c pos with
    | .ok none => .ok c
    | .ok (some (c', p)) =>
      -- `match lexer.get_pos().cmp(&data.len())`
      if p > buf.size then .err
      else if p < buf.size then bytesLoop ro env o allow buf fuel c' p
      else .ok c'
    | .err => .err
    | .panic => .panic
    | .oof => .oof

/-- `content::parse_ops(data, resolve)` -/
def parseBytes {R : Type} (ro : RealOps R) (env : Env R) (o : Oracle) (allow : Bool) (data : List UInt8) :
    Out (List (Op R)) :=
  let buf : Buf := data.toArray
  match bytesLoop ro env o allow buf (buf.size + 1) ⟨initState ro, []⟩ 0 with
  | .ok c => .ok c.st.ops
  | .err => .err
  | .panic => .panic
  | .oof => .oof

/-- `Content::operations`: the data of the parts, a line feed after each -/
def joinParts : List (List UInt8) → List UInt8
  | [] => []
  | p :: ps => p ++ 10 :: joinParts ps

end ContentBytes
