import PdfModel.Model.Parser

/-!
  Cursor-level model of the content-stream reader, `pdf/src/content.rs` (C01: progress and position arithmetic;
  what the operators *mean* is `Model/Content.lean`, C08).

  Rust item                                   model definition
  ------------------------------------------  ------------------------------------------------------
  OpBuilder::parse (the `loop`)               `contentLoop`
  inline_image: the key / value loop          `inlineDictLoop`
  inline_image: `ID`, `data_start`,           `inlineImage`
    `seek_substr("\nEI")`, `data_end`,
    `new_substr(data_start .. data_end)`
  OpBuilder::add, as far as the lexer goes    `addOp` (`BI` runs `inlineImage`; no other operator touches the lexer)

  What is a *parameter* here (`Oracle`), because the parser model's `err` does not carry the error kind and the
  typed operand conversions are another model's subject:
    `isEof b pos`   `e.is_eof()` of the error that `parse_with_lexer` returned at cursor `pos`
    `opOk a b`      `OpBuilder::add` returned `Ok` for the operator lexeme `buf[a .. b]` (operand conversions)
    `imgOk p`       the typed entries of an inline image dictionary (`/W`, `/H`, `/CS`, filters …) converted
  The totality theorems (`Lemmas/TotalContent`) hold for EVERY oracle.

  The loop ends with `Ok` at the end of the data or at an `EOF` error, with `Err` when an operator fails
  (unless `allow_invalid_ops`), and would end with `Err(ContentReadPastBoundary)` if the cursor ever lay beyond
  the data — which `content_never_past_boundary` shows it never does.  `fuel` counts loop rounds;
  `buf.size + 1` always suffice because every round moves the cursor forward.
-/

namespace PdfLex

structure Oracle where
  /-- `inImage`: the call is the one inside `inline_image` (it runs with `NoResolve`) -/
  isEof : (inImage : Bool) → Nat → Bool
  opOk : Nat → Nat → Bool
  imgOk : Nat → Bool

/-- `ID` -/
def kwID : List UInt8 := [73, 68]
/-- `BI` -/
def kwBI : List UInt8 := [66, 73]
/-- `\nEI` -/
def kwLfEI : List UInt8 := [10, 69, 73]

/-- the parameters `parse_with_lexer(lexer, &NoResolve, ANY)` runs with inside `inline_image` -/
def noResolveEnv {R : Type} (env : Env R) : Env R :=
  { env with resolveLen := fun _ _ => .err, allowMissingEndobj := false }

/-- the key / value loop of `inline_image`: `(true, p)` — the loop was left by `break` with the lexer at `p`;
    `(false, p)` — the function returned `Err` with the lexer at `p` -/
def inlineDictLoop {R : Type} (env : Env R) (buf : Buf) (o : Oracle) : Nat → Nat → Out (Bool × Nat)
  | 0, _ => .oof
  | fuel + 1, pos =>
    match parseWithLexer (noResolveEnv env) buf (defaultFuel buf) pos Flags.any with
    | .ok (.name _, p) =>
      -- the value: `parse_with_lexer(lexer, &NoResolve, ANY)?`
      match parseWithLexer (noResolveEnv env) buf (defaultFuel buf) p Flags.any with
      | .ok (_, p2) => inlineDictLoop env buf o fuel p2
      | .err => .ok (false, p)
      | .panic => .panic
      | .oof => .oof
    | .ok (_, p) => .ok (false, p)               -- bail!("invalid key type")
    | .err =>
      if o.isEof true pos then .ok (false, pos)  -- `Err(e) if e.is_eof() => return Err(e)`
      else (setPos buf pos pos).bind fun p => .ok (true, p)   -- `lexer.set_pos(backup_pos); break`
    | .panic => .panic
    | .oof => .oof

/-- `inline_image(lexer, resolve)`: `((ok?, lexer position), data range)`; the data range only when `Ok` -/
def inlineImage {R : Type} (env : Env R) (buf : Buf) (o : Oracle) (pos : Nat) : Out ((Bool × Nat) × Option (Nat × Nat)) :=
  (inlineDictLoop env buf o (buf.size + 1) pos).bind fun (cont, p) =>
  if !cont then .ok ((false, p), none) else
  -- `lexer.next_expect("ID")?`
  match next buf p with
  | .err => .ok ((false, p), none)
  | .panic => .panic
  | .oof => .oof
  | .ok w =>
    if slice buf w.1 w.2 != kwID then .ok ((false, w.2), none) else
    -- `let data_start = lexer.get_pos() + 1;`
    if w.2 + 1 > usizeMax then .panic else
    let dataStart := w.2 + 1
    (seekSubstr buf w.2 kwLfEI).bind fun (found, q) =>
    match found with
    | none => .ok ((false, q), none)            -- bail!("inline image exceeds expected data range")
    | some _ =>
      -- `let data_end = lexer.get_pos() - 3;`
      if q < 3 then .panic else
      let dataEnd := q - 3
      if !o.imgOk q then .ok ((false, q), none) else
      (newSubstr buf dataStart dataEnd).bind fun s => .ok ((true, q), some s)

/-- `OpBuilder::add(op, …, lexer, resolve)` as far as the lexer is concerned: `(Ok?, lexer position)` -/
def addOp {R : Type} (env : Env R) (buf : Buf) (o : Oracle) (w : Nat × Nat) : Out (Bool × Nat) :=
  if slice buf w.1 w.2 == kwBI then
    (inlineImage env buf o w.2).bind fun r => .ok r.1
  else .ok (o.opOk w.1 w.2, w.2)

/-- one round of the loop of `OpBuilder::parse`: `some p` — go on at `p`; `none` — `break` -/
def contentStep {R : Type} (env : Env R) (buf : Buf) (o : Oracle) (allowInvalidOps : Bool) (pos : Nat) :
    Out (Option Nat) :=
  match parseWithLexer env buf (defaultFuel buf) pos Flags.any with
  | .ok (_, p) => .ok (some p)                  -- an operand
  | .err =>
    if o.isEof false pos then .ok none else
    -- not an operand: `lexer.set_pos(backup_pos); let op = t!(lexer.next()); let operator = t!(op.as_str(), op);`
    (setPos buf pos pos).bind fun p0 =>
    (next buf p0).bind fun w =>
    if !utf8Valid (slice buf w.1 w.2) then .err else
    (addOp env buf o w).bind fun (ok, p) =>
    if ok || allowInvalidOps then .ok (some p) else .err
  | .panic => .panic
  | .oof => .oof

/-- `OpBuilder::parse(data, resolve)`: the position where the loop ended with `Ok(())` -/
def contentLoop {R : Type} (env : Env R) (buf : Buf) (o : Oracle) (allowInvalidOps : Bool) : Nat → Nat → Out Nat
  | 0, _ => .oof
  | fuel + 1, pos =>
    (contentStep env buf o allowInvalidOps pos).bind fun
      | none => .ok pos
      | some p =>
        -- `match lexer.get_pos().cmp(&data.len())`
        if p > buf.size then .err                -- `ContentReadPastBoundary`
        else if p < buf.size then contentLoop env buf o allowInvalidOps fuel p
        else .ok p

/-- `parse_ops(data, resolve)` -/
def parseOps {R : Type} (env : Env R) (buf : Buf) (o : Oracle) (allowInvalidOps : Bool) : Out Nat :=
  contentLoop env buf o allowInvalidOps (buf.size + 1) 0

end PdfLex
