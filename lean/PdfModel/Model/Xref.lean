import PdfModel.Core.Out

/-
  Model of pdf/src/xref.rs: `XRef`, `XRefTable::{new, get, add_entries_from}` and of the way
  `Backend::read_xref_table_and_trailer` (pdf/src/backend.rs) folds the sections of a file into one
  table: the newest section first, then every `/Prev` section in turn.

  Rust                                         model
  ----                                         -----
  XRef::{Free,Raw,Stream,Promised,Invalid}     XRef.{free,raw,stream,promised,invalid}
  XRef::get_gen_nr  (panics on Promised/Invalid)   XRef.genNr : Out Nat
  XRefTable::new(n)                            newTable n
  XRefSection { first_id, entries }            Sub  (first, entries)
  XRefTable::add_entries_from(section)         addSub
  for section in xref_sections { add.. }       addSubs
  the /Prev loop                               mergeAll (list of sections, newest first)
  XRefTable::get(id)                           getEntry
-/

namespace Xref

inductive XRef where
  | free (next gen : Nat)
  | raw (pos gen : Nat)
  | stream (sid idx : Nat)
  | promised
  | invalid
deriving Repr, DecidableEq, Inhabited

/-- `XRef::get_gen_nr`: `_ => panic!()` for `Promised` and `Invalid`. -/
def XRef.genNr : XRef → Out Nat
  | .free _ g => .ok g
  | .raw _ g => .ok g
  | .stream _ _ => .ok 0
  | _ => .panic

abbrev Table := List XRef

/-- `XRefTable::new(num_objects)`: `num_objects` invalid slots plus one trailing free entry. -/
def newTable (n : Nat) : Table := List.replicate n .invalid ++ [.free 0 65535]

/-- The decision of `add_entries_from` for one destination slot:
    `Raw | Free` → replaced iff the incoming generation is strictly larger,
    `Stream` → never replaced (a compressed entry that is already in place came from a newer section),
    `Invalid` → replaced, anything else (`Promised`) → `bail!`. -/
def shouldUpdate (dst inc : XRef) : Out Bool :=
  match dst with
  | .raw _ g | .free _ g =>
    match inc.genNr with
    | .ok g' => .ok (decide (g' > g))
    | .err => .err | .panic => .panic | .oof => .oof
  | .stream _ _ => .ok false
  | .invalid => .ok true
  | .promised => .err

/-- one iteration of the loop in `add_entries_from`: `entries.get_mut(i)`; out of range is skipped. -/
def addEntry (t : Table) (i : Nat) (inc : XRef) : Out Table :=
  match t[i]? with
  | none => .ok t
  | some dst =>
    match shouldUpdate dst inc with
    | .ok true => .ok (t.set i inc)
    | .ok false => .ok t
    | .err => .err | .panic => .panic | .oof => .oof

/-- A subsection as found in a file: first object number and the entries that follow. -/
structure Sub where
  first : Nat
  entries : List XRef
deriving Repr, DecidableEq

def addFrom (t : Table) (i : Nat) : List XRef → Out Table
  | [] => .ok t
  | e :: es =>
    match addEntry t i e with
    | .ok t' => addFrom t' (i + 1) es
    | .err => .err | .panic => .panic | .oof => .oof

/-- `XRefTable::add_entries_from`. -/
def addSub (t : Table) (s : Sub) : Out Table := addFrom t s.first s.entries

/-- `for section in xref_sections { refs.add_entries_from(section)?; }` -/
def addSubs (t : Table) : List Sub → Out Table
  | [] => .ok t
  | s :: ss =>
    match addSub t s with
    | .ok t' => addSubs t' ss
    | .err => .err | .panic => .panic | .oof => .oof

/-- A section of the file = the list of its subsections. The whole file, newest section first. -/
def mergeAll (t : Table) : List (List Sub) → Out Table
  | [] => .ok t
  | sec :: secs =>
    match addSubs t sec with
    | .ok t' => mergeAll t' secs
    | .err => .err | .panic => .panic | .oof => .oof

/-- `XRefTable::get`: `Err(UnspecifiedXRefEntry)` beyond the table. -/
def getEntry (t : Table) (id : Nat) : Out XRef :=
  match t[id]? with
  | some e => .ok e
  | none => .err

/-- What `Storage::resolve_ref` does with the entry (file.rs): where the object is looked for, or which
    error is reported. -/
inductive Lookup where
  | direct (pos : Nat)
  | compressed (sid idx : Nat)
  | freeObject
  | nullRef
  | unspecified
  | unimplemented
deriving Repr, DecidableEq

def lookup (t : Table) (id : Nat) : Lookup :=
  match t[id]? with
  | none => .unspecified
  | some (.raw pos _) => .direct pos
  | some (.stream sid idx) => .compressed sid idx
  | some (.free _ _) => .freeObject
  | some .invalid => .nullRef
  | some .promised => .unimplemented

end Xref
