import PdfModel.Core.Out
import PdfModel.Model.Parser
import PdfModel.Model.Handwritten

/-!
  `Date::from_primitive` at the level of the bytes of the string (pdf/src/primitive.rs) — C01.

  `Model/Handwritten.lean` (C15) has the date as lists of digit values, which is what the round trip needs. Totality
  on ARBITRARY bytes is a statement about the `str` operations the reader performs; three of them panic when an index
  is not on a character boundary (`&s[p..p+1]`, `&s[..p]`, `&s[p+1..]`), the others answer `None`:

  Rust                                                      here
  -------------------------------------------------------  --------------------------------------
  `str::from_utf8(&data)?`                                  `PdfLex.utf8Valid` (Model/Parser.lean), else `.err`
  `s.is_char_boundary(i)`                                   `isBoundary`
  `s.get(a..b)` (`None` off a boundary / out of range)      `strGet`
  `&s[a..b]` (the same test, `panic!` instead of `None`)    `strIndex`
  `s.starts_with("D:")`                                     `startsD`
  `s.find(['+', '-', 'Z'])`                                 `findSign` (the three are ASCII: byte search = char search)
  `str::parse::<u16>` / `<u8>` (`from_str_radix(_, 10)`:
     empty, a lone sign, `-`, a non-digit, overflow → Err;
     one leading `+` is accepted)                           `parseUnsigned max`
  `parse_or(buffer, range, default)`                        `parseOr`
  `_ => unreachable!()` of the sign match                   `.panic`
  `Date::from_primitive` after `p.resolve(r)?` on a string  `readDate`
-/

namespace DateRead
open PdfLex (utf8Valid isCont)

abbrev Bytes := List UInt8

/-- `str::is_char_boundary` -/
def isBoundary (s : Bytes) (i : Nat) : Bool :=
  i == 0 || i == s.length ||
    (match s[i]? with
     | some b => !(isCont b)
     | none => false)

/-- `s.get(a..b)` -/
def strGet (s : Bytes) (a b : Nat) : Option Bytes :=
  if a ≤ b && isBoundary s a && isBoundary s b then some ((s.drop a).take (b - a)) else none

/-- `&s[a..b]` -/
def strIndex (s : Bytes) (a b : Nat) : Out Bytes :=
  match strGet s a b with
  | some t => .ok t
  | none => .panic

def startsD (s : Bytes) : Bool := s.take 2 == [68, 58]

def isSign (b : UInt8) : Bool := b == 43 || b == 45 || b == 90

/-- position of the first `+`, `-` or `Z` -/
def findSign : Bytes → Option Nat
  | [] => none
  | b :: r => if isSign b then some 0 else (findSign r).map (· + 1)

/-- the digit loop of `from_str_radix`: checked multiply-and-add against the type's maximum -/
def digitsVal? (max : Nat) : Bytes → Nat → Option Nat
  | [], acc => some acc
  | c :: r, acc =>
    if 48 ≤ c && c ≤ 57 then
      let v := acc * 10 + (c.toNat - 48)
      if v > max then none else digitsVal? max r v
    else none

/-- `str::parse::<uN>` -/
def parseUnsigned (max : Nat) : Bytes → Option Nat
  | [] => none
  | [c] => if c == 43 || c == 45 then none else digitsVal? max [c] 0
  | c :: r => if c == 43 then digitsVal? max r 0 else digitsVal? max (c :: r) 0

/-- `parse_or(buffer, a..b, default)` for a `u8` -/
def parseOr (s : Bytes) (a b dflt : Nat) : Nat :=
  match strGet s a b with
  | some t => (parseUnsigned 255 t).getD dflt
  | none => dflt

def finish (year : Nat) (time : Bytes) (rel : Nat) (zone : Bytes) : Derive.Date :=
  { year := year
    month := parseOr time 6 8 1
    day := parseOr time 8 10 1
    hour := parseOr time 10 12 0
    minute := parseOr time 12 14 0
    second := parseOr time 14 16 0
    rel := rel
    tzHour := parseOr zone 0 2 0
    tzMinute := parseOr zone 3 5 0 }

/-- `match &s[p..p+1] { "-" => Earlier, "+" => Later, "Z" => Universal, _ => unreachable!() }` -/
def relOf (c : Bytes) : Out Nat :=
  if c == [45] then .ok 0 else if c == [43] then .ok 1 else if c == [90] then .ok 2 else .panic

/-- `Date::from_primitive` on the bytes of a string primitive -/
def readDate (data : Bytes) : Out Derive.Date :=
  if !utf8Valid data then .err
  else if !startsD data then .err
  else
    match strGet data 2 6 with
    | none => .err
    | some y =>
      match parseUnsigned 65535 y with
      | none => .err
      | some year =>
        match findSign data with
        | none => .ok (finish year data 2 [])
        | some p =>
          match strIndex data p (p + 1) with
          | .ok c =>
            (match relOf c with
             | .ok rel =>
               match strIndex data 0 p, strIndex data (p + 1) data.length with
               | .ok time, .ok zone => .ok (finish year time rel zone)
               | _, _ => .panic
             | _ => .panic)
          | _ => .panic

end DateRead
