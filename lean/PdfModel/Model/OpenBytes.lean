import PdfModel.Model.Parser
import PdfModel.Model.XrefStream
import PdfModel.Model.XrefFile
import PdfModel.Model.OffsetsConcrete

/-!
  The byte-level open path with the cross-reference *stream* reader made concrete, so that a file can be
  opened by the model from its bytes alone: `Storage::with_cache` + `load_storage_and_trailer`
  (`Offsets.openFile`) and `Storage::resolve_ref` (`Offsets.resolveRef`) with every token-level parser
  instantiated by the byte-level models of the framework.

  Rust (pdf/src/parser/parse_xref.rs, object/stream.rs, xref.rs)          model
  ----------------------------------------------------------------------  -----------------------------
  parse_xref_stream_and_trailer: parse_indirect_stream, `trailer`?         `OpenBytes.xrefStreamHead`
  Stream::<XRefInfo>::from_primitive: /Type /XRef required, /Size u32,      `xrefInfoOf`
     /Index (default [0 size]) as Vec<u32>, /W as Vec<usize>;
     /Length, /Filter … taken out by StreamInfo (not looked at here)
  xref_stream.data(resolve): backend.read(file_range), then the filters    `slice`, `dec` (parameter: Flate, …)
  `index.len() % 2 != 0` → Err; the chunks loop                             `pairsOf`, `Xref.parseSections`
  read_xref_and_trailer_at                                                  `XrefTable.xrefAt env (stmC env dec)`
  the parsers of Offsets                                                     `parsers` (= `Offsets.concreteP`)

  `dec info raw` stands for the filter chain named by the stream dictionary (third-party: zlib, LZW, …); the
  theorems assume of it only that a dictionary without `/Filter` leaves the bytes as they are (`NoFilter`).
  `allow_xref_error` is `false` (strict options, the default of `FileOptions`).
-/

namespace OpenBytes
open PdfLex Xref

/-- the keyword `trailer` -/
def kwTrailer : List UInt8 := [116, 114, 97, 105, 108, 101, 114]

/-- `parse_xref_stream_and_trailer` up to the typed conversion: the stream object as read and the trailer
    dictionary (`trailer <<…>>` when that keyword follows, else the stream's own dictionary) -/
def xrefStreamHead {R : Type} (env : Env R) (buf : Buf) (pos : Nat) : Out ((Prim R × Dict R) × Nat) :=
  (parseIndirectStream env buf (defaultFuel buf) pos).bind fun ((_, stm), p) =>
  (next buf p).bind fun w =>
  if slice buf w.1 w.2 == kwTrailer then
    (parseWithLexer env buf (defaultFuel buf) w.2 Flags.dict).bind fun (v, p2) =>
    match v with
    | .dict d => .ok ((stm, d), p2)
    | _ => .err
  else
    match stm with
    | .stream info _ => .ok ((stm, info), w.2)
    | _ => .err

variable {R : Type}

def kType : List UInt8 := [84, 121, 112, 101]
def kXRef : List UInt8 := [88, 82, 101, 102]
def kSize : List UInt8 := [83, 105, 122, 101]
def kIndex : List UInt8 := [73, 110, 100, 101, 120]
def kW : List UInt8 := [87]
def kFilter : List UInt8 := [70, 105, 108, 116, 101, 114]

/-- an array of non-negative integers (`Vec<u32>` / `Vec<usize>` from an array primitive) -/
def natsOf : List (Prim R) → Out (List Nat)
  | [] => .ok []
  | .int n :: rest =>
    if n ≥ 0 then
      match natsOf rest with
      | .ok ns => .ok (n.toNat :: ns)
      | .err => .err | .panic => .panic | .oof => .oof
    else .err
  | _ :: _ => .err

/-- `index.chunks_exact(2)` after the even-length check -/
def pairsOf : List Nat → Out (List (Nat × Nat))
  | [] => .ok []
  | [_] => .err
  | a :: b :: rest =>
    match pairsOf rest with
    | .ok ps => .ok ((a, b) :: ps)
    | .err => .err | .panic => .panic | .oof => .oof

/-- `XRefInfo::from_primitive` on the stream dictionary: `/Size`, the `/Index` pairs, `/W` -/
def xrefInfoOf (d : Dict R) : Out (Nat × List (Nat × Nat) × List Nat) :=
  match dictGet d kType with
  | some (.name t) =>
    if t = kXRef then
      match dictGet d kSize with
      | some (.int n) =>
        if 0 ≤ n ∧ n ≤ 4294967295 then
          let size := n.toNat
          let index : Out (List (Nat × Nat)) :=
            match dictGet d kIndex with
            | none => .ok [(0, size)]
            | some (.arr xs) => (natsOf xs).bind pairsOf
            | some _ => .err
          match index, dictGet d kW with
          | .ok ix, some (.arr ws) =>
            match natsOf ws with
            | .ok w => .ok (size, ix, w)
            | .err => .err | .panic => .panic | .oof => .oof
          | .ok _, _ => .err
          | .err, _ => .err | .panic, _ => .panic | .oof, _ => .oof
        else .err
      | _ => .err
    else .err
  | _ => .err

/-- `parse_xref_stream_and_trailer` with the lexer at `pos` -/
def stmC (env : Env R) (dec : Dict R → List UInt8 → Out (List UInt8)) (buf : Buf) (pos : Nat) :
    Out (List Sub × Dict R) :=
  match xrefStreamHead env buf pos with
  | .ok ((stm, trailer), _) =>
    match stm with
    | .stream info (.inFile _ _ lo hi) =>
      match xrefInfoOf info with
      | .ok (_, index, w) =>
        match dec info (slice buf (lo - env.fileOffset) (hi - env.fileOffset)) with
        | .ok data =>
          match parseSections w false index data [] with
          | .ok subs => .ok (subs, trailer)
          | .err => .err | .panic => .panic | .oof => .oof
        | .err => .err | .panic => .panic | .oof => .oof
      | .err => .err | .panic => .panic | .oof => .oof
    | _ => .err
  | .err => .err | .panic => .panic | .oof => .oof

/-- the parsers of `Model/Offsets` for whole files: cross-reference tables and streams, indirect objects,
    object streams (`scan` items are not needed to open and resolve) -/
def parsers (env : Env R) (pfuel : Nat) (dec : Dict R → List UInt8 → Out (List UInt8)) :
    Offsets.Parsers (Prim R) (Dict R) :=
  Offsets.concreteP env pfuel dec (XrefTable.xrefAt { env with fileOffset := 0 } (stmC { env with fileOffset := 0 } dec))
    (fun _ => [])

/-- open a file from its bytes: position of the header, merged table, newest trailer -/
def openB (env : Env R) (pfuel : Nat) (dec : Dict R → List UInt8 → Out (List UInt8)) (fuel : Nat)
    (bytes : List UInt8) : Out (Nat × Table × Dict R) :=
  Offsets.openFile (parsers env pfuel dec) fuel bytes

/-- resolve an object number in an opened file -/
def resolveB (env : Env R) (pfuel : Nat) (dec : Dict R → List UInt8 → Out (List UInt8)) (fuel : Nat)
    (bytes : List UInt8) (start : Nat) (t : Table) (id : Nat) : Out (Offsets.Obj (Prim R)) :=
  Offsets.resolveRef (parsers env pfuel dec) bytes start t fuel [] .any id

/-- a stream dictionary without `/Filter` has no filters to undo -/
def NoFilter (dec : Dict R → List UInt8 → Out (List UInt8)) : Prop :=
  ∀ d raw, dictGet d kFilter = none → dec d raw = .ok raw

end OpenBytes
