import PdfModel.Model.Concurrent

/-!
# The mutexes of `StorageResolver::get` made explicit, and the callbacks into user code (C13, third layer)

`Model/Concurrent.lean` takes every critical section as one atomic step, so in that system nobody ever *holds* a
mutex between two steps. Here each such step is split into `lock` (possible when the mutex is free) and
`body; unlock`, on top of the same inner system, so that "which mutex does a thread hold while it is at this
control point" is a question with an answer:

Rust (pdf/src/file.rs, `StorageResolver::get`)                       → here
----------------------------------------------------------------------------------------------------------
`self.storage.log.log_get(key)` — user code (`FileOptions::log`)      `Ctl.logging` (inner, `Cfg.cb`): no mutex
`{ let mut chains = self.chain.lock().unwrap(); … chain.push(key) }`   `Ctl.enter`: lock `chain`; body; unlock
`self.storage.cache.get_or_compute(key, || …)` — user code (`Cache`)
   `SyncCache::get` / `HCache`: `slots.lock()`, look up, claim, unlock  `Ctl.pushed`, `Ctl.waiting`: lock `cache`; body; unlock
   the closure: `resolve(key)` → `log.load_object(key)` — user code     `Ctl.loading` (inner, `Cfg.cb`): no mutex
                `T::from_primitive(p, self)` (nested `get`s)            the inner steps of the nested loads
   `slots.lock()`, store, notify, unlock                                `Ctl.storing`: lock `cache`; body; unlock
`Defer`: `self.chain.lock().unwrap()`, `assert_eq!(chain.pop(), ..)`    `Ctl.popping`: lock `chain`; body; unlock

User code may take arbitrarily long and may wait for other threads of the program: a callback step is taken only
when the user's `gate` lets it (`gate i s`: may the callback thread `i` is in return now?).

`WCfg.logUnderLock = true` is a *wrong* variant kept for the counter-example: `log_get` moved inside the block that
holds the chain mutex (lock `chain`; `log_get`; guard check and push; unlock).
-/

namespace Conc
open Cache

inductive Lock where
  | chain
  | cache
deriving DecidableEq, Repr

variable {V E : Type}

/-- the mutex the step from this control point takes (`none`: the step takes no mutex) -/
def lockOf (cfg : Cfg) : Ctl V E → Option Lock
  | .enter _ _ _ => some .chain
  | .popping _ _ _ _ => some .chain
  | .pushed _ _ _ => if cfg.objCache then some .cache else none
  | .waiting _ _ _ => some .cache
  | .storing _ => some .cache
  | _ => none

/-- is the thread inside user code? -/
def isCallback : Ctl V E → Bool
  | .logging _ _ _ => true
  | .loading _ _ => true
  | _ => false

def isLogging : Ctl V E → Bool
  | .logging _ _ _ => true
  | _ => false

structure WCfg where
  cfg : Cfg
  logUnderLock : Bool := false

structure WState (V E : Type) where
  inner : State V E
  /-- per thread: the mutex it holds (never two: the critical sections do not nest) -/
  held : List (Option Lock)

def WState.init (s : State V E) : WState V E := ⟨s, s.threads.map fun _ => none⟩

def lockFree (held : List (Option Lock)) (L : Lock) : Bool := held.all fun h => h != some L

def wlockOf (wc : WCfg) (c : Ctl V E) : Option Lock :=
  if wc.logUnderLock && isLogging c then some .chain else lockOf wc.cfg c

/-- the inner step of thread `i`, unless the thread is inside user code that has not returned -/
def userStep (d : Doc V E) (cfg : Cfg) (gate : Nat → State V E → Bool) (s : State V E) (i : Nat) (t : Thread V E) : Option (State V E) :=
  if isCallback t.ctl && !gate i s then none else step d cfg s i

def wstep (d : Doc V E) (wc : WCfg) (gate : Nat → State V E → Bool) (s : WState V E) (i : Nat) : Option (WState V E) :=
  match s.inner.threads[i]?, s.held[i]? with
  | some t, some (some L) =>
    -- inside the critical section: its body, then unlock (wrong variant: the lock taken before `log_get` is kept
    -- for the guard block that follows)
    (userStep d wc.cfg gate s.inner i t).map fun inner' =>
      ⟨inner', s.held.set i (if wc.logUnderLock && isLogging t.ctl then some L else none)⟩
  | some t, some none =>
    match wlockOf wc t.ctl with
    | none => (userStep d wc.cfg gate s.inner i t).map fun inner' => ⟨inner', s.held⟩
    | some L =>
      -- lock: when the mutex is free (a thread waiting for a slot sleeps on the condvar until the slot is stored)
      if lockFree s.held L && (step d wc.cfg s.inner i).isSome then some ⟨s.inner, s.held.set i (some L)⟩ else none
  | _, _ => none

def wrunSched (d : Doc V E) (wc : WCfg) (gate : Nat → State V E → Bool) : WState V E → List Nat → Option (WState V E)
  | s, [] => some s
  | s, i :: is =>
    match wstep d wc gate s i with
    | none => none
    | some s' => wrunSched d wc gate s' is

inductive WReachable (d : Doc V E) (wc : WCfg) (gate : Nat → State V E → Bool) (s0 : WState V E) : WState V E → Prop
  | init : WReachable d wc gate s0 s0
  | step {s s' : WState V E} (i : Nat) : WReachable d wc gate s0 s → wstep d wc gate s i = some s' → WReachable d wc gate s0 s'

def WState.enabled (d : Doc V E) (wc : WCfg) (gate : Nat → State V E → Bool) (s : WState V E) (i : Nat) : Bool :=
  (wstep d wc gate s i).isSome

/-- nobody can move although somebody is not finished -/
def WState.deadlocked (d : Doc V E) (wc : WCfg) (gate : Nat → State V E → Bool) (s : WState V E) : Bool :=
  !s.inner.allDone && (List.range s.inner.threads.length).all fun i => !s.enabled d wc gate i

/-- does some thread sit inside user code while it holds a mutex? -/
def WState.lockAcrossCallback (s : WState V E) : Bool :=
  (List.range s.inner.threads.length).any fun i =>
    match s.inner.threads[i]?, s.held[i]? with
    | some t, some (some _) => isCallback t.ctl
    | _, _ => false

end Conc
