import PdfModel.Model.FontLoad

/-!
  `Font::to_primitive` (pdf/src/font.rs) — C15, against the reader model of the C01 package (`Model/FontLoad.lean`).

  Rust                                                                  here
  --------------------------------------------------------------------  ------------------------------------------
  `match self.data { … => d.to_dict(update)? }`                          `writeStruct` of the variant's derived model
  `FontData::Other(dict) => dict.clone()` … later `bail!("unimplemented")` `writeFont` = `.error` for `Variant.other`
  `dict.insert("ToUnicode", to_unicode.to_primitive(update)?)`            `finish` (an `RcRef` is written as its reference)
  `dict.insert("Encoding", encoding.to_primitive(update)?)`               `Derive.writeEncoding` (C15/C19 model)
  `dict.insert("BaseFont", name)`                                         `finish`
  the subtype tag from the VARIANT of `self.data` (not from `self.subtype`) `Variant.tag`
  `dict.insert("Subtype", ..)`, `dict.insert("Type", "Font")`             `finish`
-/

namespace FontLoad
open Derive

/-- the variants of `FontData` -/
inductive Variant where
  | type0 | type1 | trueType | cidFontType0 | cidFontType2 | other
  deriving DecidableEq, Repr

/-- the `/Subtype` the writer emits for the variant -/
def Variant.tag : Variant → String
  | .type0 => "Type0"
  | .type1 => "Type1"
  | .trueType => "TrueType"
  | .cidFontType0 => "CIDFontType0"
  | .cidFontType2 => "CIDFontType2"
  | .other => ""

/-- the variant `Font::from_primitive` builds for a subtype (`match subtype { … _ => FontData::Other }`) -/
def variantOf (subtype : String) : Variant :=
  if subtype = "Type0" then .type0
  else if subtype = "Type1" then .type1
  else if subtype = "TrueType" then .trueType
  else if subtype = "CIDFontType0" then .cidFontType0
  else if subtype = "CIDFontType2" then .cidFontType2
  else .other

def Variant.loader : Variant → Loader
  | .type0 => .type0
  | .type1 | .trueType => .tfont
  | .cidFontType0 | .cidFontType2 => .cid
  | .other => .other

/-- a `Font` as the writer sees it -/
structure FontW where
  variant : Variant
  name : Option String
  encoding : Option EncodingV
  /-- the reference of the `RcRef` -/
  toUnicode : Option Prim
  /-- the value of the variant's derived model (`Type0Font`, `TFont`, `CIDFont`) -/
  data : Val

def schemaFor (S : Schemas) : Variant → Option Schema
  | .type0 => some S.type0
  | .type1 | .trueType => some S.tfont
  | .cidFontType0 | .cidFontType2 => some S.cid
  | .other => none

/-- the entries the writer puts on top of the `to_dict` of the data, in the writer's order -/
def finish (f : FontW) (encP : Option Prim) (d : Dict) : Dict :=
  let d1 := match f.toUnicode with | some r => dinsert "ToUnicode" r d | none => d
  let d2 := match encP with | some q => dinsert "Encoding" q d1 | none => d1
  let d3 := match f.name with | some n => dinsert "BaseFont" (.name n) d2 | none => d2
  dinsert "Type" (.name "Font") (dinsert "Subtype" (.name f.variant.tag) d3)

def writeEncodingOpt : Option EncodingV → R (Option Prim)
  | none => .ok none
  | some e =>
    match writeEncoding e with
    | .ok q => .ok (some q)
    | .error err => .error err

/-- `Font::to_primitive` -/
def writeFont (sem : Sem) (S : Schemas) (f : FontW) : R Prim :=
  match schemaFor S f.variant with
  | none => .error .other                                         -- `FontData::Other`: bail!("unimplemented")
  | some Sd =>
    match writeStruct sem Sd f.data with
    | .ok (.dict d) =>
      match writeEncodingOpt f.encoding with
      | .ok encP => .ok (.dict (finish f encP d))
      | .error e => .error e
    | .ok _ => .error .other
    | .error e => .error e

/-- the writer's view of a value the reader built (`Font { data, name, encoding, to_unicode, .. }`); the differences
    map is given sorted by code (`diff_list.sort()` in `Encoding::to_primitive`) -/
def ofRead (sortDiffs : FontEncoding.DMap String → List (Nat × String)) (v : FontV) : FontW :=
  { variant := variantOf v.plan.subtype
    name := v.plan.name
    encoding := v.plan.encoding.map fun e => ⟨e.1, sortDiffs e.2⟩
    toUnicode := match v.toUnicode with | some (.indirect r _) => some r | _ => none
    data := match v.data with
      | .type0 x => x
      | .tfont x => x
      | .cid x => x
      | .other d => .leaf (.dict d) }

end FontLoad
