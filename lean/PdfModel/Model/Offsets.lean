import PdfModel.Model.OffLex
import PdfModel.Model.Xref
import PdfModel.Model.ObjStm

/-
  Model of every place where pdf-rs turns a number found in the file into a position in the backend
  (pdf/src/backend.rs, pdf/src/file.rs).  `start` is `Storage.start_offset`, the position of `%PDF-`.

  Rust                                                          model
  ----                                                          -----
  Backend::locate_start_offset                                  locateStart
     read(..min(1024, len)).windows(5).position(== b"%PDF-")
  Backend::locate_xref_offset                                   locateXref
     set_pos_from_end(0); seek_substr_back(b"startxref"); next()?.to::<usize>()
  Backend::read_xref_table_and_trailer(start, resolve)          loadTable
     start.checked_add(xref_offset)   → Err(Invalid)               .err when > usize::MAX
     pos >= len                       → bail                       .err
     read_xref_and_trailer_at(Lexer::with_offset(read(pos..), pos))   P.xrefAt (buf.drop pos)
     trailer /Size as_u32, > MAX_ID   → bail                       P.sizeOf, maxId
     XRefTable::new + add_entries_from                             Xref.newTable, Xref.addSubs  (Model/Xref)
     the `/Prev` loop with `seen`                                  prevLoop
        start.checked_add(prev), read(pos..) (Err when pos > len)
  Storage::resolve_ref(r, flags, resolve)                       resolveRef
     XRef::Raw: start.checked_add(pos), read(start+pos ..),         `.direct pos` branch
        Lexer::with_offset(.., start+pos), parse_indirect_object      P.objAt flags (buf.drop q)
        parse_stream_object: /Length direct or `resolve_flags(r, INTEGER)`,
           read_n(length), `endstream`, `endobj`,                      streamLength, P.streamEnd
           file_range = lexer offset + position in the buffer         (q + rel, q + rel + n)
     XRef::Stream: resolve.get::<ObjectStream>(stream_id) (guard `chain`), `.compressed sid idx` branch
        Stream::data = decode(backend.read(file_range)),               readRange, P.decode
        ObjectStream header, get_object_slice, data.get(range),        ObjStm.parseHeader, getObjectSlice,
        parse(slice, resolve, flags)                                   memberSlice, P.parseMember
  Resolve::stream_data(id, range) = backend.read(range)         readRange
  Storage::version: read(start+1 .. start+8)                    version
  Storage::scan                                                 scan
     locate_xref_offset, start.checked_add, read(start .. start+xref_offset),
     Lexer::with_offset(slice, start), the item loop               P.scanItems slice, shifted by start

  The token-level parsers (xref sections, trailer entries, indirect objects, `endstream`/`endobj`,
  filters, member values, scan items) are *parameters* (`Parsers`): the Rust functions are handed
  `read(pos ..)`, i.e. the suffix of the backend at the computed position, plus that position as
  `file_offset`, which they only use to report `file_range`s; the model hands the parameter the same
  suffix and adds the position itself.  What is modelled exactly is the arithmetic that decides *which*
  suffix each parser sees, every bounds check on the way, and the order of the visits.
  The model describes the tree after the `fix:` commits for D26 (scan range and lexer offset relative to
  the header, no `unwrap`), D42 (no `STREAM` gate in the compressed branch) and the checked addition in
  `resolve_ref`; `scanOld`, `gateOld` and `directPosOld` keep the previous behaviour for the
  counter-examples in Props/C17 and Props/C11.
-/

namespace Offsets
open OffLex

/-- `%PDF-` -/
def headerMarker : Bytes := [37, 80, 68, 70, 45]

/-- `startxref` -/
def startxrefKw : Bytes := [115, 116, 97, 114, 116, 120, 114, 101, 102]

def headerWindow : Nat := 1024

/-- `Backend::locate_start_offset` -/
def locateStart (buf : Bytes) : Out Nat :=
  match findFirst headerMarker (buf.take (min headerWindow buf.length)) with
  | some i => .ok i
  | none => .err

/-- `Backend::locate_xref_offset` -/
def locateXref (buf : Bytes) : Out Nat :=
  match findLast startxrefKw (buf.take (buf.length - 1)) with
  | none => .err
  | some s =>
    match nextWord (buf.drop (s + startxrefKw.length)) with
    | .ok (w, _) => parseUsize w
    | .err => .err | .panic => .panic | .oof => .oof

/-- `start.checked_add(off).ok_or(PdfError::Invalid)` -/
def checkedAdd (a b : Nat) : Out Nat := if a + b > usizeMax then .err else .ok (a + b)

/-- `backend.read(a .. b)`: `IndexRange::to_range` demands `a ≤ b ≤ len`. -/
def readRange (buf : Bytes) (a b : Nat) : Out Bytes :=
  if a ≤ b ∧ b ≤ buf.length then .ok ((buf.drop a).take (b - a)) else .err

/-- `backend.read(a ..)`: demands `a ≤ len`. -/
def readFrom (buf : Bytes) (a : Nat) : Out Bytes :=
  if a ≤ buf.length then .ok (buf.drop a) else .err

inductive Flags where
  | any        -- ParseFlags::ANY
  | integer    -- ParseFlags::INTEGER (the indirect /Length path)
deriving Repr, DecidableEq

/-- `dict.get("Length")` in `parse_stream_object` -/
inductive LenSpec where
  | direct (n : Nat)          -- `Integer(n)`, n ≥ 0
  | indirect (id : Nat)       -- `Reference`
  | bad                       -- anything else, negative, or missing: an error
deriving Repr, DecidableEq

/-- What the object parser reports for the bytes at a position; positions relative to that position. -/
inductive ObjParse (V : Type) where
  | plain (v : V)                                  -- a complete non-stream object, `endobj` checked
  | stream (info : V) (rel : Nat) (len : LenSpec)  -- dictionary, `stream` keyword and its line end
deriving Repr

/-- A resolved object; stream data stays in the file, `start .. stop` is `file_range` (absolute). -/
inductive Obj (V : Type) where
  | plain (v : V)
  | stream (info : V) (start stop : Nat)
deriving Repr, DecidableEq

def Obj.shift {V : Type} (k : Nat) : Obj V → Obj V
  | .plain v => .plain v
  | .stream i a b => .stream i (k + a) (k + b)

structure Parsers (V T : Type) where
  /-- `read_xref_and_trailer_at` (classic table or cross-reference stream, data read and decoded) -/
  xrefAt : Bytes → Out (List Xref.Sub × T)
  /-- trailer `/Size` through `as_u32` -/
  sizeOf : T → Out Nat
  /-- trailer `/Prev` through `as_usize`; `none` when absent -/
  prevOf : T → Option (Out Nat)
  /-- `parse_indirect_object` with the given flags, up to `endobj` or up to the start of stream data -/
  objAt : Flags → Bytes → Out (ObjParse V)
  /-- behind the stream data: `endstream`, then `endobj` -/
  streamEnd : Bytes → Out Unit
  /-- `Primitive::as_usize` of a resolved `/Length` -/
  asLen : V → Out Nat
  /-- `/N` and `/First` of an object-stream dictionary (`ObjStmInfo`, `StreamInfo`) -/
  stmHead : V → Out (Nat × Nat)
  /-- the filters named by the stream dictionary, applied to the raw bytes -/
  decode : V → Bytes → Out Bytes
  /-- `parser::parse(slice, resolve, flags)` on a member slice -/
  parseMember : Flags → Bytes → Out V
  /-- the items `Storage::scan` yields on a slice: objects (streams with ranges relative to the slice)
      and trailers -/
  scanItems : Bytes → List (Out (Obj V))

def maxId : Nat := 1000000

variable {V T : Type}

/-- `start.checked_add(off)`, then `read(pos ..)` (which demands `pos ≤ len`): the position and the
    suffix the parser is handed -/
def suffixAt (buf : Bytes) (start off : Nat) : Out (Nat × Bytes) :=
  match checkedAdd start off with
  | .ok pos =>
    match readFrom buf pos with
    | .ok suffix => .ok (pos, suffix)
    | .err => .err | .panic => .panic | .oof => .oof
  | .err => .err | .panic => .panic | .oof => .oof

/-- the same with the stricter test of the `startxref` consumer: `if pos >= self.len() { bail!(..) }` -/
def suffixAtStrict (buf : Bytes) (start off : Nat) : Out (Nat × Bytes) :=
  match checkedAdd start off with
  | .ok pos => if pos ≥ buf.length then .err else .ok (pos, buf.drop pos)
  | .err => .err | .panic => .panic | .oof => .oof

/-- the `while let Some(prev_xref_offset) = prev_trailer` loop -/
def prevLoop (P : Parsers V T) (buf : Bytes) (start : Nat) :
    Nat → List Nat → Option Nat → Xref.Table → Out Xref.Table
  | _, _, none, t => .ok t
  | 0, _, some _, _ => .oof
  | fuel + 1, seen, some pv, t =>
    if seen.contains pv then .err
    else
      match suffixAt buf start pv with
      | .ok (_, suffix) =>
        match P.xrefAt suffix with
        | .ok (subs, tr) =>
          match Xref.addSubs t subs with
          | .ok t' =>
            match P.prevOf tr with
            | none => .ok t'
            | some (.ok pv') => prevLoop P buf start fuel (pv :: seen) (some pv') t'
            | some .err => .err | some .panic => .panic | some .oof => .oof
          | .err => .err | .panic => .panic | .oof => .oof
        | .err => .err | .panic => .panic | .oof => .oof
      | .err => .err | .panic => .panic | .oof => .oof

/-- `Backend::read_xref_table_and_trailer`: the merged table and the newest trailer. -/
def loadTable (P : Parsers V T) (fuel : Nat) (buf : Bytes) (start : Nat) : Out (Xref.Table × T) :=
  match locateXref buf with
  | .ok x =>
    match suffixAtStrict buf start x with
    | .ok (_, suffix) =>
      match P.xrefAt suffix with
      | .ok (subs, trailer) =>
        match P.sizeOf trailer with
        | .ok size =>
          if size > maxId then .err
          else
            match Xref.addSubs (Xref.newTable size) subs with
            | .ok t =>
              match P.prevOf trailer with
              | none => .ok (t, trailer)
              | some (.ok pv) =>
                match prevLoop P buf start fuel [] (some pv) t with
                | .ok t' => .ok (t', trailer)
                | .err => .err | .panic => .panic | .oof => .oof
              | some .err => .err | some .panic => .panic | some .oof => .oof
            | .err => .err | .panic => .panic | .oof => .oof
        | .err => .err | .panic => .panic | .oof => .oof
      | .err => .err | .panic => .panic | .oof => .oof
    | .err => .err | .panic => .panic | .oof => .oof
  | .err => .err | .panic => .panic | .oof => .oof

/-- the tail of `parse_stream_object` once the length is known: `read_n(length)` must deliver `length`
    bytes (it never delivers the last byte of the buffer), then `endstream` / `endobj`. -/
def finishStream (P : Parsers V T) (suffix : Bytes) (q : Nat) (info : V) (rel n : Nat) : Out (Obj V) :=
  if rel + n ≥ suffix.length then .err
  else
    match P.streamEnd (suffix.drop (rel + n)) with
    | .ok _ => .ok (.stream info (q + rel) (q + rel + n))
    | .err => .err | .panic => .panic | .oof => .oof

/-- `parse_stream_object`: the length is the direct integer or what `resolve_flags(r, INTEGER, _)`
    delivers through `as_usize`; `resolveLen` is that call -/
def streamWithLen (P : Parsers V T) (resolveLen : Nat → Out (Obj V)) (suffix : Bytes) (q : Nat)
    (info : V) (rel : Nat) : LenSpec → Out (Obj V)
  | .direct n => finishStream P suffix q info rel n
  | .indirect lid =>
    match resolveLen lid with
    | .ok (.plain v) =>
      match P.asLen v with
      | .ok n => finishStream P suffix q info rel n
      | .err => .err | .panic => .panic | .oof => .oof
    | .ok (.stream _ _ _) => .err
    | .err => .err | .panic => .panic | .oof => .oof
  | .bad => .err

/-- the `XRef::Raw` branch of `resolve_ref` -/
def directBody (P : Parsers V T) (resolveLen : Nat → Out (Obj V)) (buf : Bytes) (start : Nat)
    (flags : Flags) (pos : Nat) : Out (Obj V) :=
  match suffixAt buf start pos with
  | .ok (q, suffix) =>
    match P.objAt flags suffix with
    | .ok (.plain v) => .ok (.plain v)
    | .ok (.stream info rel ls) => streamWithLen P resolveLen suffix q info rel ls
    | .err => .err | .panic => .panic | .oof => .oof
  | .err => .err | .panic => .panic | .oof => .oof

/-- the `XRef::Stream` branch of `resolve_ref` behind the guard; `container` is what
    `resolve.get::<ObjectStream>(stream_id)` resolved the object stream's number to -/
def compressedBody (P : Parsers V T) (container : Out (Obj V)) (buf : Bytes) (flags : Flags) (idx : Nat) :
    Out (Obj V) :=
  match container with
  | .ok (.stream info a b) =>
    match P.stmHead info with
    | .ok (n, first) =>
      match readRange buf a b with
      | .ok raw =>
        match P.decode info raw with
        | .ok data =>
          match ObjStm.parseHeader n data with
          | .ok offsets =>
            match ObjStm.getObjectSlice offsets first (.ok data) idx with
            | .ok (d, s, e) =>
              match ObjStm.memberSlice d s e with
              | .ok slice =>
                match P.parseMember flags slice with
                | .ok v => .ok (.plain v)
                | .err => .err | .panic => .panic | .oof => .oof
              | .err => .err | .panic => .panic | .oof => .oof
            | .err => .err | .panic => .panic | .oof => .oof
          | .err => .err | .panic => .panic | .oof => .oof
        | .err => .err | .panic => .panic | .oof => .oof
      | .err => .err | .panic => .panic | .oof => .oof
    | .err => .err | .panic => .panic | .oof => .oof
  | .ok (.plain _) => .err
  | .err => .err | .panic => .panic | .oof => .oof

/-- `Storage::resolve_ref`; `chain` is the guard of `Resolve::get` (object streams being loaded). -/
def resolveRef (P : Parsers V T) (buf : Bytes) (start : Nat) (t : Xref.Table) :
    Nat → List Nat → Flags → Nat → Out (Obj V)
  | 0, _, _, _ => .oof
  | fuel + 1, chain, flags, id =>
    match Xref.lookup t id with
    | .direct pos =>
      directBody P (fun lid => resolveRef P buf start t fuel chain .integer lid) buf start flags pos
    | .compressed sid idx =>
      if chain.contains sid then .err
      else compressedBody P (resolveRef P buf start t fuel (sid :: chain) .any sid) buf flags idx
    | .freeObject => .err
    | .nullRef => .err
    | .unspecified => .err
    | .unimplemented => .err

/-- `PdfStream::raw_data` → `Resolve::stream_data` → `backend.read(file_range)` -/
def rawData (buf : Bytes) : Obj V → Out Bytes
  | .plain _ => .err
  | .stream _ a b => readRange buf a b

/-- `Storage::scan`: the objects and trailers between the header and the newest cross-reference
    section. -/
def scan (P : Parsers V T) (buf : Bytes) (start : Nat) : Out (List (Out (Obj V))) :=
  match locateXref buf with
  | .ok x =>
    match checkedAdd start x with
    | .ok stop =>
      match readRange buf start stop with
      | .ok slice => .ok ((P.scanItems slice).map fun it =>
          match it with
          | .ok o => .ok (o.shift start)
          | .err => .err | .panic => .panic | .oof => .oof)
      | .err => .err | .panic => .panic | .oof => .oof
    | .err => .err | .panic => .panic | .oof => .oof
  | .err => .err | .panic => .panic | .oof => .oof

/-- `Storage::version`: `backend.read(start + 1 .. start + 8)` (`PDF-x.y`) -/
def version (buf : Bytes) (start : Nat) : Out Bytes := readRange buf (start + 1) (start + 8)

/-- `Storage::with_cache` + `load_storage_and_trailer`: header, then table and trailer. -/
def openFile (P : Parsers V T) (fuel : Nat) (buf : Bytes) : Out (Nat × Xref.Table × T) :=
  match locateStart buf with
  | .ok start =>
    match loadTable P fuel buf start with
    | .ok (t, tr) => .ok (start, t, tr)
    | .err => .err | .panic => .panic | .oof => .oof
  | .err => .err | .panic => .panic | .oof => .oof

/-! ## The code before the repairs (kept for the counter-examples) -/

/-- D26: `scan` read `start .. xref_offset` (the end is not relative to the header), `unwrap`ped both
    results and numbered the lexer from 0. -/
def scanOld (P : Parsers V T) (buf : Bytes) (start : Nat) : Out (List (Out (Obj V))) :=
  match locateXref buf with
  | .ok x =>
    match readRange buf start x with
    | .ok slice => .ok (P.scanItems slice)
    | _ => .panic
  | _ => .panic

/-- D42: the compressed branch began with `if !flags.contains(ParseFlags::STREAM) { return Err(..) }`. -/
def gateOld : Flags → Bool
  | .any => true
  | .integer => false

/-- `self.start_offset + pos` was an unchecked `usize` addition. -/
def directPosOld (start pos : Nat) : Out Nat := if start + pos > usizeMax then .panic else .ok (start + pos)

end Offsets
