import PdfModel.Model.Derive

/-!
  The tower of derived models with the two things `Model/Derive` leaves out supplied from outside (C01, see
  `Lemmas/DeriveRegistryTotal`): `hand`, the readers of the shapes whose `from_primitive` is written by hand or involves a
  stream, as a parameter; and a nesting budget whose exhaustion is the refusal of the recursion guard (an `Err`), not
  `oof`. Definitions only (the driver evaluates `registryOkB` on the generated schemas); nothing of `Model/Derive` is
  changed or copied: `semH` wraps `Derive.structSem`.
-/

namespace Derive

def Err.hasOof : Err → Bool
  | .oof => true
  | .tryE e => e.hasOof
  | .shared e => e.hasOof
  | .fromPrimitive _ e => e.hasOof
  | _ => false

/-- shapes read by code outside `Model/Derive` -/
def isHand (schemas : List Schema) : Shape → Bool
  | .leaf n => !(baseLeaves.contains n || n == "PagesNode" || n == "PagesRc" || n == "PageRc")
  | .leafApp _ _ => true
  | .model n =>
    match findSchema n schemas with
    | some S => !(S.kind == .struct || S.kind == .nameEnum || S.kind == .intEnum)
    | none => true
  | .modelApp n _ => (findSchema n schemas).isNone
  | .param _ => true
  | _ => false

/-- how `default = ".."` expressions are evaluated at every level of the tower -/
def dfltH (schemas : List Schema) (dx : String) (acc : List Val) : R Val :=
  match pathDefault schemas dx with
  | some v => .ok v
  | none =>
    match vecDefault schemas dx acc with
    | some v => .ok v
    | none => literalDefault dx

def semH (cfg : Cfg) (schemas : List Schema) (hand : Env → Shape → Prim → R Val) : Nat → Sem
  | 0 =>
    { rd := fun env s p =>
        if isHand schemas s then hand env s p
        else match s with
          | .leaf n => if baseLeaves.contains n then baseSem.rd env (.leaf n) p else .error .other
          | _ => .error .other            -- the nesting budget is used up: the guard's `Err`
      wr := baseSem.wr
      dflt := dfltH schemas }
  | n + 1 =>
    { rd := fun env s p =>
        if isHand schemas s then hand env s p
        else (structSem cfg schemas (semH cfg schemas hand n)).rd env s p
      wr := (structSem cfg schemas (semH cfg schemas hand n)).wr
      dflt := dfltH schemas }

/-- the default of a field with `k` keyed fields in front of it evaluates -/
def fieldDfltOk (schemas : List Schema) (f : Field) (k : Nat) : Bool :=
  match f.default with
  | none => true
  | some dx =>
    (pathDefault schemas dx).isSome || (vecDefault schemas dx (List.replicate k Val.none)).isSome ||
      (match literalDefault dx with
       | .ok _ => true
       | .error e => !e.hasOof)

def dfltOkFrom (schemas : List Schema) : List Field → Nat → Bool
  | [], _ => true
  | f :: fs, k =>
    if !f.skip && !f.other then fieldDfltOk schemas f k && dfltOkFrom schemas fs (k + 1)
    else dfltOkFrom schemas fs k

/-- every `default = ".."` of the schema is of a form the interpreter evaluates (decidable; checked on the
    generated data in `Props/C01`) -/
def Schema.dfltOk (schemas : List Schema) (S : Schema) : Bool := dfltOkFrom schemas S.fields 0

/-- `RegistryOk` as a Boolean: every default of every schema evaluates, and the two models the hand-written `PagesNode`
    reader dispatches to exist -/
def registryOkB (schemas : List Schema) : Bool :=
  schemas.all (fun S => S.dfltOk schemas) && (findSchema "Page" schemas).isSome && (findSchema "PageTree" schemas).isSome

end Derive
