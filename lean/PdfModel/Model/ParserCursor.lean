import PdfModel.Core.Out
import PdfModel.Model.Lexer
import PdfModel.Model.StrLexer
import PdfModel.Model.Parser

/-!
  Cursor-tracking companion of `Model/Parser`: the same functions, but every result also says where the
  `Lexer` stands when the Rust function returns — on `Ok` *and on `Err`* (`Out.err` carries no payload, so
  `Model/Parser` cannot express "the cursor is put back after a failed parse").

  `Cur α = Out α × Nat`: outcome, and `Lexer.pos` afterwards (meaningless after `.panic` / `.oof`).

  Rust item                                   model definition
  ------------------------------------------  ------------------------------------------------------
  Lexer::next (moves only on `Ok`)            `nextC`
  Lexer::peek (never moves)                   `peekC`
  Lexer::next_expect (moves when a lexeme     `nextExpectC`
    was read, also when it is the wrong one)
  Lexer::next_stream (moves only on `Ok`)     `nextStreamC`
  Lexer::read_n / set_pos / offset_pos        `readNC` / `setPosC` / `offsetPosC`
  parse_stream_object                         `parseStreamObjectC`
  the integer / reference branch              `parseIntOrRefC`
  parse_with_lexer_ctx (`set_pos(pos)` on Err) `parseCtxC`
  _parse_with_lexer_ctx                       `parseInnerC`
  array loop / parse_dictionary_object        `parseArrayC` / `parseDictC`

  `Lemmas/ParserCursor` proves that the first components are the functions of `Model/Parser`
  (`parseCtxC_fst`), that the cursor never leaves the buffer, that on `Ok` it is the returned position and
  that after `Err` of `parse_with_lexer_ctx` it is the position the call started from.
-/

namespace PdfLex

abbrev Cur (α : Type) := Out α × Nat

/-- sequencing: on `Ok` continue with the value and the cursor, otherwise stop where the lexer stands -/
def Cur.bind {α β : Type} (x : Cur α) (f : α → Nat → Cur β) : Cur β :=
  match x.1 with
  | .ok a => f a x.2
  | .err => (.err, x.2)
  | .panic => (.panic, x.2)
  | .oof => (.oof, x.2)

/-- a computation that does not touch the lexer -/
def Cur.pure' {α : Type} (x : Out α) (cur : Nat) : Cur α := (x, cur)

def nextC (buf : Buf) (cur : Nat) : Cur (Nat × Nat) :=
  match next buf cur with
  | .ok w => (.ok w, w.2)
  | e => (e, cur)

def peekC (buf : Buf) (cur : Nat) : Cur (Nat × Nat) := (peek buf cur, cur)

def nextExpectC (buf : Buf) (cur : Nat) (expected : List UInt8) : Cur Nat :=
  (nextC buf cur).bind fun w c =>
  if slice buf w.1 w.2 == expected then (.ok w.2, c) else (.err, c)

def nextStreamC (buf : Buf) (cur : Nat) : Cur Nat :=
  match nextStream buf cur with
  | .ok p => (.ok p, p)
  | e => (e, cur)

def setPosC (buf : Buf) (cur wanted : Nat) : Cur Nat :=
  match setPos buf cur wanted with
  | .ok p => (.ok p, p)
  | e => (e, cur)

def offsetPosC (buf : Buf) (cur offset : Nat) : Cur Nat :=
  match offsetPos buf cur offset with
  | .ok p => (.ok p, p)
  | e => (e, cur)

def readNC (buf : Buf) (cur n : Nat) : Cur ((Nat × Nat) × Nat) :=
  match readN buf cur n with
  | .ok r => (.ok r, r.2)
  | e => (e, cur)

/-- `parse_stream_object` once `/Length` is known (`pos`: just past the end-of-line after `stream`) -/
def streamBodyC {R : Type} (env : Env R) (buf : Buf) (pos : Nat) (dict : Dict R) (id : Nat × Nat) (length : Nat) :
    Cur (Prim R × Nat) :=
  (readNC buf pos length).bind fun (sub, pos) c =>
  if sub.2 - sub.1 != length then (.err, c) else
  (nextExpectC buf pos kwEndstream).bind fun pos c =>
  (.ok (.stream dict (.inFile id.1 id.2 (env.fileOffset + sub.1) (env.fileOffset + sub.1 + (sub.2 - sub.1))), pos), c)

def parseStreamObjectC {R : Type} (env : Env R) (buf : Buf) (cur : Nat) (dict : Dict R) (id : Nat × Nat) :
    Cur (Prim R × Nat) :=
  (nextStreamC buf cur).bind fun pos c =>
  (Cur.pure' (match dictGet dict kwLength with
    | some (.int n) => if n ≥ 0 then Out.ok n.toNat else Out.err
    | some (.ref i g) => env.resolveLen i g
    | some _ => .err
    | none => .err) c).bind fun length _ =>
  streamBodyC env buf pos dict id length

def parseIntOrRefC {R : Type} (buf : Buf) (posBk : Nat) (first : List UInt8) (flags : Nat) : Cur (Prim R × Nat) :=
  (Cur.pure' (check flags (Flags.integer ||| Flags.ref)) posBk).bind fun _ _ =>
  match refLookahead buf posBk with
  | .panic => (.panic, posBk)
  | .oof => (.oof, posBk)
  | .err => (.err, posBk)
  | .ok (la, cur) =>
    let asInteger : Cur (Prim R × Nat) :=
      (Cur.pure' (check flags Flags.integer) cur).bind fun _ c =>
      (setPosC buf c posBk).bind fun p c =>
      match parseI32 first with
      | some i => (.ok (.int i, p), c)
      | none => (.err, c)
    match la with
    | some (w2, w3) =>
      if slice buf w3.1 w3.2 == [82] then
        (Cur.pure' (check flags Flags.ref) cur).bind fun _ c =>
        match parseU64 first with
        | none => (.err, c)
        | some i =>
          match parseU64 (slice buf w2.1 w2.2) with
          | none => (.err, c)
          | some g => (.ok (.ref i g, w3.2), c)
      else asInteger
    | none => asInteger

mutual

/-- `parse_with_lexer_ctx`: `lexer.set_pos(pos)` on `Err`, from wherever the lexer stands -/
def parseCtxC {R : Type} (env : Env R) (buf : Buf) : Nat → Nat → Option (Nat × Nat) → Nat → Nat → Cur (Prim R × Nat)
  | 0, pos, _, _, _ => (.oof, pos)
  | fuel + 1, pos, ctx, flags, depth =>
    match parseInnerC env buf fuel pos ctx flags depth with
    | (.ok r, c) => (.ok r, c)
    | (.err, c) => (setPosC buf c pos).bind fun _ c' => (.err, c')
    | (.panic, c) => (.panic, c)
    | (.oof, c) => (.oof, c)

/-- `_parse_with_lexer_ctx` -/
def parseInnerC {R : Type} (env : Env R) (buf : Buf) : Nat → Nat → Option (Nat × Nat) → Nat → Nat → Cur (Prim R × Nat)
  | 0, pos, _, _, _ => (.oof, pos)
  | fuel + 1, pos, ctx, flags, depth =>
    (Cur.pure' (remainingStart buf pos) pos).bind fun _ _ =>
    (nextC buf pos).bind fun w pos =>
    let first := slice buf w.1 w.2
    if first == [60, 60] then
      (Cur.pure' (check flags Flags.dict) pos).bind fun _ _ =>
      if depth == 0 then (.err, pos) else
      (parseDictC env buf fuel pos ctx (depth - 1) []).bind fun (dict, pos) c =>
      (peekC buf pos).bind fun pk _ =>
      if slice buf pk.1 pk.2 == kwStream then
        match ctx with
        | none => (.err, c)
        | some id => parseStreamObjectC env buf pos dict id
      else (.ok (.dict dict, pos), c)
    else if isInteger first then
      parseIntOrRefC buf pos first flags
    else match realNumber first with
    | some s =>
      (Cur.pure' (check flags Flags.number) pos).bind fun _ c =>
      (match env.parseReal s with
        | some r => (.ok (.real r, pos), c)
        | none => (.err, c))
    | none =>
    if first.head? == some 47 then
      (Cur.pure' (check flags Flags.name) pos).bind fun _ c =>
      (Cur.pure' (decodeName (first.drop 1)) c).bind fun s c => (.ok (.name s, pos), c)
    else if first == [91] then
      (Cur.pure' (check flags Flags.array) pos).bind fun _ _ =>
      if depth == 0 then (.err, pos) else
      parseArrayC env buf fuel pos ctx (depth - 1) []
    else if first == [40] then
      (Cur.pure' (check flags Flags.string) pos).bind fun _ c =>
      (Cur.pure' (remainingStart buf pos) c).bind fun _ c =>
      (Cur.pure' (collectString buf (buf.size - pos + 2) pos 0 []) c).bind fun (s, p) c =>
      (offsetPosC buf c (p - pos)).bind fun pos c =>
      (Cur.pure' (decryptStr env ctx s) c).bind fun s c => (.ok (.str s, pos), c)
    else if first == [60] then
      (Cur.pure' (check flags Flags.string) pos).bind fun _ c =>
      (Cur.pure' (remainingStart buf pos) c).bind fun _ c =>
      (Cur.pure' (collectHex buf pos (buf.size - pos + 2) pos []) c).bind fun (s, p) c =>
      (offsetPosC buf c (p - pos)).bind fun pos c =>
      (Cur.pure' (decryptStr env ctx s) c).bind fun s c => (.ok (.str s, pos), c)
    else if first == kwTrue then
      (Cur.pure' (check flags Flags.bool) pos).bind fun _ c => (.ok (.bool true, pos), c)
    else if first == kwFalse then
      (Cur.pure' (check flags Flags.bool) pos).bind fun _ c => (.ok (.bool false, pos), c)
    else if first == kwNull then
      (Cur.pure' (check flags Flags.null) pos).bind fun _ c => (.ok (.null, pos), c)
    else
      (readNC buf pos 50).bind fun _ c => (.err, c)

def parseArrayC {R : Type} (env : Env R) (buf : Buf) : Nat → Nat → Option (Nat × Nat) → Nat → List (Prim R) → Cur (Prim R × Nat)
  | 0, pos, _, _, _ => (.oof, pos)
  | fuel + 1, pos, ctx, depth, acc =>
    (peekC buf pos).bind fun pk _ =>
    if slice buf pk.1 pk.2 == [93] then
      (nextC buf pos).bind fun w c => (.ok (.arr acc.reverse, w.2), c)
    else
      (parseCtxC env buf fuel pos ctx Flags.any depth).bind fun (e, pos) _ =>
      parseArrayC env buf fuel pos ctx depth (e :: acc)

def parseDictC {R : Type} (env : Env R) (buf : Buf) : Nat → Nat → Option (Nat × Nat) → Nat → Dict R → Cur (Dict R × Nat)
  | 0, pos, _, _, _ => (.oof, pos)
  | fuel + 1, pos, ctx, depth, acc =>
    (nextC buf pos).bind fun w pos =>
    let token := slice buf w.1 w.2
    if token.head? == some 47 then
      (Cur.pure' (decodeName (token.drop 1)) pos).bind fun key _ =>
      (parseCtxC env buf fuel pos ctx Flags.any depth).bind fun (obj, pos) _ =>
      parseDictC env buf fuel pos ctx depth (dictInsert acc key obj)
    else if token == [62, 62] then (.ok (acc, pos), pos)
    else (.err, pos)

end

/-- `parse_with_lexer(lexer, r, flags)` with the cursor afterwards -/
def parseWithLexerC {R : Type} (env : Env R) (buf : Buf) (fuel pos flags : Nat) : Cur (Prim R × Nat) :=
  parseCtxC env buf fuel pos none flags maxDepth

end PdfLex
