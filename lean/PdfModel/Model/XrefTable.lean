import PdfModel.Model.Lexer
import PdfModel.Model.Parser
import PdfModel.Model.Xref

/-!
  Model of the *classic* cross-reference table reader and of the dispatch between the two section
  formats, `pdf/src/parser/parse_xref.rs`, on top of the lexer model (`Model/Lexer`, cursor based) and the
  object parser model (`Model/Parser`, for the trailer dictionary); and of what
  `Backend::read_xref_table_and_trailer` (`pdf/src/backend.rs`) reads out of a trailer dictionary.

  Rust item                                          model definition
  -------------------------------------------------  ---------------------------------------------------
  lexer.next_as::<u32>()                             `nextAsU32`  (`next`, then `str::parse::<u32>` = `parseU32`)
  w.to::<ObjNr>() / to::<GenNr>() / to::<usize>()    `PdfLex.parseU64`  (`ObjNr = GenNr = u64`, 64-bit `usize`)
  the body of `for i in 0..num_ids { … }`            `readEntry`  (three `next`; `w1 == "trailer"` → Err;
                                                       `f` → `Free{next, gen}`, `n` → `Raw{pos, gen}`, else Err)
  `for i in 0..num_ids`                              `entryLoop`  (structural on `num_ids`)
  `while lexer.peek()? != "trailer" { … }`           `tableLoop`  (fuel: one unit per subsection)
  `t!(lexer.next_expect("trailer"))`                 in `parseTable`: sections and the position behind the keyword
  parse_with_lexer(DICT) + into_dictionary           `trailerDict`
  parse_xref_table_and_trailer                       `parseXrefTableAndTrailer`
  read_xref_and_trailer_at                           `readXrefAndTrailerAt`  (`next`; `"xref"` → table;
                                                       else `lexer.back()?` and the stream reader)
  parse_xref_stream_and_trailer                      parameter `stm : Buf → Nat → Out (List Sub × Dict R)`
                                                       (its row reader is `Xref.parseSections`, Model/XrefStream)
  trailer.get("Size")…as_u32(), > MAX_ID             `trailerSize`
  trailer.get("Prev") … as_usize()                   `trailerPrev`

  Errors: every `t!(…)`/`?` is `.err`; the lexer's slice panics are the `.panic`s of `Model/Lexer`.
  `peek` never returns `Err` for EOF (it hands back an empty lexeme, which is not `"trailer"`; the
  following `next_as` then fails with EOF).
  Fuel: `entryLoop` recurses on `num_ids` itself.  `tableLoop` gets one unit of fuel per subsection;
  a subsection header consumes at least two bytes, so `buf.size` units always suffice
  (`defaultFuel`); `.oof` marks exhaustion.
-/

namespace XrefTable
open PdfLex Xref

/-- `trailer` -/
def kwTrailer : List UInt8 := [116, 114, 97, 105, 108, 101, 114]
/-- `xref` -/
def kwXref : List UInt8 := [120, 114, 101, 102]
/-- `f` -/
def kwF : List UInt8 := [102]
/-- `n` -/
def kwN : List UInt8 := [110]
/-- `Size` -/
def keySize : List UInt8 := [83, 105, 122, 101]
/-- `Prev` -/
def keyPrev : List UInt8 := [80, 114, 101, 118]

/-- `str::from_utf8(tok)?.parse::<u32>()` (`none` = `Err`): optional `+`, one or more digits, `≤ u32::MAX` -/
def parseU32 (t : List UInt8) : Option Nat :=
  let ds := stripPlus t
  if ds.isEmpty || !allDigits ds then none
  else if decVal ds > 4294967295 then none else some (decVal ds)

/-- `lexer.next_as::<u32>()`: the number and the new position -/
def nextAsU32 (buf : Buf) (pos : Nat) : Out (Nat × Nat) :=
  match next buf pos with
  | .ok w =>
    match parseU32 (slice buf w.1 w.2) with
    | some n => .ok (n, w.2)
    | none => .err
  | .err => .err | .panic => .panic | .oof => .oof

/-- what the three lexemes of one entry become -/
def entryOfTokens (t1 t2 t3 : List UInt8) : Out XRef :=
  if t3 == kwF then
    match parseU64 t1, parseU64 t2 with
    | some a, some g => .ok (.free a g)
    | _, _ => .err
  else if t3 == kwN then
    match parseU64 t1, parseU64 t2 with
    | some a, some g => .ok (.raw a g)
    | _, _ => .err
  else .err                                            -- UnexpectedLexeme, expected "f or n"

/-- one round of `for i in 0..num_ids`: the entry and the new position -/
def readEntry (buf : Buf) (pos : Nat) : Out (XRef × Nat) :=
  match next buf pos with
  | .ok w1 =>
    if slice buf w1.1 w1.2 == kwTrailer then .err      -- "declares {} entries, but only {} follow"
    else
      match next buf w1.2 with
      | .ok w2 =>
        match next buf w2.2 with
        | .ok w3 =>
          match entryOfTokens (slice buf w1.1 w1.2) (slice buf w2.1 w2.2) (slice buf w3.1 w3.2) with
          | .ok e => .ok (e, w3.2)
          | .err => .err | .panic => .panic | .oof => .oof
        | .err => .err | .panic => .panic | .oof => .oof
      | .err => .err | .panic => .panic | .oof => .oof
  | .err => .err | .panic => .panic | .oof => .oof

/-- `for i in 0..num_ids { … }` (`acc` reversed) -/
def entryLoop (buf : Buf) : Nat → Nat → List XRef → Out (List XRef × Nat)
  | 0, pos, acc => .ok (acc.reverse, pos)
  | n + 1, pos, acc =>
    match readEntry buf pos with
    | .ok (e, p) => entryLoop buf n p (e :: acc)
    | .err => .err | .panic => .panic | .oof => .oof

/-- one subsection: `next_as::<u32>` twice, then the entries -/
def readSub (buf : Buf) (pos : Nat) : Out (Sub × Nat) :=
  match nextAsU32 buf pos with
  | .ok (first, p1) =>
    match nextAsU32 buf p1 with
    | .ok (num, p2) =>
      match entryLoop buf num p2 [] with
      | .ok (es, p3) => .ok (⟨first, es⟩, p3)
      | .err => .err | .panic => .panic | .oof => .oof
    | .err => .err | .panic => .panic | .oof => .oof
  | .err => .err | .panic => .panic | .oof => .oof

/-- `while lexer.peek()? != "trailer" { … }` (`acc` reversed): the subsections and the position at which
    `peek` saw the keyword -/
def tableLoop (buf : Buf) : Nat → Nat → List Sub → Out (List Sub × Nat)
  | 0, _, _ => .oof
  | fuel + 1, pos, acc =>
    match peek buf pos with
    | .ok w =>
      if slice buf w.1 w.2 == kwTrailer then .ok (acc.reverse, pos)
      else
        match readSub buf pos with
        | .ok (s, p) => tableLoop buf fuel p (s :: acc)
        | .err => .err | .panic => .panic | .oof => .oof
    | .err => .err | .panic => .panic | .oof => .oof

/-- the table part of `parse_xref_table_and_trailer`, up to and including `next_expect("trailer")`:
    the subsections and the position right behind the keyword -/
def parseTable (buf : Buf) (fuel pos : Nat) : Out (List Sub × Nat) :=
  match tableLoop buf fuel pos [] with
  | .ok (subs, p) =>
    match nextExpect buf p kwTrailer with
    | .ok p' => .ok (subs, p')
    | .err => .err | .panic => .panic | .oof => .oof
  | .err => .err | .panic => .panic | .oof => .oof

/-- `t!(parse_with_lexer(lexer, resolve, ParseFlags::DICT))` then `t!(trailer.into_dictionary())` -/
def trailerDict {R : Type} (env : Env R) (buf : Buf) (pfuel pos : Nat) : Out (Dict R × Nat) :=
  match parseWithLexer env buf pfuel pos Flags.dict with
  | .ok (.dict d, p) => .ok (d, p)
  | .ok (_, _) => .err
  | .err => .err | .panic => .panic | .oof => .oof

/-- `parse_xref_table_and_trailer`: subsections, trailer dictionary, final position.
    `fuel` drives the subsection loop, `pfuel` the object parser. -/
def parseXrefTableAndTrailer {R : Type} (env : Env R) (buf : Buf) (fuel pfuel pos : Nat) :
    Out ((List Sub × Dict R) × Nat) :=
  match parseTable buf fuel pos with
  | .ok (subs, p) =>
    match trailerDict env buf pfuel p with
    | .ok (d, p') => .ok ((subs, d), p')
    | .err => .err | .panic => .panic | .oof => .oof
  | .err => .err | .panic => .panic | .oof => .oof

/-- `read_xref_and_trailer_at`: `stm buf pos` is `parse_xref_stream_and_trailer` with the lexer at `pos`
    (where `lexer.back()` left it) -/
def readXrefAndTrailerAt {R : Type} (env : Env R) (stm : Buf → Nat → Out (List Sub × Dict R))
    (buf : Buf) (fuel pfuel pos : Nat) : Out (List Sub × Dict R) :=
  match next buf pos with
  | .ok w =>
    if slice buf w.1 w.2 == kwXref then
      match parseXrefTableAndTrailer env buf fuel pfuel w.2 with
      | .ok (r, _) => .ok r
      | .err => .err | .panic => .panic | .oof => .oof
    else
      match back buf w.2 with
      | .ok b => stm buf b.1
      | .err => .err | .panic => .panic | .oof => .oof
  | .err => .err | .panic => .panic | .oof => .oof

/-- fuel that always suffices for `tableLoop` on `buf` -/
def defaultFuel (buf : Buf) : Nat := buf.size + 1

/-- `Primitive::as_u32` / `as_usize` on the value of a trailer key: a non-negative `Integer` -/
def asUnsigned {R : Type} : Prim R → Out Nat
  | .int n => if n ≥ 0 then .ok n.toNat else .err
  | _ => .err

/-- `trailer.get("Size").ok_or(MissingEntry)?.as_u32()` -/
def trailerSize {R : Type} (d : Dict R) : Out Nat :=
  match dictGet d keySize with
  | some v => asUnsigned v
  | none => .err

/-- `match trailer.get("Prev") { Some(p) => Some(t!(p.as_usize())), None => None }` -/
def trailerPrev {R : Type} (d : Dict R) : Option (Out Nat) :=
  match dictGet d keyPrev with
  | some v => some (asUnsigned v)
  | none => none

end XrefTable
