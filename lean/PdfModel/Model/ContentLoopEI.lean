import PdfModel.Model.ContentLoop

/-!
  `inline_image` with the end-of-data search of repo commit 4386f8d (branch ws-w4b, the repair of the open C08
  finding `inline-image:EI-not-after-LF`): the data ends where a white-space character is followed by the token
  `EI`, i.e. `E` `I` and then the end of the stream, white-space or a delimiter.

  Rust (after that commit)                                        model
  --------------------------------------------------------------  ------------------------------
  let rest = lexer.get_remaining_slice();                         (absolute indices into `buf`)
  (0 .. rest.len()).find(|&i| is_white(rest[i])                   `findEI buf fuel pos`: the first `j ≥ pos` with
       && rest[i+1 ..].starts_with(b"EI")                           white-space at `j`, `E` `I` at `j+1`, `j+2`, and
       && ends_token(rest.get(i+3)))                                `j+3` absent / white-space / delimiter
  None => { lexer.offset_pos(rest.len()); bail!(..) }             `(false, len)`
  let data_end = (lexer.get_pos() + end).max(data_start);         `max j dataStart`
  lexer.offset_pos(end + 3);                                      cursor `j + 3`
  lexer.new_substr(data_start .. data_end)                        always a forward range

  `Model/ContentLoop.inlineImage` is the same function with the search of the tree this package was developed
  on (`seek_substr("\nEI")`, `data_end = pos - 3`). `Drv/C01` answers `c01.inline` with the variant that mirrors the
  code under test; both are proved total (`Lemmas/TotalContent`, `Lemmas/TotalContentEI`).
-/

namespace PdfLex

/-- `ends_token`: nothing, white-space or a delimiter -/
def endsToken (buf : Buf) (i : Nat) : Bool :=
  match buf[i]? with
  | none => true
  | some b => isWhitespace b || isDelimiter b

/-- the position of the white-space character in front of the closing `EI` (fuel `buf.size - pos`) -/
def findEI (buf : Buf) : Nat → Nat → Option Nat
  | 0, _ => none
  | fuel + 1, j =>
    match buf[j]? with
    | none => none
    | some b =>
      if isWhitespace b && buf[j + 1]? == some 69 && buf[j + 2]? == some 73 && endsToken buf (j + 3) then some j
      else findEI buf fuel (j + 1)

/-- `inline_image` after commit 4386f8d: `((ok?, lexer position), data range)` -/
def inlineImageEI {R : Type} (env : Env R) (buf : Buf) (o : Oracle) (pos : Nat) : Out ((Bool × Nat) × Option (Nat × Nat)) :=
  (inlineDictLoop env buf o (buf.size + 1) pos).bind fun (cont, p) =>
  if !cont then .ok ((false, p), none) else
  match next buf p with
  | .err => .ok ((false, p), none)
  | .panic => .panic
  | .oof => .oof
  | .ok w =>
    if slice buf w.1 w.2 != kwID then .ok ((false, w.2), none) else
    if w.2 + 1 > usizeMax then .panic else
    let dataStart := w.2 + 1
    (remainingStart buf w.2).bind fun _ =>
    match findEI buf (buf.size - w.2) w.2 with
    | none =>
      -- `lexer.offset_pos(rest.len())`
      (offsetPos buf w.2 (buf.size - w.2)).bind fun q => .ok ((false, q), none)
    | some j =>
      -- `(lexer.get_pos() + end).max(data_start)`, `lexer.offset_pos(end + 3)`
      let dataEnd := max j dataStart
      (offsetPos buf w.2 (j - w.2 + 3)).bind fun q =>
      if !o.imgOk q then .ok ((false, q), none) else
      (newSubstr buf dataStart dataEnd).bind fun s => .ok ((true, q), some s)

end PdfLex
