import PdfModel.Model.Schema

/-!
# The derived reader / writer and the container impls, as an interpreter of a `Schema` (C15, C18)

Rust items → definitions of this file

| Rust (`pdf_derive/src/lib.rs`, `pdf/src/object/mod.rs`, `pdf/src/primitive.rs`)        | here |
|-----------------------------------------------------------------------------------------|------|
| `primitive::Primitive` (streams left out)                                                | `Prim` (`created p`: a reference to an object the `Updater` has just created with content `p`) |
| `Dictionary::{get, remove, insert}` (an `IndexMap`; equality ignores the order)           | `dget`, `derase`, `dinsert` on association lists |
| `Dictionary::expect`                                                                     | `expect` |
| `PdfError` as far as its *kind* matters (C18)                                             | `Err` |
| `Resolve::{resolve, options}`; `StorageResolver::get` (resolve, read as `T`, wrap the error in `Shared`) | `Env`, `resolveP`, `getTyped` |
| `impl Object for Option<T> / Vec<T> / HashMap<Name,V> / (T,U) / Box<T> / MaybeRef<T> / RcRef<T> / Ref<T> / Lazy<T>` | `readShape` |
| the matching `ObjectWrite` impls                                                          | `writeShape` |
| `impl_object_for_struct` (type check, checks, per field: `remove`, default, `Null` for absent, catch-all, error wrapping) | `readFields`, `readStruct` |
| `impl_objectwrite_for_struct` (catch-all as base, `/Type`, checks, skip `Null`, `indirect` via `create`) | `writeFields`, `writeStruct` |
| `impl_object_for_enum` / `impl_objectwrite_for_enum` (name enums with `other`, integer enums) | `readEnum`, `writeEnum` |
| `Dictionary::from_primitive`, `i32/u32/usize/f32/bool/Name/PdfString/Primitive/()` impls, `Rectangle`, `Matrix` | `baseRd`, `baseWr` |

What is *not* modelled: the order of dictionary entries (`IndexMap::remove` is `swap_remove`; `IndexMap`'s
`==`, and every comparison with the implementation, ignores the order), the identity of objects created
through the `Updater` (`created p`), streams, the object cache and the recursion guard of
`StorageResolver::get` (C12/C13/C14), arithmetic (no operation of these functions can overflow or index).
None of the modelled Rust functions contains an index, `unwrap`, `assert!` or arithmetic operation: there
is no panic outcome, and results are `Except Err α` (the error *kind* is the subject of C18).
-/

namespace Derive

/-- kinds of `PdfError` the readers produce, wrap or look at -/
inductive Err where
  /-- `NullRef`: the entry of the object number is `XRef::Invalid` (inside the table, never defined) -/
  | nullRef
  /-- `FreeObject` -/
  | freeObject
  /-- `UnspecifiedXRefEntry`: object number ≥ length of the table -/
  | unspecified
  /-- `Try { source }` (the `t!` macro) -/
  | tryE (e : Err)
  /-- `Shared { source }` (an error that went through `get`'s cache) -/
  | shared (e : Err)
  /-- `FromPrimitive { field, source }` (the derived reader names the field) -/
  | fromPrimitive (field : String) (e : Err)
  /-- `MissingEntry { field }` -/
  | missingEntry (field : String)
  /-- every other error (`UnexpectedPrimitive`, `KeyValueMismatch`, `UnknownVariant`, `Other`, `Reference`, …) -/
  | other
  /-- model fuel exhausted — never an answer of the implementation -/
  | oof
  deriving DecidableEq, Repr, Inhabited

abbrev R (α : Type) := Except Err α

inductive Prim where
  | null
  | int (i : Int)
  /-- an `f32`, by its bit pattern -/
  | real (bits : Nat)
  | bool (b : Bool)
  | str (bs : List UInt8)
  | name (n : String)
  | arr (xs : List Prim)
  | dict (kvs : List (String × Prim))
  | ref (id gen : Nat)
  /-- `Primitive::Reference` to an object freshly created by the `Updater` with content `p` -/
  | created (p : Prim)
  deriving Inhabited

abbrev Dict := List (String × Prim)

/-! ## Dictionaries -/

/-- `Dictionary::get` -/
def dget (k : String) : Dict → Option Prim
  | [] => none
  | (k', v) :: t => if k' = k then some v else dget k t

/-- the dictionary left by `Dictionary::remove` -/
def derase (k : String) : Dict → Dict
  | [] => []
  | (k', v) :: t => if k' = k then derase k t else (k', v) :: derase k t

/-- `Dictionary::insert`: replace in place, else append -/
def dinsert (k : String) (v : Prim) : Dict → Dict
  | [] => [(k, v)]
  | (k', v') :: t => if k' = k then (k, v) :: t else (k', v') :: dinsert k v t

def dkeys (d : Dict) : List String := d.map (·.1)

def Prim.isNull : Prim → Bool
  | .null => true
  | _ => false

def Prim.isRef : Prim → Bool
  | .ref _ _ => true
  | .created _ => true
  | _ => false

/-! ## The environment of a reader -/

structure Env where
  /-- `Resolve::resolve` (`Storage::resolve_ref` looks at the object number only) -/
  resolve : Nat → R Prim
  /-- `ParseOptions::allow_error_in_option` -/
  tolerant : Bool
  /-- bound on chains of references followed by the self-recursive readers (`Dictionary`, `Vec`, `HashMap`) -/
  depth : Nat

/-- resolve a reference primitive -/
def resolveP (env : Env) : Prim → R Prim
  | .ref id _ => env.resolve id
  | .created q => .ok q
  | p => .ok p

/-- `Primitive::resolve`: one step, only if it is a reference -/
def resolve1 (env : Env) (p : Prim) : R Prim := resolveP env p

/-- follow references until something else turns up (`Dictionary::from_primitive`, `Vec<T>::from_primitive`
    and `HashMap::from_primitive` call themselves on the resolved value) -/
def chase (env : Env) : Nat → Prim → R Prim
  | 0, p => if p.isRef then .error .oof else .ok p
  | n + 1, p =>
    if p.isRef then
      match resolveP env p with
      | .ok q => chase env n q
      | .error e => .error e
    else .ok p

/-! ## Typed values -/

inductive Val where
  /-- value of a leaf type, carried as the primitive its own writer emits -/
  | leaf (p : Prim)
  | none
  | some (v : Val)
  | list (vs : List Val)
  | map (kvs : List (String × Val))
  | pair (a b : Val)
  /-- `MaybeRef::Direct` -/
  | direct (v : Val)
  /-- `RcRef` / `MaybeRef::Indirect`: the reference and the value loaded through `get` -/
  | indirect (r : Prim) (v : Val)
  /-- `Lazy`: the primitive, not yet looked at -/
  | lazy (p : Prim)
  /-- a derived struct: the values of the keyed fields in declaration order, and the catch-all -/
  | struct (vals : List Val) (other : Dict)
  deriving Inhabited

/-- semantics of the shapes that are not containers: leaves, derived models, type parameters -/
structure Sem where
  rd : Env → Shape → Prim → R Val
  wr : Shape → Val → R Prim
  /-- value of a `default = ".."` expression (may mention earlier fields) -/
  dflt : String → List Val → R Val

def Shape.isContainer : Shape → Bool
  | .option _ | .vec _ | .hashMap _ | .box _ | .maybeRef _ | .rcRef _ | .ref _ | .lazy _ | .pair _ _ => true
  | _ => false

/-- all-or-nothing map -/
def mapR {α β : Type} (f : α → R β) : List α → R (List β)
  | [] => .ok []
  | x :: xs =>
    match f x with
    | .error e => .error e
    | .ok y =>
      match mapR f xs with
      | .error e => .error e
      | .ok ys => .ok (y :: ys)

def mapKV {α β : Type} (f : α → R β) : List (String × α) → R (List (String × β))
  | [] => .ok []
  | (k, x) :: xs =>
    match f x with
    | .error e => .error e
    | .ok y =>
      match mapKV f xs with
      | .error e => .error e
      | .ok ys => .ok ((k, y) :: ys)

/-- the errors `Option<T>::from_primitive` answers with `Ok(None)` in every mode. At the pinned commit the
    two match arms `Err(PdfError::NullRef {..})` and `Err(PdfError::FreeObject {..})`: only the *bare*
    variants (D38). `peel` says whether `Try` / `Shared` wrappers are looked through (the repaired reader). -/
def Err.isMissing (peel : Bool) : Err → Bool
  | .nullRef => true
  | .freeObject => true
  | .unspecified => peel
  | .tryE e => peel && e.isMissing peel
  | .shared e => peel && e.isMissing peel
  | _ => false

/-- the reader configuration that differs between the pinned commit and the repaired tree -/
structure Cfg where
  /-- the `Option` reader, the derived field readers and `Lazy::load` look at the root cause of a wrapped error
      (`PdfError::is_missing_object`) and count `UnspecifiedXRefEntry` as a missing object -/
  peel : Bool
  deriving DecidableEq, Repr

/-- `StorageResolver::get::<T>` without the cache: resolve, read as `T`; every error is wrapped in `Shared` -/
def getTyped (env : Env) (rdT : Prim → R Val) (r : Prim) : R Val :=
  match resolveP env r with
  | .error e => .error (.shared e)
  | .ok q =>
    match rdT q with
    | .ok v => .ok v
    | .error e => .error (.shared e)

/-- `T::from_primitive` for the container impls of `object/mod.rs` -/
def readShape (cfg : Cfg) (sem : Sem) (env : Env) : Shape → Prim → R Val
  | .option a, p =>
    match p with
    | .null => .ok .none
    | p =>
      match readShape cfg sem env a p with
      | .ok v => .ok (.some v)
      | .error e =>
        if e.isMissing cfg.peel then .ok .none
        else if env.tolerant then .ok .none
        else .error e
  | .vec a, p =>
    -- `Array(_) => p.resolve(r)?.into_array()?…`, `Null => []`, `Reference(id) => Self::from_primitive(resolve(id)?)`,
    -- `_ => vec![T::from_primitive(p)]`
    match (if p.isRef then chase env env.depth p else .ok p) with
    | .error e => .error e
    | .ok (.arr xs) =>
      match mapR (fun x => readShape cfg sem env a x) xs with
      | .ok vs => .ok (.list vs)
      | .error e => .error e
    | .ok .null => .ok (.list [])
    | .ok q =>
      match readShape cfg sem env a q with
      | .ok v => .ok (.list [v])
      | .error e => .error e
  | .hashMap a, p =>
    match (if p.isRef then chase env env.depth p else .ok p) with
    | .error e => .error e
    | .ok .null => .ok (.map [])
    | .ok (.dict kvs) =>
      match mapKV (fun x => readShape cfg sem env a x) kvs with
      | .ok m => .ok (.map m)
      | .error e => .error e
    | .ok _ => .error .other
  | .pair a b, p =>
    match resolve1 env p with
    | .error e => .error e
    | .ok (.arr [x, y]) =>
      match readShape cfg sem env a x with
      | .error e => .error e
      | .ok va =>
        match readShape cfg sem env b y with
        | .error e => .error e
        | .ok vb => .ok (.pair va vb)
    | .ok _ => .error .other
  | .box a, p => readShape cfg sem env a p
  | .maybeRef a, p =>
    if p.isRef then
      match getTyped env (fun q => readShape cfg sem env a q) p with
      | .ok v => .ok (.indirect p v)
      | .error e => .error e
    else
      match readShape cfg sem env a p with
      | .ok v => .ok (.direct v)
      | .error e => .error e
  | .rcRef a, p =>
    if p.isRef then
      match getTyped env (fun q => readShape cfg sem env a q) p with
      | .ok v => .ok (.indirect p v)
      | .error e => .error e
    else .error .other
  | .ref _, p => if p.isRef then .ok (.leaf p) else .error .other
  | .lazy _, p => .ok (.lazy p)
  | s, p => sem.rd env s p

/-- `Lazy::load` -/
def lazyLoad (cfg : Cfg) (sem : Sem) (env : Env) (a : Shape) : Val → R Val
  | .lazy p =>
    if p.isRef then
      match getTyped env (fun q => readShape cfg sem env a q) p with
      | .ok v => .ok (.indirect p v)
      | .error e =>
        if cfg.peel && e.isMissing true then
          match readShape cfg sem env a .null with
          | .ok v => .ok (.direct v)
          | .error e => .error e
        else .error e
    else
      match readShape cfg sem env a p with
      | .ok v => .ok (.direct v)
      | .error e => .error e
  | _ => .error .other

/-- `T::to_primitive` for the container impls -/
def writeShape (sem : Sem) : Shape → Val → R Prim
  | .option _, .none => .ok .null
  | .option a, .some v => writeShape sem a v
  | .vec a, .list vs =>
    match mapR (fun v => writeShape sem a v) vs with
    | .ok ps => .ok (.arr ps)
    | .error e => .error e
  | .hashMap a, .map kvs =>
    match kvs with
    | [] => .ok .null
    | kvs =>
      match mapKV (fun v => writeShape sem a v) kvs with
      | .ok d => .ok (.dict d)
      | .error e => .error e
  | .pair a b, .pair x y =>
    match writeShape sem a x with
    | .error e => .error e
    | .ok p =>
      match writeShape sem b y with
      | .error e => .error e
      | .ok q => .ok (.arr [p, q])
  | .box a, v => writeShape sem a v
  | .maybeRef a, .direct v => writeShape sem a v
  | .maybeRef _, .indirect r _ => .ok r
  | .rcRef _, .indirect r _ => .ok r
  | .ref _, .leaf r => .ok r
  | .lazy _, .lazy p => .ok p
  | .option _, _ | .vec _, _ | .hashMap _, _ | .pair _ _, _ | .maybeRef _, _ | .rcRef _, _ | .ref _, _ | .lazy _, _ => .error .other
  | s, v => sem.wr s v

/-! ## The derived struct reader and writer -/

/-- `Dictionary::expect` -/
def expect (d : Dict) (key value : String) (required : Bool) : R Unit :=
  match dget key d with
  | some (.name n) => if n = value then .ok () else .error .other
  | some _ => .error .other
  | none => if required then .error (.missingEntry key) else .ok ()

def expectAll (d : Dict) : List (String × String) → R Unit
  | [] => .ok ()
  | (k, v) :: cs =>
    match expect d k v true with
    | .error e => .error e
    | .ok () => expectAll d cs

/-- a defaulted field whose value is `null`, or a reference to an object that does not exist, takes the
    default (repaired reader only; at the pinned commit both are `FromPrimitive` errors) -/
def readDefaulted (cfg : Cfg) (sem : Sem) (env : Env) (f : Field) (dx : String) (acc : List Val) : Option Prim → R Val
  | none => sem.dflt dx acc
  | some p =>
    if cfg.peel && p.isNull then sem.dflt dx acc
    else
      match readShape cfg sem env f.shape p with
      | .ok v => .ok v
      | .error e =>
        if cfg.peel && e.isMissing true then sem.dflt dx acc
        else .error (.fromPrimitive f.ident e)

/-- "Try to construct T from Primitive::Null": the absent-entry path of a field without default -/
def readAbsent (cfg : Cfg) (sem : Sem) (env : Env) (f : Field) : R Val :=
  match readShape cfg sem env f.shape .null with
  | .ok v => .ok v
  | .error _ => .error (.missingEntry f.ident)

/-- a field without default. Repaired reader (`cfg.peel`): an entry that refers to an object that does not exist
    is read like an absent entry (pinned commit: a `FromPrimitive` error). -/
def readPlain (cfg : Cfg) (sem : Sem) (env : Env) (f : Field) : Option Prim → R Val
  | some p =>
    match readShape cfg sem env f.shape p with
    | .ok v => .ok v
    | .error e =>
      if cfg.peel && e.isMissing true then readAbsent cfg sem env f
      else .error (.fromPrimitive f.ident e)
  | none => readAbsent cfg sem env f

/-- how one keyed field is read from the entry found under its key -/
def readField (cfg : Cfg) (sem : Sem) (env : Env) (f : Field) (acc : List Val) (entry : Option Prim) : R Val :=
  match f.default with
  | some dx => readDefaulted cfg sem env f dx acc entry
  | none => readPlain cfg sem env f entry

/-- the `let #name = …;` statements in declaration order. State: the dictionary (entries are removed as
    they are read), the values so far, the catch-all once its field has been reached. The dictionary that
    is left over is returned too (the derived reader drops it unless there is a catch-all field). -/
def readFields (cfg : Cfg) (sem : Sem) (env : Env) : List Field → Dict → List Val → Option Dict → R (List Val × Dict × Option Dict)
  | [], d, acc, oth => .ok (acc, d, oth)
  | f :: fs, d, acc, oth =>
    if f.skip then readFields cfg sem env fs d acc oth
    else if f.other then readFields cfg sem env fs d acc (some d)
    else
      match readField cfg sem env f acc (dget (f.key.getD "") d) with
      | .error e => .error e
      | .ok v => readFields cfg sem env fs (derase (f.key.getD "") d) (acc ++ [v]) oth

/-- `Dictionary::from_primitive` -/
def asDict (env : Env) (p : Prim) : R Dict :=
  match chase env env.depth p with
  | .error e => .error e
  | .ok (.dict d) => .ok d
  | .ok _ => .error .other

/-- `FromDict::from_dict` as derived -/
def readStructD (cfg : Cfg) (sem : Sem) (env : Env) (S : Schema) (d : Dict) : R Val :=
  match (match S.typeName with
         | some t => expect d "Type" t S.typeRequired
         | none => .ok ()) with
  | .error e => .error e
  | .ok () =>
    match expectAll d S.checks with
    | .error e => .error e
    | .ok () =>
      match readFields cfg sem env S.fields d [] none with
      | .error e => .error e
      | .ok (vals, _, oth) => .ok (.struct vals (oth.getD []))

/-- `Object::from_primitive` as derived: `Dictionary::from_primitive`, then `from_dict` -/
def readStruct (cfg : Cfg) (sem : Sem) (env : Env) (S : Schema) (p : Prim) : R Val :=
  match asDict env p with
  | .error e => .error e
  | .ok d => readStructD cfg sem env S d

/-- `indirect`: keep a reference, put anything else into a new object -/
def indirectOf (f : Field) (p : Prim) : Prim :=
  if f.indirect then (if p.isRef then p else .created p) else p

/-- what the writer emits for one keyed field: nothing for `Null`, else the (possibly indirect) value -/
def emit (sem : Sem) (f : Field) (v : Val) : R (Option Prim) :=
  match writeShape sem f.shape v with
  | .error e => .error e
  | .ok p => if p.isNull then .ok none else .ok (some (indirectOf f p))

def writeFields (sem : Sem) : List Field → List Val → Dict → R Dict
  | [], _, d => .ok d
  | f :: fs, vs, d =>
    if f.skip || f.other then writeFields sem fs vs d
    else
      match vs with
      | [] => .error .other
      | v :: vs' =>
        match emit sem f v with
        | .error e => .error e
        | .ok none => writeFields sem fs vs' d
        | .ok (some q) => writeFields sem fs vs' (dinsert (f.key.getD "") q d)

def insertChecks : List (String × String) → Dict → Dict
  | [], d => d
  | (k, v) :: cs, d => insertChecks cs (dinsert k (.name v) d)

/-- the dictionary before the fields are written: the catch-all (or empty), `/Type`, the checks -/
def writeBase (S : Schema) (other : Dict) : Dict :=
  let d0 := if S.hasOther then other else []
  let d1 := match S.typeName with
    | some t => dinsert "Type" (.name t) d0
    | none => d0
  insertChecks S.checks d1

def writeStruct (sem : Sem) (S : Schema) : Val → R Prim
  | .struct vals other =>
    match writeFields sem S.fields vals (writeBase S other) with
    | .ok d => .ok (.dict d)
    | .error e => .error e
  | _ => .error .other

/-! ## Name enums and integer enums -/

def findName (n : String) : List Variant → Option Variant
  | [] => none
  | v :: vs => if !v.other && v.name = n then some v else findName n vs

def findDisc (i : Int) : List Variant → Option Variant
  | [] => none
  | v :: vs => if v.disc = some i then some v else findDisc i vs

/-- the derived enum readers after the reference has been resolved -/
def readEnumPrim (S : Schema) (p : Prim) : R Val :=
  match S.kind with
  | .intEnum =>
    match p with
    | .int i => match findDisc i S.variants with
      | some _ => .ok (.leaf (.int i))
      | none => .error .other
    | _ => .error .other
  | _ =>
    match p with
    | .name n =>
      match findName n S.variants with
      | some _ => .ok (.leaf (.name n))
      | none => if S.variants.any (·.other) then .ok (.leaf (.name n)) else .error .other
    | _ => .error .other

/-- `match p.resolve(resolve)? { … }` (the repaired derive; at the pinned commit the match was on `p` itself and a
    reference was refused). Enum values are carried in their written form: `leaf (name n)` / `leaf (int i)`. -/
def readEnum (env : Env) (S : Schema) (p : Prim) : R Val :=
  match resolve1 env p with
  | .error e => .error e
  | .ok q => readEnumPrim S q

/-- which carried values are values of the enum: a listed variant, or (with an `other` variant) any name -/
def enumValid (S : Schema) : Val → Bool
  | .leaf (.int i) => S.kind == .intEnum && (findDisc i S.variants).isSome
  | .leaf (.name n) => S.kind != .intEnum && ((findName n S.variants).isSome || S.variants.any (·.other))
  | _ => false

def writeEnum (S : Schema) (v : Val) : R Prim :=
  if enumValid S v then
    match v with
    | .leaf p => .ok p
    | _ => .error .other
  else .error .other

/-! ## Leaves implemented by hand in `object/mod.rs`, `primitive.rs`, `object/types.rs`, `content.rs` -/

/-- `i32 as f32`: round to nearest, ties to even; the result as a bit pattern -/
def f32OfNat (n : Nat) : Nat :=
  if n = 0 then 0 else
  let e := n.log2               -- 2^e ≤ n < 2^(e+1)
  if e ≤ 23 then
    (e + 127) * 2 ^ 23 + (n * 2 ^ (23 - e) - 2 ^ 23)
  else
    let sh := e - 23
    let q := n / 2 ^ sh         -- 24 significant bits
    let r := n % 2 ^ sh
    let half := 2 ^ (sh - 1)
    let q' := if r > half ∨ (r = half ∧ q % 2 = 1) then q + 1 else q
    -- q' = 2^24 carries into the exponent: (e+127)*2^23 + (2^24 - 2^23) = (e+128)*2^23
    (e + 127) * 2 ^ 23 + (q' - 2 ^ 23)

def f32OfInt (i : Int) : Nat :=
  if i < 0 then 2 ^ 31 + f32OfNat i.natAbs else f32OfNat i.natAbs

def asInteger : Prim → R Prim
  | .int i => .ok (.int i)
  | _ => .error .other

def asU32 : Prim → R Prim
  | .int i => if i ≥ 0 then .ok (.int i) else .error .other
  | _ => .error .other

def asNumber : Prim → R Prim
  | .int i => .ok (.real (f32OfInt i))
  | .real b => .ok (.real b)
  | _ => .error .other

def asBool : Prim → R Prim
  | .bool b => .ok (.bool b)
  | _ => .error .other

def asName : Prim → R Prim
  | .name n => .ok (.name n)
  | _ => .error .other

def asString : Prim → R Prim
  | .str s => .ok (.str s)
  | _ => .error .other

/-- `match p { Reference(id) => r.resolve(id)?.as_x(), p => p.as_x() }` -/
def viaResolve (env : Env) (f : Prim → R Prim) (p : Prim) : R Prim :=
  if p.isRef then
    match resolveP env p with
    | .ok q => f q
    | .error e => .error e
  else f p

def numbers : List Prim → R (List Prim)
  | [] => .ok []
  | x :: xs =>
    match asNumber x with
    | .error e => .error e
    | .ok y =>
      match numbers xs with
      | .error e => .error e
      | .ok ys => .ok (y :: ys)

def allReal : List Prim → Bool
  | [] => true
  | .real _ :: xs => allReal xs
  | _ :: _ => false

/-- readers of the hand-written leaf types, result in written form -/
def baseRdPrim (env : Env) (leaf : String) (p : Prim) : R Prim :=
  match leaf with
  | "i32" => viaResolve env asInteger p
  | "u32" => viaResolve env asU32 p
  | "usize" => viaResolve env asU32 p
  | "f32" => viaResolve env asNumber p
  | "bool" => viaResolve env asBool p
  | "Name" => viaResolve env asName p
  | "PdfString" =>
    -- `Reference(id) => PdfString::from_primitive(r.resolve(id)?, &NoResolve)`: a second reference is an error
    viaResolve env asString p
  | "Primitive" => .ok p
  | "Dictionary" =>
    match asDict env p with
    | .ok d => .ok (.dict d)
    | .error e => .error e
  | "()" => .ok .null
  | "Rectangle" =>
    match resolve1 env p with
    | .error e => .error e
    | .ok (.arr xs) =>
      if xs.length = 4 then
        match numbers xs with
        | .ok ys => .ok (.arr ys)
        | .error e => .error e
      else .error .other
    | .ok _ => .error .other
  | "Matrix" =>
    -- `p.resolve(resolve)?.into_array()?`, then the first six elements
    match resolve1 env p with
    | .error e => .error e
    | .ok (.arr xs) =>
      if xs.length ≥ 6 then
        match numbers (xs.take 6) with
        | .ok ys => .ok (.arr ys)
        | .error e => .error e
      else .error .other
    | .ok _ => .error .other
  | "PlainRef" => if p.isRef then .ok p else .error .other
  | _ => .error .oof

/-- which carried primitives are values of the leaf type (the image of its writer) -/
def baseValid (leaf : String) (p : Prim) : Bool :=
  match leaf, p with
  | "i32", .int _ => true
  | "u32", .int i => i ≥ 0
  | "usize", .int i => i ≥ 0
  | "f32", .real _ => true
  | "bool", .bool _ => true
  | "Name", .name _ => true
  | "PdfString", .str _ => true
  | "Primitive", _ => true
  | "Dictionary", .dict _ => true
  | "()", .null => true
  | "Rectangle", .arr xs => xs.length = 4 && allReal xs
  | "Matrix", .arr xs => xs.length = 6 && allReal xs
  | "PlainRef", p => p.isRef
  | _, _ => false

def baseLeaves : List String :=
  ["i32", "u32", "usize", "f32", "bool", "Name", "PdfString", "Primitive", "Dictionary", "()", "Rectangle", "Matrix", "PlainRef"]

/-- literal defaults: integer, float (`0.`, `1000.`), `true` / `false` -/
def literalDefault (dx : String) : R Val :=
  if dx = "true" then .ok (.leaf (.bool true))
  else if dx = "false" then .ok (.leaf (.bool false))
  else match dx.toInt? with
    | some i => .ok (.leaf (.int i))
    | none =>
      if dx.endsWith "." then
        match (dx.dropEnd 1).toString.toInt? with
        | some i => .ok (.leaf (.real (f32OfInt i)))
        | none => .error .oof
      else .error .oof

def baseSem : Sem where
  rd := fun env s p =>
    match s with
    | .leaf n =>
      match baseRdPrim env n p with
      | .ok q => .ok (.leaf q)
      | .error e => .error e
    | _ => .error .oof
  wr := fun s v =>
    match s, v with
    | .leaf n, .leaf p => if baseValid n p then .ok p else .error .other
    | _, _ => .error .other
  dflt := fun dx _ => literalDefault dx

/-! ## Derived models as leaves of other models -/

def findSchema (name : String) : List Schema → Option Schema
  | [] => none
  | S :: Ss => if S.name = name then some S else findSchema name Ss

def Shape.subst (x : String) (t : Shape) : Shape → Shape
  | .param y => if y = x then t else .param y
  | .leaf n => .leaf n
  | .model n => .model n
  | .leafApp n a => .leafApp n (Shape.subst x t a)
  | .modelApp n a => .modelApp n (Shape.subst x t a)
  | .option a => .option (Shape.subst x t a)
  | .vec a => .vec (Shape.subst x t a)
  | .hashMap a => .hashMap (Shape.subst x t a)
  | .box a => .box (Shape.subst x t a)
  | .maybeRef a => .maybeRef (Shape.subst x t a)
  | .rcRef a => .rcRef (Shape.subst x t a)
  | .ref a => .ref (Shape.subst x t a)
  | .lazy a => .lazy (Shape.subst x t a)
  | .pair a b => .pair (Shape.subst x t a) (Shape.subst x t b)

/-- `Files<T>` at `T := t` -/
def Schema.inst (S : Schema) (t : Shape) : Schema :=
  match S.params with
  | [x] => { S with params := [], fields := S.fields.map fun f => { f with shape := Shape.subst x t f.shape } }
  | _ => S

/-- defaults that name an enum variant (`CryptMethod::None`) or build a vector from literals and earlier
    fields (`vec![0, size]`) -/
def pathDefault (schemas : List Schema) (dx : String) : Option Val :=
  match dx.splitOn "::" with
  | [en, vr] =>
    match findSchema en schemas with
    | some S =>
      match S.variants.find? (·.ident = vr) with
      | some v => match S.kind with
        | .intEnum => v.disc.map fun i => .leaf (.int i)
        | _ => some (.leaf (.name v.name))
      | none => none
    | none => none
  | _ => none

/-- `PagesNode::from_primitive` (object/types.rs): resolve once, must be a dictionary, `/Type` is *removed* and
    decides between `t!(Page::from_dict(..))` and `t!(PageTree::from_dict(..))`. Value: the tag paired with the struct. -/
def readPagesNode (cfg : Cfg) (schemas : List Schema) (inner : Sem) (env : Env) (p : Prim) : R Val :=
  match resolve1 env p with
  | .error e => .error e
  | .ok (.dict d) =>
    match dget "Type" d with
    | none => .error (.missingEntry "Type")
    | some (.name t) =>
      let d' := derase "Type" d
      if t = "Page" then
        match findSchema "Page" schemas with
        | some S =>
          match readStructD cfg inner env S d' with
          | .ok v => .ok (.pair (.leaf (.name "Page")) v)
          | .error e => .error (.tryE e)
        | none => .error .oof
      else if t = "Pages" then
        match findSchema "PageTree" schemas with
        | some S =>
          match readStructD cfg inner env S d' with
          | .ok v => .ok (.pair (.leaf (.name "Pages")) v)
          | .error e => .error (.tryE e)
        | none => .error .oof
      else .error .other
    | some _ => .error .other
  | .ok _ => .error .other

def writePagesNode (schemas : List Schema) (inner : Sem) : Val → R Prim
  | .pair (.leaf (.name t)) v =>
    match findSchema (if t = "Page" then "Page" else "PageTree") schemas with
    | some S => writeStruct inner S v
    | none => .error .oof
  | _ => .error .other

/-- `PagesRc::from_primitive` / `PageRc::from_primitive`: `t!(RcRef::<PagesNode>::from_primitive(p))`, then the
    variant test (`WrongDictionaryType` otherwise) -/
def readPagesRc (cfg : Cfg) (schemas : List Schema) (inner : Sem) (env : Env) (want : String) (p : Prim) : R Val :=
  if p.isRef then
    match getTyped env (fun q => readPagesNode cfg schemas inner env q) p with
    | .error e => .error (.tryE e)
    | .ok (.pair (.leaf (.name t)) v) =>
      if t = want then .ok (.indirect p (.pair (.leaf (.name t)) v)) else .error .other
    | .ok _ => .error .other
  else .error (.tryE .other)

/-- `vec![a, b, ..]` with integer literals and names of earlier fields (`XRefInfo::index`: `vec![0, size]`) -/
def vecDefault (schemas : List Schema) (dx : String) (acc : List Val) : Option Val :=
  if dx.startsWith "vec![" && dx.endsWith "]" then
    let inner := ((dx.drop 5).toString.dropEnd 1).toString
    let owner := schemas.find? fun S => S.fields.any fun f => f.default == some dx
    let elems := (inner.splitOn ",").map fun e => e.trimAscii.toString
    let vals := elems.map fun e =>
      match e.toInt? with
      | some i => some (Val.leaf (.int i))
      | none =>
        match owner with
        | some S => match (S.keyed.map (·.ident)).idxOf? e with
          | some i => acc[i]?
          | none => none
        | none => none
    if vals.all Option.isSome then some (.list (vals.filterMap id)) else none
  else none

/-- one more level of derived models on top of `inner` -/
def structSem (cfg : Cfg) (schemas : List Schema) (inner : Sem) : Sem where
  rd := fun env s p =>
    match s with
    | .model n =>
      match findSchema n schemas with
      | some S =>
        match S.kind with
        | .struct => readStruct cfg inner env S p
        | .nameEnum | .intEnum => readEnum env S p
        | _ => .error .oof
      | none => .error .oof
    | .modelApp n t =>
      match findSchema n schemas with
      | some S => readStruct cfg inner env (S.inst t) p
      | none => .error .oof
    | .leaf "PagesNode" => readPagesNode cfg schemas inner env p
    | .leaf "PagesRc" => readPagesRc cfg schemas inner env "Pages" p
    | .leaf "PageRc" => readPagesRc cfg schemas inner env "Page" p
    | s => inner.rd env s p
  wr := fun s v =>
    match s with
    | .model n =>
      match findSchema n schemas with
      | some S =>
        match S.kind with
        | .struct => writeStruct inner S v
        | .nameEnum | .intEnum => writeEnum S v
        | _ => .error .oof
      | none => .error .oof
    | .modelApp n t =>
      match findSchema n schemas with
      | some S => writeStruct inner (S.inst t) v
      | none => .error .oof
    | .leaf "PagesNode" => writePagesNode schemas inner v
    | .leaf "PagesRc" | .leaf "PageRc" =>
      match v with
      | .indirect r _ => .ok r
      | _ => .error .other
    | s => inner.wr s v
  dflt := fun dx acc =>
    match pathDefault schemas dx with
    | some v => .ok v
    | none =>
      match vecDefault schemas dx acc with
      | some v => .ok v
      | none => inner.dflt dx acc

/-- `n` levels of nested derived models over the hand-written leaves -/
def semN (cfg : Cfg) (schemas : List Schema) : Nat → Sem
  | 0 => baseSem
  | n + 1 => structSem cfg schemas (semN cfg schemas n)

end Derive
