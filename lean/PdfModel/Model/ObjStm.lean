import PdfModel.Model.OffLex

/-
  Model of the object-stream reader, pdf/src/object/stream.rs:345-391, and of the member lookup in the
  compressed branch of `Storage::resolve_ref` (pdf/src/file.rs).

  Rust                                                        model
  ----                                                        -----
  ObjectStream::from_primitive, the loop                      parseHeader n data
     for _ in 0..N { next()?.to::<ObjNr>()?; next()?.to::<usize>()? ; offsets.push(offset) }
  ObjectStream::get_object_slice(index)                       getObjectSlice offsets first data index
     index >= offsets.len()            → Err(ObjStmOutOfBounds)          .err
     first.checked_add(offsets[index]) → Err(Invalid)                    .err on overflow
     self.inner.data(resolve)?                                           `data : Out Bytes`
     end = data.len() for the last index, else first.checked_add(offsets[index+1])   .err on overflow
     (before the `fix:` commit both were plain `+`: a panic with overflow checks; `addOld`)
  data.get(range).ok_or_else(..)  (resolve_ref)               memberSlice data (start, stop)
  the three steps in the order of resolve_ref                 member n first data index
-/

namespace ObjStm
open OffLex

/-- The header of an object stream: `n` pairs `object-number offset`; the offsets in order. -/
def parseHeader : Nat → Bytes → Out (List Nat)
  | 0, _ => .ok []
  | n + 1, r =>
    match nextWord r with
    | .ok (w1, r1) =>
      match parseUsize w1 with
      | .ok _ =>
        match nextWord r1 with
        | .ok (w2, r2) =>
          match parseUsize w2 with
          | .ok off =>
            match parseHeader n r2 with
            | .ok offs => .ok (off :: offs)
            | .err => .err | .panic => .panic | .oof => .oof
          | .err => .err | .panic => .panic | .oof => .oof
        | .err => .err | .panic => .panic | .oof => .oof
      | .err => .err | .panic => .panic | .oof => .oof
    | .err => .err | .panic => .panic | .oof => .oof

/-- `ObjectStream::get_object_slice`: the byte range of member `index` in the decoded data. -/
def getObjectSlice (offsets : List Nat) (first : Nat) (data : Out Bytes) (index : Nat) : Out (Bytes × Nat × Nat) :=
  if index ≥ offsets.length then .err
  else
    match offsets[index]? with
    | none => .panic
    | some o =>
      let start := first + o
      if start > usizeMax then .err
      else
        match data with
        | .ok d =>
          if index = offsets.length - 1 then .ok (d, start, d.length)
          else
            match offsets[index + 1]? with
            | none => .panic
            | some o2 =>
              let stop := first + o2
              if stop > usizeMax then .err else .ok (d, start, stop)
        | .err => .err | .panic => .panic | .oof => .oof

/-- the unchecked `first + offset` of the tree before the repair -/
def addOld (first off : Nat) : Out Nat := if first + off > usizeMax then .panic else .ok (first + off)

/-- `data.get(start..stop)`: `None` (an error in `resolve_ref`) unless `start ≤ stop ≤ data.len()`. -/
def memberSlice (d : Bytes) (start stop : Nat) : Out Bytes :=
  if start ≤ stop ∧ stop ≤ d.length then .ok ((d.drop start).take (stop - start)) else .err

/-- header, range and slice of member `index` of an object stream with `/N n`, `/First first`. -/
def member (n first : Nat) (data : Bytes) (index : Nat) : Out Bytes :=
  match parseHeader n data with
  | .ok offsets =>
    match getObjectSlice offsets first (.ok data) index with
    | .ok (d, a, b) => memberSlice d a b
    | .err => .err | .panic => .panic | .oof => .oof
  | .err => .err | .panic => .panic | .oof => .oof

end ObjStm
