import PdfModel.Model.PageTree
import PdfModel.Model.OpenBytes
import PdfModel.Model.BuildBytes

/-!
  C07 at byte level: the page-tree model (`Model/PageTree.lean`) fed by the byte-level open path.

  Rust                                                               model
  ----------------------------------------------------------------  ------------------------------------------
  `File::load`: `Storage::with_cache` + `load_storage_and_trailer`    `OpenBytes.openB`
  `Trailer.root : RcRef<Catalog>`, `Catalog.pages : PagesRc`          `rootOf` (trailer /Root → catalog /Pages)
  `resolve.get::<PagesNode>(r)`: `resolve(r)` then
     `PagesNode::from_primitive` (typing by /Type, the fields of the
     derived readers of `PageTree` / `Page` that C07 observes:
     /Parent, /Kids, /Count, /MediaBox, /CropBox, /Resources)         `OpenBytes.resolveB` then `nodeOf`
  the object table seen through the resolver                          `tblB`
  `File::num_pages`, `File::get_page(i)`, `Page::media_box` …         `numPagesB`, `getPageB` + `PageTree.mediaBox` …

  `nodeOf` is a hand-written reading of the two derived readers restricted to the inheritable attributes in the
  form the C07 documents use (markers): a box is `[_ _ m _]` with `m` a non-negative integer, resources are a
  dictionary whose /Properties has the single key `M<m>`. The full derived readers (`Generated/Schemas.lean`,
  every field of `Page`) are not used here: see `C07_bytes_full` in Props/C07.lean.
-/

namespace PageTreeB
open PdfLex OpenBytes PageTree BuildBytes

variable {R : Type}

def kMediaBox : List UInt8 := [77, 101, 100, 105, 97, 66, 111, 120]
def kCropBox : List UInt8 := [67, 114, 111, 112, 66, 111, 120]
def kProperties : List UInt8 := [80, 114, 111, 112, 101, 114, 116, 105, 101, 115]
def kRootK : List UInt8 := [82, 111, 111, 116]

/-- marker of a rectangle `[_ _ m _]` -/
def boxMarker : Option (Prim R) → Option Nat
  | some (.arr [_, _, .int m, _]) => if m ≥ 0 then some m.toNat else none
  | _ => none

/-- marker of a resources dictionary `<< /Properties << /M<m> … >> … >>` -/
def resMarker : Option (Prim R) → Option Nat
  | some (.dict d) =>
    match dictGet d kProperties with
    | some (.dict ((77 :: ds, _) :: _)) =>
      match OffLex.parseUsize ds with
      | .ok m => some m
      | _ => none
    | _ => none
  | _ => none

def attrsOf (d : Dict R) : Attrs :=
  ⟨boxMarker (dictGet d kMediaBox), boxMarker (dictGet d kCropBox), resMarker (dictGet d kResources)⟩

/-- `Vec<Ref<PagesNode>>` from the /Kids array -/
def refsOf : List (Prim R) → Option (List Nat)
  | [] => some []
  | .ref id _ :: r => (refsOf r).map (id :: ·)
  | _ :: _ => none

/-- `PagesNode::from_primitive` on a resolved primitive, restricted to what C07 observes -/
def nodeOf (v : Prim R) : Obj :=
  match v with
  | .dict d =>
    match dictGet d kType with
    | some (.name t) =>
      if t = kPage then
        match dictGet d kParent with
        | some (.ref p _) => .page p (attrsOf d)
        | _ => .other
      else if t = kPagesT then
        let parent : Option (Option Nat) := match dictGet d kParent with
          | none => some none
          | some (.ref p _) => some (some p)
          | some _ => none
        match parent, dictGet d kKids, dictGet d kCount with
        | some parent, some (.arr ks), some (.int c) =>
          match refsOf ks with
          | some kids => if c ≥ 0 then .pages parent kids c.toNat (attrsOf d) else .other
          | none => .other
        | _, _, _ => .other
      else .other
    | _ => .other
  | _ => .other

/-- the object table of an opened file as the page-tree code sees it; `rd`: the typed reader of a node
    (`nodeOf` in the driver and in `page_nth_bytes_partial`) -/
def tblB (rd : Prim R → Obj) (env : Env R) (pfuel : Nat) (dec : Dict R → List UInt8 → Out (List UInt8)) (rfuel : Nat)
    (bytes : List UInt8) (start : Nat) (t : Xref.Table) : Tbl := fun id =>
  match resolveB env pfuel dec rfuel bytes start t id with
  | .ok (.plain v) => some (rd v)
  | _ => none

/-- trailer /Root → catalog → /Pages -/
def rootOf (env : Env R) (pfuel : Nat) (dec : Dict R → List UInt8 → Out (List UInt8)) (rfuel : Nat)
    (bytes : List UInt8) (start : Nat) (t : Xref.Table) (T : Dict R) : Out Nat :=
  match dictGet T kRootK with
  | some (.ref c _) =>
    match resolveB env pfuel dec rfuel bytes start t c with
    | .ok (.plain (.dict d)) =>
      match dictGet d kPagesT with
      | some (.ref p _) => .ok p
      | _ => .err
    | .ok _ => .err
    | .err => .err | .panic => .panic | .oof => .oof
  | _ => .err

/-- `File::load` as far as the page tree is concerned: the table and the loaded root node -/
def openPagesB (rd : Prim R → Obj) (env : Env R) (pfuel : Nat) (dec : Dict R → List UInt8 → Out (List UInt8)) (ofuel rfuel lfuel : Nat)
    (bytes : List UInt8) : Out (Tbl × TreeRec) :=
  match openB env pfuel dec ofuel bytes with
  | .ok (start, t, T) =>
    match rootOf env pfuel dec rfuel bytes start t T with
    | .ok p =>
      let tbl := tblB rd env pfuel dec rfuel bytes start t
      match loadRoot tbl lfuel p with
      | .ok r => .ok (tbl, r)
      | .err => .err | .panic => .panic | .oof => .oof
    | .err => .err | .panic => .panic | .oof => .oof
  | .err => .err | .panic => .panic | .oof => .oof

/-- `File::get_page(i)` from the bytes of the file -/
def getPageB (rd : Prim R → Obj) (env : Env R) (pfuel : Nat) (dec : Dict R → List UInt8 → Out (List UInt8)) (ofuel rfuel lfuel : Nat)
    (bytes : List UInt8) (i : Nat) : Out Leaf :=
  match openPagesB rd env pfuel dec ofuel rfuel lfuel bytes with
  | .ok (tbl, r) => getPage tbl lfuel r i
  | .err => .err | .panic => .panic | .oof => .oof

/-- `File::num_pages` from the bytes of the file -/
def numPagesB (rd : Prim R → Obj) (env : Env R) (pfuel : Nat) (dec : Dict R → List UInt8 → Out (List UInt8)) (ofuel rfuel lfuel : Nat)
    (bytes : List UInt8) : Out Nat :=
  match openPagesB rd env pfuel dec ofuel rfuel lfuel bytes with
  | .ok (_, r) => .ok (numPages r)
  | .err => .err | .panic => .panic | .oof => .oof

end PageTreeB
