import PdfModel.Model.Content

/-!
# The `f32` instance of `RealOps` used by the model driver

IEEE-754 binary32 values are their bit patterns (`UInt32`); the five operations of `RealOps` are integer
arithmetic on the bit pattern, so they are executable in the driver *and* evaluable by the kernel.  The
correspondence stream `c08.real` compares them with Rust's `==`, unary `-`, `i32 as f32`, `{}` on the same
bit patterns (boundary values exhaustively, random beyond).
-/

namespace Content.F32

def expo (b : Nat) : Nat := (b / 8388608) % 256
def mant (b : Nat) : Nat := b % 8388608
def signBit (b : Nat) : Bool := decide (b ≥ 2147483648)

def isNaN (b : Nat) : Bool := expo b == 255 && mant b != 0

/-- `a == b` on `f32` -/
def beqBits (a b : Nat) : Bool :=
  !isNaN a && !isNaN b && (a == b || (a % 2147483648 == 0 && b % 2147483648 == 0))

/-- `-a` -/
def negBits (a : Nat) : Nat := if a ≥ 2147483648 then a - 2147483648 else a + 2147483648

/-- the magnitude of an integral finite `f32` (depends on exponent and mantissa only) -/
def magToNat (b : Nat) : Option Nat :=
  let e := expo b
  let m := mant b
  if e == 255 then none
  else if e == 0 then (if m == 0 then some 0 else none)
  else
    let sig := m + 8388608
    if e ≥ 150 then some (sig * 2 ^ (e - 150))
    else
      let sh := 150 - e
      if sh ≥ 24 then none
      else if sig % 2 ^ sh == 0 then some (sig / 2 ^ sh) else none

/-- the integer value of an integral finite `f32` -/
def toIntBits (b : Nat) : Option Int :=
  match magToNat b with
  | none => none
  | some v => some (if signBit b then -(Int.ofNat v) else Int.ofNat v)

def specialBits (b : Nat) : Option String :=
  if expo b == 255 then
    (if mant b != 0 then some "NaN" else if signBit b then some "-inf" else some "inf")
  else none

/-- bits (sign clear) of the `f32` nearest to the positive natural number `a` (ties to even) -/
def magOfNat (a : Nat) : Nat :=
  let l := Nat.log2 a
  if l ≤ 23 then (127 + l) * 8388608 + (a * 2 ^ (23 - l) - 8388608)
  else
    let sh := l - 23
    let q := a / 2 ^ sh
    let r := a % 2 ^ sh
    let half := 2 ^ (sh - 1)
    let q' := if r > half ∨ (r = half ∧ q % 2 = 1) then q + 1 else q
    if q' = 16777216 then (127 + l + 1) * 8388608
    else (127 + l) * 8388608 + (q' - 8388608)

/-- `n as f32` for an `i32` (round to nearest, ties to even) -/
def ofIntBits (n : Int) : Nat :=
  if n == 0 then 0 else (if n < 0 then 2147483648 else 0) + magOfNat n.natAbs

/-- bits of the `f32` nearest to the natural number `a` (ties to even), sign bit clear -/
def ofNatBits (a : Nat) : Nat := ofIntBits (Int.ofNat a)

/-- The integer that `{}` prints for an integral `f32` of magnitude `v` and (sign-less) bit pattern `b`:
    the shortest decimal digits that read back to the same `f32`, padded with zeros; among the candidates
    with the fewest digits the one nearest to `v`. -/
def shortestLoop (v b : Nat) : Nat → Nat
  | 0 => v
  | k + 1 =>
    let p := 10 ^ (k + 1)
    let lo := (v / p) * p
    let hi := lo + p
    let okLo := lo != 0 && ofNatBits lo == b
    let okHi := ofNatBits hi == b
    if okLo && okHi then (if v - lo ≤ hi - v then lo else hi)
    else if okLo then lo
    else if okHi then hi
    else shortestLoop v b k

def intDigitsBits (b : Nat) : Option Int :=
  match magToNat b with
  | none => none
  | some v =>
    let d := shortestLoop v (b % 2147483648) 39
    some (if signBit b then -(Int.ofNat d) else Int.ofNat d)

def bigBits (b : Nat) : Bool :=
  match magToNat b with
  | none => false
  | some v => decide (v ≥ 2147483648)

def ops : RealOps UInt32 where
  beq a b := beqBits a.toNat b.toNat
  neg a := UInt32.ofNat (negBits a.toNat)
  ofInt n := UInt32.ofNat (ofIntBits n)
  intDigits? a := intDigitsBits a.toNat
  big a := bigBits a.toNat
  special a := specialBits a.toNat

end Content.F32
