import PdfModel.Model.Enc
import PdfModel.Model.XrefStreamSection

/-!
  The filters of a cross-reference stream: what `Stream::<XRefInfo>::from_primitive` reads out of the stream
  dictionary (`StreamInfo::from_primitive`, pdf/src/object/stream.rs) and what `Stream::data` does with the raw
  bytes — the parameter `dec` of the section-head model `XrefSec.parseXrefStreamAndTrailer`
  (Model/XrefStreamSection, C17 package), instantiated with the filter model of `Model/Enc` (C05 package).

  Rust                                                              model
  ----                                                              -----
  usize::from_primitive(dict.remove("Length") or MissingEntry)      `lengthOk`   (an integer ≥ 0; a reference cannot be
                                                                                  resolved while the table is loaded)
  Vec::<Name>::from_primitive(dict.remove("Filter") or Null)        `Enc.nameList (pvalNames …)`
  Vec::<Option<Dictionary>>::from_primitive("DecodeParms" or Null)  `Enc.parmList (pvalDicts tolerant …)`  (`tolerant` =
                                                                     `allow_error_in_option`)
  for (i, filter) … decode_params.get(i) / Dictionary::default()    `Enc.pairFilters []`
  StreamFilter::from_kind_and_params                                `filterOfName`
  LZWFlateParams::from_primitive (derived: five defaulted i32)      `paramsOfDict`  (`XrefSec.entry`: null / unresolvable
                                                                                     reference = absent → the default)
  Stream::data → decode(raw, filters) one after the other           `decOf` = `Enc.decodeChain`

  Not modelled (no conforming cross-reference stream has them): `/F`, `/FFilter`, `/FDecodeParms`; the parameter
  dictionaries of DCT / CCITT / JBIG2 filters (those filters end in an error or in third-party code anyway).
-/

namespace XrefFilters
open PdfLex

variable {R : Type}

def keyLength : List UInt8 := [76, 101, 110, 103, 116, 104]
def keyFilter : List UInt8 := [70, 105, 108, 116, 101, 114]
def keyDecodeParms : List UInt8 := [68, 101, 99, 111, 100, 101, 80, 97, 114, 109, 115]
def keyPredictor : List UInt8 := [80, 114, 101, 100, 105, 99, 116, 111, 114]
def keyColors : List UInt8 := [67, 111, 108, 111, 114, 115]
def keyBpc : List UInt8 := [66, 105, 116, 115, 80, 101, 114, 67, 111, 109, 112, 111, 110, 101, 110, 116]
def keyColumns : List UInt8 := [67, 111, 108, 117, 109, 110, 115]
def keyEarlyChange : List UInt8 := [69, 97, 114, 108, 121, 67, 104, 97, 110, 103, 101]

def nmAsciiHex : List UInt8 := "ASCIIHexDecode".toUTF8.toList
def nmAscii85 : List UInt8 := "ASCII85Decode".toUTF8.toList
def nmLzw : List UInt8 := "LZWDecode".toUTF8.toList
def nmFlate : List UInt8 := "FlateDecode".toUTF8.toList
def nmJpx : List UInt8 := "JPXDecode".toUTF8.toList
def nmDct : List UInt8 := "DCTDecode".toUTF8.toList
def nmCcitt : List UInt8 := "CCITTFaxDecode".toUTF8.toList
def nmJbig2 : List UInt8 := "JBIG2Decode".toUTF8.toList
def nmCrypt : List UInt8 := "Crypt".toUTF8.toList
def nmRunLength : List UInt8 := "RunLengthDecode".toUTF8.toList

/-- a defaulted `i32` entry of a derived struct: absent (also `null`, unresolvable reference) → the default -/
def i32Entry (d : Dict R) (k : List UInt8) (dflt : Int) : Out Int :=
  match XrefSec.entry d k with
  | none => .ok dflt
  | some (.int n) => .ok n
  | some _ => .err

/-- `LZWFlateParams::from_primitive(Primitive::Dictionary(params))` -/
def paramsOfDict (d : Dict R) : Out Enc.Params :=
  match i32Entry d keyPredictor 1, i32Entry d keyColors 1, i32Entry d keyBpc 8, i32Entry d keyColumns 1,
      i32Entry d keyEarlyChange 1 with
  | .ok p, .ok c, .ok b, .ok w, .ok e => .ok { predictor := p, colors := c, bpc := b, columns := w, earlyChange := e }
  | _, _, _, _, _ => .err

/-- `StreamFilter::from_kind_and_params` -/
def filterOfName (name : List UInt8) (parms : Dict R) : Out Enc.Filter :=
  if name = nmAsciiHex then .ok .asciiHex
  else if name = nmAscii85 then .ok .ascii85
  else if name = nmLzw then
    match paramsOfDict parms with
    | .ok p => .ok (.lzw p)
    | .err => .err | .panic => .panic | .oof => .oof
  else if name = nmFlate then
    match paramsOfDict parms with
    | .ok p => .ok (.flate p)
    | .err => .err | .panic => .panic | .oof => .oof
  else if name = nmJpx then .ok .jpx
  else if name = nmDct then .ok .dct
  else if name = nmCcitt then .ok .ccittFax
  else if name = nmJbig2 then .ok .jbig2
  else if name = nmCrypt then .ok .crypt
  else if name = nmRunLength then .ok .runLength
  else .err

/-- the value of `/Filter` as `Vec::<Name>::from_primitive` sees it -/
def pvalNames : Option (Prim R) → Enc.PVal (List UInt8)
  | none => .null
  | some .null => .null
  | some (.name n) => .one n
  | some (.arr xs) => .arr (xs.map fun x => match x with
      | .name n => some n
      | _ => none)
  | some _ => .bad

/-- an element of `/DecodeParms` through `Option::<Dictionary>::from_primitive`: `null` → `None`; a dictionary →
    `Some`; a reference cannot be resolved while the table is loaded (`is_missing_object`) → `None`; anything else
    is a conversion error, which `allow_error_in_option` (`tolerant`) turns into `None`.  Outer `none` = `Err` -/
def parmElem (tolerant : Bool) : Prim R → Option (Option (Dict R))
  | .null => some none
  | .dict d => some (some d)
  | .ref _ _ => some none
  | _ => if tolerant then some none else none

/-- the value of `/DecodeParms` as `Vec::<Option<Dictionary>>::from_primitive` sees it -/
def pvalDicts (tolerant : Bool) : Option (Prim R) → Enc.PVal (Dict R)
  | none => .null
  | some .null => .null
  | some (.ref _ _) => .bad                               -- `r.resolve(id)?` at the top level
  | some (.arr xs) =>
    if xs.all fun x => (parmElem tolerant x).isSome then .arr (xs.map fun x => (parmElem tolerant x).getD none) else .bad
  | some v =>
    match parmElem tolerant v with
    | some (some d) => .one d
    | some none => .arr [none]
    | none => .bad

def mapFilters : List (List UInt8 × Dict R) → Out (List Enc.Filter)
  | [] => .ok []
  | (n, p) :: rest =>
    match filterOfName n p with
    | .ok f =>
      match mapFilters rest with
      | .ok fs => .ok (f :: fs)
      | .err => .err | .panic => .panic | .oof => .oof
    | .err => .err | .panic => .panic | .oof => .oof

/-- `/Length` as `usize::from_primitive` -/
def lengthOk (d : Dict R) : Bool :=
  match dictGet d keyLength with
  | some (.int n) => decide (n ≥ 0)
  | _ => false

/-- the filter list of `StreamInfo::from_primitive` -/
def filtersOfDict (tolerant : Bool) (d : Dict R) : Out (List Enc.Filter) :=
  if !lengthOk d then .err else
  match Enc.nameList (pvalNames (dictGet d keyFilter)) with
  | .ok names =>
    match Enc.parmList (pvalDicts tolerant (dictGet d keyDecodeParms)) with
    | .ok parms => mapFilters (Enc.pairFilters [] names parms)
    | .err => .err | .panic => .panic | .oof => .oof
  | .err => .err | .panic => .panic | .oof => .oof

/-- `Stream::data`: the raw bytes through the filters named by the dictionary, in order -/
def decOf (X : Enc.Ext) (tolerant : Bool) (d : Dict R) (raw : List UInt8) : Out (List UInt8) :=
  match filtersOfDict tolerant d with
  | .ok fs => Enc.decodeChain X raw fs
  | .err => .err | .panic => .panic | .oof => .oof

end XrefFilters
