import PdfModel.Model.ColorSpaceLoad

/-!
  `ColorSpace::to_primitive` (pdf/src/object/color.rs) — C15, against the reader model of the C01 package
  (`Model/ColorSpaceLoad.lean`).

  The writer implements three families; every other one ends in the crate's `unimplemented!()` (an `Err("Unimplemented @ …")`):

    DeviceCMYK            /DeviceCMYK
    DeviceRGB             /DeviceRGB
    Indexed(base, h, t)   [/Indexed <base> h <t>]   t: a string if shorter than 100 bytes, else `Stream::new((), t)`
                                                    placed directly in the array
    DeviceGray, Pattern, Named, Separation, ICCBased, DeviceN, CalGray, CalRGB, CalCMYK, Other:   unimplemented!()

  A stream placed directly in an array exists in memory only; here (as with `Prim.created`) it is identified with a
  reference to a stream object: the writer allocates object numbers from a counter and returns the stream objects it
  made, and the round-trip theorem is stated for every environment that holds them.
-/

namespace CSLoad
open Derive

/-- stream objects made by the writer: number, dictionary, data -/
abbrev Made := List (Nat × Dict × List UInt8)

/-- `ColorSpace::to_primitive`; `.error .oof` is the `unimplemented!()` arm. `next`: the first unused object number. -/
def csWrite : Nat → CS → R (Prim × Made × Nat)
  | n, .deviceCMYK => .ok (.name "DeviceCMYK", [], n)
  | n, .deviceRGB => .ok (.name "DeviceRGB", [], n)
  | n, .indexed base hival (.bytes bs) =>
    match csWrite n base with
    | .error e => .error e
    | .ok (pb, made, n1) =>
      if bs.length < 100 then .ok (.arr [.name "Indexed", pb, .int hival, .str bs], made, n1)
      else .ok (.arr [.name "Indexed", pb, .int hival, .ref n1 0],
                made ++ [(n1, [("Length", .int bs.length)], bs)], n1 + 1)
  | _, _ => .error .oof

/-- the values the writer implements: `hival` is a `u8`, the table is there as bytes -/
def CS.writable : CS → Bool
  | .deviceCMYK | .deviceRGB => true
  | .indexed base hival (.bytes _) => base.writable && decide (hival < 256)
  | _ => false

/-- an environment that holds the stream objects the writer made -/
def Holds (se : SEnv) (made : Made) : Prop :=
  ∀ e ∈ made, se.streams e.1 = some (e.2.1, e.2.2)

/-- structural equality of colour-space values (for the driver) -/
def Lookup.same : Lookup → Lookup → Bool
  | .bytes a, .bytes b => a == b
  | _, _ => false

def CS.same : CS → CS → Bool
  | .deviceGray, .deviceGray | .deviceRGB, .deviceRGB | .deviceCMYK, .deviceCMYK | .pattern, .pattern => true
  | .named a, .named b => a == b
  | .indexed b1 h1 l1, .indexed b2 h2 l2 => CS.same b1 b2 && h1 == h2 && Lookup.same l1 l2
  | _, _ => false

end CSLoad
