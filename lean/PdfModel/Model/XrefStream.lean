import PdfModel.Model.Xref

/-
  Model of the cross-reference *stream* section reader, pdf/src/parser/parse_xref.rs:

  Rust                                            model
  ----                                            -----
  read_u64_from_stream(width, data)               readU64
  parse_xref_section_from_stream(first, n, w, …)  parseSection   (strict / tolerant = `allowErr`)
  the `index.chunks_exact(2)` loop of
  parse_xref_stream_and_trailer                   parseSections

  `usize`/`u64` arithmetic is modelled with overflow-checks on (the harness and the test profile build
  that way): the `+=` of `read_u64_from_stream` panics when the sum does not fit 64 bits.
-/

namespace Xref

def U64 : Nat := 18446744073709551616

/-- the byte loop of `read_u64_from_stream`: `for i in (0..width).rev() { result += (data[0] as u64) << 8*i }` -/
def readLoop : Nat → List UInt8 → Nat → Out (Nat × List UInt8)
  | 0, data, acc => .ok (acc, data)
  | i + 1, data, acc =>
    match data with
    | [] => .panic                                  -- `data[0]` out of range
    | c :: rest =>
      let v := acc + c.toNat * 2 ^ (8 * i)
      if v ≥ U64 then .panic else readLoop i rest v  -- `+=` overflow

/-- `read_u64_from_stream` -/
def readU64 (width : Nat) (data : List UInt8) : Out (Nat × List UInt8) :=
  if width > 8 then .err
  else if width > data.length then .err
  else readLoop width data 0

def entryOfFields (ty f1 f2 : Nat) : Out XRef :=
  match ty with
  | 0 => .ok (.free f1 f2)
  | 1 => .ok (.raw f1 f2)
  | 2 => .ok (.stream f1 f2)
  | _ => .err                                        -- XRefStreamType

/-- one iteration of the entry loop -/
def readEntry (w0 w1 w2 : Nat) (data : List UInt8) : Out (XRef × List UInt8) :=
  let tyR : Out (Nat × List UInt8) := if w0 = 0 then .ok (1, data) else readU64 w0 data
  match tyR with
  | .ok (ty, d1) =>
    match readU64 w1 d1 with
    | .ok (f1, d2) =>
      match readU64 w2 d2 with
      | .ok (f2, d3) =>
        match entryOfFields ty f1 f2 with
        | .ok e => .ok (e, d3)
        | .err => .err | .panic => .panic | .oof => .oof
      | .err => .err | .panic => .panic | .oof => .oof
    | .err => .err | .panic => .panic | .oof => .oof
  | .err => .err | .panic => .panic | .oof => .oof

def readEntries (w0 w1 w2 : Nat) : Nat → List UInt8 → List XRef → Out (List XRef × List UInt8)
  | 0, data, acc => .ok (acc.reverse, data)
  | n + 1, data, acc =>
    match readEntry w0 w1 w2 data with
    | .ok (e, rest) => readEntries w0 w1 w2 n rest (e :: acc)
    | .err => .err | .panic => .panic | .oof => .oof

/-- `parse_xref_section_from_stream`; `width` is the `/W` array as read (any length).
    (The code after the repair of D34: the row width is summed with `checked_add`, a row width of zero is
    refused, and the number of rows the data can hold is `data.len() / entry_len` — no product that could
    overflow.) -/
def parseSection (first n : Nat) (width : List Nat) (data : List UInt8) (allowErr : Bool) :
    Out (Sub × List UInt8) :=
  match width with
  | [w0, w1, w2] =>
    let row := w0 + w1 + w2
    if row ≥ U64 then .err                                      -- `checked_add` fails: bail!
    else if row = 0 then .err                                   -- "xref stream entries have zero width"
    else
      let maxEntries := data.length / row
      let n' : Out Nat :=
        if n > maxEntries then
          if allowErr then .ok maxEntries else .err
        else .ok n
      match n' with
      | .ok n' =>
        match readEntries w0 w1 w2 n' data [] with
        | .ok (es, rest) => .ok (⟨first, es⟩, rest)
        | .err => .err | .panic => .panic | .oof => .oof
      | .err => .err | .panic => .panic | .oof => .oof
  | _ => .err

/-- the loop over `/Index` pairs: `index` has already been checked to have even length -/
def parseSections (width : List Nat) (allowErr : Bool) : List (Nat × Nat) → List UInt8 → List Sub →
    Out (List Sub)
  | [], _, acc => .ok acc.reverse
  | (first, n) :: more, data, acc =>
    match parseSection first n width data allowErr with
    | .ok (s, rest) => parseSections width allowErr more rest (s :: acc)
    | .err => .err | .panic => .panic | .oof => .oof

end Xref
