import PdfModel.Core.Out
import PdfModel.Model.Lexer
import PdfModel.Model.Parser

/-!
  Model of the writer side: `pdf/src/primitive.rs` (serialisation) and the object framing of
  `Storage::save` (`pdf/src/file.rs`).

  Rust item                                   model definition
  ------------------------------------------  ------------------------------------------------------
  `write!(out, "{}", i)` for i32 / u64        `fmtInt` / `fmtNat` (decimal, `-` for negatives, no leading zeros)
  `n.to_string()` for f32                     `fmtReal` (parameter: third-party `Display for f32`)
  Primitive::serialize                        `serialize`
  serialize_list                              `serializeList` (the part after `[` up to and including `]`)
  serialize_name                              `serializeName`
  Dictionary::serialize                       `serializeDict` / `serializeEntries`
  PdfString::serialize                        `serializeString`
  PdfStream::serialize                        the `.stream` arm of `serialize` (`InFile` ⇒ `unimplemented!()`,
                                              which this crate turns into `Err`)
  save: `"{} {} obj\n" body "\nendobj\n"`     `objFrame`

  Writing into a `Vec<u8>` cannot fail, so the only non-`ok` outcome is the `InFile` stream.
-/

namespace PdfLex

/-- the ASCII digit for `n < 10` -/
def digitByte (n : Nat) : UInt8 := UInt8.ofNat (48 + n)

/-- decimal digits of `n`, most significant first (`fuel` > number of digits) -/
def natDigitsAux : Nat → Nat → List UInt8 → List UInt8
  | 0, _, acc => acc
  | fuel + 1, n, acc =>
    if n < 10 then digitByte n :: acc
    else natDigitsAux fuel (n / 10) (digitByte (n % 10) :: acc)

/-- `format!("{}", n)` for an unsigned integer -/
def fmtNat (n : Nat) : List UInt8 := natDigitsAux (n + 1) n []

/-- `format!("{}", i)` for a signed integer -/
def fmtInt (i : Int) : List UInt8 :=
  if i < 0 then 45 :: fmtNat i.natAbs else fmtNat i.natAbs

def hexLower (n : UInt8) : UInt8 := if n < 10 then 48 + n else 87 + n

/-- `format!("{:02x}", b)` -/
def hex2 (b : UInt8) : List UInt8 := [hexLower (b >>> 4), hexLower (b &&& 15)]

/-- the bytes `serialize_name` writes verbatim: `'!'..='~'` except the delimiters and `#` -/
def nameVerbatim (b : UInt8) : Bool := 33 ≤ b && b ≤ 126 && !isDelimiter b && b != 35

/-- one byte of a name as `serialize_name` writes it -/
def nameEscape (b : UInt8) : List UInt8 := if nameVerbatim b then [b] else 35 :: hex2 b

/-- `serialize_name(s, out)` (`s` as UTF-8 bytes) -/
def serializeName (s : List UInt8) : List UInt8 := 47 :: s.flatMap nameEscape

/-- one byte of a literal string as `PdfString::serialize` writes it -/
def litEscape (b : UInt8) : List UInt8 :=
  if b == 92 || b == 40 || b == 41 then [92, b]
  else if b == 13 then [92, 114]
  else [b]

/-- `PdfString::serialize` -/
def serializeString (data : List UInt8) : List UInt8 :=
  if data.any (fun b => b ≥ 128) then
    60 :: data.flatMap hex2 ++ [62]
  else
    40 :: data.flatMap litEscape ++ [41]

/-- the `Primitive::Number` arm: `Display` text, with a `.` appended when it has none -/
def serializeReal (txt : List UInt8) : List UInt8 :=
  if txt.contains 46 then txt else txt ++ [46]

mutual

/-- `Primitive::serialize` (`fmtReal` = `f32::to_string`) -/
def serialize {R : Type} (fmtReal : R → List UInt8) : Prim R → Out (List UInt8)
  | .null => .ok kwNull
  | .int i => .ok (fmtInt i)
  | .real r => .ok (serializeReal (fmtReal r))
  | .bool b => .ok (if b then kwTrue else kwFalse)
  | .str s => .ok (serializeString s)
  | .stream info inner =>
    (serializeEntries fmtReal info).bind fun d =>
    match inner with
    | .inFile _ _ _ _ => .err
    | .pending data =>
      -- "<<\n" entries ">>\n" "stream\n" data "\nendstream\n"
      .ok ([60, 60, 10] ++ d ++ [62, 62, 10] ++ kwStream ++ [10] ++ data ++ [10] ++ kwEndstream ++ [10])
  | .dict kvs => (serializeEntries fmtReal kvs).bind fun d => .ok ([60, 60, 10] ++ d ++ [62, 62, 10])
  | .arr xs => (serializeList fmtReal xs true).bind fun l => .ok (91 :: l)
  | .ref id gen => .ok (fmtNat id ++ [32] ++ fmtNat gen ++ [32, 82])
  | .name s => .ok (serializeName s)

/-- `serialize_list` after the `[`: elements separated by one space, then `]` -/
def serializeList {R : Type} (fmtReal : R → List UInt8) : List (Prim R) → Bool → Out (List UInt8)
  | [], _ => .ok [93]
  | x :: xs, first =>
    (serialize fmtReal x).bind fun t =>
    (serializeList fmtReal xs false).bind fun r =>
    .ok ((if first then t else 32 :: t) ++ r)

/-- the entries of `Dictionary::serialize`: `key ' ' value '\n'` each -/
def serializeEntries {R : Type} (fmtReal : R → List UInt8) : List (List UInt8 × Prim R) → Out (List UInt8)
  | [] => .ok []
  | (k, v) :: rest =>
    (serialize fmtReal v).bind fun t =>
    (serializeEntries fmtReal rest).bind fun r =>
    .ok (serializeName k ++ [32] ++ t ++ [10] ++ r)

end

/-- what `save` writes for one object: `"{id} {gen} obj\n"`, the body, `"\nendobj\n"` -/
def objFrame (id gen : Nat) (body : List UInt8) : List UInt8 :=
  fmtNat id ++ [32] ++ fmtNat gen ++ [32] ++ kwObj ++ [10] ++ body ++ [10] ++ kwEndobj ++ [10]

end PdfLex
