import PdfModel.Core.Out
import PdfModel.Model.Lexer
import PdfModel.Model.StrLexer

/-!
  Model of `pdf/src/parser/mod.rs` and `pdf/src/parser/parse_object.rs`.

  Rust item                                   model definition
  ------------------------------------------  ------------------------------------------------------
  primitive::Primitive                        `Prim R` (`R` = the real numbers' carrier, see below)
  StreamInner::{InFile, Pending}              `StreamInner`
  IndexMap::insert (Dictionary::insert)       `dictInsert` (replace in place, else append)
  ParseFlags (bitflags u16) / check           `Flags` constants / `check`
  MAX_DEPTH                                   `maxDepth`
  enc::decode_nibble                          `decodeNibble` (`a..=f`, `A..=F`)
  decode_name (parser/mod.rs)                 `decodeName` + `utf8Valid` (`SmallString::from_utf8`)
  Context { decoder, id }                     `ctx : Option (Nat × Nat)` (the id) and `Env.decrypt`
  parse_with_lexer_ctx (wrapper, rollback)    `parseCtx`
  _parse_with_lexer_ctx                       `parseInner`
  the `loop` of the array branch              `parseArray`
  parse_dictionary_object                     `parseDict`
  parse_stream_object                         `parseStreamObject`
  parse / parse_with_lexer                    `parseWithLexer` (flags, `MAX_DEPTH`, no context)
  parse_stream / parse_stream_with_lexer      `parseStream`
  parse_indirect_object                       `parseIndirectObject`
  parse_indirect_stream                       `parseIndirectStream`

  Parameters (`Env`): `parseReal` is `str::from_utf8(tok)?.parse::<f32>()` (third-party code, generic in the
  carrier `R`; the driver instantiates `R` with the token text); `resolveLen id gen` is
  `r.resolve_flags(ref, INTEGER, 1)?.as_usize()?` for an indirect `/Length`; `allowMissingEndobj` is
  `r.options().allow_missing_endobj`; `decrypt` is `Context::decrypt` when a decoder is present (`none`: no
  decoder); `fileOffset` is `Lexer::file_offset`.

  The recursion is structural on `fuel`; `.oof` is never reached when `fuel > buf.size - pos + depth`-ish
  (every loop round consumes a byte) — see `Props/C03`/`C01`.
-/

namespace PdfLex

inductive StreamInner where
  /-- `InFile { id: PlainRef, file_range }` -/
  | inFile (id gen lo hi : Nat)
  /-- `Pending { data }` -/
  | pending (data : List UInt8)
deriving Repr, DecidableEq, Inhabited

/-- `primitive::Primitive`; names and keys are the UTF-8 bytes of the `SmallString` -/
inductive Prim (R : Type) where
  | null
  | int (i : Int)
  | real (r : R)
  | bool (b : Bool)
  | str (bs : List UInt8)
  | stream (info : List (List UInt8 × Prim R)) (inner : StreamInner)
  | dict (kvs : List (List UInt8 × Prim R))
  | arr (xs : List (Prim R))
  | ref (id gen : Nat)
  | name (bs : List UInt8)
deriving Repr, Inhabited

abbrev Dict (R : Type) := List (List UInt8 × Prim R)

/-- `IndexMap::insert`: an existing key keeps its place and gets the new value, a new key is appended -/
def dictInsert {R : Type} (d : Dict R) (k : List UInt8) (v : Prim R) : Dict R :=
  match d with
  | [] => [(k, v)]
  | (k', v') :: rest => if k' = k then (k', v) :: rest else (k', v') :: dictInsert rest k v

def dictGet {R : Type} (d : Dict R) (k : List UInt8) : Option (Prim R) :=
  match d with
  | [] => none
  | (k', v') :: rest => if k' = k then some v' else dictGet rest k

namespace Flags
def integer : Nat := 1
def stream : Nat := 2
def dict : Nat := 4
def number : Nat := 8
def name : Nat := 16
def array : Nat := 32
def string : Nat := 64
def bool : Nat := 128
def null : Nat := 256
def ref : Nat := 512
def any : Nat := 1023
end Flags

/-- `check(flags, allowed)`: `Err` unless the two sets intersect -/
def check (flags allowed : Nat) : Out Unit :=
  if flags &&& allowed == 0 then .err else .ok ()

def maxDepth : Nat := 20

/-- `enc::decode_nibble` (`0-9 a-f A-F`; before the `fix:` commit of the C05 package also `g h G H`) -/
def decodeNibble (c : UInt8) : Option UInt8 :=
  if 48 ≤ c && c ≤ 57 then some (c - 48)
  else if 97 ≤ c && c ≤ 102 then some (c - 97 + 10)
  else if 65 ≤ c && c ≤ 70 then some (c - 65 + 10)
  else none

def isCont (b : UInt8) : Bool := 128 ≤ b && b ≤ 191

/-- `str::from_utf8(bs).is_ok()` (well-formed UTF-8, Unicode table 3-7) -/
def utf8Valid : List UInt8 → Bool
  | [] => true
  | b0 :: rest =>
    if b0 < 128 then utf8Valid rest
    else if 194 ≤ b0 && b0 ≤ 223 then
      match rest with
      | b1 :: rest => isCont b1 && utf8Valid rest
      | _ => false
    else if 224 ≤ b0 && b0 ≤ 239 then
      match rest with
      | b1 :: b2 :: rest =>
        (if b0 == 224 then 160 ≤ b1 && b1 ≤ 191
         else if b0 == 237 then 128 ≤ b1 && b1 ≤ 159
         else isCont b1) && isCont b2 && utf8Valid rest
      | _ => false
    else if 240 ≤ b0 && b0 ≤ 244 then
      match rest with
      | b1 :: b2 :: b3 :: rest =>
        (if b0 == 240 then 144 ≤ b1 && b1 ≤ 191
         else if b0 == 244 then 128 ≤ b1 && b1 ≤ 143
         else isCont b1) && isCont b2 && isCont b3 && utf8Valid rest
      | _ => false
    else false

/-- the `#xx` decoding loop of `decode_name`, byte by byte (`.err`: fewer than two bytes after `#`, or a
    byte that `decode_nibble` rejects) -/
def unescapeName : List UInt8 → Out (List UInt8)
  | [] => .ok []
  | b :: rest =>
    if b == 35 then
      match rest with
      | hi :: lo :: rest' =>
        match decodeNibble lo, decodeNibble hi with
        | some l, some h => (unescapeName rest').bind fun r => .ok ((l ||| (h <<< 4)) :: r)
        | _, _ => .err
      | _ => .err
    else (unescapeName rest).bind fun r => .ok (b :: r)

/-- `decode_name(rest)`: the name's bytes; `Err` when they are not UTF-8 -/
def decodeName (t : List UInt8) : Out (List UInt8) :=
  (unescapeName t).bind fun s => if utf8Valid s then .ok s else .err

structure Env (R : Type) where
  /-- `str::from_utf8(tok)?.parse::<f32>()` -/
  parseReal : List UInt8 → Option R
  /-- `r.resolve_flags(reference, INTEGER, 1)?.as_usize()?` -/
  resolveLen : Nat → Nat → Out Nat
  /-- `r.options().allow_missing_endobj` -/
  allowMissingEndobj : Bool
  /-- `Context::decrypt` with a decoder (`id gen data`); `none` = no decoder -/
  decrypt : Option (Nat → Nat → List UInt8 → Out (List UInt8))
  /-- `Lexer::file_offset` -/
  fileOffset : Nat

def kwTrue : List UInt8 := [116, 114, 117, 101]
def kwFalse : List UInt8 := [102, 97, 108, 115, 101]
def kwNull : List UInt8 := [110, 117, 108, 108]
def kwEndstream : List UInt8 := [101, 110, 100, 115, 116, 114, 101, 97, 109]
def kwObj : List UInt8 := [111, 98, 106]
def kwEndobj : List UInt8 := [101, 110, 100, 111, 98, 106]
def kwLength : List UInt8 := [76, 101, 110, 103, 116, 104]

/-- `ctx.decrypt(&mut string)` for `ctx : Option<&Context>` -/
def decryptStr {R : Type} (env : Env R) (ctx : Option (Nat × Nat)) (s : List UInt8) : Out (List UInt8) :=
  match ctx, env.decrypt with
  | some (id, gen), some f => f id gen s
  | _, _ => .ok s

/-- `parse_stream_object(dict, lexer, r, ctx)`: the stream and the new position -/
def parseStreamObject {R : Type} (env : Env R) (buf : Buf) (pos : Nat) (dict : Dict R) (id : Nat × Nat) :
    Out (Prim R × Nat) :=
  (nextStream buf pos).bind fun pos =>
  (match dictGet dict kwLength with
    | some (.int n) => if n ≥ 0 then Out.ok n.toNat else Out.err
    | some (.ref i g) => env.resolveLen i g
    | some _ => .err
    | none => .err).bind fun length =>
  (readN buf pos length).bind fun (sub, pos) =>
  if sub.2 - sub.1 != length then .err else
  (nextExpect buf pos kwEndstream).bind fun pos =>
  .ok (.stream dict (.inFile id.1 id.2 (env.fileOffset + sub.1) (env.fileOffset + sub.1 + (sub.2 - sub.1))), pos)

/-- the look-ahead `lexer.next().ok().filter(is_integer)` / `.and_then(|_| lexer.next().ok())`:
    the two lexemes when both are there, and where the lexer stands afterwards -/
def refLookahead (buf : Buf) (posBk : Nat) : Out (Option ((Nat × Nat) × (Nat × Nat)) × Nat) :=
  match next buf posBk with
  | .panic => .panic
  | .oof => .oof
  | .err => .ok (none, posBk)
  | .ok w2 =>
    if isInteger (slice buf w2.1 w2.2) then
      match next buf w2.2 with
      | .panic => .panic
      | .oof => .oof
      | .err => .ok (none, w2.2)
      | .ok w3 => .ok (some (w2, w3), w3.2)
    else .ok (none, w2.2)

/-- the integer / reference branch once the first lexeme is known to be an integer
    (`posBk`: position after the first lexeme) -/
def parseIntOrRef {R : Type} (buf : Buf) (posBk : Nat) (first : List UInt8) (flags : Nat) : Out (Prim R × Nat) :=
  (check flags (Flags.integer ||| Flags.ref)).bind fun _ =>
  (refLookahead buf posBk).bind fun (la, cur) =>
  let asInteger : Out (Prim R × Nat) :=
    (check flags Flags.integer).bind fun _ =>
    (setPos buf cur posBk).bind fun p =>
    match parseI32 first with
    | some i => .ok (.int i, p)
    | none => .err
  match la with
  | some (w2, w3) =>
    if slice buf w3.1 w3.2 == [82] then
      (check flags Flags.ref).bind fun _ =>
      match parseU64 first with
      | none => .err
      | some i =>
        match parseU64 (slice buf w2.1 w2.2) with
        | none => .err
        | some g => .ok (.ref i g, w3.2)
    else asInteger
  | none => asInteger

mutual

/-- `parse_with_lexer_ctx`: on `Err` the position is set back (the caller sees `.err`; a panic inside
    `set_pos` would surface as `.panic`) -/
def parseCtx {R : Type} (env : Env R) (buf : Buf) : Nat → Nat → Option (Nat × Nat) → Nat → Nat → Out (Prim R × Nat)
  | 0, _, _, _, _ => .oof
  | fuel + 1, pos, ctx, flags, depth =>
    match parseInner env buf fuel pos ctx flags depth with
    | .ok r => .ok r
    | .err =>
      -- `lexer.set_pos(pos)`; the lexer may stand anywhere in the buffer at this point (`≤ buf.size`,
      -- `Lemmas/Lexer`), so the slice taken by `set_pos` is in range: modelled from the saved position
      (setPos buf pos pos).bind fun _ => .err
    | .panic => .panic
    | .oof => .oof

/-- `_parse_with_lexer_ctx` -/
def parseInner {R : Type} (env : Env R) (buf : Buf) : Nat → Nat → Option (Nat × Nat) → Nat → Nat → Out (Prim R × Nat)
  | 0, _, _, _, _ => .oof
  | fuel + 1, pos, ctx, flags, depth =>
    (remainingStart buf pos).bind fun _ =>
    (next buf pos).bind fun w =>
    let first := slice buf w.1 w.2
    let pos := w.2
    if first == [60, 60] then
      (check flags Flags.dict).bind fun _ =>
      if depth == 0 then .err else
      (parseDict env buf fuel pos ctx (depth - 1) []).bind fun (dict, pos) =>
      (peek buf pos).bind fun pk =>
      if slice buf pk.1 pk.2 == kwStream then
        match ctx with
        | none => .err
        | some id => parseStreamObject env buf pos dict id
      else .ok (.dict dict, pos)
    else if isInteger first then
      parseIntOrRef buf pos first flags
    else match realNumber first with
    | some s =>
      (check flags Flags.number).bind fun _ =>
      (match env.parseReal s with
        | some r => .ok (.real r, pos)
        | none => .err)
    | none =>
    if first.head? == some 47 then
      (check flags Flags.name).bind fun _ =>
      (decodeName (first.drop 1)).bind fun s => .ok (.name s, pos)
    else if first == [91] then
      (check flags Flags.array).bind fun _ =>
      if depth == 0 then .err else
      parseArray env buf fuel pos ctx (depth - 1) []
    else if first == [40] then
      (check flags Flags.string).bind fun _ =>
      (remainingStart buf pos).bind fun _ =>
      (collectString buf (buf.size - pos + 2) pos 0 []).bind fun (s, p) =>
      (offsetPos buf pos (p - pos)).bind fun pos =>
      (decryptStr env ctx s).bind fun s => .ok (.str s, pos)
    else if first == [60] then
      (check flags Flags.string).bind fun _ =>
      (remainingStart buf pos).bind fun _ =>
      (collectHex buf pos (buf.size - pos + 2) pos []).bind fun (s, p) =>
      (offsetPos buf pos (p - pos)).bind fun pos =>
      (decryptStr env ctx s).bind fun s => .ok (.str s, pos)
    else if first == kwTrue then
      (check flags Flags.bool).bind fun _ => .ok (.bool true, pos)
    else if first == kwFalse then
      (check flags Flags.bool).bind fun _ => .ok (.bool false, pos)
    else if first == kwNull then
      (check flags Flags.null).bind fun _ => .ok (.null, pos)
    else
      -- `err!(UnknownType { .., rest: lexer.read_n(50).to_string() })`
      (readN buf pos 50).bind fun _ => .err

/-- the `loop` of the array branch (`acc` reversed) -/
def parseArray {R : Type} (env : Env R) (buf : Buf) : Nat → Nat → Option (Nat × Nat) → Nat → List (Prim R) → Out (Prim R × Nat)
  | 0, _, _, _, _ => .oof
  | fuel + 1, pos, ctx, depth, acc =>
    (peek buf pos).bind fun pk =>
    if slice buf pk.1 pk.2 == [93] then
      (next buf pos).bind fun w => .ok (.arr acc.reverse, w.2)
    else
      (parseCtx env buf fuel pos ctx Flags.any depth).bind fun (e, pos) =>
      parseArray env buf fuel pos ctx depth (e :: acc)

/-- `parse_dictionary_object` (`acc` in insertion order) -/
def parseDict {R : Type} (env : Env R) (buf : Buf) : Nat → Nat → Option (Nat × Nat) → Nat → Dict R → Out (Dict R × Nat)
  | 0, _, _, _, _ => .oof
  | fuel + 1, pos, ctx, depth, acc =>
    (next buf pos).bind fun w =>
    let token := slice buf w.1 w.2
    let pos := w.2
    if token.head? == some 47 then
      (decodeName (token.drop 1)).bind fun key =>
      (parseCtx env buf fuel pos ctx Flags.any depth).bind fun (obj, pos) =>
      parseDict env buf fuel pos ctx depth (dictInsert acc key obj)
    else if token == [62, 62] then .ok (acc, pos)
    else .err

end

/-- `parse_with_lexer(lexer, r, flags)` -/
def parseWithLexer {R : Type} (env : Env R) (buf : Buf) (fuel pos flags : Nat) : Out (Prim R × Nat) :=
  parseCtx env buf fuel pos none flags maxDepth

/-- fuel that always suffices (`Props`: every recursive call consumes a byte or a unit of depth) -/
def defaultFuel (buf : Buf) : Nat := 3 * buf.size + 64

/-- `parse(data, r, flags)` -/
def parse {R : Type} (env : Env R) (buf : Buf) (flags : Nat) : Out (Prim R × Nat) :=
  parseWithLexer env buf (defaultFuel buf) 0 flags

/-- `parse_stream_with_lexer(lexer, r, ctx)` (`ctx.id`; the decoder is dropped by the Rust code) -/
def parseStream {R : Type} (env : Env R) (buf : Buf) (fuel pos : Nat) (id : Nat × Nat) : Out (Prim R × Nat) :=
  (next buf pos).bind fun w =>
  if slice buf w.1 w.2 == [60, 60] then
    (parseDict env buf fuel w.2 none maxDepth []).bind fun (dict, pos) =>
    (peek buf pos).bind fun pk =>
    if slice buf pk.1 pk.2 == kwStream then parseStreamObject env buf pos dict id
    else .err
  else .err

/-- the `id gen obj` header shared by `parse_indirect_object` / `parse_indirect_stream` -/
def parseObjHeader (buf : Buf) (pos : Nat) : Out ((Nat × Nat) × Nat) :=
  (next buf pos).bind fun w1 =>
  match parseU64 (slice buf w1.1 w1.2) with
  | none => .err
  | some id =>
    (next buf w1.2).bind fun w2 =>
    match parseU64 (slice buf w2.1 w2.2) with
    | none => .err
    | some gen =>
      (nextExpect buf w2.2 kwObj).bind fun pos => .ok ((id, gen), pos)

/-- `parse_indirect_object(lexer, r, decoder, flags)`: `((id, gen), value)` and the new position -/
def parseIndirectObject {R : Type} (env : Env R) (buf : Buf) (fuel pos flags : Nat) :
    Out (((Nat × Nat) × Prim R) × Nat) :=
  (parseObjHeader buf pos).bind fun (id, pos) =>
  (parseCtx env buf fuel pos (some id) flags maxDepth).bind fun (obj, pos) =>
  if env.allowMissingEndobj then
    match nextExpect buf pos kwEndobj with
    | .ok p => .ok ((id, obj), p)
    | .err => (setPos buf pos pos).bind fun p => .ok ((id, obj), p)
    | .panic => .panic
    | .oof => .oof
  else
    (nextExpect buf pos kwEndobj).bind fun p => .ok ((id, obj), p)

/-- `parse_indirect_stream(lexer, r, decoder)` -/
def parseIndirectStream {R : Type} (env : Env R) (buf : Buf) (fuel pos : Nat) :
    Out (((Nat × Nat) × Prim R) × Nat) :=
  (parseObjHeader buf pos).bind fun (id, pos) =>
  (parseStream env buf fuel pos id).bind fun (stm, pos) =>
  (nextExpect buf pos kwEndobj).bind fun p => .ok ((id, stm), p)

end PdfLex
