import PdfModel.Core.Out
import PdfModel.Model.Xref

/-!
  Model of the read / modify / save cycle of `pdf/src/file.rs` (`Storage`, `impl Updater for Storage`,
  `Storage::save`) together with `XRefTable::{set, push, write_stream}` of `pdf/src/xref.rs` and the
  loader `Backend::read_xref_table_and_trailer` (`pdf/src/backend.rs`), after the repairs D22, D23, D24,
  D25, D44, D45, D46 (see notes/C09.md; the pre-repair rules are kept as `…Old` definitions for the
  counter-examples in Props/C09.lean).

  Object values are abstract (`V`): serialising one object is one `Obj` record at an offset; how many
  bytes it takes is a parameter (`Layout`), whether it can be serialised at all is `P.ok` (a stream whose
  data still lives in the file cannot: `PdfStream::serialize` → `unimplemented!()` → `Err`).

  Rust                                               model
  ----                                               -----
  Storage { refs, changes, cache, backend,           St { refs, changes, cache, cached, objs+secs+len,
            start_offset }                                start, startxref }
  File { storage, trailer } / Trailer                Doc { st, tr } / Trailer
  Storage::resolve_ref (changes first, then xref)    resolve
  StorageResolver::get (typed, through the cache)    get
  Updater::create                                    create        (alloc = refs.push(Promised))
  Updater::update                                    update        (updateOld: before D22/D24/D44)
  Updater::promise / fulfill                         promise / fulfil
  Storage::save                                      save          (writeChanges = the loop over the
                                                                    sorted changes; rowsOf/widths =
                                                                    XRefTable::write_stream;
                                                                    saveOld: before D23/D25/D45)
  read_xref_table_and_trailer + File::load_data      reload        (prevChain = the /Prev loop,
                                                                    Xref.mergeAll = add_entries_from)
  xref.rs byte_len                                   byteLen
  to_be_bytes()[8 - w ..]                            beBytes
-/

namespace Storage
open Xref

/-- what a read returns: a value or the kind of error (`util::err_class` of the harness) -/
inductive Rd (V : Type) where
  | val (v : V)
  | free      -- PdfError::FreeObject
  | null      -- PdfError::NullRef
  | unspec    -- PdfError::UnspecifiedXRefEntry
  | other     -- anything else (unfulfilled promise: `unimplemented!()`, nothing parsable at the offset, …)
deriving Repr, DecidableEq

/-- what one successful `save` wrote as its cross-reference section -/
structure SaveInfo where
  xid : Nat
  xpos : Nat            -- value written after `startxref`
  size : Nat            -- /Size of the trailer
  aw : Nat
  bw : Nat
  rows : List XRef      -- /Index [0 rows.length]
deriving Repr, DecidableEq

/-- one `id gen obj … endobj` in the backend -/
structure Obj (V : Type) where
  off : Nat            -- absolute offset of the first digit of `id`
  id : Nat
  gen : Nat
  val : V
  members : List V     -- the compressed objects, if this is an object stream
deriving Repr

/-- `file::Trailer` as far as `save` uses it -/
structure Trailer (V : Type) where
  root : Nat × Nat
  info : Option V      -- `info_dict` (`#[pdf(indirect)]`: written as a new object by every `to_dict`)
  prev : Option Nat
deriving Repr

/-- parameters of the value type -/
structure Params (V : Type) where
  /-- `Primitive::serialize` succeeds -/
  ok : V → Bool
  /-- the value `fulfill(xref_promise, stream)` leaves in `changes` after a save: the cross-reference
      stream (`Stream<XRefInfo>` without the trailer entries) of that save -/
  xrefVal : SaveInfo → V
  /-- the cross-reference stream object as it stands in the file: the same stream with the trailer entries
      (`/Size /Prev /Root /Info /ID`) merged into its dictionary; arguments: the trailer, the number of the
      info object written by this save -/
  xrefRec : Trailer V → Option Nat → SaveInfo → V

/-- one cross-reference section in the backend (classic table or stream) with its trailer -/
structure Sec where
  off : Nat            -- absolute offset
  subs : List Sub
  size : Nat           -- /Size
  prev : Option Nat    -- /Prev
  root : Nat × Nat     -- /Root
  info : Option Nat    -- /Info (object number)
deriving Repr

structure St (V : Type) where
  refs : List XRef
  changes : List (Nat × V × Nat)    -- HashMap<ObjNr, (Primitive, GenNr)>, kept sorted by object number
  cache : List (Nat × Rd V)         -- object cache (results of `get`, errors included)
  cached : Bool                     -- SyncCache (true) or NoCache (false)
  objs : List (Obj V)               -- the backend: objects …
  secs : List Sec                   -- … and cross-reference sections
  len : Nat                         -- backend.len()
  start : Nat                       -- start_offset
  startxref : Nat                   -- the number after the last `startxref`

structure Doc (V : Type) where
  st : St V
  tr : Trailer V

/-- how many bytes the records of one save take (serialisation itself is not modelled) -/
structure Layout where
  recLen : Nat → Nat   -- object number ↦ bytes of `id gen obj … endobj\n`
  xrefLen : SaveInfo → Nat   -- bytes of the cross-reference stream object of that save
  tailLen : SaveInfo → Nat   -- bytes of `\nstartxref\n…\n%%EOF`
  /-- what else the environment contributes to one `save`: does the *typed* reload of the trailer at its end
      (`Trailer::from_dict`: `/Root` as `Catalog` with its page tree root and the other members loaded eagerly,
      `/Info`, `/Encrypt`) succeed? The model knows values only as opaque `V`; whether a value loads as the type the
      trailer wants is the business of the typed readers (C15). `false`: `save` fails *after* its revision was
      appended. -/
  typed : Bool

variable {V : Type}

/-! ### finite map `changes` -/

def chLookup : List (Nat × V × Nat) → Nat → Option (V × Nat)
  | [], _ => none
  | (i, x) :: rest, id => if i = id then some x else chLookup rest id

/-- `HashMap::insert`; the list stays sorted by key (`save` iterates in key order) -/
def chInsert : List (Nat × V × Nat) → Nat → (V × Nat) → List (Nat × V × Nat)
  | [], id, x => [(id, x)]
  | (i, y) :: rest, id, x =>
    if id < i then (id, x) :: (i, y) :: rest
    else if id = i then (i, x) :: rest
    else (i, y) :: chInsert rest id x

/-! ### reading -/

def objAt (objs : List (Obj V)) (off : Nat) : Option (Obj V) := objs.find? (fun o => o.off == off)

def secAt (secs : List Sec) (off : Nat) : Option Sec := secs.find? (fun s => s.off == off)

/-- the xref branch of `resolve_ref` for a direct entry: `parse_indirect_object` at `start + pos`
    (the object number found there is not compared with the one asked for) -/
def readAt (st : St V) (pos : Nat) : Rd V :=
  match objAt st.objs (st.start + pos) with
  | some o => .val o.val
  | none => .other

/-- the `XRef::Stream` branch: `get::<ObjectStream>(stream_id)` then `get_object_slice(index)`.
    The container is itself looked up through `changes` first (a user value is not an object stream). -/
def readCompressed (st : St V) (sid idx : Nat) : Rd V :=
  match chLookup st.changes sid with
  | some _ => .other
  | none =>
    match st.refs[sid]? with
    | some (.raw pos _) =>
      match objAt st.objs (st.start + pos) with
      | some o => match o.members[idx]? with
        | some v => .val v
        | none => .other
      | none => .other
    | some (.free _ _) => .free
    | some .invalid => .null
    | none => .unspec
    | _ => .other

/-- `Storage::resolve_ref` -/
def resolve (st : St V) (id : Nat) : Rd V :=
  match chLookup st.changes id with
  | some (v, _) => .val v
  | none =>
    match st.refs[id]? with
    | none => .unspec
    | some (.raw pos _) => readAt st pos
    | some (.stream sid idx) => readCompressed st sid idx
    | some (.free _ _) => .free
    | some .promised => .other
    | some .invalid => .null

def cacheLookup : List (Nat × Rd V) → Nat → Option (Rd V)
  | [], _ => none
  | (i, r) :: rest, id => if i = id then some r else cacheLookup rest id

/-- `StorageResolver::get::<T>` with `T = Primitive`: `cache.get_or_compute(key, || resolve(key))` -/
def get (st : St V) (id : Nat) : St V × Rd V :=
  if st.cached then
    match cacheLookup st.cache id with
    | some r => (st, r)
    | none => let r := resolve st id; ({ st with cache := (id, r) :: st.cache }, r)
  else (st, resolve st id)

/-! ### `impl Updater for Storage` -/

/-- `let id = self.refs.len(); self.refs.push(XRef::Promised)` -/
def alloc (st : St V) : St V × Nat := ({ st with refs := st.refs ++ [.promised] }, st.refs.length)

/-- `Updater::create` for a value whose `to_primitive` creates nothing itself (repaired: the object
    cache is dropped, a failed lookup of the new number may be cached) -/
def create (st : St V) (v : V) : St V × Nat :=
  let (st1, id) := alloc st
  ({ st1 with changes := chInsert st1.changes id (v, 0), cache := [] }, id)

/-- `Updater::promise` -/
def promise (st : St V) : St V × Nat := alloc st

/-- `Updater::update` (repaired): the reference keeps its number whatever the storage form of the old
    object, the pending value is replaced, the object cache is dropped. Result: the reference returned. -/
def update (st : St V) (id : Nat) (v : V) : St V × Out (Nat × Nat) :=
  match st.refs[id]? with
  | none => (st, .err)                       -- refs.get(old.id)?
  | some (.free _ _) => (st, .panic)
  | some .invalid => (st, .panic)
  | some e =>
    let g := match e with
      | .raw _ g => g
      | _ => 0                               -- Stream (D22: was `return self.create(obj)`), Promised
    ({ st with changes := chInsert st.changes id (v, g), cache := [] }, .ok (id, g))

/-- `Updater::fulfill` = `self.update(promise.inner, obj)` -/
def fulfil (st : St V) (id : Nat) (v : V) : St V × Out (Nat × Nat) := update st id v

/-! ### `XRefTable::write_stream` -/

/-- `byte_len`: `(64 + 8 - 1 - n.leading_zeros()) / 8 + (n == 0)`, i.e. the number of base-256 digits -/
def byteLen (n : Nat) : Nat := if n < 256 then 1 else 1 + byteLen (n / 256)

/-- `n.to_be_bytes()[8 - w ..]`: the `w` low-order base-256 digits, most significant first -/
def beBytes : Nat → Nat → List Nat
  | 0, _ => []
  | w + 1, n => beBytes w (n / 256) ++ [n % 256]

def fieldsOf : XRef → Option (Nat × Nat × Nat)
  | .free n g => some (0, n, g)
  | .raw p g => some (1, p, g)
  | .stream s i => some (2, s, i)
  | .invalid => some (0, 0, 65535)         -- D45: was `bail!("invalid xref entry")`
  | .promised => none

/-- the row `write_stream` emits for an entry, as the entry a reader will see -/
def rowOf : XRef → Option XRef
  | .invalid => some (.free 0 65535)
  | .promised => none
  | e => some e

def rowsOf : List XRef → Option (List XRef)
  | [] => some []
  | e :: es => match rowOf e, rowsOf es with
    | some r, some rs => some (r :: rs)
    | _, _ => none

/-- `max_field_widths` (over the whole table; `Promised` is skipped) followed by `byte_len` -/
def maxFields : List XRef → Nat × Nat
  | [] => (0, 0)
  | e :: es =>
    let (a, b) := maxFields es
    match e with
    | .promised => (a, b)
    | _ => match fieldsOf e with
      | some (_, x, y) => (max a x, max b y)
      | none => (a, b)

def widths (t : List XRef) : Nat × Nat := let (a, b) := maxFields t; (byteLen a, byteLen b)

def rowBytes (aw bw : Nat) (e : XRef) : List Nat :=
  match fieldsOf e with
  | some (t, a, b) => t :: (beBytes aw a ++ beBytes bw b)
  | none => []

/-! ### `Storage::save` -/

structure Written (V : Type) where
  refs : List XRef
  objs : List (Obj V)
  len : Nat

/-- the loop over the sorted changes; the `Out` says how it ended, the state is what it left behind -/
def writeChanges (P : Params V) (L : Layout) (start : Nat) :
    List (Nat × V × Nat) → Written V → Written V × Out Unit
  | [], w => (w, .ok ())
  | (id, v, g) :: rest, w =>
    if id < w.refs.length then
      let refs := w.refs.set id (.raw (w.len - start) g)          -- D23: was `pos = backend.len()`
      if P.ok v then
        writeChanges P L start rest ⟨refs, w.objs ++ [⟨w.len, id, g, v, []⟩], w.len + L.recLen id⟩
      else ({ w with refs := refs }, .err)                         -- primitive.serialize(..)?
    else (w, .panic)                                               -- self.entries[id] out of range

/-- `Trailer::from_dict(trailer_dict, &self.resolver())` at the end of `save` / in `load_data` -/
def loadTrailer (st : St V) (root : Nat × Nat) (info : Option Nat) (prev : Option Nat) : Out (Trailer V) :=
  match resolve st root.1 with
  | .val _ =>
    match info with
    | none => .ok ⟨root, none, prev⟩
    | some i => match resolve st i with
      | .val v => .ok ⟨root, some v, prev⟩
      | .free => .ok ⟨root, none, prev⟩          -- Option<T>: FreeObject / NullRef read as None
      | .null => .ok ⟨root, none, prev⟩
      | _ => .err
  | _ => .err

/-- `backend::MAX_ID`: the reader refuses a `/Size` above it -/
def MAX_ID : Nat := 1000000

/-- `trailer.to_dict(self)`: /Info is `indirect`, a new object on every save -/
def prepInfo (d : Doc V) : St V × Option Nat :=
  match d.tr.info with
  | some v => let (s, i) := create d.st v; (s, some i)
  | none => (d.st, none)

/-- the state in which the loop over the changes starts -/
structure Prep (V : Type) where
  st2 : St V            -- info object created, cross-reference stream promised
  infoRef : Option Nat
  xid : Nat             -- number promised for the cross-reference stream
  size : Nat            -- trailer.size = refs.len() + 2, taken before anything is allocated

def prep (d : Doc V) : Prep V :=
  let p := prepInfo d
  ⟨(promise p.1).1, p.2, p.1.refs.length, d.st.refs.length + 2⟩

/-- the storage after the revision is complete: cross-reference stream object and section appended,
    `fulfill(xref_promise, stream)` (= `update`: pending value, cache dropped), `startxref` -/
def saveInfoOf (pr : Prep V) (w : Written V) (refs rows : List XRef) : SaveInfo :=
  ⟨pr.xid, w.len - pr.st2.start, pr.size, (widths refs).1, (widths refs).2, rows⟩

def commit (P : Params V) (L : Layout) (d : Doc V) (pr : Prep V) (w : Written V) (refs rows : List XRef) : St V :=
  { pr.st2 with
      refs := refs, changes := chInsert pr.st2.changes pr.xid (P.xrefVal (saveInfoOf pr w refs rows), 0), cache := [],
      objs := w.objs ++ [⟨w.len, pr.xid, 0, P.xrefRec d.tr pr.infoRef (saveInfoOf pr w refs rows), []⟩],
      secs := pr.st2.secs ++ [⟨w.len, [⟨0, rows⟩], pr.size, d.tr.prev, d.tr.root, pr.infoRef⟩],
      len := w.len + L.xrefLen (saveInfoOf pr w refs rows) + L.tailLen (saveInfoOf pr w refs rows),
      startxref := w.len - pr.st2.start }

/-- `Storage::save` (repaired). On failure nothing of the attempt is left in the backend and the
    promise for the cross-reference stream is withdrawn; a table the reader would refuse is not written. -/
def save (P : Params V) (L : Layout) (d : Doc V) : Doc V × Out SaveInfo :=
  if d.st.refs.length + 2 > MAX_ID then (d, .err)                  -- D46: `bail!("too many objects")`
  else
  let pr := prep d
  match writeChanges P L pr.st2.start pr.st2.changes ⟨pr.st2.refs, pr.st2.objs, pr.st2.len⟩ with
  | (w, .ok ()) =>
    let xpos := w.len - pr.st2.start                               -- D23
    let refs := w.refs.set pr.xid (.raw xpos 0)
    match rowsOf (refs.take (pr.xid + 1)) with
    | none =>
      -- write_stream fails: roll back (D25)
      ({ d with st := { pr.st2 with refs := refs.dropLast } }, .err)
    | some rows =>
      let st3 := commit P L d pr w refs rows
      let info : SaveInfo := saveInfoOf pr w refs rows
      -- `*trailer = Trailer::from_dict(trailer_dict, &self.resolver())?`: the revision is in the backend, the table
      -- and the pending values are those of a completed save; on failure only the caller's trailer is not replaced
      match loadTrailer st3 d.tr.root pr.infoRef d.tr.prev with
      | .ok tr => if L.typed then (⟨st3, tr⟩, .ok info) else (⟨st3, d.tr⟩, .err)
      | .err => (⟨st3, d.tr⟩, .err)
      | .panic => (⟨st3, d.tr⟩, .panic)
      | .oof => (⟨st3, d.tr⟩, .oof)
  | (w, .err) => ({ d with st := { pr.st2 with refs := w.refs.dropLast } }, .err)
  | (w, .panic) => ({ d with st := { pr.st2 with refs := w.refs } }, .panic)
  | (w, .oof) => ({ d with st := { pr.st2 with refs := w.refs } }, .oof)

/-- the `SaveInfo` of the revision `save` appends, if it gets as far as appending one (`write_revision` returned
    `Ok`): whatever happens afterwards, that revision stays in the backend -/
def commitInfo (P : Params V) (L : Layout) (d : Doc V) : Option SaveInfo :=
  if d.st.refs.length + 2 > MAX_ID then none
  else
  let pr := prep d
  match writeChanges P L pr.st2.start pr.st2.changes ⟨pr.st2.refs, pr.st2.objs, pr.st2.len⟩ with
  | (w, .ok ()) =>
    let refs := w.refs.set pr.xid (.raw (w.len - pr.st2.start) 0)
    match rowsOf (refs.take (pr.xid + 1)) with
    | some rows => some (saveInfoOf pr w refs rows)
    | none => none
  | _ => none

/-! ### loading (`read_xref_table_and_trailer`, `File::load_data`) -/

/-- the `/Prev` loop: `seen` holds the offsets already visited (`bail!("xref offsets loop")`) -/
def prevChain (secs : List Sec) (start : Nat) : Nat → Option Nat → List Nat → Out (List (List Sub))
  | _, none, _ => .ok []
  | 0, some _, _ => .oof
  | fuel + 1, some p, seen =>
    if seen.contains p then .err
    else match secAt secs (start + p) with
      | none => .err
      | some s =>
        match prevChain secs start fuel s.prev (p :: seen) with
        | .ok r => .ok (s.subs :: r)
        | .err => .err | .panic => .panic | .oof => .oof

/-- open the bytes of `st` afresh: the table is rebuilt from the newest section and its `/Prev` chain,
    nothing is pending, the cache is empty -/
def reload (st : St V) (cached : Bool) : Out (Doc V) :=
  let pos := st.start + st.startxref
  if pos ≥ st.len then .err                                   -- "XRef offset outside file bounds"
  else match secAt st.secs pos with
    | none => .err
    | some s =>
      if s.size > MAX_ID then .err
      else
        match prevChain st.secs st.start (st.secs.length + 1) s.prev [] with
        | .ok chain =>
          match mergeAll (newTable s.size) (s.subs :: chain) with
          | .ok t =>
            let st' : St V := { st with refs := t, changes := [], cache := [], cached := cached }
            match loadTrailer st' s.root s.info s.prev with
            | .ok tr => .ok ⟨st', tr⟩
            | .err => .err | .panic => .panic | .oof => .oof
          | .err => .err | .panic => .panic | .oof => .oof
        | .err => .err | .panic => .panic | .oof => .oof

/-! ### operation histories -/

inductive Op (V : Type) where
  | create (v : V)
  | update (id : Nat) (v : V)
  | promise
  | fulfil (id : Nat) (v : V)
  | get (id : Nat)
  | resolve (id : Nat)
  | save (L : Layout)

/-- what the caller sees -/
inductive Res (V : Type) where
  | ref (id gen : Nat)          -- the reference handed back by create / update / promise / fulfil
  | failed (o : Out Unit)       -- update / fulfil / save did not return a value
  | read (r : Rd V)
  | saved (i : SaveInfo)

def step (P : Params V) (d : Doc V) : Op V → Doc V × Res V
  | .create v => let (s, id) := create d.st v; ({ d with st := s }, .ref id 0)
  | .promise => let (s, id) := promise d.st; ({ d with st := s }, .ref id 0)
  | .update id v | .fulfil id v =>
    match update d.st id v with
    | (s, .ok (i, g)) => ({ d with st := s }, .ref i g)
    | (s, .err) => ({ d with st := s }, .failed .err)
    | (s, .panic) => ({ d with st := s }, .failed .panic)
    | (s, .oof) => ({ d with st := s }, .failed .oof)
  | .get id => let (s, r) := get d.st id; ({ d with st := s }, .read r)
  | .resolve id => (d, .read (resolve d.st id))
  | .save L =>
    match save P L d with
    | (d', .ok i) => (d', .saved i)
    | (d', .err) => (d', .failed .err)
    | (d', .panic) => (d', .failed .panic)
    | (d', .oof) => (d', .failed .oof)

def run (P : Params V) (d : Doc V) : List (Op V) → Doc V × List (Res V)
  | [] => (d, [])
  | op :: ops =>
    let (d1, r) := step P d op
    let (d2, rs) := run P d1 ops
    (d2, r :: rs)

/-! ### the rules before the repairs (for the counter-examples; never used by the driver's main streams) -/

/-- `update` before D22 / D24 / D44: a compressed object is not updated but a new one created, the
    cache is kept, and a second update of the same number with a dictionary merges (`merge old new`) -/
def updateOld (merge : V → V → Option V) (st : St V) (id : Nat) (v : V) : St V × Out (Nat × Nat) :=
  match st.refs[id]? with
  | none => (st, .err)
  | some (.free _ _) => (st, .panic)
  | some .invalid => (st, .panic)
  | some (.stream _ _) => let (s, i) := create st v; (s, .ok (i, 0))
  | some e =>
    let g := match e with
      | .raw _ g => g
      | _ => 0
    match chLookup st.changes id with
    | none => ({ st with changes := chInsert st.changes id (v, g) }, .ok (id, g))
    | some (old, og) =>
      match merge old v with
      | some m => ({ st with changes := chInsert st.changes id (m, og) }, .ok (id, g))
      | none => ({ st with changes := chInsert st.changes id (v, g) }, .ok (id, g))

def rowOfOld : XRef → Option XRef
  | .invalid => none
  | .promised => none
  | e => some e

def rowsOfOld : List XRef → Option (List XRef)
  | [] => some []
  | e :: es => match rowOfOld e, rowsOfOld es with
    | some r, some rs => some (r :: rs)
    | _, _ => none

def writeChangesOld (P : Params V) (L : Layout) :
    List (Nat × V × Nat) → Written V → Written V × Out Unit
  | [], w => (w, .ok ())
  | (id, v, g) :: rest, w =>
    if id < w.refs.length then
      let refs := w.refs.set id (.raw w.len g)
      if P.ok v then
        writeChangesOld P L rest ⟨refs, w.objs ++ [⟨w.len, id, g, v, []⟩], w.len + L.recLen id⟩
      else ({ w with refs := refs, len := w.len + 1 }, .err)
    else (w, .panic)

/-- `save` before D23 / D25 / D45: absolute positions, no roll-back, `Invalid` rows refuse to be written -/
def saveOld (P : Params V) (L : Layout) (d : Doc V) : Doc V × Out SaveInfo :=
  let st := d.st
  let size := st.refs.length + 2
  let (st1, infoRef) : St V × Option Nat := match d.tr.info with
    | some v => let (s, i) := create st v; (s, some i)
    | none => (st, none)
  let (st2, xid) := promise st1
  match writeChangesOld P L st2.changes ⟨st2.refs, st2.objs, st2.len⟩ with
  | (w, .ok ()) =>
    let xpos := w.len
    let refs := w.refs.set xid (.raw xpos 0)
    match rowsOfOld (refs.take (xid + 1)) with
    | none => ({ d with st := { st2 with refs := refs, objs := w.objs, len := w.len } }, .err)
    | some rows =>
      let (aw, bw) := widths refs
      let sec : Sec := ⟨w.len, [⟨0, rows⟩], size, d.tr.prev, d.tr.root, infoRef⟩
      let xinfo : SaveInfo := ⟨xid, xpos, size, aw, bw, rows⟩
      let xobj : Obj V := ⟨w.len, xid, 0, P.xrefRec d.tr infoRef xinfo, []⟩
      let st3 : St V :=
        { st2 with refs := refs, changes := chInsert st2.changes xid (P.xrefVal xinfo, 0), cache := [],
                   objs := w.objs ++ [xobj], secs := st2.secs ++ [sec],
                   len := w.len + L.xrefLen xinfo + L.tailLen xinfo, startxref := xpos }
      (⟨st3, d.tr⟩, .ok xinfo)
  | (w, o) => ({ d with st := { st2 with refs := w.refs, objs := w.objs, len := w.len } },
               match o with | .ok _ => .err | .err => .err | .panic => .panic | .oof => .oof)

end Storage
