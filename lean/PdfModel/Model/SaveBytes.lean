import PdfModel.Model.Storage
import PdfModel.Model.Serialize

/-!
  `Storage::save` as BYTES: the abstract storage model (`Model/Storage.lean`) instantiated with the
  primitive values of `Model/Parser.lean`, every record rendered by the writer model
  (`Model/Serialize.lean`: `serialize`, `objFrame`), so that the record lengths — a free parameter
  (`Layout`) of the abstract model — become a consequence of the values.

  Rust (pdf/src/file.rs, xref.rs, object/stream.rs, pdf_derive)          model
  ---------------------------------------------------------------------  -----------------------------
  `writeln!("{} {} obj"); primitive.serialize(); writeln!("\nendobj")`    `frameOf` = `objFrame` ∘ `serialize`
  `XRefTable::write_stream`: rows, `XRefInfo { size, index, prev: None, w }` `rowsData`, `xrefInfoDict`
  `Stream::new(info, data)`, `to_pdf_stream` (`/Length` appended)          `xrefStreamVal`
  `Trailer::to_dict`: /Size /Prev /Root (/Encrypt: absent) /Info /ID       `trailerDict`
  `xref_and_trailer.info.insert(k, v)` for every trailer entry             `mergeDict` (`dictInsert`)
  `writeln!("{} {} obj", id, 0); serialize; writeln!("endobj")`            `xrefObjBytes`
  `write!("\nstartxref\n{}\n%%EOF", xref_pos)`                             `tailBytes`
  the whole of `save`                                                      `saveB`
-/

namespace SaveBytes
open Storage PdfLex Xref

variable {R : Type}

/-- `Type` -/
def kType : List UInt8 := [84, 121, 112, 101]
/-- `XRef` -/
def kXRef : List UInt8 := [88, 82, 101, 102]
/-- `Size` -/
def kSize : List UInt8 := [83, 105, 122, 101]
/-- `Index` -/
def kIndex : List UInt8 := [73, 110, 100, 101, 120]
/-- `W` -/
def kW : List UInt8 := [87]
/-- `Prev` -/
def kPrev : List UInt8 := [80, 114, 101, 118]
/-- `Root` -/
def kRoot : List UInt8 := [82, 111, 111, 116]
/-- `Info` -/
def kInfo : List UInt8 := [73, 110, 102, 111]
/-- `ID` -/
def kID : List UInt8 := [73, 68]
/-- `startxref` -/
def kwStartxref : List UInt8 := [115, 116, 97, 114, 116, 120, 114, 101, 102]
/-- `%%EOF` -/
def kwEOF : List UInt8 := [37, 37, 69, 79, 70]

/-- the data of the cross-reference stream: `type, field₁, field₂` per row, big-endian -/
def rowsData (i : SaveInfo) : List UInt8 := (i.rows.flatMap (rowBytes i.aw i.bw)).map UInt8.ofNat

/-- `XRefInfo::to_dict` (`/Type` first, then the fields in declaration order, `prev: None` skipped) with
    the `/Length` that `to_pdf_stream` appends -/
def xrefInfoDict (i : SaveInfo) : Dict R :=
  [(kType, .name kXRef), (kSize, .int i.rows.length), (kIndex, .arr [.int 0, .int i.rows.length]),
   (kW, .arr [.int 1, .int i.aw, .int i.bw]), (kwLength, .int (rowsData i).length)]

/-- `Stream<XRefInfo>::to_primitive`: what `fulfill(xref_promise, stream)` leaves pending -/
def xrefStreamVal (i : SaveInfo) : Prim R := .stream (xrefInfoDict i) (.pending (rowsData i))

/-- the abstract document over primitives, the `/ID` strings of its trailer, and the backend bytes -/
structure BDoc (R : Type) where
  doc : Doc (Prim R)
  ids : List (List UInt8)
  bytes : List UInt8

/-- `Trailer::to_dict` -/
def trailerDict (size : Nat) (tr : Trailer (Prim R)) (infoRef : Option Nat) (ids : List (List UInt8)) : Dict R :=
  [(kSize, .int size)] ++
  (match tr.prev with | some p => [(kPrev, .int p)] | none => []) ++
  [(kRoot, .ref tr.root.1 tr.root.2)] ++
  (match infoRef with | some i => [(kInfo, .ref i 0)] | none => []) ++
  [(kID, .arr (ids.map .str))]

/-- `for (k, v) in trailer_dict.iter() { info.insert(k, v) }` -/
def mergeDict (d extra : Dict R) : Dict R := extra.foldl (fun acc kv => dictInsert acc kv.1 kv.2) d

/-- one changed object as `save` writes it (nothing for a value the writer refuses: `save` stops there) -/
def frameOf (fmt : R → List UInt8) (c : Nat × Prim R × Nat) : List UInt8 :=
  match serialize fmt c.2.1 with
  | .ok body => objFrame c.1 c.2.2 body
  | _ => []

def framesOf (fmt : R → List UInt8) (changes : List (Nat × Prim R × Nat)) : List UInt8 :=
  changes.flatMap (frameOf fmt)

/-- the dictionary of the cross-reference stream object as written: its own entries, then the trailer's -/
def xrefDict (tr : Trailer (Prim R)) (ids : List (List UInt8)) (infoRef : Option Nat) (i : SaveInfo) : Dict R :=
  mergeDict (xrefInfoDict i) (trailerDict i.size tr infoRef ids)

/-- the cross-reference stream object as it stands in the file -/
def xrefRecVal (ids : List (List UInt8)) (tr : Trailer (Prim R)) (infoRef : Option Nat) (i : SaveInfo) : Prim R :=
  .stream (xrefDict tr ids infoRef i) (.pending (rowsData i))

/-- values are primitives; a value can be written iff the writer model returns bytes for it; `ids` are the
    `/ID` strings of the trailer (they never change) -/
def params (fmt : R → List UInt8) (ids : List (List UInt8)) : Params (Prim R) :=
  ⟨fun v => (serialize fmt v).isOk, xrefStreamVal, xrefRecVal ids⟩

/-- the cross-reference stream object: `"{id} 0 obj\n"`, the stream, `"endobj\n"` -/
def xrefObjBytes (fmt : R → List UInt8) (tr : Trailer (Prim R)) (ids : List (List UInt8)) (infoRef : Option Nat)
    (i : SaveInfo) : List UInt8 :=
  match serialize fmt (.stream (xrefDict tr ids infoRef i) (.pending (rowsData i))) with
  | .ok body => fmtNat i.xid ++ [32, 48, 32] ++ kwObj ++ [10] ++ body ++ kwEndobj ++ [10]
  | _ => []

/-- `"\nstartxref\n{xref_pos}\n%%EOF"` -/
def tailBytes (i : SaveInfo) : List UInt8 := [10] ++ kwStartxref ++ [10] ++ fmtNat i.xpos ++ [10] ++ kwEOF

/-- the record lengths as they follow from the values -/
def layoutOf (fmt : R → List UInt8) (typed : Bool) (b : BDoc R) : Layout :=
  ⟨fun id => match chLookup (prep b.doc).st2.changes id with
      | some (v, g) => max 1 (frameOf fmt (id, v, g)).length     -- (a frame is never empty; `max` only
      | none => 1,                                                --  makes that evident to the theorems)
   fun i => max 1 (xrefObjBytes fmt b.doc.tr b.ids (prep b.doc).infoRef i).length,
   fun i => (tailBytes i).length,
   typed⟩

/-- what one successful save appends -/
def revisionBytes (fmt : R → List UInt8) (b : BDoc R) (i : SaveInfo) : List UInt8 :=
  framesOf fmt (prep b.doc).st2.changes ++ xrefObjBytes fmt b.doc.tr b.ids (prep b.doc).infoRef i ++ tailBytes i

/-- `Storage::save`: the new document and bytes. The bytes grow by the revision exactly when `write_revision`
    succeeded (`commitInfo`), whether the typed reload of the trailer after it succeeds (`typed`) or not: a save that
    fails earlier is truncated away, one that fails later keeps its revision. -/
def saveB (fmt : R → List UInt8) (typed : Bool) (b : BDoc R) : BDoc R × Out SaveInfo :=
  let r := save (params fmt b.ids) (layoutOf fmt typed b) b.doc
  match commitInfo (params fmt b.ids) (layoutOf fmt typed b) b.doc with
  | some i => (⟨r.1, b.ids, b.bytes ++ revisionBytes fmt b i⟩, r.2)
  | none => (⟨r.1, b.ids, b.bytes⟩, r.2)

/-! ### histories at byte level: `save` takes its record lengths from the values -/

inductive OpB (R : Type) where
  | create (v : Prim R)
  | update (id : Nat) (v : Prim R)
  | promise
  | fulfil (id : Nat) (v : Prim R)
  | get (id : Nat)
  | resolve (id : Nat)
  /-- `typed`: the typed reload of the trailer at the end of this save succeeds -/
  | save (typed : Bool)

/-- the flag of a `save` (irrelevant for the other operations) -/
def OpB.typed : OpB R → Bool
  | .save t => t
  | _ => true

/-- the operation of the abstract model; `L` is the layout a `save` is run with -/
def OpB.toOp (L : Layout) : OpB R → Op (Prim R)
  | .create v => .create v
  | .update id v => .update id v
  | .promise => .promise
  | .fulfil id v => .fulfil id v
  | .get id => .get id
  | .resolve id => .resolve id
  | .save _ => .save L

def stepB (fmt : R → List UInt8) (b : BDoc R) : OpB R → BDoc R × Res (Prim R)
  | .save typed =>
    match saveB fmt typed b with
    | (b', .ok i) => (b', .saved i)
    | (b', .err) => (b', .failed .err)
    | (b', .panic) => (b', .failed .panic)
    | (b', .oof) => (b', .failed .oof)
  | o =>
    let r := step (params fmt b.ids) b.doc (o.toOp ⟨fun _ => 1, fun _ => 1, fun _ => 0, true⟩)
    ({ b with doc := r.1 }, r.2)

def runB (fmt : R → List UInt8) (b : BDoc R) : List (OpB R) → BDoc R × List (Res (Prim R))
  | [] => (b, [])
  | op :: ops =>
    let r := stepB fmt b op
    let rs := runB fmt r.1 ops
    (rs.1, r.2 :: rs.2)

/-- the same history for the abstract model: every `save` with the layout the values give it -/
def liftOps (fmt : R → List UInt8) (b : BDoc R) : List (OpB R) → List (Op (Prim R))
  | [] => []
  | op :: ops => op.toOp (layoutOf fmt op.typed b) :: liftOps fmt (stepB fmt b op).1 ops

end SaveBytes
