import PdfModel.Core.Out

/-!
# Model of the LZW decoder that `lzw_decode` (pdf/src/enc.rs) runs

`lzw_decode` calls `weezl::decode::Decoder::{new, with_tiff_size_switch}(BitOrder::Msb, 8)` and
`into_stream(..).decode_all(data)`. weezl's `DecodeState::advance` is a streaming implementation with an
intermediate buffer and "bursts" of independent codes; what it computes is the classical code-level
LZW automaton, and that automaton is what is modelled here (the buffering is not; the correspondence
streams `c05.lzw.decode*` tie the two together byte for byte, on conforming and on damaged streams):

| weezl (decode.rs)                                              | model                              |
|----------------------------------------------------------------|------------------------------------|
| `MsbBuffer::next_symbol` / `refill_bits` / `peek_bits` (MSB first, `code_size` bits) | `bitsOfBytes`, `natOfBits`, `take`/`drop` of `width` bits |
| `clear_code = 256`, `end_code = 257`, `next_code`              | `256`, `257`, `nextCode st`        |
| `Table` (`inner` links + `depths`, `reconstruct`)              | `st.table : List Bytes` (entry `i` is code `258 + i`), `entry` |
| `last: Option<DerivationBase>` (previous code and its first byte) | `st.prev : Option Bytes` (the previous *string*) |
| first code after start / clear (`self.last.take() == None` arm: `code >= next_code` ⇒ `InvalidCode`, clear ⇒ `init_tables`, end ⇒ `Done`, implicit reset of the empty table) | `stepCode` with `prev = none` |
| main loop per code (clear ⇒ `reset_tables`, end, `new_code > next_code` ⇒ `InvalidCode`, `new_code == next_code` ⇒ the cScSc word, `table.derive` if `!is_full()`, `bump_code_size` if `next_code >= max_code - is_tiff && code_size < 12`, `next_code += 1`) | `stepCode` with `prev = some p` |
| `Table::is_full` (`inner.len() == 4096`)                       | `nextCode st < 4096` is its negation |
| `decode_part(.., must_finish = true)`: input exhausted without end code ⇒ `UnexpectedEof`; any `LzwError` ⇒ `InvalidData`; both reach `lzw_decode` as `Err` | `.err` |
| data after the end code is not looked at                        | `.done` stops the loop             |

No operation of this automaton can panic; `.oof` is the fuel of the code loop (`Lemmas/Lzw*.lean` prove
that `8 * data.length + 1` always suffices).
-/

namespace Lzw

abbrev Bytes := List UInt8

/-- `w` bits of `n`, most significant first -/
def bitsOfNat : Nat → Nat → List Bool
  | 0, _ => []
  | w + 1, n => (n / 2 ^ w % 2 == 1) :: bitsOfNat w n

def natOfBits (bs : List Bool) : Nat := bs.foldl (fun acc b => 2 * acc + (if b then 1 else 0)) 0

/-- the bit stream of `BitOrder::Msb` -/
def bitsOfBytes (data : Bytes) : List Bool := data.flatMap fun b => bitsOfNat 8 b.toNat

structure St where
  /-- strings of the codes 258, 259, … -/
  table : List Bytes
  /-- current code size (9 … 12) -/
  width : Nat
  /-- the string of the previous code; `none` right after the start or a clear code -/
  prev : Option Bytes
deriving Repr, DecidableEq

def initSt : St := { table := [], width := 9, prev := none }

def nextCode (st : St) : Nat := 258 + st.table.length

/-- the string of a code below `next_code` (`Table::reconstruct`) -/
def entry (table : List Bytes) (code : Nat) : Option Bytes :=
  if code < 256 then some [UInt8.ofNat code]
  else if code < 258 then none
  else table[code - 258]?

inductive Step where
  | cont (st : St) (out : Bytes)
  | done
  | invalid

/-- one code; `early` = `with_tiff_size_switch` (EarlyChange ≠ 0) -/
def stepCode (early : Bool) (st : St) (code : Nat) : Step :=
  match st.prev with
  | none =>
    if code ≥ nextCode st then .invalid
    else if code = 256 then .cont initSt []
    else if code = 257 then .done
    else
      match entry st.table code with
      | some s => .cont { st with prev := some s } s
      | none => .invalid
  | some p =>
    if code = 256 then .cont initSt []
    else if code = 257 then .done
    else if code > nextCode st then .invalid
    else
      let word : Option Bytes := if code = nextCode st then some (p ++ [p.headD 0]) else entry st.table code
      match word with
      | none => .invalid
      | some s =>
        if nextCode st < 4096 then
          let width' :=
            if nextCode st ≥ 2 ^ st.width - 1 - (if early then 1 else 0) ∧ st.width < 12 then st.width + 1 else st.width
          .cont { table := st.table ++ [p ++ [s.headD 0]], width := width', prev := some s } s
        else .cont { st with prev := some s } s

/-- the code loop on the unread bits -/
def loop (early : Bool) : Nat → St → List Bool → Out Bytes
  | 0, _, _ => .oof
  | fuel + 1, st, bits =>
    let head := bits.take st.width
    if head.length < st.width then .err          -- no more data but no end marker
    else
      match stepCode early st (natOfBits head) with
      | .done => .ok []
      | .invalid => .err
      | .cont st' out =>
        match loop early fuel st' (bits.drop st.width) with
        | .ok rest => .ok (out ++ rest)
        | o => o

def decode (early : Bool) (data : Bytes) : Out Bytes :=
  loop early (8 * data.length + 1) initSt (bitsOfBytes data)

end Lzw
