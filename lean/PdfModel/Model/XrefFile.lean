import PdfModel.Model.XrefTable
import PdfModel.Model.Offsets

/-!
  `Backend::read_xref_table_and_trailer` (pdf/src/backend.rs) with the section reader made concrete:
  the walk itself is `Offsets.loadTable` (Model/Offsets: `startxref`, the bounds checks, `/Size`,
  `MAX_ID`, the `/Prev` loop with its `seen` list), whose parameter "section at offset" is instantiated here.

  Rust                                                             model
  ----                                                             -----
  Lexer::with_offset(t!(self.read(pos ..)), pos)                   the suffix `buf.drop pos` as a fresh buffer, lexer at 0
  read_xref_and_trailer_at(&mut lexer, resolve)                    `xrefAt` = `XrefTable.readXrefAndTrailerAt … 0`
  trailer.get("Size") … as_u32()                                   `XrefTable.trailerSize`
  trailer.get("Prev") … as_usize()                                 `XrefTable.trailerPrev`
  Backend::read_xref_table_and_trailer(start_offset, resolve)      `readXrefTableAndTrailer`

  `stm` stands for `parse_xref_stream_and_trailer` on that buffer (see Model/XrefTable); `base` supplies
  the object-level parsers of `Offsets.Parsers`, which the walk never calls.
-/

namespace XrefTable
open PdfLex Xref

variable {R V : Type}

/-- the section reader on the file suffix that begins at the section's offset -/
def xrefAt (env : Env R) (stm : Buf → Nat → Out (List Sub × Dict R)) (suffix : List UInt8) :
    Out (List Sub × Dict R) :=
  readXrefAndTrailerAt env stm suffix.toArray (defaultFuel suffix.toArray) (PdfLex.defaultFuel suffix.toArray) 0

def fileParsers (env : Env R) (stm : Buf → Nat → Out (List Sub × Dict R)) (base : Offsets.Parsers V (Dict R)) :
    Offsets.Parsers V (Dict R) :=
  { base with xrefAt := xrefAt env stm, sizeOf := trailerSize, prevOf := trailerPrev }

/-- `Backend::read_xref_table_and_trailer(start, resolve)`: merged table and the trailer returned -/
def readXrefTableAndTrailer (env : Env R) (stm : Buf → Nat → Out (List Sub × Dict R))
    (base : Offsets.Parsers V (Dict R)) (fuel : Nat) (buf : List UInt8) (start : Nat) : Out (Table × Dict R) :=
  Offsets.loadTable (fileParsers env stm base) fuel buf start

end XrefTable
