import PdfModel.Core.Out

/-!
# Model of `pdf/src/crypt.rs` and of the places where decryption is invoked (C06)

Rust item                                              → model definition
------------------------------------------------------------------------------------------------
`PADDING`                                              → `Crypt.PADDING`
`Rc4 {i, j, state}`, `Rc4::new`, `next`, `encrypt`     → `Rc4`, `Rc4.new`, `Rc4.next`, `Rc4.apply`, `rc4Encrypt`
`CryptDict` (+ `#[pdf(default=..)]` of Length / EncryptMetadata) → `CryptDict`, `RawCryptDict.toDict`
`CryptMethod`, `CryptFilter`                           → `Method`, `CryptFilter`
`Decoder {key_size,key,method,encrypt_indirect_object,metadata_indirect_object,encrypt_metadata}`
                                                       → `Decoder`
`Decoder::key`                                         → `Decoder.keyOf`     (slice panic explicit)
`from_password::compute_u_rev_2 / check_password_rev_2`→ `computeURev2`, `checkPasswordRc4`
`compute_u_rev_3_4 / check_password_rev_3_4`           → `computeURev34`, `checkPasswordRc4`
`key_derivation_user_password_rc4`                     → `keyDerivUser`
`key_derivation_owner_password_rc4`                    → `keyDerivOwner`
selection of `(key_bits, method)` from V / CF / StmF   → `selectMethod`
`Decoder::from_password` (levels 2–4, 5, 6)            → `fromPassword`  (`PwResult.invalidPassword` = `PdfError::InvalidPassword`,
                                                          `.err` = every other `Err`)
`Decoder::revision_6_kdf`                              → `kdfLoop`, `revision6Kdf`   (fuel 288, see `Props/C06`)
`Decoder::decrypt` (Algorithm 1 / 1.A, exemptions)     → `decrypt`
`cbc::Decryptor::decrypt_padded_mut::<Pkcs7|NoPadding>`→ `cbcDecryptBlocks`, `pkcs7Unpad`, `cbcDecryptPkcs7`, `cbcDecryptNoPad`
`cbc::Encryptor::encrypt_padded_mut::<NoPadding>`      → `cbcEncryptNoPad`
`parser::Context::decrypt`, string arms of `_parse_with_lexer_ctx`, `parse_dictionary_object`, arrays
                                                       → `ctxDecrypt`, `decryptVal`
`Storage::decode` (decrypt, then the filters)          → `decodeStream`
`Storage::load_storage_and_trailer_password`           → `installDecoder`
`Storage::resolve_ref` (`XRef::Raw` vs `XRef::Stream`) → `readObject`

MD5, SHA-256/384/512, the AES block function and SASLprep are *parameters* (`Prims`). They return `Out`
so that the driver can instantiate them by finite tables (`.oof` = "the table has no entry for this
input", reported as a disagreement); every theorem assumes `PrimsAgree P H`, i.e. that they are total
functions. CBC chaining and PKCS#7 unpadding are modelled concretely on top of the block function.
-/

namespace Crypt

abbrev Bytes := List UInt8

def PADDING : Bytes :=
  [0x28, 0xBF, 0x4E, 0x5E, 0x4E, 0x75, 0x8A, 0x41, 0x64, 0x00, 0x4E, 0x56, 0xFF, 0xFA, 0x01, 0x08,
   0x2E, 0x2E, 0x00, 0xB6, 0xD0, 0x68, 0x3E, 0x80, 0x2F, 0x0C, 0xA9, 0xFE, 0x64, 0x53, 0x69, 0x7A]

/-! ## RC4 (concrete) -/

abbrev State := Vector UInt8 256

@[inline] def sget (s : State) (b : UInt8) : UInt8 := s[b.toNat]'(UInt8.toNat_lt b)

@[inline] def sswap (s : State) (a b : UInt8) : State :=
  s.swap a.toNat b.toNat (UInt8.toNat_lt a) (UInt8.toNat_lt b)

structure Rc4 where
  i : UInt8
  j : UInt8
  state : State

def identityState : State := Vector.ofFn fun (k : Fin 256) => UInt8.ofNat k.val

/-- one step of the key schedule: `j = j + state[i] + key[i % key.len()]; state.swap(i, j)` -/
def ksaStep (key : Bytes) (hk : 0 < key.length) (sj : State × UInt8) (i : Fin 256) : State × UInt8 :=
  let (s, j) := sj
  let j' := j + s[i.val] + key[i.val % key.length]'(Nat.mod_lt _ hk)
  (s.swap i.val j'.toNat i.isLt (UInt8.toNat_lt j'), j')

/-- `Rc4::new`: asserts `!key.is_empty() && key.len() <= 256` -/
def Rc4.new (key : Bytes) : Out Rc4 :=
  if h : 0 < key.length ∧ key.length ≤ 256 then
    let (s, _) := (List.finRange 256).foldl (ksaStep key h.1) (identityState, 0)
    .ok { i := 0, j := 0, state := s }
  else .panic

/-- `Rc4::next` -/
def Rc4.next (r : Rc4) : Rc4 × UInt8 :=
  let i := r.i + 1
  let j := r.j + sget r.state i
  let st := sswap r.state i j
  ({ i := i, j := j, state := st }, sget st (sget st i + sget st j))

/-- the loop of `Rc4::encrypt`: `*b ^= rc4.next()` -/
def Rc4.apply (r : Rc4) : Bytes → Bytes
  | [] => []
  | b :: bs => let (r', k) := r.next; (b ^^^ k) :: Rc4.apply r' bs

/-- `Rc4::encrypt(key, data)` -/
def rc4Encrypt (key data : Bytes) : Out Bytes :=
  match Rc4.new key with
  | .ok r => .ok (r.apply data)
  | .err => .err
  | .panic => .panic
  | .oof => .oof

/-! ## The primitives that are parameters -/

structure Prims where
  md5 : Bytes → Out Bytes
  sha256 : Bytes → Out Bytes
  sha384 : Bytes → Out Bytes
  sha512 : Bytes → Out Bytes
  /-- AES forward block function; key of 16 or 32 bytes, block of 16 bytes -/
  aesEnc : Bytes → Bytes → Out Bytes
  /-- AES inverse block function -/
  aesDec : Bytes → Bytes → Out Bytes
  /-- `String::from_utf8` + `stringprep::saslprep`, on the UTF-8 bytes; `.err` = either of them fails -/
  saslprep : Bytes → Out Bytes

/-! ## CBC and PKCS#7 (concrete, over the block function) -/

def xorBytes (a b : Bytes) : Bytes := List.zipWith (· ^^^ ·) a b

/-- CBC decryption of whole blocks (`fuel` = number of blocks; the callers pass a multiple of 16 bytes) -/
def cbcDecryptBlocks (P : Prims) (key : Bytes) : Nat → Bytes → Bytes → Out Bytes
  | 0, _, _ => .ok []
  | n + 1, prev, data =>
    let c := data.take 16
    (P.aesDec key c).bind fun d =>
    (cbcDecryptBlocks P key n c (data.drop 16)).bind fun rest =>
    .ok (xorBytes d prev ++ rest)

/-- CBC encryption of whole blocks with the keyed block function `enc` -/
def cbcEncryptBlocksF (enc : Bytes → Out Bytes) : Nat → Bytes → Bytes → Out Bytes
  | 0, _, _ => .ok []
  | n + 1, prev, data =>
    (enc (xorBytes (data.take 16) prev)).bind fun c =>
    (cbcEncryptBlocksF enc n c (data.drop 16)).bind fun rest =>
    .ok (c ++ rest)

/-- CBC encryption of whole blocks -/
def cbcEncryptBlocks (P : Prims) (key : Bytes) (n : Nat) (prev data : Bytes) : Out Bytes :=
  cbcEncryptBlocksF (P.aesEnc key) n prev data

/-- `block_padding::Pkcs7::unpad` through `unpad_blocks` (strict): `Err` for no blocks, a last byte of 0
    or above 16, or padding bytes that differ -/
def pkcs7Unpad (plain : Bytes) : Out Bytes :=
  match plain.getLast? with
  | none => .err
  | some n =>
    if n = 0 ∨ n.toNat > 16 then .err
    else
      let s := plain.length - n.toNat
      if ((plain.drop s).dropLast).any (· != n) then .err else .ok (plain.take s)

/-- `Aes{128,256}CbcDec::new_from_slices(key, iv)?.decrypt_padded_mut::<Pkcs7>(ciphertext)` with every
    error mapped to `DecryptionFailure`; `klen` is the key length the cipher type demands -/
def cbcDecryptPkcs7 (P : Prims) (klen : Nat) (key iv ct : Bytes) : Out Bytes :=
  if key.length ≠ klen ∨ iv.length ≠ 16 then .err
  else if ct.length % 16 ≠ 0 then .err
  else (cbcDecryptBlocks P key (ct.length / 16) iv ct).bind pkcs7Unpad

/-- `Aes256CbcDec::new(key, iv).decrypt_padded_mut::<NoPadding>(buf)` (key: a 32 byte `GenericArray`) -/
def cbcDecryptNoPad (P : Prims) (key iv ct : Bytes) : Out Bytes :=
  if ct.length % 16 ≠ 0 then .err
  else cbcDecryptBlocks P key (ct.length / 16) iv ct

/-- `Aes128CbcEnc::new(key, iv).encrypt_padded_mut::<NoPadding>(buf, len).unwrap()` -/
def cbcEncryptNoPad (P : Prims) (key iv data : Bytes) : Out Bytes :=
  if data.length % 16 ≠ 0 then .panic
  else cbcEncryptBlocks P key (data.length / 16) iv data

/-! ## The encryption dictionary -/

inductive Method where
  | none | v2 | aesv2 | aesv3
deriving Repr, DecidableEq, Inhabited

structure CryptFilter where
  method : Method          -- `CFM`, default `None`
  length : Option Nat      -- `Length` (u32)
deriving Repr, DecidableEq

structure CryptDict where
  o : Bytes
  u : Bytes
  r : Nat                  -- u32
  p : Int                  -- i32
  v : Int                  -- i32
  bits : Nat               -- `Length`, default 40 (u32)
  cf : List (Bytes × CryptFilter)
  stmF : Option Bytes      -- `StmF`
  encryptMetadata : Bool   -- default true
  oe : Option Bytes
  ue : Option Bytes
deriving Repr, DecidableEq

/-- the dictionary before the defaults of `#[pdf(key="Length", default="40")]` and
    `#[pdf(key="EncryptMetadata", default="true")]` are applied -/
structure RawCryptDict where
  o : Bytes
  u : Bytes
  r : Nat
  p : Int
  v : Int
  bits : Option Nat
  cf : List (Bytes × CryptFilter)
  stmF : Option Bytes
  encryptMetadata : Option Bool
  oe : Option Bytes
  ue : Option Bytes

def RawCryptDict.toDict (d : RawCryptDict) : CryptDict :=
  { o := d.o, u := d.u, r := d.r, p := d.p, v := d.v, bits := d.bits.getD 40, cf := d.cf, stmF := d.stmF,
    encryptMetadata := d.encryptMetadata.getD true, oe := d.oe, ue := d.ue }

structure Decoder where
  keySize : Nat
  key : Bytes
  method : Method
  encryptRef : Option (Nat × Nat)     -- `encrypt_indirect_object`
  metadataRef : Option (Nat × Nat)    -- `metadata_indirect_object`
  encryptMetadata : Bool
deriving Repr, DecidableEq

/-- `Decoder::new` -/
def Decoder.mk' (key : Bytes) (keySize : Nat) (m : Method) (encryptMetadata : Bool) : Decoder :=
  { keySize := keySize, key := key, method := m, encryptRef := none, metadataRef := none,
    encryptMetadata := encryptMetadata }

/-- `Decoder::key`: `&self.key[.. min(self.key_size, 16)]` -/
def Decoder.keyOf (d : Decoder) : Out Bytes :=
  if min d.keySize 16 ≤ d.key.length then .ok (d.key.take (min d.keySize 16)) else .panic

/-! ## Password check and file key, revisions 2–4 -/

/-- the first 32 bytes of `pass ‖ PADDING` as `key_derivation_*_rc4` feed them to MD5 -/
def padPass (pass : Bytes) : Bytes :=
  if pass.length < 32 then pass ++ PADDING.take (32 - pass.length) else pass.take 32

/-- `p.to_le_bytes()` of an `i32` -/
def i32le (p : Int) : Bytes :=
  let n := (p % 4294967296).toNat
  [UInt8.ofNat (n % 256), UInt8.ofNat (n / 256 % 256), UInt8.ofNat (n / 65536 % 256), UInt8.ofNat (n / 16777216 % 256)]

/-- `data = md5(&data[..min(key_size,16)])`, `n` times -/
def md5Iter (P : Prims) (k : Nat) : Nat → Bytes → Out Bytes
  | 0, d => .ok d
  | n + 1, d => (P.md5 (d.take k)).bind (md5Iter P k n)

/-- `key_derivation_user_password_rc4` (Algorithm 2); the result has `max key_size 16` bytes -/
def keyDerivUser (P : Prims) (revision keySize : Nat) (d : CryptDict) (id pass : Bytes) : Out Bytes :=
  (P.md5 (padPass pass ++ d.o ++ i32le d.p ++ id ++
      (if revision ≥ 4 ∧ !d.encryptMetadata then [0xff, 0xff, 0xff, 0xff] else []))).bind fun data =>
  (if revision ≥ 3 then md5Iter P (min keySize 16) 50 data else .ok data).bind fun data =>
  -- `let mut key = vec![0u8; key_size.max(16)]; key[..16].copy_from_slice(&data)` (`data : [u8; 16]`)
  .ok (data ++ List.replicate (max keySize 16 - 16) 0)

/-- `key_derivation_owner_password_rc4` (Algorithm 3 a–d) -/
def keyDerivOwner (P : Prims) (revision keySize : Nat) (pass : Bytes) : Out Bytes :=
  if keySize > 16 then .err
  else
    (P.md5 (padPass pass)).bind fun h =>
    (if revision ≥ 3 then md5Iter P 16 50 h else .ok h).bind fun digest =>
    -- `&hash.compute()[..key_size]` (`key_size <= 16`, the digest is a `[u8; 16]`)
    .ok (digest.take keySize)

/-- `Rc4::encrypt(&(key ^ i), data)` for `i` in the list, in order -/
def rc4Rounds (key : Bytes) : List UInt8 → Bytes → Out Bytes
  | [], d => .ok d
  | i :: is, d => (rc4Encrypt (key.map (· ^^^ i)) d).bind (rc4Rounds key is)

def roundList (lo hi : Nat) : List UInt8 := (List.range (hi - lo)).map fun k => UInt8.ofNat (lo + k)

/-- `compute_u_rev_2` (Algorithm 4) -/
def computeURev2 (key : Bytes) : Out Bytes := rc4Encrypt key PADDING

/-- `compute_u_rev_3_4` (Algorithm 5) -/
def computeURev34 (P : Prims) (id key : Bytes) : Out Bytes :=
  (P.md5 (PADDING ++ id)).bind fun h =>
  (rc4Encrypt key h).bind fun data =>
  rc4Rounds key (roundList 1 20) data

/-- `starts_with` -/
def startsWith (a pre : Bytes) : Bool := pre.length ≤ a.length && a.take pre.length == pre

/-- `check_password_rc4` -/
def checkPasswordRc4 (P : Prims) (revision : Nat) (documentU id key : Bytes) : Out Bool :=
  if revision = 2 then (computeURev2 key).bind fun u => .ok (u == documentU)
  else (computeURev34 P id key).bind fun u => .ok (startsWith documentU u)

/-- the `match dict.v` at the head of `from_password`: `(key_bits, method)` -/
def selectMethod (d : CryptDict) : Out (Nat × Method) :=
  if d.v = 1 then .ok (40, .v2)
  else if d.v = 2 then (if d.bits % 8 ≠ 0 then .err else .ok (d.bits, .v2))
  else if 4 ≤ d.v ∧ d.v ≤ 6 then
    match d.stmF with
    | none => .err                      -- `try_opt!`
    | some name =>
      match d.cf.lookup name with
      | none => .err
      | some f =>
        -- `filter_key_bits`: `n.checked_mul(8)` in u32, an overflow is an error
        let bits : Out Nat := match f.length with
          | some n => if 8 * n < 4294967296 then .ok (8 * n) else .err
          | none => .ok d.bits
        match f.method with
        | .v2 => bits.bind fun b => .ok (b, .v2)
        | .aesv2 => .ok (128, .aesv2)      -- the key of AESV2 has 128 bits, whatever `/Length` says
        | .aesv3 => if d.v = 5 then bits.bind fun b => .ok (b, .aesv3) else .err
        | .none => .err
  else .err

inductive PwResult where
  | decoder (d : Decoder)
  | invalidPassword
deriving Repr, DecidableEq

/-- levels 2, 3, 4 of `from_password` -/
def fromPasswordRc4 (P : Prims) (d : CryptDict) (id pass : Bytes) (level keyBits : Nat) (m : Method) : Out PwResult :=
  let keySize := keyBits / 8
  if keySize = 0 then .err
  -- `MAX_KEY_SIZE`: no cipher takes more than the 32 bytes of AES-256; refused before the key buffer is allocated
  else if keySize > 32 then .err
  else
    -- `/EncryptMetadata` has a meaning from revision 4 on only
    let encryptMetadata := d.encryptMetadata || decide (level < 4)
    (keyDerivUser P level keySize d id pass).bind fun key =>
    (checkPasswordRc4 P level d.u id (key.take (min keySize 16))).bind fun ok =>
    if ok then .ok (.decoder (Decoder.mk' key keySize m encryptMetadata))
    else
      (keyDerivOwner P level keySize pass).bind fun wrapKey =>
      (rc4Rounds wrapKey (roundList 0 (if level = 2 then 1 else 20)) d.o).bind fun userPw =>
      (keyDerivUser P level keySize d id userPw).bind fun key2 =>
      -- `&key[..key_size]`: in range, the key has `max key_size 16` bytes
      (checkPasswordRc4 P level d.u id (key2.take keySize)).bind fun ok2 =>
      if ok2 then .ok (.decoder (Decoder.mk' key2 keySize m encryptMetadata))
      else .ok .invalidPassword

/-! ## Revision 6 hash (Algorithm 2.B) -/

def sumBytes (bs : Bytes) : Nat := bs.foldl (fun a b => a + b.toNat) 0

def repeat64 (unit : Bytes) : Bytes := (List.replicate 64 unit).flatten

/-- one round of the `while` loop of `revision_6_kdf`; returns the new `block` and the last byte of `E` -/
def kdfRound (P : Prims) (password u block : Bytes) : Out (Bytes × UInt8) :=
  let key := block.take 16
  let iv := (block.drop 16).take 16
  let unit := password ++ block ++ u
  -- the scratch buffer has (128 + 64 + 48) * 64 bytes
  if unit.length * 64 > 15360 then .panic
  else
    (cbcEncryptNoPad P key iv (repeat64 unit)).bind fun e =>
    let blockSize := sumBytes (e.take 16) % 3 * 16 + 32
    (if blockSize = 32 then P.sha256 e else if blockSize = 48 then P.sha384 e else P.sha512 e).bind fun h =>
    match e.getLast? with
    | none => .panic          -- `data[data_total_len - 1]` with an empty buffer
    | some last => .ok (h, last)

/-- `while i < 64 || i < data[data_total_len - 1] as usize + 32` with `fuel` iterations left -/
def kdfLoop (P : Prims) (password u : Bytes) : Nat → Nat → Bytes → UInt8 → Out Bytes
  | 0, _, _, _ => .oof
  | fuel + 1, i, block, last =>
    if i < 64 ∨ i < last.toNat + 32 then
      (kdfRound P password u block).bind fun (b, l) => kdfLoop P password u fuel (i + 1) b l
    else .ok (block.take 32)

/-- `Decoder::revision_6_kdf(password, salt, u)` -/
def revision6Kdf (P : Prims) (password salt u : Bytes) : Out Bytes :=
  (P.sha256 (password ++ salt ++ u)).bind fun input =>
  kdfLoop P password u 289 0 input 0

/-- the hash of level 5 (plain SHA-256) or 6 -/
def hash56 (P : Prims) (level : Nat) (password salt u : Bytes) : Out Bytes :=
  if level = 6 then revision6Kdf P password salt u else P.sha256 (password ++ salt ++ u)

/-- levels 5 and 6 of `from_password` -/
def fromPassword56 (P : Prims) (d : CryptDict) (pass : Bytes) (level : Nat) (m : Method) : Out PwResult :=
  if d.u.length ≠ 48 then .err
  else if d.o.length ≠ 48 then .err
  else
    let userHash := d.u.take 32
    let userValidationSalt := (d.u.drop 32).take 8
    let userKeySalt := (d.u.drop 40).take 8
    let ownerHash := d.o.take 32
    let ownerValidationSalt := (d.o.drop 32).take 8
    let ownerKeySalt := (d.o.drop 40).take 8
    match P.saslprep pass with
    | .err => .ok .invalidPassword
    | .panic => .panic
    | .oof => .oof
    | .ok prepped =>
      let pw := if prepped.length > 127 then prepped.take 127 else prepped
      match d.ue, d.oe with
      | none, _ => .err
      | some _, none => .err
      | some ue, some oe =>
        let finish (ik wrapped : Bytes) : Out PwResult :=
          if wrapped.length ≠ 32 then .err
          else
            match cbcDecryptNoPad P ik (List.replicate 16 0) wrapped with
            | .ok k => .ok (.decoder (Decoder.mk' k 32 m d.encryptMetadata))
            | .err => .ok .invalidPassword
            | .panic => .panic
            | .oof => .oof
        (hash56 P level pw userValidationSalt []).bind fun uh =>
        if uh == userHash then
          (hash56 P level pw userKeySalt []).bind fun ik => finish ik ue
        else
          (hash56 P level pw ownerValidationSalt d.u).bind fun oh =>
          if oh == ownerHash then
            (hash56 P level pw ownerKeySalt d.u).bind fun ik => finish ik oe
          else .ok .invalidPassword

/-- `Decoder::from_password` -/
def fromPassword (P : Prims) (d : CryptDict) (id pass : Bytes) : Out PwResult :=
  (selectMethod d).bind fun (keyBits, m) =>
  let level := d.r
  if ¬ (2 ≤ level ∧ level ≤ 6) then .err
  else if level ≤ 4 then fromPasswordRc4 P d id pass level keyBits m
  else fromPassword56 P d pass level m

/-! ## Per-object decryption (Algorithm 1 / 1.A) -/

/-- `id.id.to_le_bytes()[..3]` -/
def idBytes (id : Nat) : Bytes := [UInt8.ofNat (id % 256), UInt8.ofNat (id / 256 % 256), UInt8.ofNat (id / 65536 % 256)]

/-- `id.gen.to_le_bytes()[..2]` -/
def genBytes (gen : Nat) : Bytes := [UInt8.ofNat (gen % 256), UInt8.ofNat (gen / 256 % 256)]

def sAlT : Bytes := [0x73, 0x41, 0x6C, 0x54]

/-- `Decoder::decrypt(id, data)` -/
def decrypt (P : Prims) (d : Decoder) (id gen : Nat) (data : Bytes) : Out Bytes :=
  if d.encryptRef = some (id, gen) then .ok data
  else if !d.encryptMetadata ∧ d.metadataRef = some (id, gen) then .ok data
  else if data.isEmpty then .ok data
  else
    match d.method with
    | .none => .panic                                  -- `unreachable!()`
    | .v2 =>
      d.keyOf.bind fun k =>
      let n := k.length
      (P.md5 (k ++ idBytes id ++ genBytes gen)).bind fun h =>
      rc4Encrypt (h.take (min (n + 5) 16)) data
    | .aesv2 =>
      d.keyOf.bind fun k =>
      let n := min d.keySize 16
      (P.md5 (k ++ idBytes id ++ genBytes gen ++ sAlT)).bind fun h =>
      let key := h.take (min (n + 5) 16)
      if data.length < 16 then .err
      else cbcDecryptPkcs7 P 16 key (data.take 16) (data.drop 16)
    | .aesv3 =>
      if data.length < 16 then .err
      else cbcDecryptPkcs7 P 32 d.key (data.take 16) (data.drop 16)

/-! ## Where decryption is invoked -/

/-- `parser::Context::decrypt`: no decoder, no change -/
def ctxDecrypt (P : Prims) (dec : Option Decoder) (id gen : Nat) (data : Bytes) : Out Bytes :=
  match dec with
  | some d => decrypt P d id gen data
  | none => .ok data

/-- what matters of a `Primitive` for this property: strings, containers, everything else -/
inductive Val where
  | str (b : Bytes)
  | atom (tag : Nat)
  | arr (xs : List Val)
  | dict (kvs : List (Bytes × Val))
deriving Repr, Inhabited

mutual
/-- `_parse_with_lexer_ctx` as far as strings go: every literal / hex string of an indirect object goes
    through `ctx.decrypt` with the id of the *containing* object; arrays and dictionaries recurse with the
    same context; the first error aborts -/
def decryptVal (P : Prims) (dec : Option Decoder) (id gen : Nat) : Val → Out Val
  | .str b => (ctxDecrypt P dec id gen b).bind fun b' => .ok (.str b')
  | .atom t => .ok (.atom t)
  | .arr xs => (decryptVals P dec id gen xs).bind fun ys => .ok (.arr ys)
  | .dict kvs => (decryptKvs P dec id gen kvs).bind fun r => .ok (.dict r)
def decryptVals (P : Prims) (dec : Option Decoder) (id gen : Nat) : List Val → Out (List Val)
  | [] => .ok []
  | x :: xs => (decryptVal P dec id gen x).bind fun y => (decryptVals P dec id gen xs).bind fun ys => .ok (y :: ys)
def decryptKvs (P : Prims) (dec : Option Decoder) (id gen : Nat) : List (Bytes × Val) → Out (List (Bytes × Val))
  | [] => .ok []
  | (k, v) :: rest => (decryptVal P dec id gen v).bind fun y => (decryptKvs P dec id gen rest).bind fun ys => .ok ((k, y) :: ys)
end

/-- `Storage::decode`: the raw bytes are decrypted with the stream's own id, then the filters run -/
def applyFilters : List (Bytes → Out Bytes) → Bytes → Out Bytes
  | [], d => .ok d
  | f :: fs, d => (f d).bind (applyFilters fs)

def decodeStream (P : Prims) (dec : Option Decoder) (id gen : Nat) (raw : Bytes) (filters : List (Bytes → Out Bytes)) : Out Bytes :=
  (ctxDecrypt P dec id gen raw).bind (applyFilters filters)

/-- how `Storage::resolve_ref` reads an object: `XRef::Raw` → `parse_indirect_object` with the decoder and
    the id found in the object header; `XRef::Stream` → `parse(slice, …)` without any context (members of an
    object stream are never decrypted individually) -/
def readObject (P : Prims) (dec : Option Decoder) (compressed : Bool) (id gen : Nat) (v : Val) : Out Val :=
  if compressed then .ok v else decryptVal P dec id gen v

/-- `load_storage_and_trailer_password` after `from_password` succeeded: the references of the trailer's
    `/Encrypt` and of the catalog's `/Metadata` are recorded (only when they are references) -/
def installDecoder (d : Decoder) (encryptRef metadataRef : Option (Nat × Nat)) : Decoder :=
  { d with encryptRef := encryptRef, metadataRef := metadataRef }

end Crypt
