import PdfModel.Model.XrefTable
import PdfModel.Model.XrefStream

/-!
  `parse_xref_stream_and_trailer` (`pdf/src/parser/parse_xref.rs`): the reader of a section stored as a
  cross-reference *stream*, i.e. the parameter `stm` of `XrefTable.readXrefAndTrailerAt` made concrete, on top of
  the object parser (`PdfLex.parseIndirectStream`), the trailer reader of `Model/XrefTable` and the row reader of
  `Model/XrefStream`.

  Rust item                                                     model definition
  ------------------------------------------------------------  ------------------------------------------
  t!(parse_indirect_stream(lexer, resolve, None)).1              `PdfLex.parseIndirectStream`
  if t!(lexer.next()) == "trailer" { parse_with_lexer(DICT) …    `XrefTable.trailerDict`
     } else { xref_stream.info.clone() }                         the stream's own dictionary
  Stream::<XRefInfo>::from_primitive(…)                          parameter `typed` (`/W`, `/Index` with its default
                                                                 `[0 Size]`): the derive-generated reader, whose
                                                                 totality is `Props/C01.derived_reader_total`
  xref_stream.data(resolve)                                      parameter `data` (`Resolve::stream_data` on the file
                                                                 range + the filter chain, `Model/Enc`)
  if index.len() % 2 != 0 { Err }                                the parity test
  index.chunks_exact(2) … parse_xref_section_from_stream         `Xref.parseSections` (`allowErr` =
                                                                 `resolve.options().allow_xref_error`)
-/

namespace XrefTable
open PdfLex Xref

/-- the typed entries of an `XRefInfo` that the section reader uses -/
structure XInfo where
  w : List Nat
  index : List Nat

/-- `index.chunks_exact(2).map(|c| (c[0], c[1]))` -/
def pairsOf : List Nat → List (Nat × Nat)
  | a :: b :: rest => (a, b) :: pairsOf rest
  | _ => []

/-- `if t!(lexer.next()) == "trailer" { parse_with_lexer(DICT)…into_dictionary() } else { xref_stream.info.clone() }`
    (`w`: the lexeme that `next` returned) -/
def streamTrailer {R : Type} (env : Env R) (buf : Buf) (pfuel : Nat) (w : Nat × Nat) (info : Dict R) : Out (Dict R) :=
  if slice buf w.1 w.2 == kwTrailer then
    match trailerDict env buf pfuel w.2 with
    | .ok (d, _) => .ok d
    | .err => .err | .panic => .panic | .oof => .oof
  else .ok info

/-- `parse_xref_stream_and_trailer(lexer, resolve)` with the lexer at `pos` -/
def parseXrefStreamAndTrailer {R : Type} (env : Env R) (typed : Dict R → Out XInfo)
    (data : Dict R → StreamInner → Out (List UInt8)) (allowErr : Bool) (buf : Buf) (pfuel pos : Nat) :
    Out (List Sub × Dict R) :=
  match parseIndirectStream env buf pfuel pos with
  | .ok ((_, .stream info inner), p) =>
    match next buf p with
    | .ok w =>
      match streamTrailer env buf pfuel w info with
      | .ok tr =>
        match typed info with
        | .ok xi =>
          match data info inner with
          | .ok bytes =>
            if xi.index.length % 2 != 0 then .err
            else
              match parseSections xi.w allowErr (pairsOf xi.index) bytes [] with
              | .ok secs => .ok (secs, tr)
              | .err => .err | .panic => .panic | .oof => .oof
          | .err => .err | .panic => .panic | .oof => .oof
        | .err => .err | .panic => .panic | .oof => .oof
      | .err => .err | .panic => .panic | .oof => .oof
    | .err => .err | .panic => .panic | .oof => .oof
  | .ok (_, _) => .err              -- (`parse_indirect_stream` only returns streams)
  | .err => .err | .panic => .panic | .oof => .oof

/-- `read_xref_and_trailer_at` with both section formats concrete -/
def readXrefAt {R : Type} (env : Env R) (typed : Dict R → Out XInfo) (data : Dict R → StreamInner → Out (List UInt8))
    (allowErr : Bool) (buf : Buf) (pos : Nat) : Out (List Sub × Dict R) :=
  readXrefAndTrailerAt env (fun b p => parseXrefStreamAndTrailer env typed data allowErr b (PdfLex.defaultFuel b) p)
    buf (defaultFuel buf) (PdfLex.defaultFuel buf) pos

end XrefTable
