import PdfModel.Model.XrefTableC01
import PdfModel.Model.Offsets

/-!
  A concrete instance of the parser parameters of `Model/Offsets` (`Offsets.Parsers`), built from the
  byte-level models `Model/Parser` and `Model/XrefTable`: files with a classic cross-reference table whose
  objects are not streams.  It exists so that the hypothesis `Offsets.Total P` of `Props/C01.open_core_total` is
  seen to be met by the modelled parsers themselves (`Props/C01.table_parsers_total`) and so that the
  composition can be run on a small document (`Props/C01`, non-vacuity).

  Rust                                                          this instance
  ----                                                          -------------
  read_xref_and_trailer_at on `read(pos ..)`                    `readXrefAt` on the suffix (table branch; a
                                                                cross-reference *stream* needs the typed loader
                                                                `Stream::<XRefInfo>` and the filters: `Err` here)
  trailer.get("Size").as_u32(), trailer.get("Prev").as_usize()  `trailerSize`, `trailerPrev`
  parse_indirect_object on `read(start + pos ..)`               `parseIndirectObject` on the suffix; a stream object
                                                                is `Err` here (the split of `parse_stream_object`
                                                                into dictionary / length / data is `Offsets`' own)
  parser::parse(slice, resolve, flags)                          `parse`
  object streams, filters, `scan` items                         `Err` / none (they stay parameters of `Offsets`)

  A suffix longer than `isize::MAX` cannot be a Rust slice; the instance answers `Err` for it.
-/

namespace PdfLex

variable {R : Type}

def isizeMax : Nat := 9223372036854775807

/-- `Size` -/
def kwSize : List UInt8 := [83, 105, 122, 101]
/-- `Prev` -/
def kwPrev : List UInt8 := [80, 114, 101, 118]

/-- `Primitive::as_u32` / `as_usize` (an `Integer` that is not negative) -/
def asNat : Prim R → Out Nat
  | .int n => if n ≥ 0 then .ok n.toNat else .err
  | _ => .err

def trailerSize (d : Dict R) : Out Nat :=
  match dictGet d kwSize with
  | some v => asNat v
  | none => .err

def trailerPrev (d : Dict R) : Option (Out Nat) := (dictGet d kwPrev).map asNat

def flagsOf : Offsets.Flags → Nat
  | .any => Flags.any
  | .integer => Flags.integer

def tableOnlyParsers (env : Env R) : Offsets.Parsers (Prim R) (Dict R) where
  xrefAt := fun sfx =>
    if sfx.length > isizeMax then .err else
    match readXrefAt env sfx.toArray 0 with
    | .ok (.table secs d, _) => .ok (secs, d)
    | .ok (.stream _ _, _) => .err
    | .err => .err | .panic => .panic | .oof => .oof
  sizeOf := trailerSize
  prevOf := trailerPrev
  objAt := fun fl sfx =>
    if sfx.length > isizeMax then .err else
    match parseIndirectObject { env with resolveLen := fun _ _ => .err } sfx.toArray (defaultFuel sfx.toArray) 0 (flagsOf fl) with
    | .ok ((_, .stream _ _), _) => .err
    | .ok ((_, v), _) => .ok (.plain v)
    | .err => .err | .panic => .panic | .oof => .oof
  streamEnd := fun _ => .err
  asLen := asNat
  stmHead := fun _ => .err
  decode := fun _ _ => .err
  parseMember := fun fl s =>
    if s.length > isizeMax then .err else
    match parse env s.toArray (flagsOf fl) with
    | .ok (v, _) => .ok v
    | .err => .err | .panic => .panic | .oof => .oof
  scanItems := fun _ => []

end PdfLex
