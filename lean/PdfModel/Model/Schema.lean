/-!
# Schemas of the derived typed models (C15, C18)

Data types for what `pdf_derive` sees when it expands `#[derive(Object)]` / `#[derive(ObjectWrite)]`
(`pdf_derive/src/lib.rs`): the item attributes (`GlobalAttrs`: `Type = ".."` with the `?` suffix, further
`Key = "Value"` checks, `is_stream`), the per-field attributes (`FieldAttrs`: `key`, `default`, `other`,
`skip`, `indirect`; `name` / `other` on enum variants), and the *shape* of every field type as far as the
`Object` / `ObjectWrite` impls of `pdf/src/object/mod.rs` are concerned.

The values of these types are not written by hand: `lean/PdfModel/Generated/Schemas.lean` is produced by the
translator (`pdfverif extract`, harness/src/extract.rs) from the Rust sources on every run of `./check`.
This file is import-free (it is linked into the model driver).

| Rust                                                        | here                         |
|-------------------------------------------------------------|------------------------------|
| field type `Option<T>`, `Vec<T>`, `HashMap<Name,T>`, `Box<T>`, `(T,U)` | `Shape.option` … `Shape.pair` |
| `MaybeRef<T>`, `RcRef<T>`, `Ref<T>`, `Lazy<T>`               | `Shape.maybeRef` … `Shape.lazy` |
| a type that itself derives `Object` (`Resources`, `Files<T>`) | `Shape.model`, `Shape.modelApp` |
| any other type (`i32`, `Name`, `Rectangle`, `Stream<()>`, …)  | `Shape.leaf`, `Shape.leafApp`  |
| `GlobalAttrs { checks, type_name, type_required, is_stream }` | `Schema.checks/typeName/typeRequired/kind` |
| `FieldAttrs { key, default, skip, other, indirect }`          | `Field`                        |
| `enum_pairs` (variant name / `other` variant), discriminants  | `Variant`                      |
-/

namespace Derive

inductive Shape where
  | leaf (name : String)
  | leafApp (name : String) (arg : Shape)
  | model (name : String)
  | modelApp (name : String) (arg : Shape)
  | param (name : String)
  | option (a : Shape)
  | vec (a : Shape)
  | hashMap (a : Shape)
  | box (a : Shape)
  | maybeRef (a : Shape)
  | rcRef (a : Shape)
  | ref (a : Shape)
  | lazy (a : Shape)
  | pair (a b : Shape)
  deriving Repr, DecidableEq, Inhabited

structure Field where
  ident : String
  /-- `#[pdf(key = "..")]`; absent exactly on `other` and `skip` fields -/
  key : Option String
  /-- `#[pdf(default = "<rust expression>")]` -/
  default : Option String
  other : Bool
  skip : Bool
  indirect : Bool
  shape : Shape
  deriving Repr, DecidableEq, Inhabited

structure Variant where
  ident : String
  /-- the PDF name (`#[pdf(name = "..")]`, else the identifier) -/
  name : String
  other : Bool
  /-- explicit discriminant (integer enums) -/
  disc : Option Int
  deriving Repr, DecidableEq, Inhabited

inductive Kind where
  | struct | nameEnum | intEnum | streamEnum | streamStruct
  deriving Repr, DecidableEq, Inhabited

structure Schema where
  name : String
  kind : Kind
  params : List String
  derivesRead : Bool
  derivesWrite : Bool
  /-- `#[pdf(Type = "X")]` / `#[pdf(Type = "X?")]` (`typeRequired = false` for the `?` form) -/
  typeName : Option String
  typeRequired : Bool
  checks : List (String × String)
  fields : List Field
  variants : List Variant
  deriving Repr, Inhabited

/-! ## Shape predicates -/

def Shape.isOption : Shape → Bool
  | .option _ => true
  | _ => false

/-- type parameters mentioned in a shape -/
def Shape.paramsIn : Shape → List String
  | .leaf _ | .model _ => []
  | .param n => [n]
  | .leafApp _ a | .modelApp _ a | .option a | .vec a | .hashMap a | .box a
  | .maybeRef a | .rcRef a | .ref a | .lazy a => a.paramsIn
  | .pair a b => a.paramsIn ++ b.paramsIn

/-- leaf type names mentioned in a shape -/
def Shape.leaves : Shape → List String
  | .leaf n => [n]
  | .model _ | .param _ => []
  | .leafApp n a => n :: a.leaves
  | .modelApp _ a | .option a | .vec a | .hashMap a | .box a
  | .maybeRef a | .rcRef a | .ref a | .lazy a => a.leaves
  | .pair a b => a.leaves ++ b.leaves

/-- derived models mentioned in a shape -/
def Shape.models : Shape → List String
  | .leaf _ | .param _ => []
  | .model n => [n]
  | .modelApp n a => n :: a.models
  | .leafApp _ a | .option a | .vec a | .hashMap a | .box a
  | .maybeRef a | .rcRef a | .ref a | .lazy a => a.models
  | .pair a b => a.models ++ b.models

/-! ## Well-formedness of a schema (decidable; `Props/C15.all_schemas_wf` checks it for the generated data) -/

def distinct : List String → Bool
  | [] => true
  | x :: xs => !xs.contains x && distinct xs

/-- the fields the reader looks up / the writer emits: those with a key -/
def Schema.keyed (S : Schema) : List Field := S.fields.filter fun f => !f.other && !f.skip

def Schema.fieldKeys (S : Schema) : List String := S.keyed.filterMap (·.key)

def Schema.otherField (S : Schema) : Option Field := S.fields.find? (·.other)

def Schema.hasOther (S : Schema) : Bool := S.fields.any (·.other)

/-- keys written before the fields: `/Type` (when the attribute is present) and the checks -/
def Schema.tagKeys (S : Schema) : List String :=
  (match S.typeName with | some _ => ["Type"] | none => []) ++ S.checks.map (·.1)

def Field.wf (params : List String) (f : Field) : Bool :=
  -- a key exactly on the fields that are neither catch-all nor skipped (`attrs.key()` panics otherwise)
  (f.key.isSome == (!f.other && !f.skip))
  && !(f.other && f.skip)
  -- `default` and `indirect` are only looked at on keyed fields
  && (f.default.isNone || f.key.isSome)
  && (!f.indirect || f.key.isSome)
  -- a default on an `Option` field could never be observed apart from `None` (the writer omits `None`,
  -- the reader would turn the omission into the default): the round trip would not hold
  && (f.default.isNone || !f.shape.isOption)
  -- the catch-all is a `Dictionary`
  && (!f.other || f.shape == .leaf "Dictionary")
  && f.shape.paramsIn.all params.contains

def lastIsOther : List Field → Bool
  | [] => true
  | [_] => true
  | f :: fs => !f.other && lastIsOther fs

def Schema.structWf (S : Schema) : Bool :=
  S.fields.all (Field.wf S.params)
  -- one dictionary key per field, none of them clashing with the type tag or a check
  && distinct (S.tagKeys ++ S.fieldKeys)
  -- at most one catch-all, and it is the last field (the reader moves the dictionary into it)
  && (S.fields.filter (·.other)).length ≤ 1
  && (!S.derivesRead || lastIsOther S.fields)
  -- a skipped field has no value to construct: only a write-only model may have one
  && (!S.derivesRead || S.fields.all (!·.skip))
  && S.variants.isEmpty

def Schema.enumWf (S : Schema) : Bool :=
  S.fields.isEmpty
  && !S.variants.isEmpty
  && distinct ((S.variants.filter (!·.other)).map (·.name))
  && (S.variants.filter (·.other)).length ≤ 1
  && (match S.kind with
      | .intEnum => S.variants.all (fun v => v.disc.isSome && !v.other)
                    && ((S.variants.filterMap (·.disc)).map toString |> distinct)
      | _ => S.variants.all (·.disc.isNone))

def Schema.wf (S : Schema) : Bool :=
  match S.kind with
  | .struct => S.structWf
  | .nameEnum | .intEnum => S.enumWf
  | .streamEnum => S.enumWf && !S.derivesWrite
  | .streamStruct => !S.derivesWrite

def Schema.WF (S : Schema) : Prop := S.wf = true

instance (S : Schema) : Decidable S.WF := inferInstanceAs (Decidable (_ = true))

/-! ## Tag ↔ variant dispatch of the hand-written readers and writers (generated: `Generated/Dispatch.lean`) -/

/-- one `match` arm: a reader arm goes from `tags` (string literals / enum paths in the pattern or guard) to the
    `variants` of the value enum constructed in its body; a writer arm from the `variants` in its pattern to the
    `tags` occurring in its body -/
structure Arm where
  func : String
  tags : List String
  variants : List String
  deriving Repr, DecidableEq, Inhabited

structure Dispatch where
  valueEnum : String
  variants : List String
  reader : List Arm
  writer : List Arm
  deriving Repr, Inhabited

/-- every tag under which a reader arm constructs variant `v` is emitted by a writer arm that takes `v` apart —
    unless no writer arm mentions `v` with a tag at all (the variant is not writable, or written without a tag) -/
def Dispatch.consistent (D : Dispatch) : Bool :=
  D.reader.all fun ra =>
    ra.variants.all fun v =>
      let was := D.writer.filter fun wa => wa.variants.contains v
      was.isEmpty || was.any fun wa => ra.tags.all wa.tags.contains

/-- the variants are declared variants of the enum -/
def Dispatch.wellScoped (D : Dispatch) : Bool :=
  (D.reader ++ D.writer).all fun a => a.variants.all D.variants.contains

end Derive
