import PdfModel.Model.DeriveTower
import PdfModel.Model.Handwritten2
import PdfModel.Model.DateRead
import PdfModel.Model.ColorSpaceLoad
import PdfModel.Model.FontLoad

/-!
  The typed layer with the modelled hand-written readers plugged in — C01.

  `Model/DeriveTower.semH` is the tower of derived readers over a registry of schemas, with ONE opaque parameter `hand`
  for every shape read by hand-written code. Here the hand-written readers that have a model on primitives are that
  model, and only the rest stays a parameter (`other`):

  shape (as it appears in the generated schemas)       reader here
  ---------------------------------------------------  --------------------------------------------------------------
  `Date`                                                `DateRead.readDate` on the bytes of the (resolved) string
  `Dest`                                                `Derive.readDest`
  `Action`                                              `Derive.readAction` over `readDest`
  `NumberTree<T>`, `NameTree<T>`                        `Derive.readNumTree` / `readNameTree`, `T` read by the level below
  `ColorSpace`                                          `CSLoad.csLoad` (budget 5; the object table has no stream objects:
                                                        `Derive.Prim` leaves streams out)
  `Font`                                                `FontLoad.readFont` over the level below (font in font: one level
                                                        of the tower per nesting)
  everything else that is hand-written (`Stream<T>`,    `other`
  `XObject`, `Pattern`, `CidToGidMap`, `AppearanceStreamEntry`, `Content`: readers of stream objects — their models
  are on `Derive.TPrim` / `APrim`, `Lemmas/TotalTyped`)

  The value a modelled reader returns is carried as a `Val` (a tag and the parts); nothing is claimed about these
  carriers beyond their existence — the statements about the values are the owning packages' (C15, C19).
-/

namespace Derive

/-- the hand-written shapes read by a model in `handM` -/
def isModelledHand : Shape → Bool
  | .leaf n => n == "Date" || n == "Dest" || n == "Action" || n == "ColorSpace" || n == "Font"
  | .leafApp n _ => n == "NumberTree" || n == "NameTree"
  | _ => false

/-- `Date::from_primitive` -/
def readDateP (env : Env) (p : Prim) : R Val :=
  match resolve1 env p with
  | .error e => .error e
  | .ok (.str bs) =>
    match DateRead.readDate bs with
    | .ok _ => .ok (.leaf (.str bs))
    | .err => .error .other
    | .panic => .error .oof
    | .oof => .error .oof
  | .ok _ => .error .other

def destVal (d : DestV) : Val := .leaf (writeDest d)

def readDestP (env : Env) (p : Prim) : R Val := (readDest env p).map destVal

def numTreeVal (t : NumTree) : Val :=
  let lim : Val := match t.limits with
    | some (a, b) => .some (.pair (.leaf (.int a)) (.leaf (.int b)))
    | none => .none
  match t.node with
  | .leaf items => .pair lim (.list (items.map fun kv => .pair (.leaf (.int kv.1)) kv.2))
  | .inter kids => .pair lim (.list (kids.map fun k => .leaf (.ref k.1 k.2)))

def nameTreeVal (t : NameTreeV) : Val :=
  let lim : Val := match t.limits with
    | some (a, b) => .some (.pair (.leaf (.str a)) (.leaf (.str b)))
    | none => .none
  match t.node with
  | .leaf items => .pair lim (.list (items.map fun kv => .pair (.leaf (.str kv.1)) kv.2))
  | .inter kids => .pair lim (.list (kids.map fun k => .leaf (.ref k.1 k.2)))

def csVal : CSLoad.CS → Val
  | .deviceGray => .leaf (.name "DeviceGray")
  | .deviceRGB => .leaf (.name "DeviceRGB")
  | .deviceCMYK => .leaf (.name "DeviceCMYK")
  | .pattern => .leaf (.name "Pattern")
  | .named n => .leaf (.name n)
  | .indexed b h _ => .list [.leaf (.name "Indexed"), csVal b, .leaf (.int h)]
  | .separation n a t => .list [.leaf (.name "Separation"), .leaf (.name n), csVal a, .lazy t]
  | .icc p => .list [.leaf (.name "ICCBased"), .lazy p]
  | .deviceN ns a t _ => .list [.leaf (.name "DeviceN"), .lazy ns, csVal a, .lazy t]
  | .calGray d => .list [.leaf (.name "CalGray"), .leaf (.dict d)]
  | .calRGB d => .list [.leaf (.name "CalRGB"), .leaf (.dict d)]
  | .calCMYK d => .list [.leaf (.name "CalCMYK"), .leaf (.dict d)]
  | .other arr => .leaf (.arr arr)

def readColorSpaceP (env : Env) (p : Prim) : R Val :=
  (CSLoad.csLoad { env := env, streams := fun _ => none } p).map csVal

def fontVal (f : FontLoad.FontV) : Val :=
  let data : Val := match f.data with
    | .type0 v => v
    | .tfont v => v
    | .cid v => v
    | .other d => .leaf (.dict d)
  .struct [.leaf (.name f.plan.subtype),
           (match f.plan.name with | some n => .some (.leaf (.name n)) | none => .none),
           (match f.toUnicode with | some v => .some v | none => .none),
           data] f.plan.other

/-- the four derived models `Font::from_primitive` uses, looked up in the registry -/
def fontSchemas (schemas : List Schema) : Option FontLoad.Schemas :=
  match findSchema "FontType" schemas, findSchema "Type0Font" schemas, findSchema "TFont" schemas,
        findSchema "CIDFont" schemas with
  | some a, some b, some c, some d => some ⟨a, b, c, d⟩
  | _, _, _, _ => none

/-- the modelled hand-written readers; `inner`: the readers one nesting level down -/
def handM (cfg : Cfg) (schemas : List Schema) (inner : Sem) (env : Env) : Shape → Prim → R Val
  | .leaf n, p =>
    if n = "Date" then readDateP env p
    else if n = "Dest" then readDestP env p
    else if n = "Action" then readAction (readDestP env) env p
    else if n = "ColorSpace" then readColorSpaceP env p
    else if n = "Font" then
      match fontSchemas schemas with
      | some S => (FontLoad.readFont cfg inner S env p).map fontVal
      | none => .error .oof
    else .error .other
  | .leafApp n t, p =>
    if n = "NumberTree" then (readNumTree (readShape cfg inner env t) env p).map numTreeVal
    else if n = "NameTree" then (readNameTree (readShape cfg inner env t) env p).map nameTreeVal
    else .error .other
  | _, _ => .error .other

/-- the typed layer: derived readers, modelled hand-written readers, and `other` for the rest -/
def semM (cfg : Cfg) (schemas : List Schema) (other : Env → Shape → Prim → R Val) : Nat → Sem
  | 0 => semH cfg schemas (fun env s p => if isModelledHand s then .error .other else other env s p) 0
  | n + 1 =>
    { rd := fun env s p =>
        if isHand schemas s then
          (if isModelledHand s then handM cfg schemas (semM cfg schemas other n) env s p else other env s p)
        else (structSem cfg schemas (semM cfg schemas other n)).rd env s p
      wr := (structSem cfg schemas (semM cfg schemas other n)).wr
      dflt := dfltH schemas }

end Derive
