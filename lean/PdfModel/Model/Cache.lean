/-!
# Model of the object cache and the stream cache of `pdf::file` (C12; sequential core of C13)

Rust item (pdf/src/…)                                        → definition here
------------------------------------------------------------------------------------------------------
`T::from_primitive(resolve(key)?, self)` with the calls it
  makes back into the resolver (`get`, `get_data_or_decode`)  → `Prog` (an interaction tree), `Doc.body T r`
`Storage::decode(id, range, filters)` (file.rs:142)           → `Doc.decode r fs` (pure: backend read, decrypt,
                                                                filter chain; the range is a function of `id`)
`StorageResolver::get::<T>` (file.rs)                         → `getM` : guard check on `chain`, nesting limit
                                                                `MAX_NESTED_GETS`, push,
                                                                `cache.get_or_compute`, type-checked downcast
                                                                (`AnySync::downcast`, any.rs:89) with uncached
                                                                fallback on mismatch, cached `Err`, pop;
                                                                the compute closure is `Doc.compute`
`Cache::get_or_compute` for `NoCache` / `SyncCache`           → `Cfg.objCache = false / true` (`SyncCache::get`
                                                                run by one thread: lookup, compute, insert; the
                                                                in-process marker is never seen by its own thread
                                                                because the guard rejects the nested `get`)
`StorageResolver::get_data_or_decode` (file.rs:356)           → `dataM` : keyed by the reference only, the filter
                                                                list is NOT part of the key; errors are cached too
`Stream::data` (stream.rs:73)                                 → `Prog.data r (all filters)`  (see `Model/CacheDoc`)
`ImageXObject::raw_image_data` (types.rs:620)                 → program `rawImage` in `Model/CacheDoc`
a top level call through a fresh / idle resolver              → `call` (empty chain)
a history of calls on one document                            → `runCalls`, `outputs`

`Res.oof` is "the model ran out of fuel" (the recursion of `get` through `from_primitive` is not
structural); `Props/C12` proves it never happens once the fuel exceeds the depth of the document.
`SyncCache` never evicts here: `clean` is only ever called by the global tokio cleaner of `globalcache`,
which the library does not start (stated in the claim).

`Cfg.trustErr = true` is the behaviour before the repair of D28 (a cached `Err` was returned whatever
type was asked for); the code under test has `trustErr = false`: an `Err` that came out of the cache
(not computed by this very call) is not trusted, the load is redone like on a downcast mismatch.
-/

namespace Cache

/-- result of a call: `Ok(v)`, `Err(e)` (`e` = kind of error), or out of fuel (model only) -/
inductive Res (V E : Type) where
  | ok (v : V)
  | err (e : E)
  | oof
deriving DecidableEq, Repr, Inhabited

/-- A load as the resolver sees it: a deterministic computation that may call back
    `resolve.get::<T>(r)` and `resolve.get_data_or_decode(r, _, fs)` any number of times, each time
    continuing with whatever the resolver answered (value or error: `Option<_>` fields swallow errors
    in tolerant mode, `?` propagates them). -/
inductive Prog (V E : Type) where
  | ret (x : Res V E)
  | get (T : Nat) (r : Nat) (k : Res V E → Prog V E)
  | data (r : Nat) (fs : List Nat) (k : Res V E → Prog V E)

structure Doc (V E : Type) where
  /-- `resolve(r).and_then(|p| T::from_primitive(p, self))` -/
  body : Nat → Nat → Prog V E
  /-- `self.resolve(r)` once more: the compute closure of `get` does it when the load failed, only to
      print the primitive in a warning (file.rs:330); its nested calls still happen -/
  relog : Nat → Prog V E
  /-- `Storage::decode` -/
  decode : Nat → List Nat → Res V E
  /-- the error of `bail!("Recursive reference")` -/
  recErr : E

/-- `Result<AnySync, Arc<PdfError>>`: a value tagged with the `TypeId` it was loaded as, or an error
    (which carries no type) -/
inductive Entry (V E : Type) where
  | val (T : Nat) (v : V)
  | err (e : E)
deriving DecidableEq, Repr

structure St (V E : Type) where
  obj : List (Nat × Entry V E)
  stm : List (Nat × Res V E)

def St.empty {V E : Type} : St V E := ⟨[], []⟩

structure Cfg where
  objCache : Bool
  stmCache : Bool
  trustErr : Bool := false
deriving DecidableEq, Repr

def Cfg.none : Cfg := ⟨false, false, false⟩
def Cfg.both : Cfg := ⟨true, true, false⟩
def Cfg.objOnly : Cfg := ⟨true, false, false⟩
def Cfg.stmOnly : Cfg := ⟨false, true, false⟩

variable {V E : Type}

/-- `MAX_NESTED_GETS` (file.rs): how many typed loads may be in progress inside each other -/
def maxNestedGets : Nat := 64

/-- `get_data_or_decode`: `stream_cache.get_or_compute(id, || decode(id, range, filters))` -/
def dataM (d : Doc V E) (cfg : Cfg) (st : St V E) (r : Nat) (fs : List Nat) : Res V E × St V E :=
  if cfg.stmCache then
    match st.stm.lookup r with
    | some v => (v, st)
    | none => (d.decode r fs, { st with stm := (r, d.decode r fs) :: st.stm })
  else (d.decode r fs, st)

/-- run a load; `getF` is the resolver's `get` -/
def run (getF : List Nat → St V E → Nat → Nat → Res V E × St V E) (d : Doc V E) (cfg : Cfg) :
    List Nat → St V E → Prog V E → Res V E × St V E
  | _, st, .ret x => (x, st)
  | ch, st, .get T r k =>
    match getF ch st T r with
    | (.oof, st') => (.oof, st')
    | (x, st') => run getF d cfg ch st' (k x)
  | ch, st, .data r fs k =>
    run getF d cfg ch (dataM d cfg st r fs).2 (k (dataM d cfg st r fs).1)

/-- run `q` for its effects only, then return `x` -/
def discard : Prog V E → Res V E → Prog V E
  | .ret _, x => .ret x
  | .get T r k, x => .get T r fun y => discard (k y) x
  | .data r fs k, x => .data r fs fun y => discard (k y) x

/-- `p`, and when it ends in an error `q` for its effects -/
def orLog : Prog V E → Prog V E → Prog V E
  | .ret (.err e), q => discard q (.err e)
  | .ret x, _ => .ret x
  | .get T r k, q => .get T r fun y => orLog (k y) q
  | .data r fs k, q => .data r fs fun y => orLog (k y) q

/-- the compute closure handed to `get_or_compute` (file.rs:328-337) -/
def Doc.compute (d : Doc V E) (T r : Nat) : Prog V E := orLog (d.body T r) (d.relog r)

/-- what `get` does with the outcome of the compute closure on a cache miss: it is stored -/
def store (st : St V E) (r T : Nat) : Res V E → Res V E × St V E
  | .ok v => (.ok v, { st with obj := (r, .val T v) :: st.obj })
  | .err e => (.err e, { st with obj := (r, .err e) :: st.obj })
  | .oof => (.oof, st)

/-- `StorageResolver::get::<T>(r)` with `chain` as found -/
def getM (d : Doc V E) (cfg : Cfg) : Nat → List Nat → St V E → Nat → Nat → Res V E × St V E
  | 0, _, st, _, _ => (.oof, st)
  | f+1, ch, st, T, r =>
    if r ∈ ch then (.err d.recErr, st) else
    -- `bail!("references nested too deeply")`: the same kind of error (`PdfError::Other`)
    if maxNestedGets ≤ ch.length then (.err d.recErr, st) else
    if cfg.objCache then
      match st.obj.lookup r with
      | some (.val T' v) =>
        if T' = T then (.ok v, st)
        else run (getM d cfg f) d cfg (r :: ch) st (d.body T r)
      | some (.err e) =>
        if cfg.trustErr then (.err e, st)
        else run (getM d cfg f) d cfg (r :: ch) st (d.body T r)
      | none =>
        store (run (getM d cfg f) d cfg (r :: ch) st (d.compute T r)).2 r T
              (run (getM d cfg f) d cfg (r :: ch) st (d.compute T r)).1
    else run (getM d cfg f) d cfg (r :: ch) st (d.compute T r)

/-- one top level call: the chain is empty -/
def call (d : Doc V E) (cfg : Cfg) (fuel : Nat) (st : St V E) (p : Prog V E) : Res V E × St V E :=
  run (getM d cfg fuel) d cfg [] st p

def runCalls (d : Doc V E) (cfg : Cfg) (fuel : Nat) : St V E → List (Prog V E) → List (Res V E)
  | _, [] => []
  | st, p :: ps => (call d cfg fuel st p).1 :: runCalls d cfg fuel (call d cfg fuel st p).2 ps

/-- the answers, call by call, of a freshly opened document -/
def outputs (d : Doc V E) (cfg : Cfg) (fuel : Nat) (calls : List (Prog V E)) : List (Res V E) :=
  runCalls d cfg fuel St.empty calls

/-! ### Reference semantics: no guard, no caches -/

/-- evaluate a load when `get::<T>(r)` answers `ans T r` and stream data is decoded afresh -/
def canon (ans : Nat → Nat → Res V E) (d : Doc V E) : Prog V E → Res V E
  | .ret x => x
  | .get T r k =>
    match ans T r with
    | .oof => .oof
    | x => canon ans d (k x)
  | .data r fs k => canon ans d (k (d.decode r fs))

/-- typed load by plain recursion through the bodies (depth-limited) -/
def ansF (d : Doc V E) : Nat → Nat → Nat → Res V E
  | 0, _, _ => .oof
  | f+1, T, r => canon (ansF d f) d (d.body T r)

end Cache
