import PdfModel.Core.Out

/-!
  Model of the page-tree code (property C07).

  Rust item (pdf/src/object/types.rs, pdf/src/file.rs)          model definition
  -----------------------------------------------------------   ---------------------------------------
  the indirect objects of the file that make up the tree          `Obj`, `Tbl` (object number ↦ object)
  `PagesNode::from_primitive` (typing by /Type), `Page::from_dict`
     with `parent: PagesRc`, `PageTree::from_dict` with
     `parent: Option<PagesRc>` — loading a node loads, through
     /Parent, the whole chain of its ancestors                    `loadTree`, `loadNode`
  `StorageResolver::get` recursion guard (`chain`)                the `stack` argument of `loadTree`
  `PageTree` / `Page` (the three inheritable fields only)         `TreeRec` (+ ancestors), `Leaf`
  `PageTree::page` (depth 16), `PageTree::page_limited`           `page`, `pageLimited`, `pageKids`
  `File::num_pages` (= `trailer.root.pages.count`)                `numPages`
  `File::get_page`                                                `getPage`
  `inherit`                                                       `inherit`
  `Page::media_box`, `crop_box`, `resources`                      `mediaBox`, `cropBox`, `resources`

  What is abstracted: attribute *values* are markers (`Nat`): the Rust `inherit` is generic in `T` and never
  looks at the value.  Everything below the object level (tokens, xref, object streams, cache) is outside this
  model; the correspondence check (harness/src/c07.rs) runs real files through `File::get_page`.

  Arithmetic: `pos`, `count`, `page_nr` are `u32`; the harness and the test-suite are built with overflow
  checks, so `pos + tree.count` and `pos += 1` panic when the sum reaches 2^32 (defect D36, only reachable with
  lying counts; inside the property's domain the sum is bounded by the number of leaves).
-/

namespace PageTree

/-- the three inheritable attributes; `none` = key absent; the value is a marker -/
structure Attrs where
  mediaBox : Option Nat
  cropBox : Option Nat
  resources : Option Nat
deriving DecidableEq, Repr, Inhabited

/-- an indirect object as far as the page tree is concerned -/
inductive Obj where
  /-- `<< /Type /Page /Parent p 0 R … >>` -/
  | page (parent : Nat) (a : Attrs)
  /-- `<< /Type /Pages [/Parent p 0 R] /Kids [k 0 R …] /Count n … >>` -/
  | pages (parent : Option Nat) (kids : List Nat) (count : Nat) (a : Attrs)
  /-- anything that `PagesNode::from_primitive` rejects (other /Type, not a dictionary, missing key) -/
  | other
deriving DecidableEq, Repr, Inhabited

/-- object number ↦ object (`none`: free / undefined / dangling) -/
abbrev Tbl := Nat → Option Obj

/-- a loaded `PageTree` (without its `parent` field, which is kept beside it as a list) -/
structure TreeRec where
  id : Nat
  kids : List Nat
  count : Nat
  a : Attrs
deriving DecidableEq, Repr, Inhabited

/-- a loaded `Page`: object number, own attributes, `parent` and the parent's loaded ancestors
    (nearest first): this is the linked list `page.parent.parent.parent…` of the Rust value -/
structure Leaf where
  id : Nat
  a : Attrs
  parent : TreeRec
  anc : List TreeRec
deriving DecidableEq, Repr, Inhabited

inductive LNode where
  | tree (t : TreeRec) (anc : List TreeRec)
  | leaf (l : Leaf)
deriving DecidableEq, Repr, Inhabited

def u32Max : Nat := 4294967296

/-- `resolve.get::<PagesNode>(r)` for a reference that must be a `Pages` node (`PagesRc::from_primitive`):
    refuses a reference that is already being loaded (recursion guard), loads the dictionary, then the
    /Parent chain.  `fuel` bounds the chain; `oof` is impossible when `fuel` exceeds the number of
    objects because the guard stack is duplicate-free. -/
def loadTree (tbl : Tbl) : Nat → List Nat → Nat → Out (TreeRec × List TreeRec)
  | 0, _, _ => .oof
  | fuel + 1, stack, r =>
    if r ∈ stack then .err
    else match tbl r with
      | some (.pages parent kids count a) =>
        if count ≥ u32Max then .err     -- `Count: u32`
        else match parent with
        | none => .ok (⟨r, kids, count, a⟩, [])
        | some p =>
          match loadTree tbl fuel (r :: stack) p with
          | .ok (t, anc) => .ok (⟨r, kids, count, a⟩, t :: anc)
          | .err => .err
          | .panic => .panic
          | .oof => .oof
      | _ => .err

/-- `resolve.get(kid)` in `page_limited` (the guard stack is empty there: `get_page` makes a new resolver) -/
def loadNode (tbl : Tbl) (fuel : Nat) (r : Nat) : Out LNode :=
  match tbl r with
  | some (.page p a) =>
    match loadTree tbl fuel [r] p with
    | .ok (t, anc) => .ok (.leaf ⟨r, a, t, anc⟩)
    | .err => .err
    | .panic => .panic
    | .oof => .oof
  | some (.pages _ _ _ _) =>
    match loadTree tbl (fuel + 1) [] r with
    | .ok (t, anc) => .ok (.tree t anc)
    | .err => .err
    | .panic => .panic
    | .oof => .oof
  | _ => .err

/-- the `for &kid in &self.kids` loop of `page_limited`; `sub` is the recursive call
    `tree.page_limited(resolve, page_nr - pos, depth - 1)` -/
def pageKids (load : Nat → Out LNode) (sub : TreeRec → Nat → Out Leaf) (pageNr : Nat) : List Nat → Nat → Out Leaf
  | [], _pos => .err                          -- PageOutOfBounds { page_nr, max: pos }
  | kid :: ks, pos =>
    match load kid with
    | .ok (.tree t _) =>
      if pos + t.count ≥ u32Max then .panic   -- `pos + tree.count` overflows u32
      else if pos ≤ pageNr ∧ pageNr < pos + t.count then sub t (pageNr - pos)
      else pageKids load sub pageNr ks (pos + t.count)
    | .ok (.leaf l) =>
      if pos = pageNr then .ok l
      else if pos + 1 ≥ u32Max then .panic    -- `pos += 1`
      else pageKids load sub pageNr ks (pos + 1)
    | .err => .err
    | .panic => .panic
    | .oof => .oof

/-- `PageTree::page_limited(&self, resolve, page_nr, depth)` -/
def pageLimited (tbl : Tbl) (fuel : Nat) : Nat → TreeRec → Nat → Out Leaf
  | 0, _, _ => .err                           -- bail!("page tree depth exeeded")
  | depth + 1, self, pageNr =>
    pageKids (loadNode tbl fuel) (fun t n => pageLimited tbl fuel depth t n) pageNr self.kids 0

/-- `PageTree::page` -/
def page (tbl : Tbl) (fuel : Nat) (self : TreeRec) (pageNr : Nat) : Out Leaf :=
  pageLimited tbl fuel 16 self pageNr

/-- `Catalog.pages : PagesRc` loaded when the file is opened -/
def loadRoot (tbl : Tbl) (fuel : Nat) (root : Nat) : Out TreeRec :=
  match loadTree tbl fuel [] root with
  | .ok (t, _) => .ok t
  | .err => .err
  | .panic => .panic
  | .oof => .oof

/-- `File::num_pages` -/
def numPages (root : TreeRec) : Nat := root.count

/-- `File::get_page` (`n : u32`) -/
def getPage (tbl : Tbl) (fuel : Nat) (root : TreeRec) (n : Nat) : Out Leaf :=
  page tbl fuel root n

/-- `inherit(parent, f)`: walks `parent`, `parent.parent`, … and returns the first `Some` -/
def inherit (f : Attrs → Option Nat) : TreeRec → List TreeRec → Option Nat
  | t, [] => f t.a
  | t, p :: ps =>
    match f t.a with
    | some x => some x
    | none => inherit f p ps

/-- `Page::media_box` -/
def mediaBox (l : Leaf) : Out Nat :=
  match l.a.mediaBox with
  | some b => .ok b
  | none =>
    match inherit (·.mediaBox) l.parent l.anc with
    | some b => .ok b
    | none => .err                             -- MissingEntry { typ: "Page", field: "MediaBox" }

/-- `Page::crop_box` -/
def cropBox (l : Leaf) : Out Nat :=
  match l.a.cropBox with
  | some b => .ok b
  | none =>
    match inherit (·.cropBox) l.parent l.anc with
    | some b => .ok b
    | none => mediaBox l

/-- `Page::resources` -/
def resources (l : Leaf) : Out Nat :=
  match l.a.resources with
  | some r => .ok r
  | none =>
    match inherit (·.resources) l.parent l.anc with
    | some r => .ok r
    | none => .err

end PageTree
