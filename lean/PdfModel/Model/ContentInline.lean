/-!
# Where the data of an inline image ends (`content::inline_image`, byte level)

`rest` are the bytes that follow the `ID` keyword.  The reader takes `data_start = pos + 1` (one byte after
`ID` is skipped), looks for the first occurrence of the three bytes LF `E` `I` from `pos` on
(`lexer.seek_substr("\nEI")`, after the `fix:` of its overlap bug) and takes `data_end = (position after the
match) - 3`.  `Lexer::new_substr` turns a backward range `start > end` into `end + 1 .. start + 1`.
Everything else of `inline_image` (dictionary, filters) is above this level (`Tok.bi`).
-/

namespace ContentInline

def startsLfEI : List UInt8 → Bool
  | 10 :: 69 :: 73 :: _ => true
  | _ => false

/-- offset of the first occurrence of LF `E` `I` -/
def findLfEI : List UInt8 → Option Nat
  | [] => none
  | b :: rest =>
    if startsLfEI (b :: rest) then some 0
    else match findLfEI rest with
      | some i => some (i + 1)
      | none => none

/-- (image data, bytes after `EI`) as the reader cuts them; `none`: "inline image exceeds expected data range" -/
def inlineData (rest : List UInt8) : Option (List UInt8 × List UInt8) :=
  match findLfEI rest with
  | none => none
  | some i =>
    -- data range `1 .. i`; backward (i = 0) becomes `1 .. 2`
    let data := if i = 0 then (rest.drop 1).take 1 else (rest.take i).drop 1
    some (data, rest.drop (i + 3))

/-- white-space of ISO 32000-1 Table 1 -/
def isWs (b : UInt8) : Bool := b == 0 || b == 9 || b == 10 || b == 12 || b == 13 || b == 32

/-- `bs` contains LF `E` `I` -/
def hasLfEI (bs : List UInt8) : Bool := (findLfEI bs).isSome

end ContentInline
