/-!
# Where the data of an inline image ends (`content::inline_image`, byte level)

`rest` are the bytes that follow the `ID` keyword (from the lexer position on).  The reader takes
`data_start = pos + 1` (one byte after `ID` is skipped) and looks for the first index `i` with a white-space
byte at `rest[i]`, `E` `I` at `rest[i+1]`, `rest[i+2]`, and a token boundary after them (`rest[i+3]` absent,
white-space or a delimiter); `data_end = max (pos + i) data_start`, the lexer goes on at `pos + i + 3`.
(After the `fix:` commit "an inline image ends at the token EI after any white-space character"; before it the
search was for the three bytes LF `E` `I`.)  Everything else of `inline_image` (dictionary, filters) is above
this level (`Tok.bi`).
-/

namespace ContentInline

/-- white-space of ISO 32000-1 Table 1 -/
def isWs (b : UInt8) : Bool := b == 0 || b == 9 || b == 10 || b == 12 || b == 13 || b == 32

/-- delimiters of Table 2 -/
def isDelim (b : UInt8) : Bool :=
  b == 40 || b == 41 || b == 60 || b == 62 || b == 91 || b == 93 || b == 123 || b == 125 || b == 47 || b == 37

/-- a token may end before these bytes -/
def endsToken : List UInt8 → Bool
  | [] => true
  | b :: _ => isWs b || isDelim b

/-- white-space, `E`, `I`, token boundary -/
def startsEI : List UInt8 → Bool
  | w :: 69 :: 73 :: rest => isWs w && endsToken rest
  | _ => false

/-- offset of the white-space byte before the first token `EI` -/
def findEI : List UInt8 → Option Nat
  | [] => none
  | b :: rest =>
    if startsEI (b :: rest) then some 0
    else match findEI rest with
      | some i => some (i + 1)
      | none => none

/-- (image data, bytes after `EI`) as the reader cuts them; `none`: "inline image exceeds expected data range" -/
def inlineData (rest : List UInt8) : Option (List UInt8 × List UInt8) :=
  match findEI rest with
  | none => none
  | some i => some ((rest.take i).drop 1, rest.drop (i + 3))

end ContentInline
