import PdfModel.Core.Out
import PdfModel.Model.Lzw

/-!
# Model of `pdf/src/enc.rs` (stream filters) and of the filter-chain plumbing around it

The model describes the code **after** the `fix:` commits of the C05/C16 package (D12–D16, ASCII85
white-space, LZW code size, predictor 10, encoders with a predictor); the behaviour before each repair is kept as a separate
`…Old` definition in `Props/C05.lean` / `Props/C16.lean` together with the checked counter-example.

| Rust item (pdf/src/enc.rs unless noted)                  | model                                     |
|----------------------------------------------------------|-------------------------------------------|
| `decode_nibble`                                          | `decodeNibble`                            |
| `encode_nibble` (`unreachable!()` arm = panic)           | `encodeNibble`                            |
| `decode_hex` (take_while `>`, white-space filter, pairs, odd digit) | `decodeHex`, `decodeHexDigits`, `hexPair` |
| `encode_hex`                                             | `encodeHex`                               |
| `sym_85`, `word_85`                                      | `sym85`, `word85`                         |
| `decode_85` (filter, `take_while(~)`, group loop, tail, `~>` check) | `decode85`, `decode85Groups`, `tail85` |
| `divmod`, `a85`, `base85_chunk`, `encode_85`             | `base85Chunk`, `encode85`, `encode85Go`   |
| `run_length_decode`                                      | `runLengthDecode`, `runLengthLoop`        |
| `PredictorType::from_u8`                                 | `predictorOfU8`                           |
| `filter_paeth` (every operation in `i16`, `wrap16`)       | `filterPaeth`                             |
| `unfilter` (asserts, `bpp > len` early return, five loops) | `unfilter`                              |
| `predictor_geometry`                                     | `predictorGeometry`                       |
| `unpredict` (PNG row loop with its offsets and slices)   | `unpredict`, `pngLoop`                    |
| `tiff_unpredict` (`get`/`set` of packed samples, `chunks_mut`) | `tiffUnpredict`, `tiffRow`, `tiffGet`, `tiffSet` |
| `flate_decode` (zlib first, raw deflate second)          | `flateDecode`                             |
| `lzw_decode` (EarlyChange switch; weezl's decoder = `Model/Lzw.lean`) | `lzwDecode`, `Lzw.decode`      |
| `decode`, `encode` (dispatch)                            | `decode`, `encode`                        |
| `Stream::data` (object/stream.rs), `Storage::decode` (file.rs): fold over the filters, stop at the first error | `decodeChain` |
| `StreamInfo::from_primitive` (object/stream.rs): `/Filter` + `/DecodeParms` pairing | `pairFilters`, `nameList`, `parmList` |

Third-party code is a parameter (`Ext`): libflate's zlib and raw-deflate decoders, the zlib / LZW
*encoders*, jpeg-decoder. Nothing is assumed about them here; the theorems state what they need as
hypotheses. weezl's LZW *decoder* is not a parameter any more: it is modelled (`Model/Lzw.lean`) and tied to
the crate by the correspondence streams `c05.lzw.decode*`; what weezl's encoder emits is checked against
the encoder relation of `Spec/Lzw.lean` by `c16.lzw.encode`.

Conventions: a Rust `Err(_)` is `.err`, a panic is `.panic`; loops that are not structurally recursive
take fuel and end in `.oof` when it runs out (`Lemmas/Enc*.lean` prove that the fuel handed out by the
entry points always suffices). Index operations that are guarded by an `assert_eq!` a few lines earlier
(`unfilter`) are written with `getD`; the guard itself is the explicit `.panic` branch. `tiff_unpredict`'s
`get`/`set` are written with the total `getD`/`List.set` as well, but there no guard is a `.panic` branch: that
its indices stay inside the row is the separate theorem `tiff_indices_in_range` (`Props/C05.lean`).
-/

namespace Enc

abbrev Bytes := List UInt8

/-! ## ASCIIHex -/

def decodeNibble (c : UInt8) : Option UInt8 :=
  if 48 ≤ c ∧ c ≤ 57 then some (c - 48)
  else if 97 ≤ c ∧ c ≤ 102 then some (c - 97 + 10)
  else if 65 ≤ c ∧ c ≤ 70 then some (c - 65 + 10)
  else none

def encodeNibble (c : UInt8) : Out UInt8 :=
  if c ≤ 9 then .ok (48 + c)
  else if c ≤ 15 then .ok (97 - 10 + c)
  else .panic

/-- the white-space filter of `decode_hex` -/
def hexWs (b : UInt8) : Bool := b == 0 || b == 9 || b == 10 || b == 12 || b == 13 || b == 32

def hexPair (hi lo : UInt8) : Out UInt8 :=
  match decodeNibble lo, decodeNibble hi with
  | some l, some h => .ok (h <<< 4 ||| l)
  | _, _ => .err

/-- the `while let Some(high) = digits.next()` loop; a missing last digit is read as `0` -/
def decodeHexDigits : Bytes → Out Bytes
  | [] => .ok []
  | [hi] =>
    match hexPair hi 48 with
    | .ok b => .ok [b]
    | .err => .err | .panic => .panic | .oof => .oof
  | hi :: lo :: rest =>
    match hexPair hi lo with
    | .ok b =>
      match decodeHexDigits rest with
      | .ok t => .ok (b :: t)
      | o => o
    | .err => .err | .panic => .panic | .oof => .oof

def decodeHex (data : Bytes) : Out Bytes :=
  decodeHexDigits ((data.takeWhile (· != 62)).filter (fun b => !hexWs b))

def encodeHexGo : Bytes → Out Bytes
  | [] => .ok [62]
  | b :: bs =>
    match encodeNibble (b >>> 4), encodeNibble (b &&& 0xf) with
    | .ok h, .ok l =>
      match encodeHexGo bs with
      | .ok t => .ok (h :: l :: t)
      | o => o
    | _, _ => .panic

def encodeHex (data : Bytes) : Out Bytes := encodeHexGo data

/-! ## ASCII85 -/

/-- the white-space filter of `decode_85` -/
def ws85 (b : UInt8) : Bool := b == 0 || b == 9 || b == 10 || b == 12 || b == 13 || b == 32

def sym85 (b : UInt8) : Option Nat :=
  if 0x21 ≤ b ∧ b ≤ 0x75 then some (b.toNat - 0x21) else none

/-- `u32::to_be_bytes` -/
def beBytes (q : Nat) : Bytes :=
  [UInt8.ofNat (q / 16777216), UInt8.ofNat (q / 65536), UInt8.ofNat (q / 256), UInt8.ofNat q]

/-- `word_85`: the sum is formed in `u64` (cannot overflow), `u32::try_from` rejects values ≥ 2^32 -/
def word85 (a b c d e : UInt8) : Option Bytes :=
  match sym85 a, sym85 b, sym85 c, sym85 d, sym85 e with
  | some a, some b, some c, some d, some e =>
    let q := (((a * 85 + b) * 85 + c) * 85 + d) * 85 + e
    if q < 4294967296 then some (beBytes q) else none
  | _, _, _, _, _ => none

/-- the partial last group: padded with `u`, `tail_len - 1` bytes are kept -/
def tail85 (a b c d e : UInt8) (keep : Nat) : Out Bytes :=
  match word85 a b c d e with
  | some w => .ok (w.take keep)
  | none => .err

/-- the `loop` of `decode_85` over the symbols before `~` (white-space already removed) -/
def decode85Groups : Bytes → Out Bytes
  | [] => .ok []
  | a :: rest =>
    if a = 122 then
      match decode85Groups rest with
      | .ok t => .ok (0 :: 0 :: 0 :: 0 :: t)
      | o => o
    else
      match rest with
      | [] => tail85 a 117 117 117 117 0
      | [b] => tail85 a b 117 117 117 1
      | [b, c] => tail85 a b c 117 117 2
      | [b, c, d] => tail85 a b c d 117 3
      | b :: c :: d :: e :: rest' =>
        match word85 a b c d e with
        | none => .err
        | some w =>
          match decode85Groups rest' with
          | .ok t => .ok (w ++ t)
          | o => o

def decode85 (data : Bytes) : Out Bytes :=
  let stream := data.filter (fun b => !ws85 b)
  let symbols := stream.takeWhile (· != 126)
  -- what `stream` still yields once `take_while` has consumed the `~`
  let after := (stream.dropWhile (· != 126)).drop 1
  match decode85Groups symbols with
  | .ok out => if after = [62] then .ok out else .err
  | o => o

/-- `base85_chunk` on `n = u32::from_be_bytes(c)`; `a85` adds `0x21` in `u8` (overflow = panic) -/
def base85Chunk (n : Nat) : Out Bytes :=
  let e := n % 85
  let n1 := n / 85
  let d := n1 % 85
  let n2 := n1 / 85
  let c := n2 % 85
  let n3 := n2 / 85
  let a := n3 / 85
  let b := n3 % 85
  if a % 256 + 0x21 > 255 then .panic
  else .ok [UInt8.ofNat (a + 0x21), UInt8.ofNat (b + 0x21), UInt8.ofNat (c + 0x21), UInt8.ofNat (d + 0x21), UInt8.ofNat (e + 0x21)]

def be32 (b0 b1 b2 b3 : UInt8) : Nat :=
  ((b0.toNat * 256 + b1.toNat) * 256 + b2.toNat) * 256 + b3.toNat

/-- `chunks_exact(4)` loop, remainder, `~>` -/
def encode85Go : Bytes → Out Bytes
  | b0 :: b1 :: b2 :: b3 :: rest =>
    let head : Out Bytes :=
      if b0 = 0 ∧ b1 = 0 ∧ b2 = 0 ∧ b3 = 0 then .ok [122] else base85Chunk (be32 b0 b1 b2 b3)
    match head with
    | .ok h =>
      match encode85Go rest with
      | .ok t => .ok (h ++ t)
      | o => o
    | o => o
  | [] => .ok [126, 62]
  | [b0] =>
    match base85Chunk (be32 b0 0 0 0) with
    | .ok h => .ok (h.take 2 ++ [126, 62])
    | o => o
  | [b0, b1] =>
    match base85Chunk (be32 b0 b1 0 0) with
    | .ok h => .ok (h.take 3 ++ [126, 62])
    | o => o
  | [b0, b1, b2] =>
    match base85Chunk (be32 b0 b1 b2 0) with
    | .ok h => .ok (h.take 4 ++ [126, 62])
    | o => o

def encode85 (data : Bytes) : Out Bytes := encode85Go data

/-! ## RunLength -/

/-- the `while c < data.len()` loop on the unread suffix `d[c..]` -/
def runLengthLoop : Nat → Bytes → Out Bytes
  | 0, _ => .oof
  | _ + 1, [] => .ok []
  | fuel + 1, len :: rest =>
    if len < 128 then
      let n := len.toNat + 1
      -- `d.get(start..end)`
      if rest.length < n then .err
      else
        match runLengthLoop fuel (rest.drop n) with
        | .ok t => .ok (rest.take n ++ t)
        | o => o
    else if len ≥ 129 then
      match rest with
      | [] => .err                                   -- `d.get(c + 1)`
      | b :: rest' =>
        match runLengthLoop fuel rest' with
        | .ok t => .ok (List.replicate (257 - len.toNat) b ++ t)
        | o => o
    else .ok []                                      -- 128: EOD

def runLengthDecode (data : Bytes) : Out Bytes := runLengthLoop (data.length + 1) data

/-! ## PNG predictors -/

inductive PredictorType where
  | noFilter | sub | up | avg | paeth
deriving Repr, DecidableEq, Inhabited

def predictorOfU8 (n : UInt8) : Option PredictorType :=
  if n = 0 then some .noFilter
  else if n = 1 then some .sub
  else if n = 2 then some .up
  else if n = 3 then some .avg
  else if n = 4 then some .paeth
  else none

/-- two's-complement wrap of an `i16` result (with overflow checks on, leaving the range is a panic instead;
    `paeth_in_i16` in `Props/C05.lean` proves that no intermediate value of `filter_paeth` leaves it) -/
def wrap16 (x : Int) : Int := (x + 32768) % 65536 - 32768

/-- `filter_paeth`, operation by operation in `i16` as the Rust code computes it:
    `p = ia + ib - ic; pa = (p - ia).abs(); pb = (p - ib).abs(); pc = (p - ic).abs()` -/
def filterPaeth (a b c : UInt8) : UInt8 :=
  let ia : Int := a.toNat
  let ib : Int := b.toNat
  let ic : Int := c.toNat
  let p := wrap16 (wrap16 (ia + ib) - ic)
  let pa := wrap16 (wrap16 (p - ia)).natAbs
  let pb := wrap16 (wrap16 (p - ib)).natAbs
  let pc := wrap16 (wrap16 (p - ic)).natAbs
  if pa ≤ pb ∧ pa ≤ pc then a
  else if pb ≤ pc then b
  else c

/-- `((x as i16 + y as i16) / 2) as u8` -/
def avg2 (x y : UInt8) : UInt8 := UInt8.ofNat ((x.toNat + y.toNat) / 2)

/-- `for i in lo .. lo + n { out = body i out }` -/
def forFrom (body : Nat → Bytes → Bytes) : Nat → Nat → Bytes → Bytes
  | _, 0, out => out
  | i, n + 1, out => forFrom body (i + 1) n (body i out)

def unfilter (t : PredictorType) (bpp : Nat) (prev inp out : Bytes) : Out Bytes :=
  let len := inp.length
  if len ≠ out.length then .panic            -- assert_eq!(len, out.len())
  else if len ≠ prev.length then .panic      -- assert_eq!(len, prev.len())
  else if bpp > len then .ok out
  else
    let x := fun i => inp.getD i 0
    let pr := fun i => prev.getD i 0
    match t with
    | .noFilter => .ok inp
    | .sub =>
      .ok (forFrom (fun i o => o.set i (x i + o.getD (i - bpp) 0)) bpp (len - bpp)
            (inp.take bpp ++ out.drop bpp))
    | .up => .ok (forFrom (fun i o => o.set i (x i + pr i)) 0 len out)
    | .avg =>
      .ok (forFrom (fun i o => o.set i (x i + avg2 (o.getD (i - bpp) 0) (pr i))) bpp (len - bpp)
            (forFrom (fun i o => o.set i (x i + pr i / 2)) 0 bpp out))
    | .paeth =>
      .ok (forFrom (fun i o => o.set i (x i + filterPaeth (o.getD (i - bpp) 0) (pr i) (pr (i - bpp)))) bpp (len - bpp)
            (forFrom (fun i o => o.set i (x i + filterPaeth 0 (pr i) 0)) 0 bpp out))

/-! ## Predictor parameters, geometry, row loops -/

/-- `LZWFlateParams` (all `i32`) -/
structure Params where
  predictor : Int := 1
  colors : Int := 1
  bpc : Int := 8
  columns : Int := 1
  earlyChange : Int := 1
deriving Repr, DecidableEq, Inhabited

/-- `predictor_geometry`: (bytes per pixel rounded up, bytes per row); the products are formed in `u128` -/
def predictorGeometry (p : Params) : Out (Nat × Nat) :=
  if p.colors < 1 ∨ p.columns < 1 ∨ ¬ (p.bpc = 1 ∨ p.bpc = 2 ∨ p.bpc = 4 ∨ p.bpc = 8 ∨ p.bpc = 16) then .err
  else
    let pixelBits := p.colors.toNat * p.bpc.toNat
    let rowBits := pixelBits * p.columns.toNat
    let bpp := (pixelBits + 7) / 8
    let stride := (rowBits + 7) / 8
    if bpp < 18446744073709551616 ∧ stride < 18446744073709551616 then .ok (bpp, stride) else .err

/-- the `while in_off + stride < inp.len()` loop of `unpredict` with its offsets and slices -/
def pngLoop (bpp stride : Nat) (inp nullVec : Bytes) :
    Nat → (inOff outOff lastOutOff : Nat) → (out : Bytes) → Out Bytes
  | 0, _, _, _, _ => .oof
  | fuel + 1, inOff, outOff, lastOutOff, out =>
    if ¬ (inOff + stride < inp.length) then .ok out
    else
      match inp[inOff]? with
      | none => .panic
      | some tag =>
        match predictorOfU8 tag with
        | none => .err
        | some t =>
          let inOff := inOff + 1
          if inOff + stride > inp.length then .panic                     -- &inp[in_off .. in_off + stride]
          else
            let rowIn := (inp.drop inOff).take stride
            let slices : Out (Bytes × Bytes) :=
              if outOff = 0 then
                if outOff + stride > out.length then .panic              -- &mut out[out_off .. out_off+stride]
                else .ok (nullVec, (out.drop outOff).take stride)
              else
                if outOff > out.length then .panic                       -- out.split_at_mut(out_off)
                else if lastOutOff > outOff then .panic                  -- &prev[last_out_off ..]
                else if stride > out.length - outOff then .panic         -- &mut curr[.. stride]
                else .ok ((out.take outOff).drop lastOutOff, (out.drop outOff).take stride)
            match slices with
            | .ok (prevRow, rowOut) =>
              match unfilter t bpp prevRow rowIn rowOut with
              | .ok row =>
                pngLoop bpp stride inp nullVec fuel (inOff + stride) (outOff + stride) outOff
                  (out.take outOff ++ row ++ out.drop (outOff + stride))
              | .err => .err | .panic => .panic | .oof => .oof
            | .err => .err | .panic => .panic | .oof => .oof

/-- `get` of `tiff_unpredict`: sample `k` of a row (`bpc` ∈ {1, 2, 4, 8, 16}) -/
def tiffGet (row : Bytes) (bpc k : Nat) : Nat :=
  if bpc = 16 then (row.getD (2 * k) 0).toNat * 256 + (row.getD (2 * k + 1) 0).toNat
  else if bpc = 8 then (row.getD k 0).toNat
  else
    let bit := k * bpc
    ((row.getD (bit / 8) 0).toNat / 2 ^ (8 - bpc - bit % 8)) % 2 ^ bpc

/-- `set` of `tiff_unpredict`; `v` is a `u16`, only its low `bpc` bits are stored -/
def tiffSet (row : Bytes) (bpc k v : Nat) : Bytes :=
  if bpc = 16 then (row.set (2 * k) (UInt8.ofNat (v / 256))).set (2 * k + 1) (UInt8.ofNat v)
  else if bpc = 8 then row.set k (UInt8.ofNat v)
  else
    let bit := k * bpc
    let shift := 8 - bpc - bit % 8
    let old := (row.getD (bit / 8) 0).toNat
    -- (old & !mask) | ((v << shift) & mask)
    let cleared := old - (old / 2 ^ shift % 2 ^ bpc) * 2 ^ shift
    row.set (bit / 8) (UInt8.ofNat (cleared + (v % 2 ^ bpc) * 2 ^ shift))

/-- one row of `tiff_unpredict` -/
def tiffRow (colors bpc columns : Nat) (row : Bytes) : Bytes :=
  let samples := min (colors * columns) (row.length * 8 / bpc)
  forFrom (fun k r => tiffSet r bpc k ((tiffGet r bpc k + tiffGet r bpc (k - colors)) % 65536)) colors (samples - colors) row

/-- `data.chunks_mut(stride)`; `stride ≥ 1` (a zero chunk size is a panic) -/
def chunksLoop (f : Bytes → Bytes) (stride : Nat) : Nat → Bytes → Out Bytes
  | 0, _ => .oof
  | _ + 1, [] => .ok []
  | fuel + 1, b :: rest =>
    match chunksLoop f stride fuel ((b :: rest).drop stride) with
    | .ok t => .ok (f ((b :: rest).take stride) ++ t)
    | o => o

def tiffUnpredict (data : Bytes) (colors bpc columns stride : Nat) : Out Bytes :=
  if stride = 0 then .panic else chunksLoop (tiffRow colors bpc columns) stride (data.length + 1) data

/-- `unpredict`: shared by `flate_decode` and `lzw_decode` -/
def unpredict (decoded : Bytes) (p : Params) : Out Bytes :=
  if p.predictor ≥ 10 then
    match predictorGeometry p with
    | .ok (bpp, stride) =>
      let rows := decoded.length / (stride + 1)
      let out := List.replicate (rows * stride) (0 : UInt8)
      if rows = 0 then .ok out
      else pngLoop bpp stride decoded (List.replicate stride 0) (decoded.length + 1) 0 0 0 out
    | .err => .err | .panic => .panic | .oof => .oof
  else if p.predictor = 2 then
    match predictorGeometry p with
    | .ok (_, stride) => tiffUnpredict decoded p.colors.toNat p.bpc.toNat p.columns.toNat stride
    | .err => .err | .panic => .panic | .oof => .oof
  else .ok decoded

/-! ## Third-party code, dispatch, chains -/

/-- External decoders/encoders; `none` = the crate reported an error. -/
structure Ext where
  inflateZlib : Bytes → Option Bytes
  inflateRaw : Bytes → Option Bytes
  dct : Bytes → Option Bytes
  zlibEncode : Bytes → Bytes
  lzwEncode : Bytes → Option Bytes

def flateDecode (X : Ext) (data : Bytes) (p : Params) : Out Bytes :=
  match X.inflateZlib data with
  | some d => unpredict d p
  | none =>
    match X.inflateRaw data with
    | some d => unpredict d p
    | none => .err

/-- `lzw_decode`: weezl's MSB decoder with 8-bit symbols is modelled by `Lzw.decode` (`Model/Lzw.lean`);
    `true` = `with_tiff_size_switch` -/
def lzwDecode (data : Bytes) (p : Params) : Out Bytes :=
  match Lzw.decode (p.earlyChange ≠ 0) data with
  | .ok d => unpredict d p
  | .err => .err | .panic => .panic | .oof => .oof

inductive Filter where
  | asciiHex | ascii85 | lzw (p : Params) | flate (p : Params) | jpx | dct | ccittFax | jbig2 | crypt | runLength
deriving Repr, DecidableEq, Inhabited

def decode (X : Ext) (data : Bytes) : Filter → Out Bytes
  | .asciiHex => decodeHex data
  | .ascii85 => decode85 data
  | .lzw p => lzwDecode data p
  | .flate p => flateDecode X data p
  | .runLength => runLengthDecode data
  | .dct => match X.dct data with | some d => .ok d | none => .err
  | _ => .err

/-- `encode`: anything but the four encodable filters hits `unimplemented!()`, which this crate turns into `Err` -/
def encode (X : Ext) (data : Bytes) : Filter → Out Bytes
  | .asciiHex => encodeHex data
  | .ascii85 => encode85 data
  | .lzw p =>
    if p.earlyChange ≠ 0 then .err
    else if p.predictor > 1 then .err                 -- a predictor is refused, not ignored
    else match X.lzwEncode data with | some d => .ok d | none => .err
  | .flate p => if p.predictor > 1 then .err else .ok (X.zlibEncode data)
  | _ => .err

/-- `for filter in filters { data = decode(&data, filter)?; }` (`Stream::data`, `Storage::decode`) -/
def decodeChain (X : Ext) (data : Bytes) : List Filter → Out Bytes
  | [] => .ok data
  | f :: fs =>
    match decode X data f with
    | .ok d => decodeChain X d fs
    | o => o

/-! ## `/Filter` and `/DecodeParms` (`StreamInfo::from_primitive`) -/

/-- the shapes of a dictionary value that matter here -/
inductive PVal (α : Type) where
  | null | one (a : α) | arr (as : List (Option α))       -- array elements may be `null`
  | bad                                                   -- any other primitive: conversion error
deriving Repr

/-- `Vec::<Name>::from_primitive`: a single name is a one-element list; `null` inside an array is not a name -/
def nameList {α : Type} : PVal α → Out (List α)
  | .null => .ok []
  | .one a => .ok [a]
  | .arr as => if as.all Option.isSome then .ok (as.filterMap id) else .err
  | .bad => .err

/-- `Vec::<Option<Dictionary>>::from_primitive` -/
def parmList {β : Type} : PVal β → Out (List (Option β))
  | .null => .ok []
  | .one b => .ok [some b]
  | .arr bs => .ok bs
  | .bad => .err

/-- the `for (i, filter) in filters.iter().enumerate()` loop: `decode_params.get(i)`, else the default -/
def pairFilters {α β : Type} (dflt : β) : List α → List (Option β) → List (α × β)
  | [], _ => []
  | f :: fs, [] => (f, dflt) :: pairFilters dflt fs []
  | f :: fs, p :: ps => (f, p.getD dflt) :: pairFilters dflt fs ps

end Enc
