import PdfModel.Model.Handwritten2

/-!
  `ColorSpace::from_primitive_depth` (pdf/src/object/color.rs): control flow and arithmetic — C01.

  `Model/TypedLoad.lean` (C14) has the nesting budget of colour spaces over an abstract object graph. This file is the
  reader itself over primitives: every family, the order of the tests, the budget, the index arithmetic.

  Rust                                                              here
  ----------------------------------------------------------------  ------------------------------------------
  what `Resolve::resolve` answers: a primitive or a stream           `Obj`, `SEnv` (`Derive.Env` + the stream objects)
  `p.resolve(resolve)?`                                              `resolveO`
  `get_index(&arr, i)` (`Err(Bounds)` past the end)                  `arr[i]?`, `none ↦ .error`
  `Primitive::as_u8` (`(0..256).contains(&n)`)                       `asU8`
  `if depth == 0 { bail!(..) }` … `depth - 1`                        the recursion on the budget in `csRead`
  the lookup table of `/Indexed`: string, or `Stream::<()>` data     `Lookup`, `readLookup` (`Derive.unitStreamData`)
  `Dictionary::from_primitive`                                       `Derive.asDict`
  `ColorSpace`                                                       `CS`
  `ColorSpace::from_primitive` (budget 5)                            `csLoad`

  Three loaders called from here are big readers of their own; the model does not run them, it records the call — the
  value carries the *argument* of the call (`CS.subs` lists them in the order of the calls):
  `Function::from_primitive` (tint transforms), `RcRef::<Stream<IccInfo>>::from_primitive` (/ICCBased), and
  `Vec::<Name>::from_primitive` (the names of /DeviceN). Each of them only ever makes the whole load fail
  (`t!(..)`), so: the real loader succeeds iff the model does and every recorded call does, and then the value is the
  model's with the results of the calls filled in. The same holds for the data of a lookup stream with filters
  (`Lookup.deferred`: `Stream::data` runs the decoders of C05).

  There is no length arithmetic on the lookup table (`hival` and the table are stored as read) and /ICCBased does not
  look at `/N` or `/Alternate` here — that is `IccInfo`'s derived reader, behind the recorded call.
-/

namespace CSLoad
open Derive

/-- what `Resolve::resolve` hands back -/
inductive Obj where
  | prim (p : Prim)
  | stream (info : Dict) (data : List UInt8)

structure SEnv where
  env : Env
  /-- the objects that are streams (`env.resolve` is not asked for them) -/
  streams : Nat → Option (Dict × List UInt8)

/-- `p.resolve(resolve)?` -/
def resolveO (se : SEnv) : Prim → R Obj
  | .ref id _ =>
    match se.streams id with
    | some (info, data) => .ok (.stream info data)
    | none =>
      match se.env.resolve id with
      | .ok q => .ok (.prim q)
      | .error e => .error e
  | .created q => .ok (.prim q)
  | p => .ok (.prim p)

/-- `Primitive::as_u8` -/
def asU8 : Prim → R Nat
  | .int n => if 0 ≤ n ∧ n < 256 then .ok n.toNat else .error .other
  | _ => .error .other

inductive Lookup where
  | bytes (bs : List UInt8)
  /-- a stream with filters (or file entries, an indirect `/Length`): `Stream::<()>::from_stream(..)` and `data()`
      recorded, not run -/
  | deferred (info : Dict) (data : List UInt8)

/-- `match arr[3] { &Reference(r) => resolve.resolve(r)?, p => p.clone() }` -/
def lookupObj (se : SEnv) : Prim → R Obj
  | .ref id g => resolveO se (.ref id g)
  | q => .ok (.prim q)

/-- the entries `StreamInfo::from_primitive` reads besides `/Length` and `/Filter`; `Derive.unitStreamData` (C15) is the
    model of a stream dictionary without them -/
def hasFileKeys (info : Dict) : Bool :=
  (dget "DecodeParms" info).isSome || (dget "F" info).isSome || (dget "FFilter" info).isSome ||
    (dget "FDecodeParms" info).isSome

/-- the fourth element of `/Indexed`: a string or a stream -/
def readLookup (se : SEnv) (p : Prim) : R Lookup :=
  match lookupObj se p with
  | .error e => .error e
  | .ok (.prim (.str bs)) => .ok (.bytes bs)
  | .ok (.stream info data) =>
    if hasFileKeys info then .ok (.deferred info data)
    else
      match unitStreamData info data with
      | .ok d => .ok (.bytes d)
      | .error .oof => .ok (.deferred info data)
      | .error e => .error e
  | .ok (.prim _) => .error .other

inductive CS where
  | deviceGray
  | deviceRGB
  | deviceCMYK
  | pattern
  | named (n : String)
  | indexed (base : CS) (hival : Nat) (lookup : Lookup)
  /-- the tint transform as the argument of `Function::from_primitive` -/
  | separation (name : String) (alt : CS) (tint : Prim)
  /-- the argument of `RcRef::<Stream<IccInfo>>::from_primitive` -/
  | icc (p : Prim)
  /-- names: the argument of `Vec::<Name>::from_primitive` -/
  | deviceN (names : Prim) (alt : CS) (tint : Prim) (attr : Option Dict)
  | calGray (d : Dict)
  | calRGB (d : Dict)
  | calCMYK (d : Dict)
  | other (arr : List Prim)

/-- a recorded call -/
inductive Sub where
  | function (p : Prim)
  | icc (p : Prim)
  | names (p : Prim)
  | streamData (info : Dict) (data : List UInt8)

/-- the recorded calls, in the order the loader makes them -/
def CS.subs : CS → List Sub
  | .indexed base _ (.deferred i d) => base.subs ++ [.streamData i d]
  | .indexed base _ (.bytes _) => base.subs
  | .separation _ alt tint => alt.subs ++ [.function tint]
  | .icc p => [.icc p]
  | .deviceN names alt tint _ => .names names :: alt.subs ++ [.function tint]
  | _ => []

def ofName (n : String) : CS :=
  if n = "DeviceGray" then .deviceGray
  else if n = "DeviceRGB" then .deviceRGB
  else if n = "DeviceCMYK" then .deviceCMYK
  else if n = "Pattern" then .pattern
  else .named n

/-- the head of the function, up to the budget test: a name is a colour space; anything else must be an array whose
    first element resolves to a name -/
def csHead (se : SEnv) (p : Prim) : R (CS ⊕ (String × List Prim)) :=
  match resolveO se p with
  | .error e => .error e
  | .ok (.prim (.name n)) => .ok (.inl (ofName n))
  | .ok (.prim (.arr arr)) =>
    match arr[0]? with
    | none => .error (.tryE .other)
    | some t0 =>
      match resolveO se t0 with
      | .error e => .error e
      | .ok (.prim (.name typ)) => .ok (.inr (typ, arr))
      | .ok _ => .error (.tryE .other)
  | .ok _ => .error (.tryE .other)

/-- `Dictionary::from_primitive(p, resolve)`: a reference to a stream is not a dictionary -/
def dictOf (se : SEnv) (p : Prim) : R Dict :=
  match p with
  | .ref id _ => if (se.streams id).isSome then .error .other else asDict se.env p
  | p => asDict se.env p

/-- `Dictionary::from_primitive(t!(get_index(&arr, 1)).clone(), resolve)?` -/
def calDict (se : SEnv) (arr : List Prim) : R Dict :=
  match arr[1]? with
  | none => .error (.tryE .other)
  | some p => dictOf se p

/-- the `match typ` of the function; `rec` is the function itself with the budget `depth - 1` -/
def csFamily (se : SEnv) (rec : Prim → R CS) (typ : String) (arr : List Prim) : R CS :=
  if typ = "Indexed" then
    match arr[1]? with
    | none => .error (.tryE .other)
    | some b =>
      match rec b with
      | .error e => .error (.tryE e)
      | .ok base =>
        match arr[2]? with
        | none => .error (.tryE .other)
        | some h =>
          match asU8 h with
          | .error e => .error (.tryE e)
          | .ok hival =>
            match arr[3]? with
            | none => .error (.tryE .other)
            | some l =>
              match readLookup se l with
              | .error e => .error e
              | .ok lookup => .ok (.indexed base hival lookup)
  else if typ = "Separation" then
    match (arr[1]? : Option Prim) with
    | some (Prim.name name) =>
      match arr[2]? with
      | none => .error (.tryE .other)
      | some a =>
        match rec a with
        | .error e => .error (.tryE e)
        | .ok alt =>
          match arr[3]? with
          | none => .error (.tryE .other)
          | some f => .ok (.separation name alt f)
    | _ => .error (.tryE .other)
  else if typ = "ICCBased" then
    match arr[1]? with
    | none => .error (.tryE .other)
    | some s => .ok (.icc s)
  else if typ = "DeviceN" then
    match arr[1]? with
    | none => .error (.tryE .other)
    | some names =>
      match arr[2]? with
      | none => .error (.tryE .other)
      | some a =>
        match rec a with
        | .error e => .error (.tryE e)
        | .ok alt =>
          match arr[3]? with
          | none => .error (.tryE .other)
          | some f =>
            match arr[4]? with
            | none => .ok (.deviceN names alt f none)
            | some a4 =>
              match dictOf se a4 with
              | .ok d => .ok (.deviceN names alt f (some d))
              | .error e => .error e
  else if typ = "CalGray" then (calDict se arr).map .calGray
  else if typ = "CalRGB" then (calDict se arr).map .calRGB
  else if typ = "CalCMYK" then (calDict se arr).map .calCMYK
  else if typ = "Pattern" then .ok .pattern
  else .ok (.other arr)

/-- `ColorSpace::from_primitive_depth(p, resolve, depth)` -/
def csRead (se : SEnv) : Nat → Prim → R CS
  | depth, p =>
    match csHead se p with
    | .error e => .error e
    | .ok (.inl cs) => .ok cs
    | .ok (.inr (typ, arr)) =>
      match depth with
      | 0 => .error .other                                   -- "ColorSpace base recursion"
      | d + 1 => csFamily se (fun q => csRead se d q) typ arr

/-- `ColorSpace::from_primitive` -/
def csLoad (se : SEnv) (p : Prim) : R CS := csRead se 5 p

/-- how deep base / alternate spaces nest in a value -/
def CS.nesting : CS → Nat
  | .indexed base _ _ => base.nesting + 1
  | .separation _ alt _ => alt.nesting + 1
  | .deviceN _ alt _ _ => alt.nesting + 1
  | _ => 0

end CSLoad
