import PdfModel.Core.Out

/-
  Typed loads over an arbitrary (possibly cyclic) reference graph, and the explicit depth budgets.

  Rust                                                         model
  ----                                                         -----
  StorageResolver::get (file.rs): chain.contains(key) → bail,   load: `k ∈ chain → err`, `chain.length ≥ maxNest → err`,
    chain.len() >= MAX_NESTED_GETS → bail, chain.push(key),       `k :: chain`
    resolve + T::from_primitive, chain.pop
  derive-generated from_primitive of a struct: the typed        loadFields (fold over `fields` in order)
    reference fields (RcRef / MaybeRef / Vec<MaybeRef<_>>)
    are loaded, in declaration order, *inside* the owner's get
  Option<T>::from_primitive (object/mod.rs): an error becomes   Field.optional ∧ tolerant
    None iff options().allow_error_in_option
  PagesRc::from_primitive: load the node, then require a Tree   Field.want
  StorageResolver::resolve_flags (file.rs), Resolve::resolve    resolveFlags (depth 16), resolveStored (before the fix)
  Dictionary / Vec / HashMap / PdfStream / Function /           fromPrim
    Encoding / Content ::from_primitive: `Reference(r) =>
    Self::from_primitive(resolve(r)?)`
  NameTree::walk / NumberTree::walk (types.rs) + the bounded    walk (MAX_TREE_DEPTH = 64, visited set), walkUnguarded
    version (enter_tree_node)                                     (the code before the fix)
  PageTree::page / page_limited (types.rs), depth 16            pageLimited / pageLoop (u32 arithmetic, checked)
                                                                 pageLoopOld (unchecked `pos + tree.count`)
  ColorSpace::from_primitive_depth (color.rs), depth 5          csLoad ; csLoadOld (DeviceN restarts the budget)
  AppearanceStreamEntry::from_primitive_depth (types.rs), 2      apLoad ; apLoadOld (no budget)
  the /Prev loop of Backend::read_xref_table_and_trailer        prevLoop, readChain (`seen` list; `start` = start_offset:
                                                                 numbers in the file are header-relative, the table is indexed
                                                                 by buffer position)

  Objects live in a table indexed by object number (`List`); a number outside the table is a dangling
  reference. Loading never inspects anything but the table, so "finite graph" is "finite table".
-/

namespace TypedLoad

-- ---------------------------------------------------------------------------------------------------
-- generic guarded typed load

/-- an eagerly loaded typed reference field -/
structure Field where
  target : Nat
  /-- `Option<…>` field: an error becomes `None` in tolerant mode -/
  optional : Bool
  /-- `PagesRc` / `PageRc`: after loading, the target must carry this tag -/
  want : Option Nat
  /-- element of a `Vec<MaybeRef<…>>` (e.g. `/DescendantFonts`): a target that is a *missing object* (free or
      never defined) is read as absent in strict and tolerant mode alike (the repair of D38: a reference to
      an undefined object is the null object); any other failure still fails the load -/
  skipMissing : Bool := false
deriving Repr, DecidableEq, Inhabited

inductive Obj where
  /-- loadable as the requested type; `tag` distinguishes variants (0 = page-tree node, 1 = page, …) -/
  | node (tag : Nat) (fields : List Field)
  /-- present, but `from_primitive` fails without loading anything (wrong primitive, missing key) -/
  | bad
  /-- the number is free or not defined at all: `resolve` reports a missing object -/
  | missing
deriving Repr, Inhabited

abbrev Graph := List Obj

def tagOf (g : Graph) (k : Nat) : Option Nat :=
  match g[k]? with
  | some (.node t _) => some t
  | _ => none

/-- the target is a missing object: the number is beyond the table, or free / undefined -/
def isMissing (g : Graph) (k : Nat) : Bool :=
  match g[k]? with
  | none => true
  | some .missing => true
  | _ => false

/-- one field, given the outcome of loading its target -/
def fieldOutcome (g : Graph) (tolerant : Bool) (f : Field) (r : Out Unit) : Out Unit :=
  match r with
  | .ok _ =>
    match f.want with
    | none => .ok ()
    | some t => if tagOf g f.target = some t then .ok () else (if f.optional && tolerant then .ok () else .err)
  | .err => if (f.optional && tolerant) || (f.skipMissing && isMissing g f.target) then .ok () else .err
  | .panic => .panic
  | .oof => .oof

/-- sequencing of the fields: the first failure ends the load (`?`) -/
def seqOut (acc : Out Unit) (next : Unit → Out Unit) : Out Unit :=
  match acc with
  | .ok _ => next ()
  | o => o

/-- `MAX_NESTED_GETS`: how many loads may be in progress inside each other -/
def maxNest : Nat := 64

/-- `StorageResolver::get` with `T::from_primitive` inlined. `chain` is the recursion guard: a number
    that is already on it is refused ("Recursive reference"), and so is a 65th nested load. -/
def load (g : Graph) (tolerant : Bool) : Nat → List Nat → Nat → Out Unit
  | 0, _, _ => .oof
  | fuel + 1, chain, k =>
    if k ∈ chain then .err else
    if chain.length ≥ maxNest then .err else
    match g[k]? with
    | none => .err
    | some .bad => .err
    | some .missing => .err
    | some (.node _ fields) =>
      fields.foldl (fun acc f => seqOut acc (fun _ => fieldOutcome g tolerant f (load g tolerant fuel (k :: chain) f.target))) (.ok ())

/-- **`load` with the work counted**: the same function, returning also the number of `get` calls it made (the
    call itself included). `load` bounds the *depth* of the recursion (the guard, `maxNest`); nothing in it bounds
    the *work*: there is no memo, so an object that is reached along p paths is loaded p times. This is the
    resolver **without a cache**; with the cache a second `get` of the same (number, type) is answered from the
    cache. -/
def loadN (g : Graph) (tolerant : Bool) : Nat → List Nat → Nat → Out Unit × Nat
  | 0, _, _ => (.oof, 0)
  | fuel + 1, chain, k =>
    if k ∈ chain then (.err, 1) else
    if chain.length ≥ maxNest then (.err, 1) else
    match g[k]? with
    | none => (.err, 1)
    | some .bad => (.err, 1)
    | some .missing => (.err, 1)
    | some (.node _ fields) =>
      fields.foldl (fun acc f =>
        match acc.1 with
        | .ok _ =>
          let r := loadN g tolerant fuel (k :: chain) f.target
          (fieldOutcome g tolerant f r.1, acc.2 + r.2)
        | _ => acc) (.ok (), 1)

/-- a ladder: object `i < n` has two required fields that are both object `i + 1`; object `n` is a leaf.
    `n + 1` objects, acyclic, every reference valid. -/
def ladder (n : Nat) : Graph :=
  (List.range n).map (fun i => Obj.node 0 [⟨i + 1, false, none, false⟩, ⟨i + 1, false, none, false⟩]) ++ [Obj.node 0 []]

-- ---------------------------------------------------------------------------------------------------
-- objects whose value is a reference

inductive Stored where
  | ref (j : Nat)
  | val (v : Nat)
deriving Repr, DecidableEq, Inhabited

/-- `resolve_flags(r, flags, depth)` after the fix: a stored reference is followed, `depth` times at most -/
def resolveFlags (g : List Stored) : Nat → Nat → Out Nat
  | depth, k =>
    match g[k]? with
    | none => .err
    | some (.val v) => .ok v
    | some (.ref j) =>
      match depth with
      | 0 => .err
      | d + 1 => resolveFlags g d j

/-- `Resolve::resolve`: `resolve_flags(r, ANY, 16)` -/
def resolve (g : List Stored) (k : Nat) : Out Nat := resolveFlags g 16 k

/-- what a primitive is as far as `from_primitive` cares: a direct value or a reference -/
inductive Prim where
  | direct (v : Nat)
  | reference (k : Nat)
deriving Repr, DecidableEq, Inhabited

/-- `Dictionary::from_primitive` and its siblings, on top of a `resolve` that may hand back a primitive -/
def fromPrimWith (res : Nat → Out Prim) : Nat → Prim → Out Nat
  | 0, _ => .oof
  | _ + 1, .direct v => .ok v
  | fuel + 1, .reference k =>
    match res k with
    | .ok p => fromPrimWith res fuel p
    | .err => .err
    | .panic => .panic
    | .oof => .oof

/-- the resolver after the fix, as a function into `Prim` -/
def resolvePrim (g : List Stored) (k : Nat) : Out Prim :=
  match resolve g k with
  | .ok v => .ok (.direct v)
  | .err => .err
  | .panic => .panic
  | .oof => .oof

/-- the resolver before the fix: the stored primitive as it is -/
def resolveStored (g : List Stored) (k : Nat) : Out Prim :=
  match g[k]? with
  | none => .err
  | some (.val v) => .ok (.direct v)
  | some (.ref j) => .ok (.reference j)

def fromPrim (g : List Stored) : Nat → Prim → Out Nat := fromPrimWith (resolvePrim g)
def fromPrimOld (g : List Stored) : Nat → Prim → Out Nat := fromPrimWith (resolveStored g)

-- ---------------------------------------------------------------------------------------------------
-- name / number tree walks

inductive TNode where
  | leaf (n : Nat)            -- n entries: n callbacks
  | inter (kids : List Nat)
  | bad
deriving Repr, Inhabited

def maxTreeDepth : Nat := 64

/-- state threaded through a walk: callbacks made, nodes entered (the `visited` set), `get` calls -/
structure WalkSt where
  calls : Nat
  visited : List Nat
  gets : Nat
deriving Repr, DecidableEq, Inhabited

structure WalkRes where
  out : Out Unit
  st : WalkSt
deriving Repr, Inhabited

def kidsOf : TNode → List Nat
  | .inter kids => kids
  | _ => []

/-- one kid of an intermediate node: `enter_tree_node` (depth, visited), `r.get(kid)`, then the walk of
    the kid (`descend`); `depthZero` says that the budget of the node is used up -/
def walkKid (g : List TNode) (descend : TNode → WalkSt → WalkRes) (depthZero : Bool) (acc : WalkRes) (kid : Nat) : WalkRes :=
  match acc.out with
  | .ok _ =>
    if depthZero then ⟨.err, acc.st⟩ else
    if kid ∈ acc.st.visited then ⟨.err, acc.st⟩ else
    let st' : WalkSt := { acc.st with visited := kid :: acc.st.visited, gets := acc.st.gets + 1 }
    match g[kid]? with
    | none => ⟨.err, st'⟩
    | some .bad => ⟨.err, st'⟩
    | some node => descend node st'
  | _ => acc

/-- `walk_limited(r, callback, visited, depth)` on a loaded node -/
def walk (g : List TNode) : Nat → TNode → WalkSt → WalkRes
  | _, .leaf n, st => ⟨.ok (), { st with calls := st.calls + n }⟩
  | _, .bad, st => ⟨.err, st⟩
  | 0, .inter kids, st => kids.foldl (walkKid g (fun _ st => ⟨.err, st⟩) true) ⟨.ok (), st⟩
  | d + 1, .inter kids, st => kids.foldl (walkKid g (walk g d) false) ⟨.ok (), st⟩

/-- `NameTree::walk` / `NumberTree::walk` -/
def walkTree (g : List TNode) (root : TNode) : WalkRes := walk g maxTreeDepth root ⟨0, [], 0⟩

/-- the walk before the fix: no budget, no visited set; `fuel` stands for the native stack -/
def walkUnguarded (g : List TNode) : Nat → TNode → Nat → Out Nat
  | 0, _, _ => .oof
  | _ + 1, .leaf n, calls => .ok (calls + n)
  | _ + 1, .bad, _ => .err
  | fuel + 1, .inter kids, calls =>
    kids.foldl (fun (acc : Out Nat) kid =>
      match acc with
      | .ok c =>
        match (g[kid]? : Option TNode) with
        | none => .err
        | some .bad => .err
        | some node => walkUnguarded g fuel node c
      | o => o) (.ok calls)

-- ---------------------------------------------------------------------------------------------------
-- page lookup

inductive PNode where
  | tree (kids : List Nat) (count : Nat)
  | leaf
  | bad
deriving Repr, Inhabited

def u32Max : Nat := 4294967295

/-- outcome of a page lookup together with the number of `get` calls made -/
structure PageRes where
  out : Out Nat
  gets : Nat
deriving Repr, Inhabited

/-- the loop over the kids of one node; `descend kids page_nr` is `tree.page_limited(.., depth - 1)` -/
def pageLoop (g : List PNode) (checked : Bool) (descend : List Nat → Nat → PageRes) : List Nat → Nat → Nat → Nat → PageRes
  | [], _, _, gets => ⟨.err, gets⟩   -- PageOutOfBounds
  | kid :: rest, pos, pageNr, gets =>
    match g[kid]? with
    | none => ⟨.err, gets + 1⟩
    | some .bad => ⟨.err, gets + 1⟩
    | some (.tree kids count) =>
      let e := pos + count
      if e > u32Max then ⟨if checked then .err else .panic, gets + 1⟩ else
      if pos ≤ pageNr ∧ pageNr < e then
        let r := descend kids (pageNr - pos)
        ⟨r.out, gets + 1 + r.gets⟩
      else pageLoop g checked descend rest e pageNr (gets + 1)
    | some .leaf =>
      if pos = pageNr then ⟨.ok kid, gets + 1⟩ else
      if pos + 1 > u32Max then ⟨if checked then .err else .panic, gets + 1⟩ else
      pageLoop g checked descend rest (pos + 1) pageNr (gets + 1)

/-- `page_limited(resolve, page_nr, depth)` on the node with these kids -/
def pageLimited (g : List PNode) (checked : Bool) : Nat → List Nat → Nat → PageRes
  | 0, _, _ => ⟨.err, 0⟩
  | d + 1, kids, pageNr => pageLoop g checked (pageLimited g checked d) kids 0 pageNr 0

/-- `PageTree::page`: depth budget 16 -/
def page (g : List PNode) (checked : Bool) (kids : List Nat) (pageNr : Nat) : PageRes :=
  pageLimited g checked 16 kids pageNr

-- ---------------------------------------------------------------------------------------------------
-- colour spaces

inductive CObj where
  | name                      -- /DeviceRGB, any name
  | indexed (base : Nat)
  | separation (alt : Nat)
  | deviceN (alt : Nat)
  | otherArray                -- CalRGB, Pattern, unknown: no nested space (ICCBased goes through `get`)
  | bad                       -- not a name, not an array / empty array / first element not a name
deriving Repr, Inhabited

/-- `from_primitive_depth` after the fix: every nested space costs one unit -/
def csLoad (g : List CObj) : Nat → Nat → Out Unit
  | depth, k =>
    match g[k]? with
    | none => .err
    | some .bad => .err
    | some .name => .ok ()
    | some .otherArray => if depth = 0 then .err else .ok ()
    | some (.indexed b) | some (.separation b) | some (.deviceN b) =>
      match depth with
      | 0 => .err
      | d + 1 => csLoad g d b

/-- before the fix: the DeviceN alternate went through `Object::from_primitive`, i.e. budget 5 again -/
def csLoadOld (g : List CObj) : Nat → Nat → Nat → Out Unit
  | 0, _, _ => .oof
  | fuel + 1, depth, k =>
    match g[k]? with
    | none => .err
    | some .bad => .err
    | some .name => .ok ()
    | some .otherArray => if depth = 0 then .err else .ok ()
    | some (.indexed b) | some (.separation b) =>
      match depth with
      | 0 => .err
      | d + 1 => csLoadOld g fuel d b
    | some (.deviceN b) =>
      match depth with
      | 0 => .err
      | _ + 1 => csLoadOld g fuel 5 b

-- ---------------------------------------------------------------------------------------------------
-- appearance dictionaries

inductive AObj where
  | stream                    -- a form XObject
  | dict (vals : List Nat)    -- a dictionary of appearance states, the values given by reference
  | bad
deriving Repr, Inhabited

/-- `AppearanceStreamEntry::from_primitive_depth`: the values are *resolved* (no `get`, no guard), the
    only bound is the depth budget (2 in the code) -/
def apLoad (g : List AObj) : Nat → Nat → Out Unit
  | depth, k =>
    match g[k]? with
    | none => .err
    | some .bad => .err
    | some .stream => .ok ()
    | some (.dict vals) =>
      match depth with
      | 0 => .err
      | d + 1 => vals.foldl (fun acc v => match acc with | .ok _ => apLoad g d v | o => o) (.ok ())

/-- before the fix: no budget (`fuel` stands for the native stack) -/
def apLoadOld (g : List AObj) : Nat → Nat → Out Unit
  | 0, _ => .oof
  | fuel + 1, k =>
    match g[k]? with
    | none => .err
    | some .bad => .err
    | some .stream => .ok ()
    | some (.dict vals) => vals.foldl (fun acc v => match acc with | .ok _ => apLoadOld g fuel v | o => o) (.ok ())

-- ---------------------------------------------------------------------------------------------------
-- /Prev

/-- What is found at an *absolute* position of the buffer: nothing readable (`none`) or a section with
    its `/Prev`. The numbers written in the file (`startxref`, `/Prev`) are relative to the `%PDF-` header,
    which sits `start` bytes into the buffer (`Storage::start_offset`): the two coordinate systems differ
    whenever there is junk before the header. -/
abbrev Sections := List (Option (Option Nat))

def usizeMax : Nat := 18446744073709551615

/-- the `while let Some(prev_xref_offset) = prev_trailer` loop: `seen` records and compares the
    header-relative number, the section is read at `start + number` (`checked_add`); result: number of
    sections merged -/
def prevLoop (secs : Sections) (start : Nat) : Nat → Option Nat → List Nat → Nat → Out Nat
  | 0, _, _, _ => .oof
  | _ + 1, none, _, n => .ok n
  | fuel + 1, some p, seen, n =>
    if p ∈ seen then .err else
    if start + p > usizeMax then .err else
    match secs[start + p]? with
    | none => .err
    | some none => .err
    | some (some prev) => prevLoop secs start fuel prev (p :: seen) (n + 1)

/-- `read_xref_table_and_trailer(start_offset)`: the section `startxref` names, then the chain -/
def readChain (secs : Sections) (start : Nat) (fuel : Nat) (xrefOffset : Nat) : Out Nat :=
  if start + xrefOffset > usizeMax then .err else
  if start + xrefOffset ≥ secs.length then .err else
  match secs[start + xrefOffset]? with
  | none => .err
  | some none => .err
  | some (some prev) => prevLoop secs start fuel prev [] 1

/-- A loop guard that records the buffer position but compares the number from the file (the two
    coordinate systems mixed up). Not the code: kept to show what the explicit `start` is for. -/
def prevLoopMixed (secs : Sections) (start : Nat) : Nat → Option Nat → List Nat → Nat → Out Nat
  | 0, _, _, _ => .oof
  | _ + 1, none, _, n => .ok n
  | fuel + 1, some p, seen, n =>
    if p ∈ seen then .err else
    match secs[start + p]? with
    | none => .err
    | some none => .err
    | some (some prev) => prevLoopMixed secs start fuel prev ((start + p) :: seen) (n + 1)

end TypedLoad
