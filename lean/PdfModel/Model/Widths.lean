import PdfModel.Core.Out

/-!
  Model of the glyph-width table (property C19, first half).

  Rust item (pdf/src/font.rs)                              model definition
  -----------------------------------------------------   ------------------------------------------
  `struct Widths { values, default, first_char }`           `Widths α` (α = the width values, opaque)
  `Widths::new`                                             `Widths.new`
  `Widths::get`                                             `Widths.get`
  `Widths::_set` (five growth cases), `Widths::set`         `Widths.set`
  `Widths::ensure_cid`                                      — (a `Vec::reserve`, no observable effect)
  the elements of `CIDFont.widths : Vec<Primitive>`         `WP`
  the `while let Some(p) = iter.next()` interpreter of
     the /W array in `Font::widths` (CID fonts)             `interp`, `setRun`, `setRange`
  `Font::widths` for Type1 / TrueType (`TFont`)             `simpleWidths`
  `FontData` as far as `Font::widths` looks at it,
     the dispatch on the subtype in `Font::widths`           `FontM`, `widthsOf`
  `MAX_CID`                                                 `maxCid`

  The model describes the code *after* the two `fix:` commits for defect D33 (font part):
    * `c1 + array.len() - 1` underflowed for `0 []`  → now `(c1 + array.len()).saturating_sub(1)`;
    * `c1 ..= (c2 as usize)` looped ~2^64 times for a negative `c2` and 2^31 times for a huge one
      → `c2` now goes through `as_usize()?` and codes above `MAX_CID = 0xFFFF` are refused.
  and after `fix: simple-font widths outside FirstChar..LastChar are the descriptor's /MissingWidth, not 0`
  (the table of a Type1 / TrueType font had the constant default 0.0).
  Width values are opaque (`α`): `as_number` turns `Integer n` into `n as f32` and leaves `Number f`;
  the harness sends the resulting f32 bit pattern with every numeric element.
  `Widths::set` ends with `debug_assert_eq!(self.get(cid), width)`: by `get_set_same` (Props/C19) it can only
  fire for a NaN width, which no PDF token denotes.
-/

namespace Widths

structure Widths (α : Type) where
  values : List α
  default : α
  first : Nat
deriving Repr, DecidableEq

variable {α : Type}

/-- `Widths::new(default)` -/
def Widths.new (d : α) : Widths α := ⟨[], d, 0⟩

/-- `Widths::get(&self, cid)` -/
def Widths.get (w : Widths α) (cid : Nat) : α :=
  if cid < w.first then w.default
  else (w.values[cid - w.first]?).getD w.default

/-- `Widths::_set(&mut self, cid, width)`: empty / append / prepend (pad with default) / gap (pad with default) /
    overwrite.  None of the index expressions can fail: after the splice the vector is non-empty, and in
    the last case `first ≤ cid < first + len`. -/
def Widths.set (w : Widths α) (cid : Nat) (x : α) : Widths α :=
  if w.values.isEmpty then { w with first := cid, values := [x] }
  else if cid = w.first + w.values.length then { w with values := w.values ++ [x] }
  else if cid < w.first then
    { w with first := cid, values := (List.replicate (w.first - cid) w.default ++ w.values).set 0 x }
  else if cid > w.values.length + w.first then
    { w with values := w.values ++ List.replicate (cid - w.first - w.values.length) w.default ++ [x] }
  else { w with values := w.values.set (cid - w.first) x }

/-- an element of the /W array as `Font::widths` looks at it -/
inductive WP (α : Type) where
  /-- `Primitive::Integer(i)`; `x` is `i as f32` -/
  | int (i : Int) (x : α)
  /-- `Primitive::Number(x)` -/
  | real (x : α)
  /-- `Primitive::Array` -/
  | arr (xs : List (WP α))
  /-- `Primitive::Reference` that resolves to an array -/
  | refArr (xs : List (WP α))
  /-- `Primitive::Reference` that resolves to something else / does not resolve -/
  | refOther
  /-- any other primitive -/
  | other
deriving Repr

def maxCid : Nat := 65535

/-- `w.as_number()` -/
def asNumber : WP α → Option α
  | .int _ x => some x
  | .real x => some x
  | _ => none

/-- `for (i, w) in array.iter().enumerate() { widths.set(c1 + i, w.as_number()?) }` -/
def setRun (w : Widths α) (c : Nat) : List (WP α) → Out (Widths α)
  | [] => .ok w
  | p :: ps =>
    match asNumber p with
    | some x => setRun (w.set c x) (c + 1) ps
    | none => .err

/-- `for c in c1 ..= c2 { widths.set(c, w) }`, written as `n` steps from `c` -/
def setRange (w : Widths α) (c : Nat) (x : α) : Nat → Widths α
  | 0 => w
  | n + 1 => setRange (w.set c x) (c + 1) x n

/-- the interpreter loop over the /W array -/
def interp (w : Widths α) : List (WP α) → Out (Widths α)
  | [] => .ok w
  | p :: rest =>
    match p with
    | .int c1 _ =>
      if c1 < 0 then .err else                      -- `p.as_usize()?`
      let c1 := c1.toNat
      match rest with
      | .arr xs :: rest' =>
        if c1 + xs.length > maxCid + 1 then .err     -- CID out of range
        else match setRun w c1 xs with
          | .ok w' => interp w' rest'
          | .err => .err
          | .panic => .panic
          | .oof => .oof
      | .refArr xs :: rest' =>
        if c1 + xs.length > maxCid + 1 then .err
        else match setRun w c1 xs with
          | .ok w' => interp w' rest'
          | .err => .err
          | .panic => .panic
          | .oof => .oof
      | .int c2 _ :: rest' =>
        if c2 < 0 then .err else                    -- `c2.as_usize()?`
        let c2 := c2.toNat
        if c2 > maxCid then .err else                -- CID out of range
        match rest' with
        | [] => .err                                -- `try_opt!(iter.next())`
        | q :: rest'' =>
          match asNumber q with
          | none => .err
          | some x => interp (setRange w c1 x (c2 + 1 - c1)) rest''
      | _ => .err                                    -- "unexpected primitive in W array" (also: end of array)
    | _ => .err                                      -- `p.as_usize()?` on a non-integer

/-- `Font::widths` for a CID font: `Widths::new(cid.default_width)` then the interpreter -/
def cidWidths (dw : α) (wArr : List (WP α)) : Out (Widths α) := interp (Widths.new dw) wArr

/-- `Font::widths` for Type1 / TrueType: `first_char: Some(first)` (an `i32`, cast with `as usize`),
    `widths` or the empty vector, default `zero` (the descriptor's /MissingWidth, `0.0` without a descriptor) -/
def simpleWidths (zero : α) (first : Int) (widths : Option (List α)) : Widths α :=
  ⟨widths.getD [], zero, if first < 0 then (18446744073709551616 - first.natAbs) else first.toNat⟩

/-- `FontData`, the part `Font::widths` dispatches on. The seven subtypes of `FontType`: Type0 → `type0`,
    Type1 and TrueType → `simple` (`TFont`), CIDFontType0 and CIDFontType2 → `cid`, MMType1 and Type3 →
    `other` (`FontData::Other`: the library keeps the raw dictionary). -/
inductive FontM (α : Type) where
  /-- `Type0Font.descendant_fonts` (loading keeps at most the first, `43323ff`) -/
  | type0 (descendants : List (FontM α))
  /-- `TFont { first_char, widths, font_descriptor }`; `missing`: the descriptor's `missing_width` (its own
      default is 0), `none` = no descriptor -/
  | simple (firstChar : Option Int) (widths : Option (List α)) (missing : Option α)
  /-- `CIDFont { default_width, widths }` -/
  | cid (dw : α) (w : List (WP α))
  | other

/-- `Font::widths(&self, resolve) -> Result<Option<Widths>>` (`zero` = `0.0`) -/
def widthsOf (zero : α) : FontM α → Out (Option (Widths α))
  | .type0 [] => .ok none                                  -- `descendant_fonts.get(0)` is `None`
  | .type0 (d :: _) => widthsOf zero d
  | .simple (some first) ws missing => .ok (some (simpleWidths (missing.getD zero) first ws))
  | .simple none _ _ => .ok none
  | .cid dw w =>
    match cidWidths dw w with
    | .ok t => .ok (some t)
    | .err => .err
    | .panic => .panic
    | .oof => .oof
  | .other => .ok none

end Widths
