import PdfModel.Model.PageTreeBytes
import PdfModel.Model.Derive
import PdfModel.Generated.Schemas

/-!
  C07 at byte level with the *derived* readers: `PagesNode::from_primitive` = the /Type dispatch
  (`Derive.readPagesNode`) over the generated schemas of `Page` and `PageTree` (`Generated/Schemas.lean`: every field,
  `parent: PagesRc` loaded through the resolver, `Rectangle` through `baseRd`, `Resources` through its own schema).

  model definition           what it is
  -------------------------  ---------------------------------------------------------------------------------------
  `toD`                      (a) the structural translation of a byte-level primitive (`PdfLex.Prim R`) into the
                             primitive of the typed layer (`Derive.Prim`): names and keys as strings, a real as the bit
                             pattern `bitsOf` gives it (`f32::from_str`, third-party), a stream has no counterpart
  `envD`                     (b) the `Derive.Env` whose resolver is `OpenBytes.resolveB` on the opened file
  `projectNode`              the typed value of a `PagesNode` projected to what C07 observes (`PageTree.Obj`): parent,
                             kids, count, markers of media box / crop box (an `f32` bit pattern decoded back to the
                             integer it stands for) and resources (the key `M<m>` of its `properties` map)
  `derivedNode`              `readPagesNode` at tower level `lvl` on the translated primitive, projected
  `tblBD`, `openPagesBD`,
  `getPageBD`, `numPagesBD`  `PageTreeB.tblB` … with `derivedNode` (which needs the resolver) as node reader
-/

namespace PageTreeB
open PdfLex OpenBytes PageTree

variable {R : Type}

def strOf (bs : List UInt8) : String := String.ofList (bs.map fun b => Char.ofNat b.toNat)

mutual
/-- (a) byte-level primitive → primitive of the typed layer -/
def toD (bitsOf : R → Nat) : Prim R → Derive.Prim
  | .null => .null
  | .int i => .int i
  | .real r => .real (bitsOf r)
  | .bool b => .bool b
  | .str bs => .str bs
  | .stream _ _ => .null
  | .dict kvs => .dict (toDE bitsOf kvs)
  | .arr xs => .arr (toDL bitsOf xs)
  | .ref id gen => .ref id gen
  | .name bs => .name (strOf bs)
def toDL (bitsOf : R → Nat) : List (Prim R) → List Derive.Prim
  | [] => []
  | x :: xs => toD bitsOf x :: toDL bitsOf xs
def toDE (bitsOf : R → Nat) : List (List UInt8 × Prim R) → List (String × Derive.Prim)
  | [] => []
  | (k, v) :: rest => (strOf k, toD bitsOf v) :: toDE bitsOf rest
end

/-- (b) the environment of the typed readers over an opened file -/
def envD (bitsOf : R → Nat) (resolve : Nat → Out (Offsets.Obj (Prim R))) : Derive.Env where
  resolve := fun id =>
    match resolve id with
    | .ok (.plain v) => .ok (toD bitsOf v)
    | .ok (.stream _ _ _) => .error .other
    | _ => .error .nullRef
  tolerant := false
  depth := 16

/-- the non-negative integer an `f32` bit pattern stands for, if it is one -/
def natOfF32Bits (b : Nat) : Option Nat :=
  if b = 0 then some 0
  else if b ≥ 2147483648 then none
  else
    let e := b / 8388608
    let m := 8388608 + b % 8388608
    if e < 127 then none
    else if e - 127 ≤ 23 then
      (if m % 2 ^ (23 - (e - 127)) = 0 then some (m / 2 ^ (23 - (e - 127))) else none)
    else some (m * 2 ^ (e - 127 - 23))

def boxMarkerD : Derive.Val → Option Nat
  | .some (.leaf (.arr [_, _, .real b, _])) => natOfF32Bits b
  | _ => none

/-- the struct of a `Resources` value: its sixth field is the `properties` map -/
def resStructMarker : Derive.Val → Option Nat
  | .struct [_, _, _, _, _, .map ((k, _) :: _)] _ =>
    match k.toList with
    | 'M' :: ds => (String.ofList ds).toNat?
    | _ => none
  | _ => none

def resMarkerD : Derive.Val → Option Nat
  | .some (.direct v) => resStructMarker v
  | .some (.indirect _ v) => resStructMarker v
  | _ => none

def kidsD : List Derive.Val → Option (List Nat)
  | [] => some []
  | .leaf (.ref id _) :: r => (kidsD r).map (id :: ·)
  | _ :: _ => none

/-- typed `PagesNode` → what C07 observes -/
def projectNode : Derive.Val → Obj
  | .pair (.leaf (.name t)) (.struct vals _) =>
    if t = "Page" then
      match vals with
      | .indirect (.ref p _) _ :: res :: mb :: cb :: _ => .page p ⟨boxMarkerD mb, boxMarkerD cb, resMarkerD res⟩
      | _ => .other
    else if t = "Pages" then
      match vals with
      | [par, .list ks, .leaf (.int c), res, mb, cb] =>
        let parent : Option (Option Nat) := match par with
          | .none => some none
          | .some (.indirect (.ref p _) _) => some (some p)
          | _ => none
        match parent, kidsD ks with
        | some parent, some kids => if c ≥ 0 then .pages parent kids c.toNat ⟨boxMarkerD mb, boxMarkerD cb, resMarkerD res⟩ else .other
        | _, _ => .other
      | _ => .other
    else .other
  | _ => .other

/-- tower level of the derived readers: one level per nested typed load (a page loads its ancestors) -/
def lvl : Nat := 24

/-- `PagesNode::from_primitive` through the generated readers, projected -/
def derivedNode (bitsOf : R → Nat) (resolve : Nat → Out (Offsets.Obj (Prim R))) (v : Prim R) : Obj :=
  match Derive.readPagesNode ⟨true⟩ Generated.generatedSchemas (Derive.semN ⟨true⟩ Generated.generatedSchemas lvl)
      (envD bitsOf resolve) (toD bitsOf v) with
  | .ok val => projectNode val
  | .error _ => .other

def tblBD (bitsOf : R → Nat) (env : Env R) (pfuel : Nat) (dec : Dict R → List UInt8 → Out (List UInt8)) (rfuel : Nat)
    (bytes : List UInt8) (start : Nat) (t : Xref.Table) : Tbl :=
  tblB (derivedNode bitsOf (resolveB env pfuel dec rfuel bytes start t)) env pfuel dec rfuel bytes start t

def openPagesBD (bitsOf : R → Nat) (env : Env R) (pfuel : Nat) (dec : Dict R → List UInt8 → Out (List UInt8))
    (ofuel rfuel lfuel : Nat) (bytes : List UInt8) : Out (Tbl × TreeRec) :=
  match openB env pfuel dec ofuel bytes with
  | .ok (start, t, T) =>
    match rootOf env pfuel dec rfuel bytes start t T with
    | .ok p =>
      let tbl := tblBD bitsOf env pfuel dec rfuel bytes start t
      match loadRoot tbl lfuel p with
      | .ok r => .ok (tbl, r)
      | .err => .err | .panic => .panic | .oof => .oof
    | .err => .err | .panic => .panic | .oof => .oof
  | .err => .err | .panic => .panic | .oof => .oof

def getPageBD (bitsOf : R → Nat) (env : Env R) (pfuel : Nat) (dec : Dict R → List UInt8 → Out (List UInt8))
    (ofuel rfuel lfuel : Nat) (bytes : List UInt8) (i : Nat) : Out Leaf :=
  match openPagesBD bitsOf env pfuel dec ofuel rfuel lfuel bytes with
  | .ok (tbl, r) => getPage tbl lfuel r i
  | .err => .err | .panic => .panic | .oof => .oof

def numPagesBD (bitsOf : R → Nat) (env : Env R) (pfuel : Nat) (dec : Dict R → List UInt8 → Out (List UInt8))
    (ofuel rfuel lfuel : Nat) (bytes : List UInt8) : Out Nat :=
  match openPagesBD bitsOf env pfuel dec ofuel rfuel lfuel bytes with
  | .ok (_, r) => .ok (numPages r)
  | .err => .err | .panic => .panic | .oof => .oof

end PageTreeB
