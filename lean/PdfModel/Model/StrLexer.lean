import PdfModel.Core.Out
import PdfModel.Model.Lexer

/-!
  Model of `pdf/src/parser/lexer/str.rs`.

  Rust item                                   model definition
  ------------------------------------------  ------------------------------------------------------
  StringLexer { pos, nested, buf }            `(buf, base, pos, nested)`: the Rust `buf` is `lexer.get_remaining_slice()`,
                                              i.e. the bytes of the outer buffer from `base` on; `pos` here is the
                                              absolute index (`base + StringLexer.pos`); both run to the end of `buf`
  StringLexer::next_byte / peek_byte          `nextByte` / `peekByte`
  StringLexer::next_lexeme                    `nextLexeme` (the `loop` over line continuations: fuel)
  `for c in string_lexer.iter() { push(c?) }` `collectString`
  HexStringLexer::read_byte / back            `nextByte` / `hexBack`
  HexStringLexer::next_non_whitespace_char    `nextNonWs`
  HexStringLexer::next_hex_byte               `nextHexByte`
  `for b in hex_string_lexer.iter() { .. }`   `collectHex`

  `nested` is an `i64` (after the `fix:` commit; it was an `i32`, see `nestedStepOld32` in `Lemmas/TotalStr`):
  `+= 1` beyond `i64::MAX` is an overflow panic (overflow checks on) — unreachable, the counter grows by at most
  one per byte read (`Lemmas/TotalStr.nextLexeme_spec`).
  `next_lexeme` is a `loop` (after the `fix:` commit; it called itself once per line continuation): `fuel`
  counts the iterations.
  `char_code` is a `u16` (at most 0o777 = 511, never overflows), `char_code as u8` truncates.
-/

namespace PdfLex

/-- `next_byte` / `read_byte`: the byte and the new position -/
def nextByte (buf : Buf) (pos : Nat) : Out (UInt8 × Nat) :=
  match buf[pos]? with
  | some b => .ok (b, pos + 1)
  | none => .err

/-- `peek_byte` -/
def peekByte (buf : Buf) (pos : Nat) : Out UInt8 :=
  match buf[pos]? with
  | some b => .ok b
  | none => .err

def isOctal (b : UInt8) : Bool := 48 ≤ b && b ≤ 55

/-- the `for _ in 0..2` loop after the first octal digit: `(char_code, pos)` -/
def octalMore (buf : Buf) : Nat → Nat → Nat → Out (Nat × Nat)
  | 0, code, pos => .ok (code, pos)
  | n + 1, code, pos =>
    (peekByte buf pos).bind fun c =>
    if isOctal c then octalMore buf n (code * 8 + (c.toNat - 48)) (pos + 1)
    else .ok (code, pos)

/-- skips one byte if it is `b` (`if let Ok(b) = self.peek_byte() { let _ = self.next_byte(); }`) -/
def skipIf (buf : Buf) (pos : Nat) (b : UInt8) : Nat :=
  if buf[pos]? == some b then pos + 1 else pos

/-- the one-character escapes of `next_lexeme`: `\n \r \t \b \f \( \) \\` -/
def namedEsc (c : UInt8) : Option UInt8 :=
  if c == 110 then some 10 else if c == 114 then some 13 else if c == 116 then some 9
  else if c == 98 then some 8 else if c == 102 then some 12 else if c == 40 then some 40
  else if c == 41 then some 41 else if c == 92 then some 92 else none

/-- `StringLexer::next_lexeme`: `(Some(byte) | None, pos, nested)`.
    (The arms of the Rust `match` are disjoint constants, so the named escapes are grouped in `namedEsc`.) -/
def nextLexeme (buf : Buf) : Nat → Nat → Int → Out (Option UInt8 × Nat × Int)
  | 0, _, _ => .oof
  | fuel + 1, pos, nested =>
    (nextByte buf pos).bind fun (c, pos) =>
    if c == 92 then
      (nextByte buf pos).bind fun (c, pos) =>
      match namedEsc c with
      | some v => .ok (some v, pos, nested)
      | none =>
        if c == 10 then nextLexeme buf fuel pos nested
        else if c == 13 then nextLexeme buf fuel (skipIf buf pos 10) nested
        else if isOctal c then
          (octalMore buf 2 (c.toNat - 48) pos).bind fun (code, pos) =>
          .ok (some (UInt8.ofNat (code % 256)), pos, nested)
        else .ok (some c, pos, nested)
    else if c == 40 then
      if nested + 1 > 9223372036854775807 then .panic else .ok (some 40, pos, nested + 1)
    else if c == 41 then
      -- `nested -= 1` cannot underflow: `nested ≥ 0` here
      if nested - 1 < 0 then .ok (none, pos, nested - 1) else .ok (some 41, pos, nested - 1)
    else if c == 13 then .ok (some 10, skipIf buf pos 10, nested)
    else .ok (some c, pos, nested)

/-- the iterator loop in `_parse_with_lexer_ctx`: bytes of the string and the position after the closing `)` -/
def collectString (buf : Buf) : Nat → Nat → Int → List UInt8 → Out (List UInt8 × Nat)
  | 0, _, _, _ => .oof
  | fuel + 1, pos, nested, acc =>
    (nextLexeme buf (fuel + 1) pos nested).bind fun (r, pos', nested') =>
    match r with
    | none => .ok (acc.reverse, pos')
    | some b => collectString buf fuel pos' nested' (b :: acc)

/-- `HexStringLexer::back` (`base` = start of the lexer's slice) -/
def hexBack (base pos : Nat) : Out Nat :=
  if pos > base then .ok (pos - 1) else .err

def isHexWs (b : UInt8) : Bool := b == 32 || b == 9 || b == 10 || b == 13 || b == 12 || b == 0

/-- `next_non_whitespace_char`: (fuel = `buf.size - pos + 1`) -/
def nextNonWs (buf : Buf) : Nat → Nat → Out (UInt8 × Nat)
  | 0, _ => .err
  | fuel + 1, pos =>
    match buf[pos]? with
    | none => .err
    | some b => if isHexWs b then nextNonWs buf fuel (pos + 1) else .ok (b, pos + 1)

/-- the digit value in `next_hex_byte` (`0-9A-Fa-f`) -/
def hexDigitVal (c : UInt8) : Option UInt8 :=
  if 48 ≤ c && c ≤ 57 then some (c - 48)
  else if 65 ≤ c && c ≤ 70 then some (c - 65 + 10)
  else if 97 ≤ c && c ≤ 102 then some (c - 97 + 10)
  else none

/-- `HexStringLexer::next_hex_byte`: `(Some(byte) | None, pos)` -/
def nextHexByte (buf : Buf) (base pos : Nat) : Out (Option UInt8 × Nat) :=
  (nextNonWs buf (buf.size - pos + 1) pos).bind fun (c1, pos) =>
  if c1 == 62 then .ok (none, pos) else
  match hexDigitVal c1 with
  | none => .err
  | some hi =>
    (nextNonWs buf (buf.size - pos + 1) pos).bind fun (c2, pos) =>
    if c2 == 62 then
      (hexBack base pos).bind fun pos => .ok (some (hi <<< 4), pos)
    else match hexDigitVal c2 with
      | none => .err
      | some lo => .ok (some ((hi <<< 4) ||| lo), pos)

/-- the iterator loop over a hex string: bytes and the position after `>` -/
def collectHex (buf : Buf) (base : Nat) : Nat → Nat → List UInt8 → Out (List UInt8 × Nat)
  | 0, _, _ => .oof
  | fuel + 1, pos, acc =>
    (nextHexByte buf base pos).bind fun (r, pos') =>
    match r with
    | none => .ok (acc.reverse, pos')
    | some b => collectHex buf base fuel pos' (b :: acc)

end PdfLex
